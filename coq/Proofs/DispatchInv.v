(* DispatchInv.v -- the accounting invariant of the dispatcher:
   every dependency of a node is pending, being iterated, waited for, or finished; a node that
   reached `yield this_task` has nothing pending and nothing to wait for.  From it: whenever the
   dispatcher hands a task to the runner, all its dependencies have a final status. *)
From DoitV Require Import Base Dispatch DispatchP.
Open Scope N_scope.

Section Inv.
Variable tasks : name -> option task.
Variable wake_rank : name -> name -> N.
Variable calc_rank : name -> N.

Notation node_of := (node_of tasks).
Notation st_of := (st_of tasks).
Notation get_task := (get_task tasks).
Notation gen_node := (gen_node tasks).
Notation add_wait_one := (add_wait_one tasks).
Notation add_wait_run := (add_wait_run tasks).
Notation process_calc := (process_calc tasks).
Notation gen_step := (gen_step tasks calc_rank).
Notation wake_one := (wake_one tasks).
Notation wake_node := (wake_node tasks).
Notation wake := (wake tasks).
Notation update_waiting := (update_waiting tasks wake_rank).
Notation next_from_torun := (next_from_torun tasks).
Notation disp_run := (disp_run tasks calc_rank).
Notation disp_send := (disp_send tasks wake_rank calc_rank).
Notation set_pc := (set_pc tasks).

Definition final (d : dstate) (x : name) : Prop := unfinished (st_of d x) = false.

(* dependency x of the node is finished and its outcome was recorded in the node
   (ExecNode.parent_status: bad_deps / ignored_deps) *)
Definition is_failst (s : status) : bool := match s with SFailure | SFailureV => true | _ => false end.
Definition recd (d : dstate) (nd : node) (x : name) : Prop :=
  final d x /\ (is_failst (st_of d x) = true -> In x (n_bad nd)) /\ (st_of d x = SIgnore -> In x (n_ign nd)).

(* calc_dep c of the node is finished and, if its saved values are visible, they were merged into the
   node's dependency lists (TaskDispatcher._process_calc_dep_results) *)
Definition merged (nd : node) (c : name) : Prop :=
  incl (t_calc_new_task (get_task c)) (n_all_task nd) /\ incl (t_calc_new_impl (get_task c)) (n_all_task nd) /\
  incl (t_calc_new_calc (get_task c)) (n_all_calc nd).
Definition mrgd (d : dstate) (nd : node) (c : name) : Prop :=
  final d c /\ (calc_values_visible (st_of d c) = true -> merged nd c).
Definition inflight_calc (p : pc) : list name := match p with PCalc _ calcs _ => calcs | _ => [] end.

Definition late (p : pc) : bool :=
  match p with PLoop | PCalc _ _ _ | PTask _ _ => false | _ => true end.
Definition inflight (p : pc) : list name :=
  match p with PCalc _ calcs tks => calcs ++ tks | PTask _ tks => tks | _ => [] end.

(* the node's task was not handed to the runner yet *)
Definition early (p : pc) : bool :=
  match p with PLoop | PCalc _ _ _ | PTask _ _ | PSelf => true | _ => false end.

(* the generator is between `for setup_task in setup_tasks` and its last `yield this_task` *)
Definition in_setup (p : pc) : bool := match p with PSetup _ | PSetupWaited => true | _ => false end.

Record node_ok (d : dstate) (me : name) (nd : node) : Prop := {
  ok_acc : forall x, In x (n_all_task nd ++ n_all_calc nd) ->
           In x (n_pend_task nd ++ n_pend_calc nd) \/ In x (inflight (n_pc nd)) \/
           In x (n_wrun nd ++ n_wcalc nd) \/ recd d nd x;
  ok_late : late (n_pc nd) = true ->
            n_pend_task nd = [] /\ n_pend_calc nd = [] /\ n_wcalc nd = [] /\
            (n_pc nd <> PSetupWaited -> n_wrun nd = []);
  ok_setup : n_pc nd = PSetupWaited ->
             forall x, In x (t_setup (get_task me)) -> In x (n_wrun nd) \/ recd d nd x;
  ok_wsel : n_wsel nd = false;
  ok_early : early (n_pc nd) = true -> n_st nd = SNone;
  ok_sst : in_setup (n_pc nd) = true -> n_st nd = SRun;
  ok_mrg : forall c, In c (n_all_calc nd) ->
           In c (n_pend_calc nd) \/ In c (inflight_calc (n_pc nd)) \/ In c (n_wcalc nd) \/ mrgd d nd c
}.

Definition Inv (d : dstate) : Prop :=
  forall me nd, d_nodes d me = Some nd -> node_ok d me nd.

(* a node may be resumed: if it waited for its setup-tasks they are all done *)
Definition resumable (d : dstate) (me : name) : Prop :=
  n_pc (node_of d me) = PSetupWaited -> n_wrun (node_of d me) = [].

(* the status of a finished task never changes *)
Definition mono (d d' : dstate) : Prop := forall x, final d x -> st_of d' x = st_of d x.
Lemma mono_final d d' x : mono d d' -> final d x -> final d' x.
Proof. intros Hm Hx. unfold final. rewrite (Hm x Hx). exact Hx. Qed.
Lemma recd_mono d d' nd x : mono d d' -> recd d nd x -> recd d' nd x.
Proof.
  intros Hm (A & B & C). split; [eapply mono_final; eauto|]. rewrite (Hm x A). auto.
Qed.
Lemma recd_final d nd x : recd d nd x -> final d x.
Proof. intros H. apply H. Qed.
Lemma recd_fields d nd nd' x : n_bad nd' = n_bad nd -> n_ign nd' = n_ign nd -> recd d nd x -> recd d nd' x.
Proof. unfold recd. intros -> ->. auto. Qed.
Lemma mrgd_mono d d' nd c : mono d d' -> mrgd d nd c -> mrgd d' nd c.
Proof. intros Hm (A & B). split; [eapply mono_final; eauto|]. rewrite (Hm c A). exact B. Qed.
Lemma merged_incl nd nd' c : incl (n_all_task nd) (n_all_task nd') -> incl (n_all_calc nd) (n_all_calc nd') ->
  merged nd c -> merged nd' c.
Proof. intros I1 I2 (A & B & C). repeat split; eapply incl_tran; eauto. Qed.
Lemma mrgd_incl d nd nd' c : incl (n_all_task nd) (n_all_task nd') -> incl (n_all_calc nd) (n_all_calc nd') ->
  mrgd d nd c -> mrgd d nd' c.
Proof. intros I1 I2 (A & B). split; auto. intros V. eapply merged_incl; eauto. Qed.
Lemma mrgd_fields d nd nd' c : n_all_task nd' = n_all_task nd -> n_all_calc nd' = n_all_calc nd -> mrgd d nd c -> mrgd d nd' c.
Proof. intros E1 E2. apply mrgd_incl; [rewrite E1|rewrite E2]; apply incl_refl. Qed.
#[local] Hint Resolve recd_mono mrgd_mono mono_final recd_final : core.

Lemma node_ok_mono d d' me nd : mono d d' -> node_ok d me nd -> node_ok d' me nd.
Proof.
  intros Hm [H1 H2 H3 H4 H5 H6 H7]. split; auto.
  - intros x Hx. destruct (H1 x Hx) as [H|[H|[H|H]]]; eauto 6.
  - intros Hp x Hx. destruct (H3 Hp x Hx); eauto.
  - intros c Hc. destruct (H7 c Hc) as [H|[H|[H|H]]]; eauto 6.
Qed.

Lemma mono_of_st d d' : (forall x, st_of d' x = st_of d x) -> mono d d'.
Proof. intros H x _. apply H. Qed.

Lemma new_node_ok d pa k : node_ok d k (new_node tasks pa k).
Proof.
  split; simpl; try discriminate; auto.
Qed.

(* ---------- gen_node ---------- *)
Lemma gen_node_Inv d pa k : Inv d -> Inv (snd (gen_node d pa k)).
Proof.
  intros HI. unfold Dispatch.gen_node. destruct (d_nodes d k) eqn:E.
  - destruct pa as [a|]; [destruct (mem k a)|]; exact HI.
  - simpl. intros me nd Hnd.
    assert (Hm : mono d (set_node d k (new_node tasks match pa with Some a => a | None => [] end k))).
    { apply mono_of_st. intro x. apply st_set_node_same_st. simpl.
      unfold Dispatch.st_of, Dispatch.node_of. rewrite E. reflexivity. }
    destruct (N.eqb_spec me k) as [->|Hne].
    + rewrite nodes_set_same in Hnd. inversion Hnd; subst. apply new_node_ok.
    + rewrite nodes_set_other in Hnd by auto. eapply node_ok_mono; eauto.
Qed.

(* ---------- the weak form used while a node's wait sets are being filled ---------- *)
Record node_okw (d : dstate) (nd : node) : Prop := {
  okw_acc : forall x, In x (n_all_task nd ++ n_all_calc nd) ->
           In x (n_pend_task nd ++ n_pend_calc nd) \/ In x (inflight (n_pc nd)) \/
           In x (n_wrun nd ++ n_wcalc nd) \/ recd d nd x;
  okw_late : late (n_pc nd) = true -> n_pend_task nd = [] /\ n_pend_calc nd = [] /\ n_wcalc nd = [];
  okw_wsel : n_wsel nd = false;
  okw_early : early (n_pc nd) = true -> n_st nd = SNone;
  okw_sst : in_setup (n_pc nd) = true -> n_st nd = SRun;
  okw_mrg : forall c, In c (n_all_calc nd) ->
           In c (n_pend_calc nd) \/ In c (inflight_calc (n_pc nd)) \/ In c (n_wcalc nd) \/ mrgd d nd c
}.

Lemma node_ok_okw d me nd : node_ok d me nd -> node_okw d nd.
Proof. intros [H1 H2 H3 H4]. split; auto. intros Hl. destruct (H2 Hl) as (A & B & C & _). auto. Qed.

Lemma node_okw_mono d d' nd : mono d d' -> node_okw d nd -> node_okw d' nd.
Proof.
  intros Hm [H1 H2 H3 H4 H5 H6]. split; auto.
  - intros x Hx. destruct (H1 x Hx) as [H|[H|[H|H]]]; eauto 6.
  - intros c Hc. destruct (H6 c Hc) as [H|[H|[H|H]]]; eauto 6.
Qed.

Lemma node_ok_wme d me nd w : node_ok d me nd -> node_ok d me (nd_wme nd w).
Proof. intros [H1 H2 H3 H4]. split; simpl; auto. Qed.

Definition InvExcept (d : dstate) (me : name) : Prop :=
  (forall z nd, z <> me -> d_nodes d z = Some nd -> node_ok d z nd) /\ node_okw d (node_of d me).

Lemma Inv_InvExcept d me : Inv d -> InvExcept d me.
Proof.
  intros HI. split.
  - intros z nd _ Hz. apply HI; auto.
  - unfold Dispatch.node_of. destruct (d_nodes d me) eqn:E.
    + eapply node_ok_okw. apply HI; eauto.
    + eapply node_ok_okw. apply (new_node_ok d [] me).
Qed.

(* the default record of a task without a node is a fine node *)
Lemma node_of_ok d z : Inv d -> node_ok d z (node_of d z).
Proof.
  intros HI. unfold Dispatch.node_of. destruct (d_nodes d z) eqn:E; [apply HI; auto|apply new_node_ok].
Qed.

(* the dependency lists of a node only grow *)
Definition all_grows (d d' : dstate) : Prop :=
  forall z, incl (n_all_task (node_of d z)) (n_all_task (node_of d' z)) /\
            incl (n_all_calc (node_of d z)) (n_all_calc (node_of d' z)).
Lemma all_grows_refl d : all_grows d d.
Proof. intro z. split; apply incl_refl. Qed.
Lemma all_grows_trans d1 d2 d3 : all_grows d1 d2 -> all_grows d2 d3 -> all_grows d1 d3.
Proof. intros A B z. destruct (A z), (B z). split; eapply incl_tran; eauto. Qed.
Lemma all_grows_set_node d k nd :
  incl (n_all_task (node_of d k)) (n_all_task nd) -> incl (n_all_calc (node_of d k)) (n_all_calc nd) ->
  all_grows d (set_node d k nd).
Proof.
  intros A B z. destruct (N.eqb_spec z k) as [->|Hne].
  - rewrite node_of_set_same. auto.
  - rewrite node_of_set_other by auto. split; apply incl_refl.
Qed.
Lemma all_grows_queues d d' : d_nodes d' = d_nodes d -> all_grows d d'.
Proof. intros E z. unfold Dispatch.node_of. rewrite E. split; apply incl_refl. Qed.

(* ---------- _node_add_wait_run ---------- *)
Definition wait_of (calc : bool) (nd : node) : list name := if calc then n_wcalc nd else n_wrun nd.

Record awr_rel (calc : bool) (d d' : dstate) (me : name) : Prop := {
  ar_st : forall x, st_of d' x = st_of d x;
  ar_pc : n_pc (node_of d' me) = n_pc (node_of d me);
  ar_wsel : n_wsel (node_of d' me) = n_wsel (node_of d me);
  ar_wrun_inc : forall y, In y (n_wrun (node_of d me)) -> In y (n_wrun (node_of d' me));
  ar_wcalc_inc : forall y, In y (n_wcalc (node_of d me)) -> In y (n_wcalc (node_of d' me));
  ar_nocalc : calc = false ->
      n_wcalc (node_of d' me) = n_wcalc (node_of d me) /\
      n_pend_task (node_of d' me) = n_pend_task (node_of d me) /\
      n_pend_calc (node_of d' me) = n_pend_calc (node_of d me);
  ar_other : forall z, z <> me ->
      n_pc (node_of d' z) = n_pc (node_of d z) /\ n_wrun (node_of d' z) = n_wrun (node_of d z);
  ar_queues : d_ready d' = d_ready d /\ d_waiting d' = d_waiting d /\ d_cur d' = d_cur d /\ d_torun d' = d_torun d;
  ar_ex : forall z, d_nodes d z <> None -> d_nodes d' z <> None;
  ar_all : all_grows d d';
  ar_bad : incl (n_bad (node_of d me)) (n_bad (node_of d' me));
  ar_ign : incl (n_ign (node_of d me)) (n_ign (node_of d' me))
}.

Lemma nodes_set_ex d k nd z : d_nodes d z <> None -> d_nodes (set_node d k nd) z <> None.
Proof.
  intros H. destruct (N.eqb_spec z k) as [->|Hne].
  - rewrite nodes_set_same. discriminate.
  - rewrite nodes_set_other by auto. exact H.
Qed.

Lemma awr_rel_refl calc d me : awr_rel calc d d me.
Proof. split; auto; try apply incl_refl. apply all_grows_refl. Qed.

Lemma awr_rel_trans calc d1 d2 d3 me : awr_rel calc d1 d2 me -> awr_rel calc d2 d3 me -> awr_rel calc d1 d3 me.
Proof.
  intros A B. split.
  - intro x. rewrite (ar_st _ _ _ _ B), (ar_st _ _ _ _ A). reflexivity.
  - rewrite (ar_pc _ _ _ _ B). apply (ar_pc _ _ _ _ A).
  - rewrite (ar_wsel _ _ _ _ B). apply (ar_wsel _ _ _ _ A).
  - intros y Hy. apply (ar_wrun_inc _ _ _ _ B), (ar_wrun_inc _ _ _ _ A), Hy.
  - intros y Hy. apply (ar_wcalc_inc _ _ _ _ B), (ar_wcalc_inc _ _ _ _ A), Hy.
  - intros Hc. destruct (ar_nocalc _ _ _ _ A Hc) as (a1 & a2 & a3).
    destruct (ar_nocalc _ _ _ _ B Hc) as (b1 & b2 & b3). repeat split; congruence.
  - intros z Hz. destruct (ar_other _ _ _ _ A z Hz) as [a1 a2].
    destruct (ar_other _ _ _ _ B z Hz) as [b1 b2]. split; congruence.
  - destruct (ar_queues _ _ _ _ A) as (a1 & a2 & a3 & a4).
    destruct (ar_queues _ _ _ _ B) as (b1 & b2 & b3 & b4). repeat split; congruence.
  - intros z Hz. apply (ar_ex _ _ _ _ B), (ar_ex _ _ _ _ A), Hz.
  - eapply all_grows_trans; [apply (ar_all _ _ _ _ A)|apply (ar_all _ _ _ _ B)].
  - eapply incl_tran; [apply (ar_bad _ _ _ _ A)|apply (ar_bad _ _ _ _ B)].
  - eapply incl_tran; [apply (ar_ign _ _ _ _ A)|apply (ar_ign _ _ _ _ B)].
Qed.

Lemma process_calc_fields nd c s :
  let nd' := process_calc nd c s in
  n_pc nd' = n_pc nd /\ n_wsel nd' = n_wsel nd /\ n_wrun nd' = n_wrun nd /\ n_wcalc nd' = n_wcalc nd /\
  n_st nd' = n_st nd /\ n_wme nd' = n_wme nd /\ n_bad nd' = n_bad nd /\ n_ign nd' = n_ign nd /\ n_anc nd' = n_anc nd.
Proof. unfold Dispatch.process_calc. destruct (calc_values_visible s); simpl; repeat split; reflexivity. Qed.

Lemma parent_status_fields nd dep s :
  let nd' := parent_status nd dep s in
  n_pc nd' = n_pc nd /\ n_wsel nd' = n_wsel nd /\ n_wrun nd' = n_wrun nd /\ n_wcalc nd' = n_wcalc nd /\
  n_pend_task nd' = n_pend_task nd /\ n_pend_calc nd' = n_pend_calc nd /\
  n_all_task nd' = n_all_task nd /\ n_all_calc nd' = n_all_calc nd /\ n_st nd' = n_st nd.
Proof. destruct s; simpl; repeat split; reflexivity. Qed.

(* new dependencies brought by a calc result are all put in the pending lists *)
Lemma process_calc_okw d nd c s :
  late (n_pc nd) = false -> node_okw d nd -> node_okw d (process_calc nd c s).
Proof.
  intros Hl [H1 H2 H3 H4 H5 H6]. unfold Dispatch.process_calc. destruct (calc_values_visible s); [|split; auto].
  set (all1 := n_all_task nd ++ t_calc_new_task (get_task c)).
  set (impl := fold_left add_if_new (t_calc_new_impl (get_task c)) all1).
  set (newc := filter _ _).
  assert (Himpl : exists ext, impl = n_all_task nd ++ ext).
  { unfold impl, all1. generalize (t_calc_new_impl (get_task c)).
    generalize (t_calc_new_task (get_task c)). intros l0 l.
    revert l0. induction l as [|a l IH]; intros l0; simpl.
    - exists l0. reflexivity.
    - unfold add_if_new at 2. destruct (mem a (n_all_task nd ++ l0)).
      + apply IH.
      + rewrite <- app_assoc. apply IH. }
  destruct Himpl as [ext Hext].
  split; simpl; auto.
  - rewrite Hext.
    rewrite skipn_app, skipn_all, Nat.sub_diag. simpl.
    intros x Hx. rewrite !in_app_iff in Hx.
    destruct Hx as [[Hx|Hx]|[Hx|Hx]].
    + destruct (H1 x) as [H|[H|[H|H]]]; rewrite ?in_app_iff in *; auto.
      destruct H; auto.
    + left. rewrite !in_app_iff. auto.
    + destruct (H1 x) as [H|[H|[H|H]]]; rewrite ?in_app_iff in *; auto.
      destruct H; auto.
    + left. rewrite !in_app_iff. auto.
  - rewrite Hl; discriminate.
  - intros c0 Hc0. rewrite in_app_iff in Hc0. destruct Hc0 as [Hc0|Hc0]; [|left; apply in_app_iff; right; exact Hc0].
    destruct (H6 c0 Hc0) as [H|[H|[H|H]]]; auto.
    + left. apply in_app_iff. left. exact H.
    + right; right; right. eapply mrgd_incl; [| |exact H]; simpl.
      * rewrite Hext. apply incl_appl, incl_refl.
      * apply incl_appl, incl_refl.
Qed.

Lemma fold_add_if_new_ext (l : list name) : forall a l0, exists ext, fold_left add_if_new l (a ++ l0) = a ++ ext.
Proof.
  induction l as [|x l IH]; intros a l0; simpl.
  - exists l0. reflexivity.
  - unfold add_if_new at 2. destruct (mem x (a ++ l0)).
    + apply IH.
    + rewrite <- app_assoc. apply IH.
Qed.

Lemma process_calc_incl nd c s :
  incl (n_all_task nd) (n_all_task (process_calc nd c s)) /\
  incl (n_all_calc nd) (n_all_calc (process_calc nd c s)).
Proof.
  unfold Dispatch.process_calc. destruct (calc_values_visible s); simpl; [|split; apply incl_refl].
  destruct (fold_add_if_new_ext (t_calc_new_impl (get_task c)) (n_all_task nd) (t_calc_new_task (get_task c))) as [ext E].
  rewrite E. split; apply incl_appl; apply incl_refl.
Qed.

Lemma node_okw_wait d nd wr wc :
  (forall y, In y (n_wrun nd) -> In y wr) -> (forall y, In y (n_wcalc nd) -> In y wc) ->
  (late (n_pc nd) = true -> wc = []) ->
  node_okw d nd -> node_okw d (nd_wait nd wr wc).
Proof.
  intros Hr Hc Hl [H1 H2 H3 H4 H5 H6]. split; simpl; auto.
  - intros x Hx. destruct (H1 x Hx) as [H|[H|[H|H]]]; auto.
    right; right; left. rewrite in_app_iff in *. destruct H; auto.
  - intros L. destruct (H2 L) as (A & B & C). auto.
  - intros c Hc0. destruct (H6 c Hc0) as [H|[H|[H|H]]]; auto.
Qed.

Lemma node_okw_wme d nd w : node_okw d nd -> node_okw d (nd_wme nd w).
Proof. intros [H1 H2 H3]. split; simpl; auto. Qed.

Lemma recd_parent d nd dep s x : recd d nd x -> recd d (parent_status nd dep s) x.
Proof.
  intros (A & B & C). destruct s; simpl; auto; (split; [exact A|]); simpl; split; intros H;
    try apply in_or_app; auto.
Qed.
(* the finished dependency that is passed through parent_status is recorded *)
Lemma recd_parent_self d nd dep : final d dep -> recd d (parent_status nd dep (st_of d dep)) dep.
Proof.
  intros F. split; [exact F|]. destruct (st_of d dep) eqn:E; simpl; split; intros H; try discriminate;
    try (apply in_or_app; right; left; reflexivity).
Qed.
Lemma parent_status_okw d nd dep s : node_okw d nd -> node_okw d (parent_status nd dep s).
Proof.
  intros [H1 H2 H3 H4 H5 H6]. destruct (parent_status_fields nd dep s) as (P1 & P2 & P3 & P4 & P5 & P6 & P7 & P8 & P9).
  split; rewrite ?P1, ?P2, ?P3, ?P4, ?P5, ?P6, ?P7, ?P8, ?P9; auto.
  - intros x Hx. destruct (H1 x Hx) as [H|[H|[H|H]]]; auto. right; right; right. apply recd_parent. exact H.
  - intros c Hc. destruct (H6 c Hc) as [H|[H|[H|H]]]; auto. right; right; right.
    apply (mrgd_fields d nd); auto.
Qed.

Lemma fold_add_if_new_In (l : list name) : forall acc x, In x (fold_left add_if_new l acc) <-> In x acc \/ In x l.
Proof.
  induction l as [|a l IH]; intros acc x; simpl; [tauto|].
  rewrite IH. unfold add_if_new. destruct (mem a acc) eqn:E.
  - apply mem_In in E. split; intros H; intuition (subst; auto).
  - rewrite in_app_iff. simpl. split; intros H; intuition auto.
Qed.

Lemma process_calc_mrg nd c cst :
  calc_values_visible cst = true ->
  incl (t_calc_new_task (get_task c)) (n_all_task (process_calc nd c cst)) /\
  incl (t_calc_new_impl (get_task c)) (n_all_task (process_calc nd c cst)) /\
  incl (t_calc_new_calc (get_task c)) (n_all_calc (process_calc nd c cst)).
Proof.
  intros Hv. unfold Dispatch.process_calc. rewrite Hv. cbv zeta. simpl.
  set (tc := get_task c).
  repeat split.
  - intros x Hx. apply fold_add_if_new_In. left. apply in_app_iff. auto.
  - intros x Hx. apply fold_add_if_new_In. auto.
  - intros x Hx. rewrite in_app_iff. destruct (mem x (n_all_calc nd)) eqn:E; [left; apply mem_In; exact E|right].
    apply filter_In. split; [apply fold_add_if_new_In; auto|rewrite E; reflexivity].
Qed.

Lemma add_wait_one_spec d me x calc :
  InvExcept d me -> (calc = true -> late (n_pc (node_of d me)) = false) ->
  let d' := add_wait_one d me x calc in
  InvExcept d' me /\ awr_rel calc d d' me /\
  (In x (wait_of calc (node_of d' me)) \/ recd d' (node_of d' me) x) /\
  (forall y, In y (wait_of calc (node_of d' me)) -> y = x \/ In y (wait_of calc (node_of d me))) /\
  (calc = true -> In x (n_wcalc (node_of d' me)) \/ mrgd d' (node_of d' me) x).
Proof.
  intros [HO HM] Hcalc. cbv zeta. unfold Dispatch.add_wait_one.
  destruct (unfinished (st_of d x)) eqn:Eu.
  - (* x not finished: register the wait *)
    set (nx := node_of d x).
    set (d1 := set_node d x (nd_wme nx (addset me (n_wme nx)))).
    set (nd1 := node_of d1 me).
    set (ndm := if calc then nd_wait nd1 (n_wrun nd1) (addset x (n_wcalc nd1))
                else nd_wait nd1 (addset x (n_wrun nd1)) (n_wcalc nd1)).
    assert (Hst1 : forall z, st_of d1 z = st_of d z)
      by (intro z; apply st_set_node_same_st; reflexivity).
    assert (Hst2 : forall z, st_of (set_node d1 me ndm) z = st_of d z).
    { intro z. rewrite st_set_node_same_st; auto. unfold ndm. destruct calc; reflexivity. }
    (* nd1 is the old record of me up to wme *)
    assert (Hnd1 : exists w, nd1 = nd_wme (node_of d me) w).
    { unfold nd1, d1. destruct (N.eqb_spec me x) as [->|Hne].
      - rewrite node_of_set_same. eexists; reflexivity.
      - rewrite node_of_set_other by auto. exists (n_wme (node_of d me)). destruct (node_of d me); reflexivity. }
    destruct Hnd1 as [w1 Hnd1].
    assert (Hokw1 : node_okw d nd1) by (rewrite Hnd1; apply node_okw_wme; exact HM).
    split; [split|split; [split|split; [|split]]].
    + (* others *)
      intros z nd Hz Hnd. rewrite nodes_set_other in Hnd by auto.
      eapply node_ok_mono; [apply mono_of_st; exact Hst2|].
      unfold d1 in Hnd. destruct (N.eqb_spec z x) as [->|Hzx].
      * rewrite nodes_set_same in Hnd. inversion Hnd; subst. apply node_ok_wme.
        unfold nx, Dispatch.node_of. destruct (d_nodes d x) eqn:E; [apply HO; auto|apply new_node_ok].
      * rewrite nodes_set_other in Hnd by auto. apply HO; auto.
    + (* me *)
      rewrite node_of_set_same.
      eapply node_okw_mono; [apply mono_of_st; exact Hst2|].
      unfold ndm. destruct calc.
      * apply node_okw_wait; auto.
        -- intros y Hy. apply addset_In. auto.
        -- intros L. rewrite Hnd1 in L. simpl in L. rewrite Hcalc in L; auto. discriminate.
      * apply node_okw_wait; auto.
        -- intros y Hy. apply addset_In. auto.
        -- intros L. apply (okw_late _ _ Hokw1 L).
    + exact Hst2.
    + rewrite node_of_set_same. unfold ndm. destruct calc; simpl; rewrite Hnd1; reflexivity.
    + rewrite node_of_set_same. unfold ndm. destruct calc; simpl; rewrite Hnd1; reflexivity.
    + rewrite node_of_set_same. intros y Hy. unfold ndm. destruct calc; simpl; rewrite Hnd1; simpl; auto.
      apply addset_In; auto.
    + rewrite node_of_set_same. intros y Hy. unfold ndm. destruct calc; simpl; rewrite Hnd1; simpl; auto.
      apply addset_In; auto.
    + intros ->. rewrite node_of_set_same. unfold ndm. simpl. rewrite Hnd1. simpl. auto.
    + intros z Hz. rewrite node_of_set_other by auto. unfold d1.
      destruct (N.eqb_spec z x) as [->|Hzx].
      * rewrite node_of_set_same. simpl. auto.
      * rewrite node_of_set_other by auto. auto.
    + simpl. auto.
    + intros z Hz. apply nodes_set_ex. unfold d1. apply nodes_set_ex. exact Hz.
    + apply (all_grows_trans d d1); [unfold d1; apply all_grows_set_node; simpl; apply incl_refl|].
      apply all_grows_set_node; unfold ndm; destruct calc; simpl; apply incl_refl.
    + rewrite node_of_set_same. unfold ndm. destruct calc; simpl; rewrite Hnd1; simpl; apply incl_refl.
    + rewrite node_of_set_same. unfold ndm. destruct calc; simpl; rewrite Hnd1; simpl; apply incl_refl.
    + left. rewrite node_of_set_same. unfold ndm, wait_of. destruct calc; simpl; apply addset_In; auto.
    + intros y. rewrite node_of_set_same. unfold ndm, wait_of. destruct calc; simpl; rewrite Hnd1; simpl;
        intros Hy; apply addset_In in Hy; destruct Hy; auto.
    + intros ->. left. rewrite node_of_set_same. unfold ndm. simpl. apply addset_In. auto.
  - (* x already finished: take its status (and its calc results) *)
    set (nd0 := node_of d me).
    set (nd1 := parent_status nd0 x (st_of d x)).
    set (ndm := if calc then process_calc nd1 x (st_of d x) else nd1).
    assert (Hf1 := parent_status_fields nd0 x (st_of d x)). cbv zeta in Hf1. fold nd1 in Hf1.
    destruct Hf1 as (f1 & f2 & f3 & f4 & f5 & f6 & f7 & f8 & f9).
    assert (Hf2 := process_calc_fields nd1 x (st_of d x)). cbv zeta in Hf2.
    destruct Hf2 as (g1 & g2 & g3 & g4 & g5 & g6 & g7 & g8 & g9).
    assert (Hst2 : forall z, st_of (set_node d me ndm) z = st_of d z).
    { intro z. apply st_set_node_same_st. unfold ndm. destruct calc; [rewrite g5|]; exact f9. }
    assert (Hokw1 : node_okw d nd1) by (apply parent_status_okw; exact HM).
    split; [split|split; [split|split; [|split]]].
    + intros z nd Hz Hnd. rewrite nodes_set_other in Hnd by auto.
      eapply node_ok_mono; [apply mono_of_st; exact Hst2|]. apply HO; auto.
    + rewrite node_of_set_same.
      eapply node_okw_mono; [apply mono_of_st; exact Hst2|].
      unfold ndm. destruct calc; auto.
      apply process_calc_okw; auto. rewrite f1. apply Hcalc; reflexivity.
    + exact Hst2.
    + rewrite node_of_set_same. unfold ndm. destruct calc; [rewrite g1|]; exact f1.
    + rewrite node_of_set_same. unfold ndm. destruct calc; [rewrite g2|]; exact f2.
    + rewrite node_of_set_same. intros y Hy. unfold ndm. destruct calc; [rewrite g3|]; rewrite f3; exact Hy.
    + rewrite node_of_set_same. intros y Hy. unfold ndm. destruct calc; [rewrite g4|]; rewrite f4; exact Hy.
    + intros ->. rewrite node_of_set_same. unfold ndm. auto.
    + intros z Hz. rewrite node_of_set_other by auto. auto.
    + simpl. auto.
    + intros z Hz. apply nodes_set_ex. exact Hz.
    + apply all_grows_set_node; unfold ndm; fold nd0; destruct calc;
        try (rewrite f7; apply incl_refl); try (rewrite f8; apply incl_refl).
      * eapply incl_tran; [|apply (proj1 (process_calc_incl nd1 x (st_of d x)))]. rewrite f7. apply incl_refl.
      * eapply incl_tran; [|apply (proj2 (process_calc_incl nd1 x (st_of d x)))]. rewrite f8. apply incl_refl.
    + rewrite node_of_set_same. unfold ndm. destruct calc; [rewrite g7|]; fold nd0; unfold nd1;
        destruct (st_of d x); simpl; try apply incl_refl; apply incl_appl, incl_refl.
    + rewrite node_of_set_same. unfold ndm. destruct calc; [rewrite g8|]; fold nd0; unfold nd1;
        destruct (st_of d x); simpl; try apply incl_refl; apply incl_appl, incl_refl.
    + right. rewrite node_of_set_same.
      apply (recd_mono d); [apply mono_of_st; exact Hst2|].
      apply (recd_fields d nd1); [unfold ndm; destruct calc; auto|unfold ndm; destruct calc; auto|].
      apply recd_parent_self. exact Eu.
    + intros y. rewrite node_of_set_same. unfold ndm, wait_of. destruct calc.
      * rewrite g4, f4. auto.
      * rewrite f3. auto.
    + intros ->. right. rewrite node_of_set_same. unfold ndm.
      apply (mrgd_mono d); [apply mono_of_st; exact Hst2|]. split; [exact Eu|].
      intros V. destruct (process_calc_mrg nd1 x (st_of d x) V) as (M1 & M2 & M3). repeat split; auto.
Qed.

Lemma wait_of_inc calc d d' me y :
  awr_rel calc d d' me -> In y (wait_of calc (node_of d me)) -> In y (wait_of calc (node_of d' me)).
Proof. intros A. unfold wait_of. destruct calc; [apply (ar_wcalc_inc _ _ _ _ A)|apply (ar_wrun_inc _ _ _ _ A)]. Qed.

Lemma recd_awr calc d d' me x : awr_rel calc d d' me -> recd d (node_of d me) x -> recd d' (node_of d' me) x.
Proof.
  intros A (F & B & C). unfold recd, final. rewrite (ar_st _ _ _ _ A). split; [exact F|].
  split; intros H; [apply (ar_bad _ _ _ _ A)|apply (ar_ign _ _ _ _ A)]; auto.
Qed.

Lemma mrgd_awr calc d d' me c : awr_rel calc d d' me -> mrgd d (node_of d me) c -> mrgd d' (node_of d' me) c.
Proof.
  intros A (F & M). unfold mrgd, final. rewrite (ar_st _ _ _ _ A). split; [exact F|].
  intros V. destruct (ar_all _ _ _ _ A me) as [I1 I2]. eapply merged_incl; eauto.
Qed.

Lemma add_wait_run_spec l : forall d me calc,
  InvExcept d me -> (calc = true -> late (n_pc (node_of d me)) = false) ->
  let d' := add_wait_run d me l calc in
  InvExcept d' me /\ awr_rel calc d d' me /\
  (forall x, In x l -> In x (wait_of calc (node_of d' me)) \/ recd d' (node_of d' me) x) /\
  (forall y, In y (wait_of calc (node_of d' me)) -> In y l \/ In y (wait_of calc (node_of d me))) /\
  (calc = true -> forall x, In x l -> In x (n_wcalc (node_of d' me)) \/ mrgd d' (node_of d' me) x).
Proof.
  induction l as [|x r IH]; intros d me calc HI Hc; cbn [Dispatch.add_wait_run]; cbv zeta.
  - split; [exact HI|]. split; [apply awr_rel_refl|]. split; [intros ? []|]. split; [|intros _ ? []]. intros y Hy. right. exact Hy.
  - destruct (add_wait_one_spec d me x calc HI Hc) as (HI1 & R1 & P1 & Q1 & M1).
    set (d1 := add_wait_one d me x calc) in *.
    assert (Hc1 : calc = true -> late (n_pc (node_of d1 me)) = false)
      by (intro E; rewrite (ar_pc _ _ _ _ R1); auto).
    destruct (IH d1 me calc HI1 Hc1) as (HI2 & R2 & P2 & Q2 & M2). cbv zeta in *.
    set (d2 := add_wait_run d1 me r calc) in *.
    split; [exact HI2|]. split; [eapply awr_rel_trans; eauto|]. split; [|split].
    + intros y [<-|Hy]; [|apply P2; exact Hy].
      destruct P1 as [P1|P1].
      * left. eapply wait_of_inc; eauto.
      * right. eapply recd_awr; eauto.
    + intros y Hy. destruct (Q2 y Hy) as [H|H]; [left; right; exact H|].
      destruct (Q1 y H) as [->|H']; [left; left; reflexivity|right; exact H'].
    + intros Ec y [<-|Hy]; [|apply M2; auto].
      destruct (M1 Ec) as [H|H].
      * left. apply (ar_wcalc_inc _ _ _ _ R2). exact H.
      * right. eapply mrgd_awr; eauto.
Qed.

(* ---------- re-establishing the invariant after the current node was updated ---------- *)
Lemma Inv_of_except d me nd' :
  InvExcept d me -> node_ok d me nd' -> n_st nd' = st_of d me -> Inv (set_node d me nd').
Proof.
  intros [HO _] Hok Hst z nd Hz.
  assert (Hm : mono d (set_node d me nd')) by (apply mono_of_st; intro; apply st_set_node_same_st; exact Hst).
  destruct (N.eqb_spec z me) as [->|Hne].
  - rewrite nodes_set_same in Hz. inversion Hz; subst. eapply node_ok_mono; eauto.
  - rewrite nodes_set_other in Hz by auto. eapply node_ok_mono; eauto.
Qed.

Lemma Inv_set_node d me nd' :
  Inv d -> node_ok d me nd' -> n_st nd' = st_of d me -> Inv (set_node d me nd').
Proof. intros HI. apply Inv_of_except. apply Inv_InvExcept; exact HI. Qed.

(* queue updates do not matter *)
Lemma Inv_queues d d' :
  d_nodes d' = d_nodes d -> Inv d -> Inv d'.
Proof.
  intros E HI z nd Hz. rewrite E in Hz.
  assert (Hm : mono d d').
  { apply mono_of_st. intro x. unfold Dispatch.st_of, Dispatch.node_of. rewrite E. reflexivity. }
  eapply node_ok_mono; eauto.
Qed.

Record step_rel (d d' : dstate) (me : name) : Prop := {
  sr_st : forall x, st_of d' x = st_of d x;
  sr_other : forall z, z <> me ->
      n_pc (node_of d' z) = n_pc (node_of d z) /\ n_wrun (node_of d' z) = n_wrun (node_of d z);
  sr_queues : d_ready d' = d_ready d /\ d_waiting d' = d_waiting d /\ d_cur d' = d_cur d /\ d_torun d' = d_torun d;
  sr_ex : forall z, d_nodes d z <> None -> d_nodes d' z <> None;
  sr_all : all_grows d d'
}.

Lemma step_rel_refl d me : step_rel d d me.
Proof. split; auto. apply all_grows_refl. Qed.

Lemma step_rel_trans d1 d2 d3 me : step_rel d1 d2 me -> step_rel d2 d3 me -> step_rel d1 d3 me.
Proof.
  intros A B. split.
  - intro x. rewrite (sr_st _ _ _ B), (sr_st _ _ _ A). reflexivity.
  - intros z Hz. destruct (sr_other _ _ _ A z Hz) as [a1 a2].
    destruct (sr_other _ _ _ B z Hz) as [b1 b2]. split; congruence.
  - destruct (sr_queues _ _ _ A) as (a1 & a2 & a3 & a4).
    destruct (sr_queues _ _ _ B) as (b1 & b2 & b3 & b4). repeat split; congruence.
  - intros z Hz. apply (sr_ex _ _ _ B), (sr_ex _ _ _ A), Hz.
  - eapply all_grows_trans; [apply (sr_all _ _ _ A)|apply (sr_all _ _ _ B)].
Qed.

Lemma step_rel_of_awr calc d d' me : awr_rel calc d d' me -> step_rel d d' me.
Proof. intros A. split; [apply (ar_st _ _ _ _ A)|apply (ar_other _ _ _ _ A)|apply (ar_queues _ _ _ _ A)|apply (ar_ex _ _ _ _ A)|apply (ar_all _ _ _ _ A)]. Qed.

Lemma step_rel_set_node d me nd' :
  n_st nd' = st_of d me ->
  incl (n_all_task (node_of d me)) (n_all_task nd') -> incl (n_all_calc (node_of d me)) (n_all_calc nd') ->
  step_rel d (set_node d me nd') me.
Proof.
  intros Hst Ha Hb. split; [| | | |apply all_grows_set_node; auto].
  - intro x. apply st_set_node_same_st. exact Hst.
  - intros z Hz. rewrite node_of_set_other by auto. auto.
  - simpl. auto.
  - intros z Hz. apply nodes_set_ex. exact Hz.
Qed.

Lemma step_rel_gen_node d pa k me :
  d_nodes d me <> None -> step_rel d (snd (gen_node d pa k)) me.
Proof.
  intros Hme. unfold Dispatch.gen_node. destruct (d_nodes d k) eqn:E.
  - destruct pa as [a|]; [destruct (mem k a)|]; apply step_rel_refl.
  - simpl. split.
    + intro x. apply st_set_node_same_st. simpl. unfold Dispatch.st_of, Dispatch.node_of. rewrite E. reflexivity.
    + intros z Hz. destruct (N.eqb_spec z k) as [->|Hzk].
      * rewrite node_of_set_same. unfold Dispatch.node_of. rewrite E. simpl. auto.
      * rewrite node_of_set_other by auto. auto.
    + simpl. auto.
    + intros z Hz. apply nodes_set_ex. exact Hz.
    + apply all_grows_set_node; unfold Dispatch.node_of; rewrite E; simpl; apply incl_refl.
Qed.

(* a task that was handed to the runner has been given a status before its generator is resumed *)
Definition Pre (d : dstate) : Prop :=
  forall me, n_pc (node_of d me) = PAfterSelf -> st_of d me <> SNone.

Definition deps_final (d : dstate) (me : name) : Prop :=
  forall x, In x (n_all_task (node_of d me) ++ n_all_calc (node_of d me)) -> final d x.
Definition setup_final (d : dstate) (me : name) : Prop :=
  forall x, In x (t_setup (get_task me)) -> final d x.
(* ... and their outcomes were recorded in the node's bad_deps / ignored_deps *)
Definition deps_recd (d : dstate) (me : name) : Prop :=
  forall x, In x (n_all_task (node_of d me) ++ n_all_calc (node_of d me)) -> recd d (node_of d me) x.
Definition setup_recd (d : dstate) (me : name) : Prop :=
  forall x, In x (t_setup (get_task me)) -> recd d (node_of d me) x.
(* ... and the visible results of every calc_dep were merged into the node's lists *)
Definition calcs_mrgd (d : dstate) (me : name) : Prop :=
  forall c, In c (n_all_calc (node_of d me)) -> mrgd d (node_of d me) c.

Lemma node_okw_pc d me nd p :
  node_okw d nd ->
  (forall x, In x (inflight (n_pc nd)) -> In x (inflight p) \/ In x (n_wrun nd ++ n_wcalc nd) \/ recd d nd x) ->
  (late p = true -> n_pend_task nd = [] /\ n_pend_calc nd = [] /\ n_wcalc nd = [] /\
                    (p <> PSetupWaited -> n_wrun nd = [])) ->
  (p = PSetupWaited -> forall x, In x (t_setup (get_task me)) -> In x (n_wrun nd) \/ recd d nd x) ->
  (early p = true -> early (n_pc nd) = true) ->
  (in_setup p = true -> n_st nd = SRun) ->
  (forall c, In c (inflight_calc (n_pc nd)) -> In c (inflight_calc p) \/ In c (n_wcalc nd) \/ mrgd d nd c) ->
  node_ok d me (nd_pc nd p).
Proof.
  intros [H1 H2 H3 H4 H5 H6] Hin Hl Hs He Hss Hic. split; simpl; auto.
  - intros x Hx. destruct (H1 x Hx) as [H|[H|[H|H]]]; auto.
    destruct (Hin x H) as [H'|[H'|H']]; auto.
  - intros c Hc. destruct (H6 c Hc) as [H|[H|[H|H]]]; auto.
    destruct (Hic c H) as [H'|[H'|H']]; auto.
Qed.

Lemma Pre_step d d' me :
  Pre d -> step_rel d d' me ->
  (n_pc (node_of d' me) = PAfterSelf -> st_of d me <> SNone) -> Pre d'.
Proof.
  intros HP R Hme z Hz. rewrite (sr_st _ _ _ R).
  destruct (N.eqb_spec z me) as [->|Hne]; auto.
  apply HP. destruct (sr_other _ _ _ R z Hne) as [E _]. congruence.
Qed.

Lemma resumable_other d d' me z :
  step_rel d d' me -> z <> me -> resumable d z -> resumable d' z.
Proof.
  intros R Hz Hr. unfold resumable in *. destruct (sr_other _ _ _ R z Hz) as [E1 E2].
  rewrite E1, E2. exact Hr.
Qed.

Lemma is_nil_false {A} (l : list A) : is_nil l = false <-> l <> [].
Proof. destruct l; simpl; split; congruence. Qed.

Lemma orb_negb_nil_false {A B} (a : list A) (b : list B) :
  negb (is_nil a) || negb (is_nil b) = false -> a = [] /\ b = [].
Proof. destruct a, b; simpl; intros; try discriminate; auto. Qed.

(* ---------- one resumption of a node's generator ---------- *)
Definition step_post (d d' : dstate) (me : name) (y : gyield) : Prop :=
  (forall k, y = YNode k -> resumable d' k /\ d_nodes d' k <> None /\ forall z, d_nodes d z <> None -> z <> k) /\
  Inv d' /\ step_rel d d' me /\
  (y <> YWait -> resumable d' me) /\
  (y <> YSelf -> Pre d') /\
  (y = YSelf -> deps_final d' me /\ (n_pc (node_of d' me) = PDone -> setup_final d' me) /\
                (n_pc (node_of d' me) = PAfterSelf \/ n_pc (node_of d' me) = PDone) /\
                (n_pc (node_of d' me) = PAfterSelf -> st_of d' me = SNone) /\
                deps_recd d' me /\ (n_pc (node_of d' me) = PDone -> setup_recd d' me) /\
                (n_pc (node_of d' me) = PDone -> st_of d' me = SRun) /\ calcs_mrgd d' me).

Lemma step_post_trans d d1 d' me y :
  step_rel d d1 me -> step_post d1 d' me y -> step_post d d' me y.
Proof.
  intros R (N & A & B & C & D & E). split; [|split; auto; split; auto; eapply step_rel_trans; eauto].
  intros k Ek. destruct (N k Ek) as (N1 & N3 & N2). split; auto. split; auto. intros z Hz. apply N2. apply (sr_ex _ _ _ R). exact Hz.
Qed.

Lemma exists_of_pc d me : n_pc (node_of d me) <> PLoop -> d_nodes d me <> None.
Proof. unfold Dispatch.node_of. destruct (d_nodes d me); [discriminate|simpl; congruence]. Qed.

Lemma node_of_some d me : d_nodes d me <> None -> d_nodes d me = Some (node_of d me).
Proof. unfold Dispatch.node_of. destruct (d_nodes d me); congruence. Qed.

(* the `for dep in list: yield self._gen_node(node, dep)` loops: common part *)
Lemma gen_node_case d me c :
  Inv d -> d_nodes d me <> None ->
  let r := gen_node d (Some (n_anc (node_of d me))) c in
  Inv (snd r) /\ step_rel d (snd r) me /\ node_of (snd r) me = node_of d me /\ d_nodes (snd r) me <> None /\
  (fst r = GNew -> c <> me /\ n_pc (node_of (snd r) c) = PLoop /\ d_nodes d c = None /\ d_nodes (snd r) c <> None).
Proof.
  intros HI Hme. cbv zeta. split; [apply gen_node_Inv; exact HI|].
  split; [apply step_rel_gen_node; exact Hme|].
  unfold Dispatch.gen_node. destruct (d_nodes d c) eqn:E.
  - destruct (mem c _); simpl; repeat split; auto; discriminate.
  - simpl. assert (c <> me) by (intros ->; congruence).
    split; [apply node_of_set_other; auto|]. split.
    + change (d_nodes (set_node d c (new_node tasks (n_anc (node_of d me)) c)) me <> None).
      rewrite nodes_set_other by auto. exact Hme.
    + intros _. split; auto. split; [rewrite node_of_set_same; reflexivity|]. split; auto.
      change (d_nodes (set_node d c (new_node tasks (n_anc (node_of d me)) c)) c <> None).
      rewrite nodes_set_same. discriminate.
Qed.

Lemma set_pc_Inv_same d me p :
  Inv d ->
  inflight p = inflight (n_pc (node_of d me)) -> late p = late (n_pc (node_of d me)) ->
  early p = early (n_pc (node_of d me)) -> in_setup p = in_setup (n_pc (node_of d me)) ->
  inflight_calc p = inflight_calc (n_pc (node_of d me)) ->
  p <> PSetupWaited -> n_pc (node_of d me) <> PSetupWaited ->
  Inv (set_pc d me p).
Proof.
  intros HI Ei El Ee Es Eic Hp Hq. unfold Dispatch.set_pc. apply Inv_set_node; auto.
  destruct (node_of_ok d me HI) as [H1 H2 H3 H4 H5 H6 H7].
  split; simpl; auto.
  - rewrite Ei. exact H1.
  - rewrite El. intros L. destruct (H2 L) as (A & B & C & D). auto.
  - intros E. contradiction.
  - rewrite Ee. exact H5.
  - rewrite Es. exact H6.
  - rewrite Eic. exact H7.
Qed.

Lemma set_pc_rel d me p : step_rel d (set_pc d me p) me.
Proof. unfold Dispatch.set_pc. apply step_rel_set_node; [reflexivity|apply incl_refl|apply incl_refl]. Qed.

Lemma set_pc_node d me p : node_of (set_pc d me p) me = nd_pc (node_of d me) p.
Proof. unfold Dispatch.set_pc. apply node_of_set_same. Qed.

Lemma gen_step_spec fuel : forall d me y d',
  Inv d -> Pre d -> resumable d me ->
  gen_step fuel d me = (y, d') -> step_post d d' me y.
Proof.
  induction fuel as [|fuel IH]; intros d me y d' HI HP HR Hg; cbn [Dispatch.gen_step] in Hg.
  { inversion Hg; subst. split; [first [intros k Ek; discriminate | intros k Ek; inversion Ek; subst; destruct (K1 eq_refl) as (Kne & Kpc & Kfresh & Kex); split; [unfold resumable; unfold Dispatch.set_pc; rewrite node_of_set_other by auto; rewrite Kpc; discriminate | split; [unfold Dispatch.set_pc; apply nodes_set_ex; exact Kex | intros z Hz Ez; subst; congruence]]]|]. split; auto. split; [apply step_rel_refl|]. split; auto. split; auto. discriminate. }
  assert (REC : forall d1, Inv d1 -> step_rel d d1 me -> Pre d1 -> resumable d1 me ->
                gen_step fuel d1 me = (y, d') -> step_post d d' me y).
  { intros d1 I1 R1 P1 Q1 G1. eapply step_post_trans; eauto. }
  pose proof (node_of_ok d me HI) as Hok. destruct Hok as [Hacc Hlate Hsetup Hwsel Hearly Hsst Hmrg].
  destruct (n_pc (node_of d me)) as [|rest calcs tks|rest tks| | | |rest| |] eqn:Epc.
  - (* PLoop *)
    set (nd := node_of d me) in *.
    set (calcs := sort_by calc_rank (n_pend_calc nd)) in *.
    set (nd' := nd_pc (nd_deps nd [] [] (n_all_task nd) (n_all_calc nd)) (PCalc calcs calcs (n_pend_task nd))) in *.
    assert (Hok' : node_ok d me nd').
    { split; simpl; auto; try discriminate.
      - intros x Hx. destruct (Hacc x Hx) as [H|[H|[H|H]]];
          [|destruct H|auto|auto].
        right; left. rewrite in_app_iff in *. destruct H as [H|H]; auto.
        left. unfold calcs. apply sort_by_In. exact H.
      - intros c Hc. destruct (Hmrg c Hc) as [H|[H|[H|H]]]; [|destruct H|auto|auto].
        right; left. unfold calcs. apply sort_by_In. exact H. }
    apply (REC (set_node d me nd')); auto.
    + apply Inv_set_node; auto.
    + apply step_rel_set_node; [reflexivity|apply incl_refl|apply incl_refl].
    + eapply Pre_step; [exact HP|apply step_rel_set_node; [reflexivity|apply incl_refl|apply incl_refl]|].
      rewrite node_of_set_same. simpl. discriminate.
    + unfold resumable. rewrite node_of_set_same. simpl. discriminate.
  - (* PCalc *)
    destruct rest as [|c r].
    + (* all calc_dep nodes requested: register the waits *)
      destruct (add_wait_run_spec calcs d me true (Inv_InvExcept d me HI)) as (HE & RA & PA & QA & MA).
      { intros _. rewrite Epc. reflexivity. }
      cbv zeta in *. set (d1 := add_wait_run d me calcs true) in *.
      assert (Hpc1 : n_pc (node_of d1 me) = PCalc [] calcs tks) by (rewrite (ar_pc _ _ _ _ RA); exact Epc).
      assert (Hok' : node_ok d1 me (nd_pc (node_of d1 me) (PTask tks tks))).
      { apply node_okw_pc; [apply HE| | simpl; discriminate | discriminate | first [simpl; discriminate | intros _; rewrite Hpc1; reflexivity] | first [simpl; discriminate | intros _; apply (okw_sst _ _ (proj2 HE)); rewrite Hpc1; reflexivity] | first [rewrite Hpc1; simpl; intros c0 Hc0; destruct (MA eq_refl c0 Hc0); auto | rewrite Hpc1; simpl; intros c0 []]].
        rewrite Hpc1. simpl. intros x Hx. rewrite in_app_iff in Hx. destruct Hx as [Hx|Hx]; auto.
        destruct (PA x Hx) as [H|H]; auto. right; left. rewrite in_app_iff. right. exact H. }
      apply (REC (set_pc d1 me (PTask tks tks))); auto.
      * apply Inv_of_except; auto.
      * eapply step_rel_trans; [eapply step_rel_of_awr; eauto|apply set_pc_rel].
      * eapply Pre_step; [exact HP|eapply step_rel_trans; [eapply step_rel_of_awr; eauto|apply set_pc_rel]|].
        rewrite set_pc_node. simpl. discriminate.
      * unfold resumable. rewrite set_pc_node. simpl. discriminate.
    + pose proof (exists_of_pc d me) as Hex. rewrite Epc in Hex. specialize (Hex ltac:(discriminate)).
      destruct (gen_node_case d me c HI Hex) as (I1 & R1 & N1 & X1 & K1). cbv zeta in *.
      destruct (gen_node d (Some (n_anc (node_of d me))) c) as [g d1] eqn:Eg. simpl in I1, R1, N1, X1, K1.
      assert (Epc1 : n_pc (node_of d1 me) = PCalc (c :: r) calcs tks) by (rewrite N1; exact Epc).
      assert (I2 : Inv (set_pc d1 me (PCalc r calcs tks))).
      { apply set_pc_Inv_same; auto; rewrite ?Epc1; simpl; auto; discriminate. }
      assert (R2 : step_rel d (set_pc d1 me (PCalc r calcs tks)) me)
        by (eapply step_rel_trans; [exact R1|apply set_pc_rel]).
      assert (P2 : Pre (set_pc d1 me (PCalc r calcs tks))).
      { eapply Pre_step; [exact HP|exact R2|]. rewrite set_pc_node. simpl. discriminate. }
      assert (Q2 : resumable (set_pc d1 me (PCalc r calcs tks)) me).
      { unfold resumable. rewrite set_pc_node. simpl. discriminate. }
      destruct g.
      * inversion Hg; subst. split; [first [intros k Ek; discriminate | intros k Ek; inversion Ek; subst; destruct (K1 eq_refl) as (Kne & Kpc & Kfresh & Kex); split; [unfold resumable; unfold Dispatch.set_pc; rewrite node_of_set_other by auto; rewrite Kpc; discriminate | split; [unfold Dispatch.set_pc; apply nodes_set_ex; exact Kex | intros z Hz Ez; subst; congruence]]]|]. split; auto. split; auto. split; auto. split; auto. discriminate.
      * apply (REC _ I2 R2 P2 Q2 Hg).
      * inversion Hg; subst. split; [first [intros k Ek; discriminate | intros k Ek; inversion Ek; subst; destruct (K1 eq_refl) as (Kne & Kpc & Kfresh & Kex); split; [unfold resumable; unfold Dispatch.set_pc; rewrite node_of_set_other by auto; rewrite Kpc; discriminate | split; [unfold Dispatch.set_pc; apply nodes_set_ex; exact Kex | intros z Hz Ez; subst; congruence]]]|]. split; auto. split; [apply step_rel_refl|]. split; auto. split; auto. discriminate.
  - (* PTask *)
    destruct rest as [|c r].
    + destruct (add_wait_run_spec tks d me false (Inv_InvExcept d me HI)) as (HE & RA & PA & QA & MA).
      { discriminate. }
      cbv zeta in *. set (d1 := add_wait_run d me tks false) in *.
      assert (Hpc1 : n_pc (node_of d1 me) = PTask [] tks) by (rewrite (ar_pc _ _ _ _ RA); exact Epc).
      assert (RS : step_rel d d1 me) by (eapply step_rel_of_awr; eauto).
      (* back to the top of the loop (more deps arrived, or something to wait for) *)
      assert (HokL : node_ok d1 me (nd_pc (node_of d1 me) PLoop)).
      { apply node_okw_pc; [apply HE| | simpl; discriminate | discriminate | first [simpl; discriminate | intros _; rewrite Hpc1; reflexivity] | first [simpl; discriminate | intros _; apply (okw_sst _ _ (proj2 HE)); rewrite Hpc1; reflexivity] | first [rewrite Hpc1; simpl; intros c0 Hc0; destruct (MA eq_refl c0 Hc0); auto | rewrite Hpc1; simpl; intros c0 []]].
        rewrite Hpc1. simpl. intros x Hx.
        destruct (PA x Hx) as [H|H]; auto. right; left. rewrite in_app_iff. left. exact H. }
      assert (IL : Inv (set_pc d1 me PLoop)) by (apply Inv_of_except; auto).
      assert (RL : step_rel d (set_pc d1 me PLoop) me) by (eapply step_rel_trans; [exact RS|apply set_pc_rel]).
      assert (PL : Pre (set_pc d1 me PLoop)).
      { eapply Pre_step; [exact HP|exact RL|]. rewrite set_pc_node. simpl. discriminate. }
      assert (QL : resumable (set_pc d1 me PLoop) me).
      { unfold resumable. rewrite set_pc_node. simpl. discriminate. }
      destruct (negb (is_nil (n_pend_calc (node_of d1 me))) || negb (is_nil (n_pend_task (node_of d1 me)))) eqn:Ep.
      * apply (REC _ IL RL PL QL Hg).
      * destruct (negb (is_nil (n_wrun (node_of d1 me))) || negb (is_nil (n_wcalc (node_of d1 me)))) eqn:Ew.
        -- inversion Hg; subst. split; [first [intros k Ek; discriminate | intros k Ek; inversion Ek; subst; destruct (K1 eq_refl) as (Kne & Kpc & Kfresh & Kex); split; [unfold resumable; unfold Dispatch.set_pc; rewrite node_of_set_other by auto; rewrite Kpc; discriminate | split; [unfold Dispatch.set_pc; apply nodes_set_ex; exact Kex | intros z Hz Ez; subst; congruence]]]|]. split; auto. split; auto. split; [intros; congruence|]. split; auto. discriminate.
        -- apply orb_negb_nil_false in Ep. apply orb_negb_nil_false in Ew.
           destruct Ep as [Ep1 Ep2]. destruct Ew as [Ew1 Ew2].
           assert (HokS : node_ok d1 me (nd_pc (node_of d1 me) PSelf)).
           { apply node_okw_pc; [apply HE| | | discriminate | first [simpl; discriminate | intros _; rewrite Hpc1; reflexivity] | first [simpl; discriminate | intros _; apply (okw_sst _ _ (proj2 HE)); rewrite Hpc1; reflexivity] | first [rewrite Hpc1; simpl; intros c0 Hc0; destruct (MA eq_refl c0 Hc0); auto | rewrite Hpc1; simpl; intros c0 []]].
             - rewrite Hpc1. simpl. intros x Hx. destruct (PA x Hx) as [H|H]; auto.
               simpl in H. rewrite Ew1 in H. destruct H.
             - intros _. auto. }
           apply (REC (set_pc d1 me PSelf)); auto.
           ++ apply Inv_of_except; auto.
           ++ eapply step_rel_trans; [exact RS|apply set_pc_rel].
           ++ eapply Pre_step; [exact HP|eapply step_rel_trans; [exact RS|apply set_pc_rel]|].
              rewrite set_pc_node. simpl. discriminate.
           ++ unfold resumable. rewrite set_pc_node. simpl. discriminate.
    + pose proof (exists_of_pc d me) as Hex. rewrite Epc in Hex. specialize (Hex ltac:(discriminate)).
      destruct (gen_node_case d me c HI Hex) as (I1 & R1 & N1 & X1 & K1). cbv zeta in *.
      destruct (gen_node d (Some (n_anc (node_of d me))) c) as [g d1] eqn:Eg. simpl in I1, R1, N1, X1, K1.
      assert (Epc1 : n_pc (node_of d1 me) = PTask (c :: r) tks) by (rewrite N1; exact Epc).
      assert (I2 : Inv (set_pc d1 me (PTask r tks))).
      { apply set_pc_Inv_same; auto; rewrite ?Epc1; simpl; auto; discriminate. }
      assert (R2 : step_rel d (set_pc d1 me (PTask r tks)) me)
        by (eapply step_rel_trans; [exact R1|apply set_pc_rel]).
      assert (P2 : Pre (set_pc d1 me (PTask r tks))).
      { eapply Pre_step; [exact HP|exact R2|]. rewrite set_pc_node. simpl. discriminate. }
      assert (Q2 : resumable (set_pc d1 me (PTask r tks)) me).
      { unfold resumable. rewrite set_pc_node. simpl. discriminate. }
      destruct g.
      * inversion Hg; subst. split; [first [intros k Ek; discriminate | intros k Ek; inversion Ek; subst; destruct (K1 eq_refl) as (Kne & Kpc & Kfresh & Kex); split; [unfold resumable; unfold Dispatch.set_pc; rewrite node_of_set_other by auto; rewrite Kpc; discriminate | split; [unfold Dispatch.set_pc; apply nodes_set_ex; exact Kex | intros z Hz Ez; subst; congruence]]]|]. split; auto. split; auto. split; auto. split; auto. discriminate.
      * apply (REC _ I2 R2 P2 Q2 Hg).
      * inversion Hg; subst. split; [first [intros k Ek; discriminate | intros k Ek; inversion Ek; subst; destruct (K1 eq_refl) as (Kne & Kpc & Kfresh & Kex); split; [unfold resumable; unfold Dispatch.set_pc; rewrite node_of_set_other by auto; rewrite Kpc; discriminate | split; [unfold Dispatch.set_pc; apply nodes_set_ex; exact Kex | intros z Hz Ez; subst; congruence]]]|]. split; auto. split; [apply step_rel_refl|]. split; auto. split; auto. discriminate.
  - (* PSelf: yield this_task *)
    inversion Hg; subst. split; [first [intros k Ek; discriminate | intros k Ek; inversion Ek; subst; destruct (K1 eq_refl) as (Kne & Kpc & Kfresh & Kex); split; [unfold resumable; unfold Dispatch.set_pc; rewrite node_of_set_other by auto; rewrite Kpc; discriminate | split; [unfold Dispatch.set_pc; apply nodes_set_ex; exact Kex | intros z Hz Ez; subst; congruence]]]|]. clear Hg.
    destruct (Hlate eq_refl) as (L1 & L2 & L3 & L4). specialize (L4 ltac:(discriminate)).
    assert (Hrec : forall x, In x (n_all_task (node_of d me) ++ n_all_calc (node_of d me)) -> recd d (node_of d me) x).
    { intros x Hx. destruct (Hacc x Hx) as [H|[H|[H|H]]]; auto.
      - rewrite L1, L2 in H. destruct H.
      - destruct H.
      - rewrite L3, L4 in H. destruct H. }
    assert (Hok' : node_ok d me (nd_pc (node_of d me) PAfterSelf)).
    { split; simpl; auto; try discriminate; try (intros _; repeat split; auto). }
    split; [apply Inv_set_node; auto|]. split; [apply set_pc_rel|].
    split; [intros _; unfold resumable; rewrite set_pc_node; simpl; discriminate|].
    split; [congruence|]. intros _. unfold deps_final, setup_final, deps_recd, setup_recd. rewrite !set_pc_node. simpl.
    assert (Hm : mono d (set_pc d me PAfterSelf)) by (apply mono_of_st; apply (sr_st _ _ _ (set_pc_rel d me PAfterSelf))).
    split; [|split; [discriminate|split; [auto|split; [|split; [|split; [discriminate|split; [discriminate|]]]]]]].
    + intros x Hx. eapply mono_final; [exact Hm|]. apply (recd_final d (node_of d me)). apply Hrec. exact Hx.
    + intros _. rewrite (sr_st _ _ _ (set_pc_rel d me PAfterSelf)). apply Hearly. reflexivity.
    + intros x Hx. apply (recd_mono d); [exact Hm|]. apply (recd_fields d (node_of d me)); [reflexivity|reflexivity|]. apply Hrec. exact Hx.
    + unfold calcs_mrgd. rewrite set_pc_node. simpl. intros c Hc. apply (mrgd_mono d); [exact Hm|].
      apply (mrgd_fields d (node_of d me)); [reflexivity|reflexivity|].
      destruct (Hmrg c Hc) as [H|[H|[H|H]]]; auto.
      * rewrite L2 in H. destruct H.
      * destruct H.
      * rewrite L3 in H. destruct H.
  - (* PAfterSelf *)
    destruct (Hlate eq_refl) as (L1 & L2 & L3 & L4). specialize (L4 ltac:(discriminate)).
    assert (Hokp : forall p, late p = true -> early p = false -> p <> PSetupWaited ->
                   (in_setup p = true -> n_st (node_of d me) = SRun) -> node_ok d me (nd_pc (node_of d me) p)).
    { intros p Lp Ep Np Hss. split; simpl; auto; try (intros E; contradiction); try (intros E; congruence); try (intros _; repeat split; auto).
      all: try (intros x Hx; destruct (Hacc x Hx) as [H|[H|[H|H]]]; auto; destruct H).
      all: try (intros c Hc; destruct (Hmrg c Hc) as [H|[H|[H|H]]]; auto; destruct H). }
    destruct (is_nil (t_setup (get_task me))) eqn:Es.
    + inversion Hg; subst. split; [first [intros k Ek; discriminate | intros k Ek; inversion Ek; subst; destruct (K1 eq_refl) as (Kne & Kpc & Kfresh & Kex); split; [unfold resumable; unfold Dispatch.set_pc; rewrite node_of_set_other by auto; rewrite Kpc; discriminate | split; [unfold Dispatch.set_pc; apply nodes_set_ex; exact Kex | intros z Hz Ez; subst; congruence]]]|]. split; [apply Inv_set_node; auto; apply Hokp; [reflexivity|reflexivity|discriminate|first [discriminate | intros _; exact Est | intros _; reflexivity]]|].
      split; [apply set_pc_rel|]. split; [intros _; unfold resumable; rewrite set_pc_node; simpl; discriminate|].
      split; [|discriminate]. intros _. eapply Pre_step; [exact HP|apply set_pc_rel|].
      rewrite set_pc_node. simpl. discriminate.
    + assert (Hst : st_of d me <> SNone) by (apply HP; exact Epc).
      destruct (n_st (node_of d me)) eqn:Est; [exfalso; apply Hst; exact Est| | | | | |];
        (apply (REC (set_pc d me PAfterSelWait)); auto;
         [ apply Inv_set_node; auto; apply Hokp; [reflexivity|reflexivity|discriminate|first [discriminate | intros _; exact Est | intros _; reflexivity]]
         | apply set_pc_rel
         | eapply Pre_step; [exact HP|apply set_pc_rel|]; rewrite set_pc_node; simpl; discriminate
         | unfold resumable; rewrite set_pc_node; simpl; discriminate ]).
  - (* PAfterSelWait *)
    destruct (Hlate eq_refl) as (L1 & L2 & L3 & L4). specialize (L4 ltac:(discriminate)).
    assert (Hokp : forall p, late p = true -> early p = false -> p <> PSetupWaited ->
                   (in_setup p = true -> n_st (node_of d me) = SRun) -> node_ok d me (nd_pc (node_of d me) p)).
    { intros p Lp Ep Np Hss. split; simpl; auto; try (intros E; contradiction); try (intros E; congruence); try (intros _; repeat split; auto).
      all: try (intros x Hx; destruct (Hacc x Hx) as [H|[H|[H|H]]]; auto; destruct H).
      all: try (intros c Hc; destruct (Hmrg c Hc) as [H|[H|[H|H]]]; auto; destruct H). }
    assert (Hend : (YEnd, set_pc d me PDone) = (y, d') -> step_post d d' me y).
    { intros E. inversion E; subst. split; [first [intros k Ek; discriminate | intros k Ek; inversion Ek; subst; destruct (K1 eq_refl) as (Kne & Kpc & Kfresh & Kex); split; [unfold resumable; unfold Dispatch.set_pc; rewrite node_of_set_other by auto; rewrite Kpc; discriminate | split; [unfold Dispatch.set_pc; apply nodes_set_ex; exact Kex | intros z Hz Ez; subst; congruence]]]|]. split; [apply Inv_set_node; auto; apply Hokp; [reflexivity|reflexivity|discriminate|first [discriminate | intros _; exact Est | intros _; reflexivity]]|].
      split; [apply set_pc_rel|]. split; [intros _; unfold resumable; rewrite set_pc_node; simpl; discriminate|].
      split; [|discriminate]. intros _. eapply Pre_step; [exact HP|apply set_pc_rel|].
      rewrite set_pc_node. simpl. discriminate. }
    destruct (n_st (node_of d me)) eqn:Est; try (apply Hend; exact Hg).
    apply (REC (set_pc d me (PSetup (t_setup (get_task me))))); auto.
    + apply Inv_set_node; auto. apply Hokp; [reflexivity|reflexivity|discriminate|first [discriminate | intros _; exact Est | intros _; reflexivity]].
    + apply set_pc_rel.
    + eapply Pre_step; [exact HP|apply set_pc_rel|]. rewrite set_pc_node. simpl. discriminate.
    + unfold resumable. rewrite set_pc_node. simpl. discriminate.
  - (* PSetup *)
    destruct (Hlate eq_refl) as (L1 & L2 & L3 & L4). specialize (L4 ltac:(discriminate)).
    destruct rest as [|c r].
    + destruct (add_wait_run_spec (t_setup (get_task me)) d me false (Inv_InvExcept d me HI)) as (HE & RA & PA & QA & MA).
      { discriminate. }
      cbv zeta in *. set (d1 := add_wait_run d me (t_setup (get_task me)) false) in *.
      assert (Hpc1 : n_pc (node_of d1 me) = PSetup []) by (rewrite (ar_pc _ _ _ _ RA); exact Epc).
      assert (RS : step_rel d d1 me) by (eapply step_rel_of_awr; eauto).
      destruct (ar_nocalc _ _ _ _ RA eq_refl) as (N1 & N2 & N3).
      assert (Hlate1 : n_pend_task (node_of d1 me) = [] /\ n_pend_calc (node_of d1 me) = [] /\ n_wcalc (node_of d1 me) = [])
        by (repeat split; congruence).
      destruct (is_nil (n_wrun (node_of d1 me))) eqn:Ew.
      * apply is_nil_true in Ew. inversion Hg; subst. split; [first [intros k Ek; discriminate | intros k Ek; inversion Ek; subst; destruct (K1 eq_refl) as (Kne & Kpc & Kfresh & Kex); split; [unfold resumable; unfold Dispatch.set_pc; rewrite node_of_set_other by auto; rewrite Kpc; discriminate | split; [unfold Dispatch.set_pc; apply nodes_set_ex; exact Kex | intros z Hz Ez; subst; congruence]]]|].
        assert (HokD : node_ok d1 me (nd_pc (node_of d1 me) PDone)).
        { apply node_okw_pc; [apply HE| | | discriminate | first [simpl; discriminate | intros _; rewrite Hpc1; reflexivity] | first [simpl; discriminate | intros _; apply (okw_sst _ _ (proj2 HE)); rewrite Hpc1; reflexivity] | first [rewrite Hpc1; simpl; intros c0 Hc0; destruct (MA eq_refl c0 Hc0); auto | rewrite Hpc1; simpl; intros c0 []]].
          - rewrite Hpc1. simpl. intros x [].
          - intros _. destruct Hlate1 as (A & B & C). repeat split; auto. }
        split; [apply Inv_of_except; auto|].
        split; [eapply step_rel_trans; [exact RS|apply set_pc_rel]|].
        split; [intros _; unfold resumable; rewrite set_pc_node; simpl; discriminate|].
        split; [congruence|]. intros _. unfold deps_final, setup_final, deps_recd, setup_recd. rewrite !set_pc_node. simpl.
        assert (Hm : mono d1 (set_pc d1 me PDone)) by (apply mono_of_st; apply (sr_st _ _ _ (set_pc_rel d1 me PDone))).
        assert (Hrec : forall x, In x (n_all_task (node_of d1 me) ++ n_all_calc (node_of d1 me)) -> recd d1 (node_of d1 me) x).
        { intros x Hx. destruct (okw_acc _ _ (proj2 HE) x Hx) as [H|[H|[H|H]]]; auto.
          - destruct Hlate1 as (A & B & C). rewrite A, B in H. destruct H.
          - rewrite Hpc1 in H. destruct H.
          - destruct Hlate1 as (A & B & C). rewrite Ew, C in H. destruct H. }
        assert (Hrs : forall x, In x (t_setup (get_task me)) -> recd d1 (node_of d1 me) x).
        { intros x Hx. destruct (PA x Hx) as [H|H]; auto. simpl in H. rewrite Ew in H. destruct H. }
        split; [|split; [|split; [auto|split; [discriminate|split; [|split; [|split]]]]]].
        -- intros x Hx. eapply mono_final; [exact Hm|]. eapply recd_final. apply Hrec; exact Hx.
        -- intros _ x Hx. eapply mono_final; [exact Hm|]. eapply recd_final. apply Hrs; exact Hx.
        -- intros x Hx. apply (recd_mono d1); [exact Hm|]. apply (recd_fields d1 (node_of d1 me)); [reflexivity|reflexivity|]. apply Hrec; exact Hx.
        -- intros _ x Hx. apply (recd_mono d1); [exact Hm|]. apply (recd_fields d1 (node_of d1 me)); [reflexivity|reflexivity|]. apply Hrs; exact Hx.
        -- intros _. rewrite (sr_st _ _ _ (set_pc_rel d1 me PDone)). apply (okw_sst _ _ (proj2 HE)). rewrite Hpc1. reflexivity.
        -- unfold calcs_mrgd. rewrite set_pc_node. simpl. intros c Hc. apply (mrgd_mono d1); [exact Hm|].
           apply (mrgd_fields d1 (node_of d1 me)); [reflexivity|reflexivity|].
           destruct (okw_mrg _ _ (proj2 HE) c Hc) as [H|[H|[H|H]]]; auto.
           ++ destruct Hlate1 as (A & B & C). rewrite B in H. destruct H.
           ++ rewrite Hpc1 in H. destruct H.
           ++ destruct Hlate1 as (A & B & C). rewrite C in H. destruct H.
      * inversion Hg; subst. split; [first [intros k Ek; discriminate | intros k Ek; inversion Ek; subst; destruct (K1 eq_refl) as (Kne & Kpc & Kfresh & Kex); split; [unfold resumable; unfold Dispatch.set_pc; rewrite node_of_set_other by auto; rewrite Kpc; discriminate | split; [unfold Dispatch.set_pc; apply nodes_set_ex; exact Kex | intros z Hz Ez; subst; congruence]]]|].
        assert (HokW : node_ok d1 me (nd_pc (node_of d1 me) PSetupWaited)).
        { apply node_okw_pc; [apply HE| | |  | first [simpl; discriminate | intros _; rewrite Hpc1; reflexivity] | first [simpl; discriminate | intros _; apply (okw_sst _ _ (proj2 HE)); rewrite Hpc1; reflexivity] | first [rewrite Hpc1; simpl; intros c0 Hc0; destruct (MA eq_refl c0 Hc0); auto | rewrite Hpc1; simpl; intros c0 []]].
          - rewrite Hpc1. simpl. intros x [].
          - intros _. destruct Hlate1 as (A & B & C). repeat split; auto. intros E; contradiction.
          - intros _ x Hx. destruct (PA x Hx) as [H|H]; auto. }
        split; [apply Inv_of_except; auto|].
        split; [eapply step_rel_trans; [exact RS|apply set_pc_rel]|].
        split; [congruence|]. split; [|discriminate].
        intros _. eapply Pre_step; [exact HP|eapply step_rel_trans; [exact RS|apply set_pc_rel]|].
        rewrite set_pc_node. simpl. discriminate.
    + pose proof (exists_of_pc d me) as Hex. rewrite Epc in Hex. specialize (Hex ltac:(discriminate)).
      destruct (gen_node_case d me c HI Hex) as (I1 & R1 & N1 & X1 & K1). cbv zeta in *.
      destruct (gen_node d (Some (n_anc (node_of d me))) c) as [g d1] eqn:Eg. simpl in I1, R1, N1, X1, K1.
      assert (Epc1 : n_pc (node_of d1 me) = PSetup (c :: r)) by (rewrite N1; exact Epc).
      assert (I2 : Inv (set_pc d1 me (PSetup r))).
      { apply set_pc_Inv_same; auto; rewrite ?Epc1; simpl; auto; discriminate. }
      assert (R2 : step_rel d (set_pc d1 me (PSetup r)) me)
        by (eapply step_rel_trans; [exact R1|apply set_pc_rel]).
      assert (P2 : Pre (set_pc d1 me (PSetup r))).
      { eapply Pre_step; [exact HP|exact R2|]. rewrite set_pc_node. simpl. discriminate. }
      assert (Q2 : resumable (set_pc d1 me (PSetup r)) me).
      { unfold resumable. rewrite set_pc_node. simpl. discriminate. }
      destruct g.
      * inversion Hg; subst. split; [first [intros k Ek; discriminate | intros k Ek; inversion Ek; subst; destruct (K1 eq_refl) as (Kne & Kpc & Kfresh & Kex); split; [unfold resumable; unfold Dispatch.set_pc; rewrite node_of_set_other by auto; rewrite Kpc; discriminate | split; [unfold Dispatch.set_pc; apply nodes_set_ex; exact Kex | intros z Hz Ez; subst; congruence]]]|]. split; auto. split; auto. split; auto. split; auto. discriminate.
      * apply (REC _ I2 R2 P2 Q2 Hg).
      * inversion Hg; subst. split; [first [intros k Ek; discriminate | intros k Ek; inversion Ek; subst; destruct (K1 eq_refl) as (Kne & Kpc & Kfresh & Kex); split; [unfold resumable; unfold Dispatch.set_pc; rewrite node_of_set_other by auto; rewrite Kpc; discriminate | split; [unfold Dispatch.set_pc; apply nodes_set_ex; exact Kex | intros z Hz Ez; subst; congruence]]]|]. split; auto. split; [apply step_rel_refl|]. split; auto. split; auto. discriminate.
  - (* PSetupWaited: all setup-tasks are done *)
    inversion Hg; subst. split; [first [intros k Ek; discriminate | intros k Ek; inversion Ek; subst; destruct (K1 eq_refl) as (Kne & Kpc & Kfresh & Kex); split; [unfold resumable; unfold Dispatch.set_pc; rewrite node_of_set_other by auto; rewrite Kpc; discriminate | split; [unfold Dispatch.set_pc; apply nodes_set_ex; exact Kex | intros z Hz Ez; subst; congruence]]]|]. clear Hg.
    destruct (Hlate eq_refl) as (L1 & L2 & L3 & _).
    assert (Lw : n_wrun (node_of d me) = []) by (apply HR; exact Epc).
    assert (Hok' : node_ok d me (nd_pc (node_of d me) PDone)).
    { split; simpl; auto; try discriminate; try (intros _; repeat split; auto).
      all: try (intros x Hx; destruct (Hacc x Hx) as [H|[H|[H|H]]]; auto; destruct H).
      all: try (intros c Hc; destruct (Hmrg c Hc) as [H|[H|[H|H]]]; auto; destruct H). }
    split; [apply Inv_set_node; auto|]. split; [apply set_pc_rel|].
    split; [intros _; unfold resumable; rewrite set_pc_node; simpl; discriminate|].
    split; [congruence|]. intros _. unfold deps_final, setup_final, deps_recd, setup_recd. rewrite !set_pc_node. simpl.
    assert (Hm : mono d (set_pc d me PDone)) by (apply mono_of_st; apply (sr_st _ _ _ (set_pc_rel d me PDone))).
    assert (Hrec : forall x, In x (n_all_task (node_of d me) ++ n_all_calc (node_of d me)) -> recd d (node_of d me) x).
    { intros x Hx. destruct (Hacc x Hx) as [H|[H|[H|H]]]; auto.
      - rewrite L1, L2 in H. destruct H.
      - destruct H.
      - rewrite Lw, L3 in H. destruct H. }
    assert (Hrs : forall x, In x (t_setup (get_task me)) -> recd d (node_of d me) x).
    { intros x Hx. destruct (Hsetup eq_refl x Hx) as [H|H]; auto. rewrite Lw in H. destruct H. }
    split; [|split; [|split; [auto|split; [discriminate|split; [|split; [|split]]]]]].
    + intros x Hx. eapply mono_final; [exact Hm|]. eapply recd_final. apply Hrec; exact Hx.
    + intros _ x Hx. eapply mono_final; [exact Hm|]. eapply recd_final. apply Hrs; exact Hx.
    + intros x Hx. apply (recd_mono d); [exact Hm|]. apply (recd_fields d (node_of d me)); [reflexivity|reflexivity|]. apply Hrec; exact Hx.
    + intros _ x Hx. apply (recd_mono d); [exact Hm|]. apply (recd_fields d (node_of d me)); [reflexivity|reflexivity|]. apply Hrs; exact Hx.
    + intros _. rewrite (sr_st _ _ _ (set_pc_rel d me PDone)). apply Hsst. reflexivity.
    + unfold calcs_mrgd. rewrite set_pc_node. simpl. intros c Hc. apply (mrgd_mono d); [exact Hm|].
      apply (mrgd_fields d (node_of d me)); [reflexivity|reflexivity|].
      destruct (Hmrg c Hc) as [H|[H|[H|H]]]; auto.
      * rewrite L2 in H. destruct H.
      * destruct H.
      * rewrite L3 in H. destruct H.
  - (* PDone *)
    inversion Hg; subst. split; [first [intros k Ek; discriminate | intros k Ek; inversion Ek; subst; destruct (K1 eq_refl) as (Kne & Kpc & Kfresh & Kex); split; [unfold resumable; unfold Dispatch.set_pc; rewrite node_of_set_other by auto; rewrite Kpc; discriminate | split; [unfold Dispatch.set_pc; apply nodes_set_ex; exact Kex | intros z Hz Ez; subst; congruence]]]|]. split; auto. split; [apply step_rel_refl|]. split; auto. split; auto. discriminate.
Qed.

(* ---------- a node whose task will never be handed to the runner again ---------- *)
Definition spent (d : dstate) (k : name) : Prop :=
  n_pc (node_of d k) = PDone \/
  (n_pc (node_of d k) = PAfterSelf /\ is_nil (t_setup (get_task k)) = true).

Lemma spent_pc d d' k : n_pc (node_of d' k) = n_pc (node_of d k) -> spent d k -> spent d' k.
Proof. unfold spent. intros ->. auto. Qed.

Lemma gen_step_spent_me fuel d me y d' :
  spent d me -> gen_step fuel d me = (y, d') -> spent d' me /\ y <> YSelf.
Proof.
  intros Hs Hg. destruct fuel as [|fuel]; cbn [Dispatch.gen_step] in Hg.
  - inversion Hg; subst. split; auto. discriminate.
  - destruct Hs as [E|[E1 E2]].
    + rewrite E in Hg. inversion Hg; subst. split; [left; exact E|discriminate].
    + rewrite E1, E2 in Hg. inversion Hg; subst. split; [|discriminate].
      left. rewrite set_pc_node. reflexivity.
Qed.

Lemma gen_step_spent fuel d me y d' :
  step_rel d d' me -> gen_step fuel d me = (y, d') ->
  (forall z, spent d z -> spent d' z) /\ (y = YSelf -> ~ spent d me).
Proof.
  intros R Hg. split.
  - intros z Hz. destruct (N.eqb_spec z me) as [->|Hne].
    + apply (gen_step_spent_me fuel d me y d' Hz Hg).
    + eapply spent_pc; [|exact Hz]. apply (sr_other _ _ _ R z Hne).
  - intros -> Hs. destruct (gen_step_spent_me fuel d me YSelf d' Hs Hg) as [_ H]. apply H. reflexivity.
Qed.

(* ---------- _update_waiting ---------- *)
Definition AllRes (d : dstate) : Prop :=
  forall z, (d_cur d = Some z \/ In z (d_ready d)) -> resumable d z.

Lemma okw_drop_wcalc d nd c :
  node_okw d nd -> (In c (n_wcalc nd) -> recd d nd c /\ mrgd d nd c) ->
  node_okw d (nd_wait nd (n_wrun nd) (rem c (n_wcalc nd))).
Proof.
  intros [H1 H2 H3 H4 H5 H6] Hc. split; simpl; auto.
  - intros x Hx. destruct (H1 x Hx) as [H|[H|[H|H]]]; auto.
    rewrite in_app_iff in H. destruct H as [H|H]; [right; right; left; apply in_app_iff; auto|].
    destruct (N.eqb_spec x c) as [->|Hne].
    + right; right; right. apply (recd_fields d nd); [reflexivity|reflexivity|]. apply Hc. exact H.
    + right; right; left. apply in_app_iff. right. apply rem_In. auto.
  - intros L. destruct (H2 L) as (A & B & C). rewrite C. auto.
  - intros x Hx. destruct (H6 x Hx) as [H|[H|[H|H]]]; auto.
    destruct (N.eqb_spec x c) as [->|Hne].
    + right; right; right. apply (mrgd_fields d nd); [reflexivity|reflexivity|]. apply Hc. exact H.
    + right; right; left. apply rem_In. auto.
Qed.

Lemma wake_node_ok d w fin :
  Inv d -> final d fin ->
  node_ok d w (wake_node (node_of d w) fin (st_of d fin)) /\
  (n_pc (wake_node (node_of d w) fin (st_of d fin)) = n_pc (node_of d w)) /\
  (forall y, In y (n_wrun (wake_node (node_of d w) fin (st_of d fin))) -> In y (n_wrun (node_of d w)) /\ y <> fin) /\
  (wake_ready (node_of d w) fin (wake_node (node_of d w) fin (st_of d fin)) = true ->
   n_pc (node_of d w) = PSetupWaited -> n_wrun (wake_node (node_of d w) fin (st_of d fin)) = []).
Proof.
  intros HI Hfin.
  destruct (node_of_ok d w HI) as [Hacc Hlate Hsetup Hwsel Hearly Hsst Hmrg].
  set (nd := node_of d w) in *. set (fs := st_of d fin) in *.
  unfold Dispatch.wake_node, Dispatch.wake_ready.
  destruct (parent_status_fields nd fin fs) as (f1 & f2 & f3 & f4 & f5 & f6 & f7 & f8 & f9). cbv zeta in *.
  set (nw := parent_status nd fin fs) in *.
  set (nw1 := nd_wait nw (rem fin (n_wrun nw)) (rem fin (n_wcalc nw))).
  set (nwA := nd_wait nw (rem fin (n_wrun nw)) (n_wcalc nw)).
  assert (Hrecfin : recd d nw fin) by (unfold nw, fs; apply recd_parent_self; exact Hfin).
  assert (HokwA : node_okw d nwA).
  { split; unfold nwA; simpl; rewrite ?f1, ?f2, ?f5, ?f6, ?f7, ?f8, ?f9; auto.
    - intros x Hx. destruct (Hacc x Hx) as [H|[H|[H|H]]]; auto.
      + destruct (N.eqb_spec x fin) as [->|Hne].
        * right; right; right. apply (recd_fields d nw); [reflexivity|reflexivity|]. exact Hrecfin.
        * right; right; left. rewrite in_app_iff in *. rewrite f3, f4.
          destruct H as [H|H]; [left; apply rem_In; auto|right; exact H].
      + right; right; right. apply (recd_fields d nw); [reflexivity|reflexivity|].
        unfold nw. apply recd_parent. exact H.
    - intros L. destruct (Hlate L) as (A & B & C & D). rewrite f4, C. auto.
    - intros c Hc. destruct (Hmrg c Hc) as [H|[H|[H|H]]]; auto.
      + right; right; left. rewrite f4. exact H.
      + right; right; right. apply (mrgd_fields d nd); auto. }
  destruct (mem fin (n_wcalc nd)) eqn:Ec.
  - (* a calc_dep finished: its results are merged *)
    assert (Hnl : late (n_pc nd) = false).
    { destruct (late (n_pc nd)) eqn:L; auto. destruct (Hlate eq_refl) as (_ & _ & C & _).
      rewrite C in Ec. discriminate. }
    destruct (process_calc_fields nw1 fin fs) as (g1 & g2 & g3 & g4 & g5 & g6 & g7 & g8 & g9). cbv zeta in *.
    assert (Hpc : n_pc (process_calc nw1 fin fs) = n_pc nd) by (rewrite g1; unfold nw1; simpl; exact f1).
    assert (Hp : node_okw d (process_calc nw1 fin fs)).
    { set (P := process_calc nwA fin fs).
      assert (HlA : late (n_pc nwA) = false) by (unfold nwA; simpl; rewrite f1; exact Hnl).
      pose proof (process_calc_okw d nwA fin fs HlA HokwA) as HP. fold P in HP.
      destruct (process_calc_fields nwA fin fs) as (a1 & a2 & a3 & a4 & a5 & a6 & a7 & a8 & a9). cbv zeta in *. fold P in a1, a2, a3, a4, a5, a6, a7, a8, a9.
      assert (EqP : process_calc nw1 fin fs = nd_wait P (n_wrun P) (rem fin (n_wcalc P))).
      { unfold P, Dispatch.process_calc, nw1, nwA. destruct (calc_values_visible fs); reflexivity. }
      rewrite EqP. apply okw_drop_wcalc; auto. intros _. split.
      - apply (recd_fields d nw); [rewrite a7; reflexivity|rewrite a8; reflexivity|exact Hrecfin].
      - split; [exact Hfin|]. intros V. apply (process_calc_mrg nwA fin fs V). }
    split; [|split; [exact Hpc|split]].
    + destruct Hp as [P1 P2 P3 P4 P5 P6].
      split; auto.
      * rewrite Hpc, Hnl. discriminate.
      * rewrite Hpc. intros E. rewrite E in Hnl. discriminate.
    + intros y Hy. rewrite g3 in Hy. unfold nw1 in Hy. simpl in Hy. rewrite f3 in Hy.
      apply rem_In in Hy. exact Hy.
    + intros _ E. rewrite E in Hnl. discriminate.
  - assert (Hokw1 : node_okw d nw1).
    { apply (okw_drop_wcalc d nwA fin HokwA). unfold nwA. simpl. rewrite f4. intros Hin.
      apply mem_In in Hin. rewrite Hin in Ec. discriminate. }
    split; [|split; [unfold nw1; simpl; exact f1|split]].
    + destruct Hokw1 as [P1 P2 P3 P4 P5 P6]. split; auto.
      * unfold nw1 at 1 2 3. simpl. rewrite f1. intros L. destruct (Hlate L) as (A & B & C & D).
        destruct (P2 ltac:(unfold nw1; simpl; rewrite f1; exact L)) as (A' & B' & C').
        repeat split; auto. intros Np. unfold nw1. simpl. rewrite f3, (D Np). reflexivity.
      * unfold nw1 at 1. simpl. rewrite f1. intros E x Hx. destruct (Hsetup E x Hx) as [H|H].
        -- destruct (N.eqb_spec x fin) as [->|Hne].
           ++ right. apply (recd_fields d nw); [reflexivity|reflexivity|]. exact Hrecfin.
           ++ left. unfold nw1. simpl. rewrite f3. apply rem_In. auto.
        -- right. apply (recd_fields d nw); [reflexivity|reflexivity|]. unfold nw. apply recd_parent. exact H.
    + intros y Hy. unfold nw1 in Hy. simpl in Hy. rewrite f3 in Hy. apply rem_In in Hy. exact Hy.
    + intros Hr _. apply andb_true_iff in Hr. destruct Hr as [Hr _]. apply is_nil_true in Hr. exact Hr.
Qed.

Record wake_rel (d d' : dstate) : Prop := {
  wr_st : forall x, st_of d' x = st_of d x;
  wr_pc : forall z, n_pc (node_of d' z) = n_pc (node_of d z);
  wr_cur : d_cur d' = d_cur d;
  wr_torun : d_torun d' = d_torun d;
  wr_ex : forall z, d_nodes d z <> None -> d_nodes d' z <> None;
  wr_all : all_grows d d'
}.
Lemma wake_rel_refl d : wake_rel d d. Proof. split; auto. apply all_grows_refl. Qed.
Lemma wake_rel_trans d1 d2 d3 : wake_rel d1 d2 -> wake_rel d2 d3 -> wake_rel d1 d3.
Proof.
  intros A B. split.
  - intro x. rewrite (wr_st _ _ B), (wr_st _ _ A). reflexivity.
  - intro z. rewrite (wr_pc _ _ B), (wr_pc _ _ A). reflexivity.
  - rewrite (wr_cur _ _ B). apply (wr_cur _ _ A).
  - rewrite (wr_torun _ _ B). apply (wr_torun _ _ A).
  - intros z Hz. apply (wr_ex _ _ B), (wr_ex _ _ A), Hz.
  - eapply all_grows_trans; [apply (wr_all _ _ A)|apply (wr_all _ _ B)].
Qed.

Lemma Pre_wake d d' : wake_rel d d' -> Pre d -> Pre d'.
Proof. intros R HP z Hz. rewrite (wr_st _ _ R). apply HP. rewrite <- (wr_pc _ _ R). exact Hz. Qed.

Lemma wake_node_incl nd fin fs :
  incl (n_all_task nd) (n_all_task (wake_node nd fin fs)) /\ incl (n_all_calc nd) (n_all_calc (wake_node nd fin fs)).
Proof.
  unfold Dispatch.wake_node.
  destruct (parent_status_fields nd fin fs) as (f1 & f2 & f3 & f4 & f5 & f6 & f7 & f8 & f9). cbv zeta in *.
  destruct (mem fin (n_wcalc nd)).
  - destruct (process_calc_incl (nd_wait (parent_status nd fin fs) (rem fin (n_wrun (parent_status nd fin fs)))
                                   (rem fin (n_wcalc (parent_status nd fin fs)))) fin fs) as [A B].
    simpl in A, B. rewrite f7 in A. rewrite f8 in B. auto.
  - simpl. rewrite f7, f8. split; apply incl_refl.
Qed.

(* queue discipline: a node sits in at most one of {current, ready, waiting}, once, and exists *)
Record QInv (d : dstate) : Prop := {
  q_nodup : NoDup (d_ready d);
  q_ready : forall z, In z (d_ready d) -> d_cur d <> Some z /\ ~ In z (d_waiting d);
  q_wait : forall z, In z (d_waiting d) -> d_cur d <> Some z;
  q_ex : forall z, In z (d_ready d) \/ In z (d_waiting d) \/ d_cur d = Some z -> d_nodes d z <> None
}.

Lemma NoDup_snoc {A} (l : list A) (x : A) : NoDup l -> ~ In x l -> NoDup (l ++ [x]).
Proof.
  intros Hn Hx. induction Hn as [|y l Hy Hn IH]; simpl.
  - constructor; [intros []|constructor].
  - constructor.
    + rewrite in_app_iff. simpl. intros [H|[H|[]]]; [contradiction|]. subst. apply Hx. left. reflexivity.
    + apply IH. intro H. apply Hx. right. exact H.
Qed.

Lemma wake_one_spec d fin w :
  Inv d -> AllRes d -> QInv d -> final d fin ->
  let d' := wake_one d fin (st_of d fin) w in
  Inv d' /\ AllRes d' /\ QInv d' /\ wake_rel d d'.
Proof.
  intros HI HA HQ Hfin. cbv zeta. unfold Dispatch.wake_one.
  destruct (wake_node_ok d w fin HI Hfin) as (Hok & Hpc & Hwr & Hrdy).
  set (nw2 := wake_node (node_of d w) fin (st_of d fin)) in *.
  set (d1 := set_node d w nw2).
  assert (Hst : n_st nw2 = st_of d w) by (unfold nw2; apply wake_node_st).
  assert (I1 : Inv d1) by (apply Inv_set_node; auto).
  assert (S1 : forall x, st_of d1 x = st_of d x) by (intro; apply st_set_node_same_st; exact Hst).
  assert (W1 : wake_rel d d1).
  { split; auto; [|intros z Hz; apply nodes_set_ex; exact Hz|apply all_grows_set_node; apply wake_node_incl].
    intro z. unfold d1. destruct (N.eqb_spec z w) as [->|Hne].
    - rewrite node_of_set_same. exact Hpc.
    - rewrite node_of_set_other by auto. reflexivity. }
  destruct HQ as [Qn Qr Qw Qe].
  assert (Res1 : forall z, resumable d z -> resumable d1 z).
  { intros z Hz. unfold resumable in *. unfold d1. destruct (N.eqb_spec z w) as [->|Hne].
    - rewrite node_of_set_same. rewrite Hpc. intros E. specialize (Hz E).
      destruct (n_wrun nw2) as [|y r] eqn:Ey; auto.
      destruct (Hwr y) as [Hin _]; [try rewrite Ey; left; reflexivity|]. rewrite Hz in Hin. destruct Hin.
    - rewrite node_of_set_other by auto. exact Hz. }
  destruct (wake_ready (node_of d w) fin nw2 && mem w (d_waiting d1)) eqn:Er.
  - apply andb_true_iff in Er. destruct Er as [Er Ew]. apply mem_In in Ew. change (In w (d_waiting d)) in Ew.
    split; [apply (Inv_queues d1); [reflexivity|exact I1]|]. split; [|split].
    2:{ split; simpl.
        - apply NoDup_snoc; auto. intro H. apply (proj2 (Qr w H)). exact Ew.
        - intros z Hz. apply in_app_iff in Hz. destruct Hz as [Hz|[<-|[]]].
          + destruct (Qr z Hz) as [A B]. split; auto. intro H. apply rem_In in H. apply B. apply H.
          + split; [apply Qw; exact Ew|]. intro H. apply rem_In in H. destruct H as [_ H]. apply H. reflexivity.
        - intros z Hz. apply rem_In in Hz. apply Qw. apply Hz.
        - intros z Hz. apply nodes_set_ex. apply Qe.
          destruct Hz as [Hz|[Hz|Hz]]; auto.
          + apply in_app_iff in Hz. destruct Hz as [Hz|[<-|[]]]; auto.
          + apply rem_In in Hz. right; left. apply Hz. }
    + intros z [Hz|Hz].
      * simpl in Hz. apply Res1. apply HA. left. exact Hz.
      * simpl in Hz. apply in_app_iff in Hz. destruct Hz as [Hz|[<-|[]]].
        -- apply Res1. apply HA. right. exact Hz.
        -- unfold resumable. change (node_of (set_waiting (set_ready d1 (d_ready d1 ++ [w])) (rem w (d_waiting d1))) w) with (node_of d1 w).
           unfold d1. rewrite node_of_set_same. rewrite Hpc. intros E. apply Hrdy; auto.
    + destruct W1 as [a b c e f g]. split; auto.
  - split; [exact I1|]. split; [|split; [|exact W1]].
    + intros z Hz. apply Res1. apply HA. exact Hz.
    + split; simpl; auto. intros z Hz. apply nodes_set_ex. apply Qe. exact Hz.
Qed.

Lemma wake_spec l : forall d fin,
  Inv d -> AllRes d -> QInv d -> final d fin ->
  let d' := wake d fin (st_of d fin) l in
  Inv d' /\ AllRes d' /\ QInv d' /\ wake_rel d d'.
Proof.
  induction l as [|w r IH]; intros d fin HI HA HQ Hf; cbn [Dispatch.wake]; cbv zeta.
  - split; auto. split; auto. split; auto. apply wake_rel_refl.
  - destruct (wake_one_spec d fin w HI HA HQ Hf) as (I1 & A1 & Q1 & W1). cbv zeta in *.
    set (d1 := wake_one d fin (st_of d fin) w) in *.
    assert (Hf1 : final d1 fin) by (unfold final; rewrite (wr_st _ _ W1); exact Hf).
    assert (Es : st_of d fin = st_of d1 fin) by (rewrite (wr_st _ _ W1); reflexivity).
    rewrite Es. destruct (IH d1 fin I1 A1 Q1 Hf1) as (I2 & A2 & Q2 & W2). cbv zeta in *.
    split; auto. split; auto. split; auto. eapply wake_rel_trans; eauto.
Qed.

Lemma update_waiting_spec d p :
  Inv d -> AllRes d -> QInv d -> (forall k, p = Some k -> st_of d k <> SNone) ->
  let d' := update_waiting d p in
  Inv d' /\ AllRes d' /\ QInv d' /\ wake_rel d d'.
Proof.
  intros HI HA HQ Hp. cbv zeta. destruct p as [k|]; cbn [Dispatch.update_waiting].
  - rewrite (ok_wsel _ _ _ (node_of_ok d k HI)).
    specialize (Hp k eq_refl). unfold Dispatch.st_of in Hp.
    destruct (n_st (node_of d k)) eqn:Est; try congruence;
      try (split; auto; split; auto; split; auto; apply wake_rel_refl);
      (assert (Hf : final d k) by (unfold final, Dispatch.st_of; rewrite Est; reflexivity);
       pose proof (wake_spec (wake_order wake_rank k (n_wme (node_of d k))) d k HI HA HQ Hf) as H;
       cbv zeta in H; assert (Es : st_of d k = n_st (node_of d k)) by reflexivity; rewrite Es, Est in H; exact H).
  - split; auto. split; auto. split; auto. apply wake_rel_refl.
Qed.

(* ---------- _get_next_node over tasks_to_run ---------- *)
Lemma next_from_torun_spec l : forall d o d',
  Inv d -> next_from_torun d l = (o, d') ->
  Inv d' /\ (forall x, st_of d' x = st_of d x) /\
  (forall z, n_pc (node_of d' z) = n_pc (node_of d z) /\ n_wrun (node_of d' z) = n_wrun (node_of d z)) /\
  d_ready d' = d_ready d /\ d_cur d' = d_cur d /\ d_waiting d' = d_waiting d /\
  (forall z, d_nodes d z <> None -> d_nodes d' z <> None) /\
  (forall x, o = Some x -> d_nodes d x = None /\ d_nodes d' x <> None) /\
  all_grows d d'.
Proof.
  induction l as [|x r IH]; intros d o d' HI Hn; cbn [Dispatch.next_from_torun] in Hn.
  - inversion Hn; subst. split; [apply (Inv_queues d); [reflexivity|exact HI]|]. simpl.
    repeat split; auto; try discriminate; apply incl_refl.
  - pose proof (gen_node_Inv d None x HI) as I1.
    pose proof (gen_node_st tasks d None x) as S1.
    assert (F1 : forall z, n_pc (node_of (snd (gen_node d None x)) z) = n_pc (node_of d z) /\
                            n_wrun (node_of (snd (gen_node d None x)) z) = n_wrun (node_of d z)).
    { intro z. unfold Dispatch.gen_node. destruct (d_nodes d x) eqn:E; simpl; auto.
      destruct (N.eqb_spec z x) as [->|Hne].
      - rewrite node_of_set_same. unfold Dispatch.node_of. rewrite E. simpl. auto.
      - rewrite node_of_set_other by auto. auto. }
    assert (Q1 : d_ready (snd (gen_node d None x)) = d_ready d /\ d_cur (snd (gen_node d None x)) = d_cur d /\
                 d_waiting (snd (gen_node d None x)) = d_waiting d).
    { unfold Dispatch.gen_node. destruct (d_nodes d x); simpl; auto. }
    assert (X1 : forall z, d_nodes d z <> None -> d_nodes (snd (gen_node d None x)) z <> None).
    { intros z Hz. unfold Dispatch.gen_node. destruct (d_nodes d x); simpl; auto. apply nodes_set_ex. exact Hz. }
    assert (N1 : fst (gen_node d None x) = GNew -> d_nodes d x = None /\ d_nodes (snd (gen_node d None x)) x <> None).
    { unfold Dispatch.gen_node. destruct (d_nodes d x) eqn:E; simpl; [discriminate|].
      intros _. split; auto. rewrite upd_same. discriminate. }
    assert (G1 : all_grows d (snd (gen_node d None x))).
    { unfold Dispatch.gen_node. destruct (d_nodes d x) eqn:E; simpl; try apply all_grows_refl.
      apply all_grows_set_node; unfold Dispatch.node_of; rewrite E; simpl; apply incl_refl. }
    destruct (gen_node d None x) as [g d1] eqn:Eg. simpl in *.
    destruct g.
    + inversion Hn; subst. simpl. destruct Q1 as (q1 & q2 & q3).
      split; [apply (Inv_queues d1); [reflexivity|exact I1]|].
      split; auto. split; [apply F1|]. split; auto. split; auto. split; auto. split; auto.
      split; [intros z Ez; inversion Ez; subst; apply N1; reflexivity|].
      eapply all_grows_trans; [exact G1|apply all_grows_queues; reflexivity].
    + destruct (IH d1 o d' I1 Hn) as (I2 & S2 & F2 & q1 & q2 & q3 & X2 & N2 & G2). destruct Q1 as (p1 & p2 & p3).
      split; auto. split; [intro z; rewrite S2; apply S1|].
      split; [intro z; destruct (F2 z) as [a b]; destruct (F1 z) as [c e]; split; congruence|].
      split; [congruence|]. split; [congruence|]. split; [congruence|]. split; [intros z Hz; apply X2, X1, Hz|].
      split; [|eapply all_grows_trans; eauto].
      intros z Ez. destruct (N2 z Ez) as [A B]. split; auto.
      destruct (d_nodes d z) eqn:E; auto. exfalso. assert (d_nodes d1 z <> None) by (apply X1; congruence). contradiction.
    + destruct (IH d1 o d' I1 Hn) as (I2 & S2 & F2 & q1 & q2 & q3 & X2 & N2 & G2). destruct Q1 as (p1 & p2 & p3).
      split; auto. split; [intro z; rewrite S2; apply S1|].
      split; [intro z; destruct (F2 z) as [a b]; destruct (F1 z) as [c e]; split; congruence|].
      split; [congruence|]. split; [congruence|]. split; [congruence|]. split; [intros z Hz; apply X2, X1, Hz|].
      split; [|eapply all_grows_trans; eauto].
      intros z Ez. destruct (N2 z Ez) as [A B]. split; auto.
      destruct (d_nodes d z) eqn:E; auto. exfalso. assert (d_nodes d1 z <> None) by (apply X1; congruence). contradiction.
Qed.

(* ---------- the dispatcher generator, from one yield to the next ---------- *)
Definition PreX (d : dstate) (k : name) : Prop :=
  forall z, z <> k -> n_pc (node_of d z) = PAfterSelf -> st_of d z <> SNone.

Definition disp_post (d d' : dstate) (y : dyield) : Prop :=
  Inv d' /\ AllRes d' /\ QInv d' /\ (forall x, st_of d' x = st_of d x) /\ all_grows d d' /\
  (forall z, spent d z -> spent d' z) /\
  match y with
  | DTask k => ~ spent d k /\ d_cur d' = Some k /\ deps_final d' k /\
               (n_pc (node_of d' k) = PDone -> setup_final d' k) /\
               (n_pc (node_of d' k) = PAfterSelf \/ n_pc (node_of d' k) = PDone) /\
               (n_pc (node_of d' k) = PAfterSelf -> st_of d' k = SNone) /\ PreX d' k /\
               deps_recd d' k /\ (n_pc (node_of d' k) = PDone -> setup_recd d' k) /\
               (n_pc (node_of d' k) = PDone -> st_of d' k = SRun) /\ calcs_mrgd d' k
  | _ => Pre d'
  end.

Lemma disp_post_st d0 d d' y :
  (forall x, st_of d x = st_of d0 x) -> all_grows d0 d -> (forall z, spent d0 z -> spent d z) ->
  disp_post d d' y -> disp_post d0 d' y.
Proof.
  intros E G0 S0 (A & B & Q & C & G & Sp & D). split; auto. split; auto. split; auto. split; [|split; [|split]].
  - intro x. rewrite C. apply E.
  - eapply all_grows_trans; eauto.
  - intros z Hz. apply Sp, S0, Hz.
  - destruct y; auto. destruct D as (D0 & D'). split; auto.
Qed.

Lemma disp_run_spec fuel : forall d y d',
  Inv d -> Pre d -> AllRes d -> QInv d -> disp_run fuel d = (y, d') -> disp_post d d' y.
Proof.
  induction fuel as [|fuel IH]; intros d y d' HI HP HA HQ Hd; cbn [Dispatch.disp_run] in Hd.
  { inversion Hd; subst. repeat (split; auto); apply incl_refl. }
  destruct HQ as [Qn Qr Qw Qe].
  destruct (d_cur d) as [me|] eqn:Ecur.
  - assert (HRme : resumable d me) by (apply HA; left; exact Ecur).
    destruct (gen_step (S (S fuel)) d me) as [g d1] eqn:Eg.
    destruct (gen_step_spec _ d me g d1 HI HP HRme Eg) as (SN & I1 & R1 & Q1 & P1 & Y1).
    destruct (sr_queues _ _ _ R1) as (q1 & q2 & q3 & q4). rewrite Ecur in q3.
    destruct (gen_step_spent _ _ _ _ _ R1 Eg) as [Sp1 Sp2].
    assert (ResReady : forall z, In z (d_ready d) -> resumable d1 z).
    { intros z Hz. assert (z <> me) by (intros ->; apply (proj1 (Qr me Hz)); reflexivity).
      eapply resumable_other; eauto. }
    assert (Ex1 : forall z, In z (d_ready d) \/ In z (d_waiting d) \/ Some me = Some z -> d_nodes d1 z <> None)
      by (intros z Hz; apply (sr_ex _ _ _ R1); apply Qe; exact Hz).
    destruct g as [k| | | |path|].
    + (* a new node was created: queue it *)
      destruct (SN k eq_refl) as (Rk & Exk & Fresh).
      assert (Fr : forall z, In z (d_ready d) \/ In z (d_waiting d) \/ Some me = Some z -> z <> k)
        by (intros z Hz; apply Fresh; apply Qe; exact Hz).
      apply (disp_post_st d (set_ready d1 (d_ready d1 ++ [k]))); [intro x; rewrite st_set_ready; apply (sr_st _ _ _ R1)|eapply all_grows_trans; [apply (sr_all _ _ _ R1)|apply all_grows_queues; reflexivity]|exact Sp1|].
      apply IH.
      * apply (Inv_queues d1); [reflexivity|exact I1].
      * intros z Hz. apply (P1 ltac:(discriminate) z). exact Hz.
      * intros z [Hz|Hz]; simpl in Hz.
        -- rewrite q3 in Hz. inversion Hz; subst. apply (Q1 ltac:(discriminate)).
        -- apply in_app_iff in Hz. destruct Hz as [Hz|[<-|[]]]; [rewrite q1 in Hz; apply ResReady; auto|exact Rk].
      * split; simpl; rewrite ?q1, ?q2, ?q3.
        -- apply NoDup_snoc; auto. intro H. apply (Fr k); auto.
        -- intros z Hz. apply in_app_iff in Hz. destruct Hz as [Hz|[<-|[]]]; [apply Qr; exact Hz|].
           split; [intro E; inversion E; subst; apply (Fr k); auto|intro H; apply (Fr k); auto].
        -- exact Qw.
        -- intros z [Hz|[Hz|Hz]]; [apply in_app_iff in Hz; destruct Hz as [Hz|[<-|[]]]; auto| |]; apply Ex1; auto.
      * exact Hd.
    + (* wait *)
      apply (disp_post_st d (set_cur (set_waiting d1 (addset me (d_waiting d1))) None));
        [intro x; apply (sr_st _ _ _ R1)|eapply all_grows_trans; [apply (sr_all _ _ _ R1)|apply all_grows_queues; reflexivity]|exact Sp1|].
      apply IH.
      * apply (Inv_queues d1); [reflexivity|exact I1].
      * intros z Hz. apply (P1 ltac:(discriminate) z). exact Hz.
      * intros z [Hz|Hz]; simpl in Hz; [discriminate|]. rewrite q1 in Hz. apply ResReady; exact Hz.
      * split; simpl; rewrite ?q1, ?q2.
        -- exact Qn.
        -- intros z Hz. split; [discriminate|]. intro H. apply addset_In in H. destruct H as [->|H].
           ++ apply (proj1 (Qr me Hz)). reflexivity.
           ++ apply (proj2 (Qr z Hz)). exact H.
        -- intros; discriminate.
        -- intros z [Hz|[Hz|Hz]]; [apply Ex1; auto| |discriminate].
           apply addset_In in Hz. destruct Hz as [->|Hz]; apply Ex1; auto.
      * exact Hd.
    + (* the task is handed to the runner *)
      inversion Hd; subst. destruct (Y1 eq_refl) as (Y2 & Y3 & Y4 & Y5 & Y6 & Y7 & Y8 & Y9).
      split; [exact I1|]. split.
      { intros z [Hz|Hz]; [rewrite q3 in Hz; inversion Hz; subst; apply (Q1 ltac:(discriminate))|].
        rewrite q1 in Hz. apply ResReady; exact Hz. }
      split. { split; rewrite ?q1, ?q2, ?q3; auto. all: try (intros z Hz; apply Ex1; destruct Hz as [Hz|[Hz|Hz]]; auto). }
      split; [apply (sr_st _ _ _ R1)|]. split; [apply (sr_all _ _ _ R1)|]. split; [exact Sp1|]. split; [apply Sp2; reflexivity|]. split; [rewrite q3; reflexivity|]. split; auto. split; auto. split; auto. split; auto.
      split; [|split; [exact Y6|split; [exact Y7|split; [exact Y8|exact Y9]]]].
      intros z Hz Hpc. rewrite (sr_st _ _ _ R1). apply HP.
      destruct (sr_other _ _ _ R1 z Hz) as [E _]. congruence.
    + (* generator exhausted *)
      apply (disp_post_st d (set_cur d1 None)); [intro x; apply (sr_st _ _ _ R1)|eapply all_grows_trans; [apply (sr_all _ _ _ R1)|apply all_grows_queues; reflexivity]|exact Sp1|].
      apply IH.
      * apply (Inv_queues d1); [reflexivity|exact I1].
      * intros z Hz. apply (P1 ltac:(discriminate) z). exact Hz.
      * intros z [Hz|Hz]; simpl in Hz; [discriminate|]. rewrite q1 in Hz. apply ResReady; exact Hz.
      * split; simpl; rewrite ?q1, ?q2; auto.
        -- intros z Hz. split; [discriminate|]. apply (proj2 (Qr z Hz)).
        -- intros; discriminate.
        -- intros z [Hz|[Hz|Hz]]; [apply Ex1; auto|apply Ex1; auto|discriminate].
      * exact Hd.
    + inversion Hd; subst. split; [exact I1|]. split.
      { intros z [Hz|Hz]; [rewrite q3 in Hz; inversion Hz; subst; apply (Q1 ltac:(discriminate))|].
        rewrite q1 in Hz. apply ResReady; exact Hz. }
      split. { split; rewrite ?q1, ?q2, ?q3; auto. all: try (intros z Hz; apply Ex1; destruct Hz as [Hz|[Hz|Hz]]; auto). }
      split; [apply (sr_st _ _ _ R1)|]. split; [apply (sr_all _ _ _ R1)|]. split; [exact Sp1|]. apply P1. discriminate.
    + inversion Hd; subst. split; [exact I1|]. split.
      { intros z [Hz|Hz]; [rewrite q3 in Hz; inversion Hz; subst; apply (Q1 ltac:(discriminate))|].
        rewrite q1 in Hz. apply ResReady; exact Hz. }
      split. { split; rewrite ?q1, ?q2, ?q3; auto. all: try (intros z Hz; apply Ex1; destruct Hz as [Hz|[Hz|Hz]]; auto). }
      split; [apply (sr_st _ _ _ R1)|]. split; [apply (sr_all _ _ _ R1)|]. split; [exact Sp1|]. apply P1. discriminate.
  - destruct (d_ready d) as [|x r] eqn:Er.
    + destruct (next_from_torun d (d_torun d)) as [o d1] eqn:En.
      destruct (next_from_torun_spec _ d o d1 HI En) as (I1 & S1 & F1 & q1 & q2 & q3 & X1 & N1 & G1).
      rewrite Er in q1. rewrite Ecur in q2.
      assert (P1 : Pre d1).
      { intros z Hz. rewrite S1. apply HP. destruct (F1 z) as [E _]. congruence. }
      destruct o as [x|].
      * destruct (N1 x eq_refl) as [Nx Ex].
        apply (disp_post_st d (set_cur d1 (Some x))); [intro z; apply S1|eapply all_grows_trans; [exact G1|apply all_grows_queues; reflexivity]|intros z Hz; eapply spent_pc; [|exact Hz]; apply F1|].
        apply IH; auto.
        -- apply (Inv_queues d1); [reflexivity|exact I1].
        -- intros z [Hz|Hz]; simpl in Hz.
           ++ inversion Hz; subst. unfold resumable. change (node_of (set_cur d1 (Some z)) z) with (node_of d1 z).
              destruct (F1 z) as [E _]. rewrite E. unfold Dispatch.node_of. rewrite Nx. simpl. discriminate.
           ++ rewrite q1 in Hz. destruct Hz.
        -- split; simpl; rewrite ?q1, ?q3.
           ++ constructor.
           ++ intros z [].
           ++ intros z Hz E. inversion E; subst. apply (Qe z); auto.
           ++ intros z [[]|[Hz|Hz]]; [apply X1; apply Qe; auto|inversion Hz; subst; exact Ex].
      * assert (Hpost : forall yy, (yy = DStop \/ yy = DHold) -> disp_post d d1 yy).
        { intros yy Hy. split; [exact I1|]. split.
          { intros z [Hz|Hz]; [rewrite q2 in Hz; discriminate|rewrite q1 in Hz; destruct Hz]. }
          split. { split; rewrite ?q1, ?q2, ?q3; auto; try constructor; try (intros z []).
                   all: try (intros; discriminate).
                   all: try (intros z [[]|[Hz|Hz]]; [|discriminate]; apply X1; apply Qe; auto). }
          split; [exact S1|]. split; [exact G1|]. split; [intros z Hz; eapply spent_pc; [|exact Hz]; apply F1|]. destruct Hy; subst; exact P1. }
        destruct (is_nil (d_waiting d1)); inversion Hd; subst; apply Hpost; auto.
    + apply (disp_post_st d (set_cur (set_ready d r) (Some x))); [reflexivity|apply all_grows_queues; reflexivity|auto|].
      inversion Qn; subst.
      apply IH; auto.
      * apply (Inv_queues d); [reflexivity|exact HI].
      * intros z [Hz|Hz]; simpl in Hz.
        -- inversion Hz; subst. apply HA. right. rewrite Er. left. reflexivity.
        -- apply HA. right. rewrite Er. right. exact Hz.
      * split; simpl; auto.
        -- intros z Hz. split; [intro E; inversion E; subst; contradiction|]. apply (proj2 (Qr z (or_intror Hz))).
        -- intros z Hz E. inversion E; subst. apply (proj2 (Qr z (or_introl eq_refl))). exact Hz.
        -- intros z [Hz|[Hz|Hz]]; [apply Qe; left; right; exact Hz|apply Qe; auto|].
           inversion Hz; subst. apply Qe. left. left. reflexivity.
Qed.

Theorem disp_send_spec fuel d p y d' :
  Inv d -> Pre d -> AllRes d -> QInv d -> (forall k, p = Some k -> st_of d k <> SNone) ->
  disp_send fuel d p = (y, d') -> disp_post d d' y.
Proof.
  intros HI HP HA HQ Hp Hs. unfold Dispatch.disp_send in Hs.
  destruct (update_waiting_spec d p HI HA HQ Hp) as (I1 & A1 & Q1 & W1). cbv zeta in *.
  apply (disp_post_st d (update_waiting d p)); [apply (wr_st _ _ W1)|apply (wr_all _ _ W1)|intros z Hz; eapply spent_pc; [|exact Hz]; apply (wr_pc _ _ W1)|].
  eapply disp_run_spec; eauto. eapply Pre_wake; eauto.
Qed.

End Inv.
