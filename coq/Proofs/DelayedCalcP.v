(* DelayedCalcP.v -- the growing-table model: what a finished calc_dep task returned is part of the node's dependency lists
   before the node is handed to the runner (TaskDispatcher._process_calc_dep_results), so by DelayedDepP the returned task_dep,
   the producers of the returned file_dep and the returned calc_dep are all reported good before the task's actions start.
   The invariant [MG] mirrors ok_mrg of Proofs/DispatchInv.v. *)
From DoitV Require Import Base Dispatch Runner Delayed DelayedP DelayedStepP DelayedRunP DelayedDepP.
Open Scope N_scope.

Definition merged (nd : dnode) (ct : task) : Prop :=
  incl (t_calc_new_task ct) (dn_at nd) /\ incl (t_calc_new_impl ct) (dn_at nd) /\ incl (t_calc_new_calc ct) (dn_ac nd).
(* calc_dep c of the node is finished and, if its saved values are visible, they were merged into the node's lists *)
Definition mrgd (d : dst) (nd : dnode) (c : name) : Prop :=
  final d c /\ (calc_values_visible (st_of d c) = true -> merged nd (dt (dn_task (node_of d c)))).
Definition d_inflight_calc (p : dpc) : list name := match p with QCalc _ calcs _ => calcs | _ => [] end.
Definition mg_node (d : dst) (nd : dnode) : Prop :=
  forall c, In c (dn_ac nd) -> In c (dn_pcl nd) \/ In c (d_inflight_calc (dn_pc nd)) \/ In c (dn_wcalc nd) \/ mrgd d nd c.
Definition MG (d : dst) : Prop := forall k, mg_node d (node_of d k).

(* final nodes keep status and task object *)
Definition stm (d d' : dst) : Prop :=
  forall x, final d x -> st_of d' x = st_of d x /\ dn_task (node_of d' x) = dn_task (node_of d x).
Lemma stm_bk d d' : bk d d' -> stm d d'.
Proof. intros B x _. split; [apply (bk_st _ _ B) | apply (k_task _ _ (bk_keep _ _ B))]. Qed.

Lemma merged_mono nd nd' ct : incl (dn_at nd) (dn_at nd') -> incl (dn_ac nd) (dn_ac nd') -> merged nd ct -> merged nd' ct.
Proof. intros I1 I2 (A & B & C). repeat split; eapply incl_tran; eauto. Qed.
Lemma mrgd_mono d d' nd nd' c : stm d d' -> incl (dn_at nd) (dn_at nd') -> incl (dn_ac nd) (dn_ac nd') ->
  mrgd d nd c -> mrgd d' nd' c.
Proof.
  intros Hm I1 I2 (F & M). destruct (Hm c F) as [Es Et]. unfold mrgd, final. rewrite Es, Et. split; [exact F|].
  intro V. eapply merged_mono; eauto.
Qed.

Lemma grown_incl nd nd' : grown nd nd' -> incl (dn_at nd) (dn_at nd') /\ incl (dn_ac nd) (dn_ac nd') /\
  incl (dn_pcl nd) (dn_pcl nd') /\ incl (dn_wcalc nd) (dn_wcalc nd') /\
  (forall c, In c (dn_ac nd') -> In c (dn_ac nd) \/ In c (dn_pcl nd')).
Proof.
  intros [G1 G2 G3 G4 (t & c & G5 & G6 & G7 & G8) G9 G10 G11 G12].
  rewrite G5, G7, G8. repeat split; try (apply incl_appl; apply incl_refl); auto.
  intros x Hx. apply in_app_iff in Hx. destruct Hx; auto. right. apply in_app_iff. auto.
Qed.

Lemma mg_grown d d' nd nd' : stm d d' -> grown nd nd' -> mg_node d nd -> mg_node d' nd'.
Proof.
  intros Hm G M c Hc. destruct (grown_incl _ _ G) as (I1 & I2 & I3 & I4 & I5).
  destruct (I5 c Hc) as [Hc'|Hc']; [|left; exact Hc'].
  destruct (M c Hc') as [X|[X|[X|X]]].
  - left. apply I3. exact X.
  - right; left. rewrite (g_pc _ _ G). exact X.
  - right; right; left. apply I4. exact X.
  - right; right; right. eapply mrgd_mono; eauto.
Qed.

Lemma mg_wme_only d nd nd' : wme_only nd nd' -> mg_node d nd -> mg_node d nd'.
Proof. intros [->|[w ->]] M; exact M. Qed.

Lemma stm_refl d : stm d d.
Proof. intros x _. auto. Qed.

Lemma new_node_mg d a k t : mg_node d (new_node a k t).
Proof. intros c Hc. left. exact Hc. Qed.

Lemma fold_add_if_new_In' (l : list name) : forall acc x, In x (fold_left add_if_new l acc) <-> In x acc \/ In x l.
Proof.
  induction l as [|a l IH]; intros acc x; simpl; [tauto|].
  rewrite IH. unfold add_if_new. destruct (mem a acc) eqn:E.
  - apply mem_In in E. split; intros H; intuition (subst; auto).
  - rewrite in_app_iff. simpl. split; intros H; intuition auto.
Qed.

Lemma process_calc_merged nd ct s : calc_values_visible s = true -> merged (process_calc nd ct s) ct.
Proof.
  intros Hv. unfold process_calc, merged. rewrite Hv. cbv zeta. simpl. repeat split.
  - intros x Hx. apply fold_add_if_new_In'. left. apply in_app_iff. auto.
  - intros x Hx. apply fold_add_if_new_In'. auto.
  - intros x Hx. rewrite in_app_iff. destruct (mem x (dn_ac nd)) eqn:E; [left; apply mem_In; exact E|right].
    apply filter_In. split; [apply fold_add_if_new_In'; auto|rewrite E; reflexivity].
Qed.

(* ---------- _node_add_wait_run ---------- *)
Lemma MG_add_wait_one d me x calc : MG d ->
  MG (add_wait_one d me x calc) /\
  (calc = true -> In x (dn_wcalc (node_of (add_wait_one d me x calc) me)) \/
                  mrgd (add_wait_one d me x calc) (node_of (add_wait_one d me x calc) me) x).
Proof.
  intro M. destruct (add_wait_one_spec d me x calc) as [B O G X NC Q K].
  pose proof (stm_bk _ _ B) as Hm.
  split.
  - intro z. destruct (N.eqb_spec z me) as [E0|Hne]; [subst z|].
    + eapply mg_grown; eauto.
    + apply (mg_wme_only _ _ _ (O z Hne)). eapply mg_grown; [exact Hm | apply grown_refl | apply M].
  - intros ->. rewrite (add_wait_one_me d me x true). destruct (unfinished (st_of d x)) eqn:Eu.
    + left. simpl. apply addset_In. auto.
    + right. assert (E1 : st_of (add_wait_one d me x true) x = st_of d x) by apply (bk_st _ _ B x).
      unfold mrgd, final. rewrite E1, (k_task _ _ (bk_keep _ _ B) x).
      split; [exact Eu|]. intro V. apply process_calc_merged. exact V.
Qed.

Lemma MG_add_wait_run l : forall d me calc, MG d ->
  MG (add_wait_run d me l calc) /\
  (calc = true -> forall x, In x l -> In x (dn_wcalc (node_of (add_wait_run d me l calc) me)) \/
                                      mrgd (add_wait_run d me l calc) (node_of (add_wait_run d me l calc) me) x).
Proof.
  induction l as [|x r IH]; intros d me calc M; cbn [add_wait_run]; [split; [exact M | intros _ y []]|].
  destruct (MG_add_wait_one d me x calc M) as [M1 X1].
  destruct (IH (add_wait_one d me x calc) me calc M1) as [M2 X2]. split; [exact M2|].
  intros Hc y [<-|Hy]; [|apply X2; auto].
  destruct (add_wait_run_spec r (add_wait_one d me x calc) me calc) as [B O G X NC Q K].
  destruct (X1 Hc) as [W|W].
  - left. apply (g_wcalc _ _ G). exact W.
  - right. destruct (grown_incl _ _ G) as (I1 & I2 & _). eapply mrgd_mono; [apply stm_bk; exact B | exact I1 | exact I2 | exact W].
Qed.

(* ---------- _update_waiting ---------- *)
Lemma mg_wake_node d nd fin : mg_node d nd -> final d fin ->
  mg_node d (wake_node nd fin (dt (dn_task (node_of d fin))) (st_of d fin)).
Proof.
  intros M Hf. set (s := st_of d fin). set (ft := dt (dn_task (node_of d fin))). unfold wake_node.
  set (nw := parent_status nd fin s).
  set (nw1 := nd_wait nw (rem fin (dn_wrun nw)) (rem fin (dn_wcalc nw))).
  destruct (parent_status_spec nd fin s) as (P1 & P2 & P3 & P4 & P5 & P6 & P7 & P8 & P9 & P10 & P11 & P12 & _).
  fold nw in P1, P2, P3, P4, P5, P6, P7, P8, P9, P10, P11, P12.
  destruct (mem fin (dn_wcalc nd)) eqn:Em.
  - (* fin was waited for as a calc_dep: its values are merged now *)
    destruct (process_calc_spec nw1 ft s) as (newt & newc & A1 & A2 & A3 & A4 & A5 & A6 & A7 & A8 & A9 & A10 & A11 & A12).
    cbv zeta in *. simpl in A1, A2, A3, A4, A8, A12.
    intros c Hc. rewrite A3, P3 in Hc. rewrite A4, A8, A12, P4, P8, P12.
    apply in_app_iff in Hc. destruct Hc as [Hc|Hc]; [|left; apply in_app_iff; auto].
    destruct (M c Hc) as [X|[X|[X|X]]].
    + left. apply in_app_iff. auto.
    + right; left. exact X.
    + destruct (N.eqb_spec c fin) as [E0|Hne].
      * subst c. right; right; right. split; [exact Hf|]. intro V. apply process_calc_merged. exact V.
      * right; right; left. apply rem_In. auto.
    + right; right; right. destruct X as (F & Mr). split; [exact F|]. intro V. specialize (Mr V).
      eapply merged_mono; [| |exact Mr]; [rewrite A1, P1 | rewrite A3, P3]; apply incl_appl; apply incl_refl.
  - apply mem_false_In in Em. intros c Hc. simpl in *. rewrite P3 in Hc. rewrite P4, P8, P12.
    destruct (M c Hc) as [X|[X|[X|X]]]; auto.
    + right; right; left. apply rem_In. split; auto. intro E0. subst c. contradiction.
    + right; right; right. destruct X as (F & Mr). split; [exact F|]. intro V. specialize (Mr V).
      eapply merged_mono; [| |exact Mr]; unfold nw1; simpl; [rewrite P1 | rewrite P3]; apply incl_refl.
Qed.

Lemma MG_set_node d k nd : MG d -> dn_st nd = dn_st (node_of d k) -> dn_task nd = dn_task (node_of d k) ->
  mg_node d nd -> MG (set_node d k nd).
Proof.
  intros M Hs Ht Hn z.
  assert (Hm : stm d (set_node d k nd)).
  { intros x _. unfold st_of. rewrite node_of_set_node. destruct (N.eqb_spec x k) as [E0|]; [subst x|]; auto. }
  rewrite node_of_set_node. destruct (N.eqb z k); (eapply mg_grown; [exact Hm | apply grown_refl | auto]).
Qed.

Lemma MG_wake_one d fin w : MG d -> final d fin ->
  MG (wake_one d fin (dt (dn_task (node_of d fin))) (st_of d fin) w).
Proof.
  intros M Hf. unfold wake_one.
  set (nw2 := wake_node (node_of d w) fin (dt (dn_task (node_of d fin))) (st_of d fin)).
  assert (M1 : MG (set_node d w nw2)).
  { apply MG_set_node; auto; [apply wake_node_st' | apply wake_node_task | apply mg_wake_node; auto]. }
  destruct (_ && _); [|exact M1].
  intro z. eapply mg_grown; [|apply grown_refl | exact (M1 z)]. intros x _. auto.
Qed.

Lemma MG_wake l : forall d fin, MG d -> final d fin ->
  MG (wake d fin (dt (dn_task (node_of d fin))) (st_of d fin) l).
Proof.
  induction l as [|w r IH]; intros d fin M Hf; cbn [wake]; [exact M|].
  pose proof (MG_wake_one d fin w M Hf) as M1.
  pose proof (bk_wake_one d fin (dt (dn_task (node_of d fin))) (st_of d fin) w) as B.
  set (d1 := wake_one d fin (dt (dn_task (node_of d fin))) (st_of d fin) w) in *.
  assert (E1 : st_of d1 fin = st_of d fin) by apply (bk_st _ _ B).
  assert (E2 : dn_task (node_of d1 fin) = dn_task (node_of d fin)) by apply (k_task _ _ (bk_keep _ _ B)).
  assert (Hf1 : final d1 fin) by (unfold final; rewrite E1; exact Hf).
  specialize (IH d1 fin M1 Hf1). rewrite E1, E2 in IH. exact IH.
Qed.

Lemma MG_update_waiting wr d p : MG d -> AC d -> (forall k, p = Some k -> st_of d k <> SNone) -> MG (update_waiting wr d p).
Proof.
  intros M I Hp. destruct p as [p|]; cbn [update_waiting]; [|exact M].
  specialize (Hp p eq_refl). rewrite (ok_wsel _ _ (I p)).
  destruct (dn_st (node_of d p)) eqn:Es; try exact M;
    try (assert (Hf : final d p) by (unfold final, st_of; rewrite Es; reflexivity);
         pose proof (MG_wake (wake_order wr p (dn_wme (node_of d p))) d p M Hf) as S; unfold st_of in S; rewrite Es in S; exact S).
  exfalso. apply Hp. exact Es.
Qed.

Lemma MG_gen_node d pa c : MG d -> MG (snd (gen_node d pa c)).
Proof.
  intro M. unfold gen_node. destruct (q_nodes d c) eqn:E.
  - destruct pa as [a|]; [destruct (mem c a)|]; exact M.
  - simpl. apply MG_set_node; auto; try (unfold node_of; rewrite E; reflexivity). apply new_node_mg.
Qed.

Lemma MG_same d d' : (forall k, node_of d' k = node_of d k) -> MG d -> MG d'.
Proof.
  intros Hn M z. rewrite Hn. eapply mg_grown; [|apply grown_refl | apply M].
  intros x _. unfold st_of. rewrite Hn. auto.
Qed.

(* ---------- the loader branch ---------- *)
Lemma MG_load_reset v keys creators d me T d' : load_branch v keys creators d me T = LReset d' ->
  MG d -> st_of d me = SNone -> MG d'.
Proof.
  intros H M Hs. destruct (load_branch_reset _ _ _ _ _ _ _ H) as [d5 [Eq Nd Rx Ld RT Tab Me Tr Mk]]. subst d'.
  assert (Hm : stm d (set_node d5 me (nd_reset (node_of d5 me) (tab_get d5 me)))).
  { intros x Hf. assert (Hx : x <> me) by (intro; subst x; unfold final in Hf; rewrite Hs in Hf; discriminate).
    unfold st_of. rewrite node_of_set_other by auto.
    assert (Ex : q_nodes d x <> None).
    { intro E. unfold final, st_of, node_of in Hf. rewrite E in Hf. discriminate. }
    unfold node_of. rewrite Nd. destruct (q_nodes d x); [auto | contradiction]. }
  intro z. rewrite node_of_set_node. destruct (N.eqb z me).
  - intros c Hc. left. exact Hc.
  - assert (E : node_of d5 z = node_of d z \/ exists t, node_of d5 z = new_node [] z t).
    { unfold node_of. rewrite Nd. destruct (q_nodes d z); [left; reflexivity | right; eexists; reflexivity]. }
    destruct E as [->|[t ->]]; [|apply new_node_mg].
    eapply mg_grown; [exact Hm | apply grown_refl | apply M].
Qed.

(* ---------- one step of a node's generator ---------- *)
Lemma mg_node_pc d nd p : mg_node d nd ->
  (forall c, In c (d_inflight_calc (dn_pc nd)) -> In c (d_inflight_calc p) \/ In c (dn_wcalc nd) \/ mrgd d nd c) ->
  mg_node d (nd_pc nd p).
Proof.
  intros M H c Hc. simpl in *. destruct (M c Hc) as [X|[X|[X|X]]]; auto.
  destruct (H c X) as [Y|[Y|Y]]; auto.
Qed.

Lemma walk_inflight_calc p c p' : walk_of p = Some (c, p') -> d_inflight_calc p' = d_inflight_calc p.
Proof. destruct p as [| |[|? ?] ? ?|[|? ?] ?| | | |[|? ?]| |]; simpl; intro H; inversion H; subst; reflexivity. Qed.

Section CalcStep.
Variable v : variant.
Variable keys : list name.
Variable creators : N -> name -> list (name * dtask).
Variable wake_rank : name -> name -> N.
Variable calc_rank : name -> N.

Lemma gstep_MG m me d oy d' : m_sel m = None -> run_inv d m -> MG d ->
  gstep v keys creators calc_rank me d oy d' ->
  match oy with Some YInvalidTask | Some (YNotFound _) | Some YKeyError => True | _ => MG d' end.
Proof.
  intros Hsel RI M G.
  pose proof (rs_ps _ _ RI me) as Pm. unfold ps_node in Pm. destruct Pm as (PE & _).
  assert (Pc : forall d1 p, MG d1 ->
     (forall c, In c (d_inflight_calc (dn_pc (node_of d1 me))) -> In c (d_inflight_calc p) \/ In c (dn_wcalc (node_of d1 me)) \/ mrgd d1 (node_of d1 me) c) ->
     MG (set_pc d1 me p)).
  { intros d1 p M1 H. unfold set_pc. apply MG_set_node; auto. apply mg_node_pc; auto. }
  assert (Same : forall d1 p, MG d1 -> d_inflight_calc (dn_pc (node_of d1 me)) = [] -> MG (set_pc d1 me p)).
  { intros d1 p M1 H. apply Pc; auto. rewrite H. intros c []. }
  assert (Aw : forall l, dn_pc (node_of (add_wait_run d me l false) me) = dn_pc (node_of d me)).
  { intro l. apply (bk_pc _ _ (bk_add_wait_run l d me false)). }
  destruct G; cbn [d_inflight_calc].
  - apply Same; auto. rewrite H. reflexivity.
  - apply Same; auto. rewrite H. reflexivity.
  - (* loop *)
    apply MG_set_node; auto. intros c Hc. simpl in Hc. destruct (M me c Hc) as [X|[X|[X|X]]].
    + right; left. simpl. apply sort_by_In'. exact X.
    + rewrite H in X. destruct X.
    + right; right; left. exact X.
    + right; right; right. exact X.
  - (* calc_nil *)
    destruct (MG_add_wait_run calcs d me true M) as [M1 X1].
    apply Pc; auto. rewrite (bk_pc _ _ (bk_add_wait_run calcs d me true)), H. simpl. intros c Hc. right. apply X1; auto.
  - exact M.
  - (* walk_new *)
    assert (E1 : d1 = snd (gen_node d (Some (dn_anc (node_of d me))) c)) by (rewrite H0; reflexivity).
    apply Pc; [rewrite E1; apply MG_gen_node; exact M|].
    rewrite E1, (bk_pc _ _ (bk_gen_node d (Some (dn_anc (node_of d me))) c)). rewrite (walk_inflight_calc _ _ _ H). auto.
  - (* walk_old *)
    assert (E1 : d1 = snd (gen_node d (Some (dn_anc (node_of d me))) c)) by (rewrite H0; reflexivity).
    apply Pc; [rewrite E1; apply MG_gen_node; exact M|].
    rewrite E1, (bk_pc _ _ (bk_gen_node d (Some (dn_anc (node_of d me))) c)). rewrite (walk_inflight_calc _ _ _ H). auto.
  - apply Same; [apply MG_add_wait_run; exact M | unfold d1; rewrite Aw, H; reflexivity].
  - apply Same; [apply MG_add_wait_run; exact M | unfold d1; rewrite Aw, H; reflexivity].
  - (* reset *)
    eapply MG_load_reset; eauto; [apply MG_add_wait_run; exact M|].
    unfold d1, st_of. rewrite (bk_st _ _ (bk_add_wait_run tks d me false)). apply PE. rewrite H. reflexivity.
  - destruct l; try discriminate; exact I.
  - apply Same; [apply MG_add_wait_run; exact M | unfold d1; rewrite Aw, H; reflexivity].
  - apply Same; auto. rewrite H. reflexivity.
  - apply Same; auto. rewrite H. reflexivity.
  - (* after_none *)
    apply MG_set_node; auto. intros c Hc. simpl in Hc. destruct (M me c Hc) as [X|[X|[X|X]]].
    + left. exact X.
    + rewrite H in X. destruct X.
    + right; right; left. exact X.
    + right; right; right. exact X.
  - apply Same; auto. rewrite H. reflexivity.
  - apply Same; auto. rewrite H. reflexivity.
  - apply Same; auto. rewrite H. reflexivity.
  - apply Same; [apply MG_add_wait_run; exact M | unfold d1; rewrite Aw, H; reflexivity].
  - apply Same; [apply MG_add_wait_run; exact M | unfold d1; rewrite Aw, H; reflexivity].
  - apply Same; auto. rewrite H. reflexivity.
  - exact M.
Qed.
End CalcStep.

(* ---------- the trace: what the calc_dep tasks of an executed task returned was reported good before ---------- *)
Definition returned (ct : task) : list name := t_calc_new_task ct ++ t_calc_new_impl ct ++ t_calc_new_calc ct.
Definition cx_ok (d : dst) : Prop :=
  forall pre k post, q_tr d = pre ++ Ev (EExecute k) :: post ->
  forall c x, In c (dn_ac (node_of d k)) -> In x (returned (dt (dn_task (node_of d c)))) -> good_in x pre.

Record J3 (d : dst) (m : mon) : Prop := { j3_j2 : J2 d m; j3_mg : MG d; j3_cx : cx_ok d }.
Definition W3 (d : dst) : Prop := W2 d /\ cx_ok d.
Lemma J3_W3 d m : J3 d m -> W3 d.
Proof. intros [A B C]. split; [eapply J2_W2; eauto | exact C]. Qed.

Lemma good_in_n_fin x l : good_in x l -> (1 <= n_fin x l)%nat.
Proof.
  unfold good_in. intro H. apply existsb_exists in H. destruct H as (e & He & Hg).
  eapply n_fin_pos; eauto. apply good_final_of. exact Hg.
Qed.

Lemma cx_ok_step d d' m es : run_inv d m -> ex_ok d -> cx_ok d -> q_tr d' = q_tr d ++ es -> (forall k, n_exec k es = 0%nat) ->
  dframe d d' -> cx_ok d'.
Proof.
  intros RI E C Et Hn F pre k post Hsplit c x Hc Hx. rewrite Et in Hsplit.
  destruct (app_split_mid _ _ _ _ _ (eq_sym Hsplit)) as (post0 & E1 & E2).
  { intro Hin. apply n_exec_pos in Hin. rewrite (Hn k) in Hin. lia. }
  assert (Hs : st_of d k <> SNone).
  { intro Hs. pose proof (rs_none _ _ RI k Hs) as Z. rewrite E1, n_exec_app in Z. unfold n_exec at 2 in Z. simpl in Z.
    rewrite N.eqb_refl in Z. simpl in Z. lia. }
  destruct (F k Hs) as (_ & Eac & _). rewrite Eac in Hc.
  assert (Gc : good_in c pre).
  { apply (E pre k post0 E1 c). unfold deps_of. apply in_app_iff. right. apply in_app_iff. left. exact Hc. }
  assert (Hsc : st_of d c <> SNone).
  { intro Hsc. assert (U : unfinished (st_of d c) = true) by (rewrite Hsc; reflexivity).
    pose proof (rs_fin0 _ _ RI c U) as Z. rewrite E1, n_fin_app in Z. apply good_in_n_fin in Gc. lia. }
  destruct (F c Hsc) as (_ & _ & Etc). rewrite Etc in Hx. eapply C; eauto.
Qed.

Lemma started_settled d m k : run_inv d m -> st_of d k <> SNone -> settled (node_of d k).
Proof.
  intros RI Hs. pose proof (rs_ps _ _ RI k) as Pk. unfold ps_node in Pk. destruct Pk as (PE & _).
  split.
  - destruct (dn_pc (node_of d k)); simpl in *; auto; exfalso; apply Hs; apply PE; reflexivity.
  - intros [_ X]. apply Hs. exact X.
Qed.

Lemma late_no_inflight_calc p : d_late p = true -> d_inflight_calc p = [].
Proof. destruct p; simpl; auto; discriminate. Qed.

Lemma mg_node_st d nd s : mg_node d nd -> mg_node d (nd_st nd s).
Proof. intros M c Hc. exact (M c Hc). Qed.

Lemma MG_reff d k s es d' : reff d k s es d' -> unfinished (st_of d k) = true -> MG d -> MG d'.
Proof.
  intros R U M z.
  assert (Hm : stm d d').
  { intros x Hf. assert (Hx : x <> k) by (intro; subst x; unfold final in Hf; rewrite U in Hf; discriminate).
    unfold st_of. rewrite (re_node _ _ _ _ _ R x). rewrite (proj2 (N.eqb_neq _ _) Hx). auto. }
  rewrite (re_node _ _ _ _ _ R z). destruct (N.eqb z k).
  - apply mg_node_st. eapply mg_grown; [exact Hm | apply grown_refl | apply M].
  - eapply mg_grown; [exact Hm | apply grown_refl | apply M].
Qed.

Section CalcDisp.
Variable v : variant.
Variable keys : list name.
Variable creators : N -> name -> list (name * dtask).
Variable wake_rank : name -> name -> N.
Variable calc_rank : name -> N.
Variable continue_ always : bool.

Definition xq (y : gyield) (d' : dst) : Prop :=
  match y with YInvalidTask | YNotFound _ | YKeyError => cx_ok d' | _ => MG d' /\ cx_ok d' end.

Lemma gstep_J3 m me d oy d' : m_sel m = None -> J3 d m -> q_cur d = Some me ->
  gstep v keys creators calc_rank me d oy d' ->
  match oy with None => MG d' /\ cx_ok d' | Some y => xq y d' end.
Proof.
  intros Hsel [I2 M C] Hc G. pose proof I2 as [RI I Q T E].
  pose proof (gstep_MG v keys creators calc_rank m me d oy d' Hsel RI M G) as G1.
  pose proof (gstep_dep v keys creators calc_rank m me d oy d' Hsel RI I Q Hc G) as G2.
  destruct (gstep_tr v keys creators calc_rank me d oy d' G) as ((es & Et & Hn) & St).
  assert (Cx : dframe d d' -> cx_ok d').
  { intro F. apply (cx_ok_step d d' m es); auto. intro k0. apply (Hn k0). }
  destruct oy as [y|]; [|split; [exact G1 | apply Cx; apply G2]].
  destruct y; cbn [xq]; try (split; [exact G1 | apply Cx; apply G2]); try (apply Cx; exact G2).
Qed.

Lemma gen_step_J3 m me f d : m_sel m = None -> J3 d m -> q_cur d = Some me ->
  gq2 m me (fst (gen_step v keys creators calc_rank f d me)) (snd (gen_step v keys creators calc_rank f d me)) /\
  xq (fst (gen_step v keys creators calc_rank f d me)) (snd (gen_step v keys creators calc_rank f d me)).
Proof.
  intros Hs I Hc.
  apply (gen_step_ind v keys creators calc_rank (fun d => J3 d m /\ q_cur d = Some me)
           (fun y d' => gq2 m me y d' /\ xq y d') me); auto.
  - intros d0 d' [I0 C0] G.
    destruct (gstep_J2 v keys creators wake_rank calc_rank m me d0 None d' Hs (j3_j2 _ _ I0) C0 G) as [A B].
    destruct (gstep_J3 m me d0 None d' Hs I0 C0 G) as [M X]. split; [constructor; auto | exact B].
  - intros d0 y d' [I0 C0] G. split.
    + exact (gstep_J2 v keys creators wake_rank calc_rank m me d0 (Some y) d' Hs (j3_j2 _ _ I0) C0 G).
    + exact (gstep_J3 m me d0 (Some y) d' Hs I0 C0 G).
  - intros d0 [I0 C0]. cbn [gq2 xq]. destruct I0 as [A B C]. auto.
Qed.

Lemma cx_ok_same d d' : (forall k, node_of d' k = node_of d k) -> q_tr d' = q_tr d -> cx_ok d -> cx_ok d'.
Proof.
  intros Hn Ht C pre k post Hs c x Hc Hx. rewrite Ht in Hs. rewrite Hn in Hc, Hx. eapply C; eauto.
Qed.

Lemma next_from_torun_MG l : forall d, MG d -> cx_ok d ->
  MG (snd (next_from_torun d l)) /\ cx_ok (snd (next_from_torun d l)) .
Proof.
  induction l as [|y r IH]; intros d M C; cbn [next_from_torun].
  - split; [apply (MG_same d) | apply (cx_ok_same d)]; auto.
  - pose proof (MG_gen_node d None y M) as M1.
    assert (C1 : cx_ok (snd (gen_node d None y))).
    { pose proof (bk_gen_node d None y) as B. intros pre k post Hs c x Hc Hx.
      rewrite (k_tr _ _ (bk_keep _ _ B)) in Hs. rewrite (k_task _ _ (bk_keep _ _ B)) in Hx.
      assert (Eac : dn_ac (node_of (snd (gen_node d None y)) k) = dn_ac (node_of d k)).
      { unfold gen_node. destruct (q_nodes d y) eqn:E; [reflexivity|]. simpl. rewrite node_of_set_node.
        destruct (N.eqb_spec k y) as [E0|]; [subst k|reflexivity]. unfold node_of. rewrite E. reflexivity. }
      rewrite Eac in Hc. eapply C; eauto. }
    destruct (gen_node d None y) as [g d1]. cbn [fst snd] in *.
    destruct g; try (apply IH; auto). simpl. split; [apply (MG_same d1) | apply (cx_ok_same d1)]; auto.
Qed.

Definition dq3 (m : mon) (y : dyield) (d' : dst) : Prop :=
  match y with
  | DTask k => J3 d' (set_sel m (Some k))
  | DInvalidTask | DNotFound _ | DKeyError => W3 d'
  | _ => J3 d' m end.

Lemma disp_run_J3 m fuel d : m_sel m = None -> J3 d m ->
  dq3 m (fst (disp_run v keys creators calc_rank fuel d)) (snd (disp_run v keys creators calc_rank fuel d)).
Proof.
  intros Hs I.
  apply (disp_run_ind v keys creators calc_rank (fun d => J3 d m) (dq3 m)); auto.
  - intros d0 x r [A B C] Hc Hr. constructor; [apply J2_take_ready; auto | apply (MG_same d0); auto | apply (cx_ok_same d0); auto].
  - intros d0 [A B C] Hc Hr.
    pose proof (next_from_torun_J2 m (q_torun d0) d0 A Hc Hr) as H.
    destruct (next_from_torun_MG (q_torun d0) d0 B C) as [M1 C1].
    destruct (next_from_torun d0 (q_torun d0)) as [[x|] d1]; cbn [snd] in *.
    + constructor; [exact H | apply (MG_same d1); auto | apply (cx_ok_same d1); auto].
    + destruct (is_nil (q_waiting d1)); constructor; auto.
  - intros d0 me f I0 Hc. cbv zeta. destruct (gen_step_J3 m me f d0 Hs I0 Hc) as [G X].
    apply J2_after_yield in G.
    destruct (gen_step v keys creators calc_rank f d0 me) as [y d1]. cbn [fst snd] in *.
    destruct y; cbn [after_yield xq dq3] in *; try (split; [exact G | exact X]);
      destruct X as [M1 C1]; constructor; auto;
      try (apply (MG_same d1); auto); try (apply (cx_ok_same d1); auto).
Qed.

Lemma cx_ok_bk d d' m : J2 d m -> cx_ok d -> bk d d' -> dframe d d' -> cx_ok d'.
Proof.
  intros [RI _ _ _ E] C B F. apply (cx_ok_step d d' m []); auto. rewrite app_nil_r. apply (k_tr _ _ (bk_keep _ _ B)).
Qed.

Lemma disp_send_J3 m fuel d p : m_sel m = None -> J3 d m -> sent_ok d p = true ->
  dq3 m (fst (disp_send v keys creators wake_rank calc_rank fuel d p)) (snd (disp_send v keys creators wake_rank calc_rank fuel d p)).
Proof.
  intros Hs [A B C] Hp. unfold disp_send. apply disp_run_J3; auto.
  assert (Hk : forall k, p = Some k -> st_of d k <> SNone).
  { intros k ->. unfold sent_ok in Hp. intro X. rewrite X in Hp. discriminate. }
  constructor.
  - apply (update_waiting_J2 wake_rank); auto.
  - apply MG_update_waiting; auto. apply (j_ac _ _ A).
  - destruct (update_waiting_spec wake_rank d p (j_ac _ _ A) (j_q _ _ A) Hk) as [Bk _ _ _ Dp _].
    eapply cx_ok_bk; eauto. intros k Hs'. apply Dp. apply early_late.
    destruct (d_early (dn_pc (node_of d k))) eqn:E; auto.
    exfalso. apply Hs'. pose proof (rs_ps _ _ (j_run _ _ A) k) as Pk. unfold ps_node in Pk. destruct Pk as (PE & _). apply PE. exact E.
Qed.
End CalcDisp.

(* ---------- the runner's calls ---------- *)
Lemma cx_ok_reff d m k s es d' : J2 d m -> cx_ok d -> reff d k s es d' -> unfinished (st_of d k) = true ->
  (forall x, n_exec x (map Ev es) = 0%nat) -> cx_ok d'.
Proof.
  intros [RI _ _ _ E] C R U Hn. apply (cx_ok_step d d' m (map Ev es)); auto; [apply R|].
  intros z _. rewrite (re_node _ _ _ _ _ R z). destruct (N.eqb_spec z k) as [E0|]; [subst z|]; auto.
Qed.

Lemma J3_exec d k m : J3 d m -> In k (m_torun m) ->
  J3 (emitd d [Ev (EExecute k)]) {| m_sel := m_sel m; m_torun := rem k (m_torun m); m_running := k :: m_running m |}.
Proof.
  intros [I2 M C] Hk. constructor.
  - apply J2_exec; auto.
  - apply (MG_same d); auto.
  - pose proof I2 as [RI I Q T E].
    intros pre k0 post Hs c x Hc Hx. simpl in Hs.
    change (node_of (emitd d [Ev (EExecute k)]) k0) with (node_of d k0) in Hc.
    change (node_of (emitd d [Ev (EExecute k)]) c) with (node_of d c) in Hx.
    destruct (@exists_last _ (Ev (EExecute k0) :: post)) as (q & z & Hq); [discriminate|].
    rewrite Hq, app_assoc in Hs. apply app_inj_tail in Hs. destruct Hs as [E1 E2]. subst z.
    destruct q as [|a q].
    + simpl in Hq. injection Hq as Ek Ep. subst k0 post. rewrite app_nil_r in E1. subst pre.
      destruct (rs_torun _ _ RI _ Hk) as [Sk _].
      assert (Hs : st_of d k <> SNone) by (rewrite Sk; discriminate).
      pose proof (started_settled d m k RI Hs) as St.
      destruct (ok_late _ _ (I k) St) as (p1 & p2 & _). pose proof (ok_wc _ _ (I k) (proj1 St)) as p3.
      assert (Gc : is_good (st_of d c) = true).
      { apply (T k Hk). unfold deps_of. apply in_app_iff. right. apply in_app_iff. left. exact Hc. }
      destruct (M k c Hc) as [X|[X|[X|X]]].
      * rewrite p2 in X. destruct X.
      * rewrite (late_no_inflight_calc _ (proj1 St)) in X. destruct X.
      * rewrite p3 in X. destruct X.
      * destruct X as (_ & Mr).
        assert (V : calc_values_visible (st_of d c) = true) by (destruct (st_of d c); simpl in *; auto; discriminate).
        destruct (Mr V) as (m1 & m2 & m3).
        apply (rs_good _ _ RI). apply (T k Hk). unfold deps_of, returned in *. rewrite !in_app_iff in *.
        destruct Hx as [Hx|[Hx|Hx]]; [left; apply m1; exact Hx | left; apply m2; exact Hx | right; left; apply m3; exact Hx].
    + simpl in Hq. inversion Hq; subst. eapply C; eauto.
Qed.

Lemma J3_emitd d m es : J3 d m -> neutral es -> J3 (emitd d es) m.
Proof.
  intros [I2 M C] Hn. constructor.
  - apply J2_emitd; auto.
  - apply (MG_same d); auto.
  - destruct I2 as [RI _ _ _ E]. apply (cx_ok_step d (emitd d es) m es); auto; [intro k; apply (Hn k) | intros k _; auto].
Qed.

Lemma W3_emitd d es : W3 d -> neutral es -> W3 (emitd d es).
Proof.
  intros [W C] Hn. split; [apply W2_emitd; auto|].
  intros pre k post Hs c x Hc Hx. simpl in Hs.
  change (node_of (emitd d es) k) with (node_of d k) in Hc. change (node_of (emitd d es) c) with (node_of d c) in Hx.
  destruct (app_split_mid _ _ _ _ _ (eq_sym Hs)) as (post0 & E1 & E2).
  { intro Hin. apply n_exec_pos in Hin. destruct (Hn k) as [X _]. lia. }
  eapply C; eauto.
Qed.

Section CalcRun.
Variable v : variant.
Variable keys : list name.
Variable creators : N -> name -> list (name * dtask).
Variable wake_rank : name -> name -> N.
Variable calc_rank : name -> N.
Variable continue_ always : bool.

Lemma J3_select_task r k m : J3 (r_d r) m -> m_sel m = Some k ->
  J3 (r_d (snd (select_task continue_ always r k)))
     {| m_sel := None; m_torun := if fst (select_task continue_ always r k) then k :: m_torun m else m_torun m; m_running := m_running m |} /\
  st_of (r_d (snd (select_task continue_ always r k))) k <> SNone.
Proof.
  intros [I2 M C] Hsel. destruct (J2_select_task continue_ always r k m I2 Hsel) as [I2' Hst]. split; [|exact Hst].
  destruct (select_task_out continue_ always r k) as (s & es & Ho & R).
  pose proof (rs_ps _ _ (j_run _ _ I2) k) as Pk. unfold ps_node in Pk.
  destruct Pk as (_ & _ & _ & _ & PS & _). rewrite (proj2 (sel_is_true m k) Hsel) in PS. specialize (PS eq_refl).
  assert (U : unfinished (st_of (r_d r) k) = true) by (unfold st_of; destruct PS as [[_ ->]|(_ & -> & _)]; reflexivity).
  destruct (sel_out_about _ _ _ _ _ Ho U) as [(Ax & _) _].
  constructor.
  - exact I2'.
  - apply (MG_reff (r_d r) k s es); auto.
  - apply (cx_ok_reff (r_d r) m k s es); auto.
Qed.

Lemma J3_process_result r k m : J3 (r_d r) m -> In k (m_running m) ->
  J3 (r_d (process_result continue_ r k)) {| m_sel := m_sel m; m_torun := m_torun m; m_running := rem k (m_running m) |} /\
  st_of (r_d (process_result continue_ r k)) k <> SNone.
Proof.
  intros [I2 M C] Hk. destruct (J2_process_result continue_ r k m I2 Hk) as [I2' Hst]. split; [|exact Hst].
  destruct (rs_running _ _ (j_run _ _ I2) k Hk) as [Sk _].
  destruct (process_result_out continue_ r k) as [Eq|(s & es & R & Us & (Ax & _))].
  - constructor; auto; rewrite Eq; auto.
  - assert (U : unfinished (st_of (r_d r) k) = true) by (rewrite Sk; reflexivity).
    constructor.
    + exact I2'.
    + apply (MG_reff (r_d r) k s es); auto.
    + apply (cx_ok_reff (r_d r) m k s es); auto.
Qed.

Lemma J3_send m fuel d p : m_sel m = None -> J3 d m -> sent_ok d p = true ->
  match fst (disp_send v keys creators wake_rank calc_rank fuel d p) with
  | DTask k => J3 (snd (disp_send v keys creators wake_rank calc_rank fuel d p)) (set_sel m (Some k))
  | DInvalidTask | DNotFound _ | DKeyError => W3 (snd (disp_send v keys creators wake_rank calc_rank fuel d p))
  | _ => J3 (snd (disp_send v keys creators wake_rank calc_rank fuel d p)) m end.
Proof. intros Hs I Hp. exact (disp_send_J3 v keys creators wake_rank calc_rank m fuel d p Hs I Hp). Qed.

Lemma J3_init d : (forall k, q_nodes d k = None) -> q_tr d = [] -> fresh_queues d -> J3 d mon0.
Proof.
  intros Hn Ht Hq. constructor.
  - apply J2_init; auto.
  - intro k. unfold node_of. rewrite Hn. apply new_node_mg.
  - intros pre k post H. rewrite Ht in H. destruct pre; discriminate.
Qed.

Lemma cx_ok_marker d s pre k post c x : cx_ok d -> q_tr d ++ stop_marker s = pre ++ Ev (EExecute k) :: post ->
  In c (dn_ac (node_of d k)) -> In x (returned (dt (dn_task (node_of d c)))) -> good_in x pre.
Proof.
  intros C Hs Hc Hx. destruct (app_split_mid _ _ _ _ _ (eq_sym Hs)) as (post0 & E1 & E2).
  { intro Hin. apply n_exec_pos in Hin. destruct (neutral_stop_marker s k) as [X _]. lia. }
  eapply C; eauto.
Qed.

(* whatever a calc_dep task of k returned -- task_dep, producers of file_dep, further calc_dep -- was reported good before the
   actions of k started ([node_after_serial .. c]: the node of the calc_dep task c as the run leaves it) *)
Theorem serial_calc_returned_first fuel d0 : init_ok d0 -> fresh_queues d0 ->
  forall pre k post c x,
    fst (run_serial v keys creators wake_rank calc_rank continue_ always fuel d0) = pre ++ Ev (EExecute k) :: post ->
    In c (dn_ac (node_after_serial v keys creators wake_rank calc_rank continue_ always fuel d0 k)) ->
    In x (returned (dt (dn_task (node_after_serial v keys creators wake_rank calc_rank continue_ always fuel d0 c)))) ->
    good_in x pre.
Proof.
  intros [Hn Ht _ _] Hq pre k post c x.
  pose proof (serial_generic v keys creators wake_rank calc_rank continue_ always J3 W3 J3_W3
                J3_send J3_select_task J3_exec J3_process_result W3_emitd
                fuel (r_init d0) None (J3_init d0 Hn Ht Hq)) as H.
  unfold run_serial, node_after_serial.
  destruct (serial v keys creators wake_rank calc_rank continue_ always fuel (r_init d0) None) as [r s].
  cbn [fst snd] in *. destruct H as [_ C]; [intros k0 Hk; discriminate|].
  intros Hs Hc Hx. eapply cx_ok_marker; eauto.
Qed.

Theorem script_calc_returned_first fuel ops d0 : init_ok d0 -> fresh_queues d0 ->
  wf_script v keys creators wake_rank calc_rank continue_ always fuel ops d0 = true ->
  forall pre k post c x,
    fst (run_script v keys creators wake_rank calc_rank continue_ always fuel ops d0) = pre ++ Ev (EExecute k) :: post ->
    In c (dn_ac (node_after_script v keys creators wake_rank calc_rank continue_ always fuel ops d0 k)) ->
    In x (returned (dt (dn_task (node_after_script v keys creators wake_rank calc_rank continue_ always fuel ops d0 c)))) ->
    good_in x pre.
Proof.
  intros [Hn Ht _ _] Hq Hwf pre k post c x.
  pose proof (script_generic v keys creators wake_rank calc_rank continue_ always J3 W3 J3_W3
                J3_send J3_select_task J3_exec J3_process_result J3_emitd W3_emitd
                fuel ops d0 (J3_init d0 Hn Ht Hq) Hwf) as H.
  unfold run_script, node_after_script.
  destruct (run_ops v keys creators wake_rank calc_rank continue_ always fuel ops (r_init d0)) as [r s].
  cbn [fst snd] in *. destruct H as [_ C].
  intros Hs Hc Hx. eapply cx_ok_marker; eauto.
Qed.
End CalcRun.
