(* ApiSelectP.v -- proofs about Model/ApiSelect.v (selection through doit.api.run_tasks) *)
From DoitV Require Import Base Select SelectP ApiSelect.
Open Scope N_scope.

(* ---------- the dict ---------- *)
Lemma api_get_In o k v : api_get o k = Some v -> In (k, v) o.
Proof.
  induction o as [|[k' v'] r IH]; simpl; [discriminate|].
  destruct (k' =? k) eqn:E.
  - apply N.eqb_eq in E. subst. intros H; inversion H; auto.
  - auto.
Qed.

Lemma api_get_NoDup o k v : NoDup (api_keys o) -> In (k, v) o -> api_get o k = Some v.
Proof.
  induction o as [|[k' v'] r IH]; simpl; [contradiction|].
  intros Hnd [H|H].
  - inversion H; subst. rewrite N.eqb_refl. reflexivity.
  - inversion Hnd; subst. destruct (k' =? k) eqn:E.
    + apply N.eqb_eq in E. subst. exfalso. apply H2. unfold api_keys. apply in_map_iff. exists (k, v). auto.
    + auto.
Qed.

(* the truthiness of a positional value given through the dict *)
Definition aval_erase (v : aval) : aval := match v with AVal _ => AVal false | _ => v end.
Definition api_erase (o : api_sel) : api_sel := map (fun kv => (fst kv, aval_erase (snd kv))) o.

Lemma api_keys_erase o : api_keys (api_erase o) = api_keys o.
Proof. unfold api_keys, api_erase. rewrite map_map. reflexivity. Qed.

Lemma api_get_erase o k : api_get (api_erase o) k = option_map aval_erase (api_get o k).
Proof.
  induction o as [|[k' v'] r IH]; simpl; [reflexivity|]. destruct (k' =? k); auto.
Qed.

Lemma api_given_erase v : api_given (aval_erase v) = api_given v.
Proof. destruct v; reflexivity. Qed.
Lemma api_nodict_erase v : api_nodict (aval_erase v) = api_nodict v.
Proof. destruct v; reflexivity. Qed.

Lemma api_posset_erase tb o : api_posset tb (api_erase o) = api_posset tb o.
Proof.
  unfold api_posset. f_equal. apply filter_ext. intros [n t]. simpl. rewrite api_get_erase.
  destruct (api_get o n); simpl; [rewrite api_given_erase|]; reflexivity.
Qed.

Lemma api_type_error_erase tb o : api_type_error tb (api_erase o) = api_type_error tb o.
Proof.
  unfold api_type_error. induction tb as [|[n t] r IH]; simpl; [reflexivity|]. rewrite IH. f_equal.
  rewrite api_get_erase. destruct (api_get o n); simpl; [rewrite api_nodict_erase|]; reflexivity.
Qed.

Lemma api_posset_In tb o k :
  In k (api_posset tb o) <-> exists t v, In (k, t) tb /\ s_pos_arg t = true /\ api_get o k = Some v /\ api_given v = true.
Proof.
  unfold api_posset. rewrite in_map_iff. split.
  - intros ([n t] & <- & H). apply filter_In in H. destruct H as [Hin H]. simpl in *.
    apply andb_true_iff in H. destruct H as [Hp Hg]. destruct (api_get o n) as [v|] eqn:E; [|discriminate].
    exists t, v. auto.
  - intros (t & v & Hin & Hp & Hg & Hv). exists (k, t). split; auto. apply filter_In. split; auto.
    simpl. rewrite Hp, Hg, Hv. reflexivity.
Qed.

Lemma api_type_error_false tb o :
  api_type_error tb o = false <->
  forall k t v, In (k, t) tb -> s_pos_arg t = true -> api_get o k = Some v -> api_nodict v = false.
Proof.
  unfold api_type_error. split.
  - intros H k t v Hin Hp Hg. destruct (api_nodict v) eqn:E; auto.
    assert (X : existsb (fun nt => s_pos_arg (snd nt) && match api_get o (fst nt) with Some v => api_nodict v | None => false end) tb = true).
    { apply existsb_exists. exists (k, t). split; auto. simpl. rewrite Hp, Hg, E. reflexivity. }
    congruence.
  - intros H. destruct (existsb _ tb) eqn:E; auto. apply existsb_exists in E. destruct E as ([k t] & Hin & E). simpl in E.
    apply andb_true_iff in E. destruct E as [Hp E]. destruct (api_get o k) as [v|] eqn:Eg; [|discriminate].
    rewrite (H k t v Hin Hp Eg) in E. discriminate.
Qed.

Section P.
Variable has_star : name -> bool.
Variable matches : name -> name -> bool.
Variable basename_of : name -> name.
Variable re_match : name -> name -> bool.
Variable regex_name : name -> name -> name.
Variable is_regex_name : name -> bool.
Variable is_opt : name -> bool.

Notation process_filter := (Select.process_filter has_star matches is_opt).
Notation name_action := (Select.name_action has_star matches).
Notation get_wild := (Select.get_wild matches).
Notation expand_sel := (Select.expand_sel has_star matches).
Notation filter_list := (Select.filter_list basename_of re_match regex_name is_regex_name).
Notation filter_one := (Select.filter_one basename_of re_match regex_name is_regex_name).
Notation init := (Select.init matches).
Notation api_run_select := (ApiSelect.api_run_select has_star matches basename_of re_match regex_name is_regex_name is_opt).
Notation cli_run_select := (ApiSelect.cli_run_select has_star matches basename_of re_match regex_name is_regex_name is_opt).
Notation init_ok := (SelectP.init_ok has_star matches basename_of re_match regex_name is_regex_name is_opt).
Notation filter_tasks_from := (ApiSelect.filter_tasks_from has_star matches basename_of re_match regex_name is_regex_name is_opt).

(* ---------- _process_filter started with some positional values already set ---------- *)
Lemma mark_glob_posset_mono tb w : forall st x, In x (p_posset st) -> In x (p_posset (mark_glob tb st w)).
Proof.
  induction w as [|y r IH]; intros st x H; simpl; auto.
  apply IH. destruct (lookup tb y) as [t|]; auto. simpl. destruct (s_pos_arg t); auto. apply addset_In. auto.
Qed.

(* a selection on which nothing is an argument of a task: no token looks like an option, and every task
   declaring pos_arg that is named explicitly has its positional values already (it is in P) *)
Definition given_sel (tb : table) (P : list name) (sel : list name) : Prop :=
  Forall (fun f => is_opt f = false /\
                   (has_star f = false -> forall t, lookup tb f = Some t -> s_pos_arg t = true -> In f P)) sel.

Theorem process_filter_given order tb P sel : forall m st,
  (forall x, In x P -> In x (p_posset st)) -> given_sel tb P sel ->
  (m = MName \/ exists o, m = MOpts o false) ->
  exists st', process_filter order tb m st sel = Some (expand_sel order sel, st').
Proof.
  induction sel as [|x r IH]; intros m st HP Hp Hm.
  - exists st. destruct Hm as [->|(o & ->)]; reflexivity.
  - inversion Hp as [|? ? [Ho Hpos] Hr]; subst. rewrite pf_cons_name; auto.
    unfold Select.name_action, Select.expand_sel. cbn [flat_map]. fold (expand_sel order r).
    destruct (has_star x) eqn:Es.
    + destruct (IH MName (mark_glob tb st (get_wild order x))) as (st' & E); auto.
      { intros y Hy. apply mark_glob_posset_mono. auto. }
      rewrite E. eauto.
    + destruct (lookup tb x) as [t|] eqn:El.
      * assert (Hsw : s_pos_arg t && negb (mem x (p_posset st)) = false).
        { destruct (s_pos_arg t) eqn:Ep; auto. simpl.
          assert (Hin : In x (p_posset st)) by (apply HP; eapply Hpos; eauto).
          apply mem_In in Hin. rewrite Hin. reflexivity. }
        rewrite Hsw.
        destruct (mem x (p_inited st)).
        -- destruct (IH MName {| p_inited := addset x (p_inited st); p_posset := p_posset st |}) as (st' & E); auto.
           rewrite E. eauto.
        -- destruct (IH (MOpts (s_opts t) false) {| p_inited := addset x (p_inited st); p_posset := p_posset st |}) as (st' & E); eauto.
           rewrite E. eauto.
      * destruct (IH MName st) as (st' & E); auto. rewrite E. eauto.
Qed.

(* names only (no pattern): the elements themselves, and nobody's positional values change *)
Lemma expand_sel_names order sel : Forall (fun f => has_star f = false) sel -> expand_sel order sel = sel.
Proof.
  induction sel as [|x r IH]; intros H; [reflexivity|]. inversion H; subst.
  unfold Select.expand_sel. cbn [flat_map]. rewrite H2. simpl. f_equal. apply IH. auto.
Qed.

Definition given_names (tb : table) (P : list name) (sel : list name) : Prop :=
  Forall (fun f => is_opt f = false /\ has_star f = false /\
                   (forall t, lookup tb f = Some t -> s_pos_arg t = true -> In f P)) sel.

Lemma process_filter_names order tb sel : forall m st,
  given_names tb (p_posset st) sel -> (m = MName \/ exists o, m = MOpts o false) ->
  exists st', process_filter order tb m st sel = Some (sel, st') /\ p_posset st' = p_posset st.
Proof.
  induction sel as [|x r IH]; intros m st Hp Hm.
  - exists st. split; auto. destruct Hm as [->|(o & ->)]; reflexivity.
  - inversion Hp as [|? ? (Ho & Es & Hpos) Hr]; subst. rewrite pf_cons_name; auto.
    unfold Select.name_action. rewrite Es.
    destruct (lookup tb x) as [t|] eqn:El.
    + assert (Hsw : s_pos_arg t && negb (mem x (p_posset st)) = false).
      { destruct (s_pos_arg t) eqn:Ep; auto. simpl.
        assert (Hin : In x (p_posset st)) by (eapply Hpos; eauto).
        apply mem_In in Hin. rewrite Hin. reflexivity. }
      rewrite Hsw.
      destruct (mem x (p_inited st)).
      * destruct (IH MName {| p_inited := addset x (p_inited st); p_posset := p_posset st |}) as (st' & E & Eq); auto.
        rewrite E. eauto.
      * destruct (IH (MOpts (s_opts t) false) {| p_inited := addset x (p_inited st); p_posset := p_posset st |}) as (st' & E & Eq); eauto.
        rewrite E. eauto.
    + destruct (IH MName st) as (st' & E & Eq); auto. rewrite E. eauto.
Qed.

(* ... up to the first task declaring pos_arg whose positional values are NOT set: what follows are its values *)
Theorem process_filter_cut order tb s1 k t s2 : forall m st,
  given_names tb (p_posset st) s1 -> (m = MName \/ exists o, m = MOpts o false) ->
  is_opt k = false -> has_star k = false -> lookup tb k = Some t -> s_pos_arg t = true -> ~ In k (p_posset st) ->
  Forall (fun x => is_opt x = false) s2 ->
  exists st', process_filter order tb m st (s1 ++ k :: s2) = Some (s1 ++ [k], st').
Proof.
  induction s1 as [|x r IH]; intros m st Hp Hm Hok Hsk Hl Hpk Hn Hs2.
  - cbn [app]. rewrite pf_cons_name; auto. unfold Select.name_action. rewrite Hsk, Hl, Hpk.
    apply mem_false_In in Hn. rewrite Hn. cbn [andb negb].
    destruct (mem k (p_inited st)); [eauto|].
    destruct s2 as [|y s2']; cbn [Select.process_filter]; [eauto|].
    inversion Hs2; subst. rewrite H1. eauto.
  - inversion Hp as [|? ? (Ho & Es & Hpos) Hr]; subst. cbn [app]. rewrite pf_cons_name; auto.
    unfold Select.name_action. rewrite Es.
    destruct (lookup tb x) as [tx|] eqn:El.
    + assert (Hsw : s_pos_arg tx && negb (mem x (p_posset st)) = false).
      { destruct (s_pos_arg tx) eqn:Ep; auto. simpl.
        assert (Hin : In x (p_posset st)) by (eapply Hpos; eauto).
        apply mem_In in Hin. rewrite Hin. reflexivity. }
      rewrite Hsw.
      destruct (mem x (p_inited st)).
      * destruct (IH MName {| p_inited := addset x (p_inited st); p_posset := p_posset st |}) as (st' & E); auto.
        rewrite E. eauto.
      * destruct (IH (MOpts (s_opts tx) false) {| p_inited := addset x (p_inited st); p_posset := p_posset st |}) as (st' & E); eauto.
        rewrite E. eauto.
    + destruct (IH MName st) as (st' & E); auto. rewrite E. eauto.
Qed.

(* ---------- _filter_tasks on task names ---------- *)
Lemma filter_list_names auto tg fl : forall ph tb,
  Forall (fun f => has tb f = true) fl -> filter_list auto tg ph tb fl = inr (ph, tb, fl).
Proof.
  induction fl as [|f r IH]; intros ph tb H; [reflexivity|]. inversion H; subst.
  cbn [Select.filter_list]. unfold Select.filter_one. rewrite H2. rewrite IH; auto.
Qed.

(* TaskControl.__init__ leaves pos_arg alone *)
Lemma init_pos_arg tb c k t :
  init tb = inr c -> lookup tb k = Some t ->
  exists t', lookup (c_tasks c) k = Some t' /\ s_pos_arg t' = s_pos_arg t.
Proof.
  intros Hi Hl. pose proof (init_ok _ _ Hi) as Hs. rewrite (is_task _ _ _ Hs k), Hl. simpl. eexists. split; [reflexivity|]. reflexivity.
Qed.

Lemma init_pos_arg_rev tb c k t' :
  init tb = inr c -> lookup (c_tasks c) k = Some t' ->
  exists t, lookup tb k = Some t /\ s_pos_arg t' = s_pos_arg t.
Proof.
  intros Hi Hl. pose proof (init_ok _ _ Hi) as Hs. rewrite (is_task _ _ _ Hs k) in Hl.
  destruct (lookup tb k) as [t|]; [|discriminate]. simpl in Hl. inversion Hl; subst. exists t. split; reflexivity.
Qed.

(* ---------- run_tasks ---------- *)
(* every key of the dict is the name of a task, and every one of these tasks that declares pos_arg gets
   a positional value through the dict (ANY value but None -- an empty list, an empty string): *)
Definition api_all_given (tb : table) (o : api_sel) : Prop :=
  forall k v, In (k, v) o ->
    is_opt k = false /\ has_star k = false /\
    exists t, lookup tb k = Some t /\ (s_pos_arg t = true -> api_given v = true).

Lemma all_given_no_type_error tb o :
  NoDup (map fst tb) -> api_all_given tb o -> api_type_error tb o = false.
Proof.
  intros Hnd H. apply api_type_error_false. intros k t v Hin Hp Hg. apply api_get_In in Hg.
  destruct (H k v Hg) as (_ & _ & t' & Hl & Hv). rewrite (lookup_NoDup _ _ _ Hnd Hin) in Hl. inversion Hl; subst.
  specialize (Hv Hp). destruct v; simpl in *; congruence.
Qed.

Lemma all_given_names tb c o s :
  init tb = inr c -> NoDup (api_keys o) -> api_all_given tb o -> incl s o ->
  given_names (c_tasks c) (p_posset (api_state tb o)) (api_keys s).
Proof.
  intros Hi Hnd H Hinc. unfold given_names, api_keys. apply Forall_forall. intros f Hf.
  apply in_map_iff in Hf. destruct Hf as ([k v] & <- & Hin). simpl.
  destruct (H k v (Hinc _ Hin)) as (Ho & Es & t & Hl & Hv). split; [|split]; auto.
  intros t' Hl' Hp'. destruct (init_pos_arg_rev _ _ _ _ Hi Hl') as (t0 & Hl0 & Ep). rewrite Hl in Hl0. inversion Hl0; subst.
  simpl. apply api_posset_In. exists t0, v. split; [apply lookup_In; auto|]. split; [congruence|].
  split; [apply api_get_NoDup; auto|]. apply Hv. congruence.
Qed.

Lemma keys_have tb c o :
  init tb = inr c -> api_all_given tb o -> Forall (fun f => has (c_tasks c) f = true) (api_keys o).
Proof.
  intros Hi H. apply Forall_forall. intros f Hf. unfold api_keys in Hf. apply in_map_iff in Hf.
  destruct Hf as ([k v] & <- & Hin). simpl. destruct (H k v Hin) as (_ & _ & t & Hl & _).
  destruct (init_pos_arg _ _ _ _ Hi Hl) as (t' & Hl' & _). unfold has. rewrite Hl'. reflexivity.
Qed.

(* THE SELECTION IS THE LIST OF KEYS: each key once, in the order of the dict, whatever follows a task with
   positional values and whatever these values are *)
Theorem api_selection_is_the_keys auto single o d tb c :
  init tb = inr c -> o <> [] -> NoDup (api_keys o) -> api_all_given tb o ->
  api_run_select auto single o d tb =
  ARes (ROk (if single then single_step (c_tasks c) (api_keys o) else c_tasks c) (c_targets c) (api_keys o)).
Proof.
  intros Hi Hne Hnd H. pose proof (init_ok _ _ Hi) as Hs.
  unfold ApiSelect.api_run_select. rewrite (all_given_no_type_error _ _ (is_nodup _ _ _ Hs) H), Hi.
  assert (Es : sel_tasks (api_keys o) d = Some (api_keys o)).
  { apply sel_tasks_args. destruct o; [congruence|discriminate]. }
  rewrite Es. unfold ApiSelect.filter_tasks_from.
  destruct (process_filter_names (c_order c) (c_tasks c) (api_keys o) MName (api_state tb o)) as (st' & E & _); auto.
  { eapply all_given_names; eauto. apply incl_refl. }
  rewrite E, filter_list_names; [reflexivity|]. eapply keys_have; eauto.
Qed.

(* the documented rule for a task with pos_arg that gets NO value through the dict (parameter absent, or
   None): the keys after it are its positional values; the selection is the keys up to and including it *)
Theorem api_selection_cut auto single o1 k v o2 d tb c t :
  init tb = inr c -> NoDup (api_keys (o1 ++ (k, v) :: o2)) -> api_type_error tb (o1 ++ (k, v) :: o2) = false ->
  api_all_given tb o1 ->
  is_opt k = false -> has_star k = false -> lookup tb k = Some t -> s_pos_arg t = true -> api_given v = false ->
  Forall (fun x => is_opt x = false) (api_keys o2) ->
  api_run_select auto single (o1 ++ (k, v) :: o2) d tb =
  ARes (ROk (if single then single_step (c_tasks c) (api_keys o1 ++ [k]) else c_tasks c) (c_targets c) (api_keys o1 ++ [k])).
Proof.
  intros Hi Hnd Hte H1 Hok Hsk Hl Hp Hv H2. set (o := o1 ++ (k, v) :: o2) in *.
  unfold ApiSelect.api_run_select. rewrite Hte, Hi.
  assert (Ek : api_keys o = api_keys o1 ++ k :: api_keys o2) by (unfold o, api_keys; rewrite map_app; reflexivity).
  assert (Es : sel_tasks (api_keys o) d = Some (api_keys o)).
  { apply sel_tasks_args. rewrite Ek. destruct (api_keys o1); discriminate. }
  rewrite Es. unfold ApiSelect.filter_tasks_from. rewrite Ek.
  destruct (init_pos_arg _ _ _ _ Hi Hl) as (t' & Hl' & Ep).
  destruct (process_filter_cut (c_order c) (c_tasks c) (api_keys o1) k t' (api_keys o2) MName (api_state tb o)) as (st' & E); auto.
  - (* the keys before k *)
    unfold given_names, api_keys. apply Forall_forall. intros f Hf. apply in_map_iff in Hf. destruct Hf as ([k1 v1] & <- & Hin). simpl.
    destruct (H1 k1 v1 Hin) as (Ho & Es1 & t1 & Hl1 & Hv1). split; [|split]; auto.
    intros t1' Hl1' Hp1'. destruct (init_pos_arg_rev _ _ _ _ Hi Hl1') as (t0 & Hl0 & Ep0). rewrite Hl1 in Hl0. inversion Hl0; subst.
    apply api_posset_In. exists t0, v1. split; [apply lookup_In; auto|]. split; [congruence|].
    split; [apply api_get_NoDup; auto; unfold o; apply in_or_app; auto|]. apply Hv1. congruence.
  - congruence.
  - simpl. intros Hin. apply api_posset_In in Hin. destruct Hin as (t0 & v0 & _ & _ & Hg & Hv0).
    rewrite (api_get_NoDup o k v Hnd) in Hg by (unfold o; apply in_or_app; right; left; reflexivity).
    inversion Hg; subst. congruence.
  - rewrite E, filter_list_names; [reflexivity|].
    apply Forall_app. split.
    + apply (keys_have tb c o1 Hi H1).
    + constructor; auto. unfold has. rewrite Hl'. reflexivity.
Qed.

(* whether a positional value given through the dict is empty (falsy) or not makes no difference to anything
   the selection consists of: result, error, table *)
Theorem api_falsy_value_is_a_value auto single o d tb :
  api_run_select auto single (api_erase o) d tb = api_run_select auto single o d tb.
Proof.
  unfold ApiSelect.api_run_select, api_state. rewrite api_type_error_erase, api_keys_erase, api_posset_erase. reflexivity.
Qed.

(* a dict that gives no positional value to anybody selects what the same names select on the command line *)
Theorem api_without_values_is_the_command_line auto single o d tb :
  api_type_error tb o = false -> api_posset tb o = [] ->
  api_run_select auto single o d tb = ARes (cli_run_select auto single o d tb).
Proof.
  intros Hte Hp. unfold ApiSelect.api_run_select, ApiSelect.cli_run_select, Select.cmd_run_select, Select.select_core.
  rewrite Hte. destruct (init tb) as [e|c]; [reflexivity|].
  destruct (sel_tasks (api_keys o) d) as [s|]; [|reflexivity].
  cbn [Select.process]. unfold ApiSelect.filter_tasks_from, Select.filter_tasks, api_state. rewrite Hp. fold pstate0.
  destruct (process_filter (c_order c) (c_tasks c) MName pstate0 s) as [[fl st]|]; [|reflexivity].
  destruct (filter_list auto (c_targets c) [] (c_tasks c) fl) as [f|[[ph tb1] sel]]; reflexivity.
Qed.

End P.
