(* AncP.v -- the cyclic-dependency diagnostics are never false alarms: when the dispatcher raises
   "Cyclic/Invalid task dependency" (a task found among the ancestors of the node that asks for it)
   the task graph really has a cycle through effective dependencies.
   Invariant (independent of statuses and queues): a node's dependency lists only contain effective
   dependencies of its task, the lists being iterated are part of them, and ExecNode.ancestors is a
   chain of effective dependencies ending at the node. *)
From DoitV Require Import Base Dispatch Runner DispatchP DispatchInv RunnerTr RunnerP.
Open Scope N_scope.

Lemma fold_add_if_new_In' (l : list name) : forall acc x, In x (fold_left add_if_new l acc) <-> In x acc \/ In x l.
Proof.
  induction l as [|a l IH]; intros acc x; simpl; [tauto|].
  rewrite IH. unfold add_if_new. destruct (mem a acc) eqn:E.
  - apply mem_In in E. split; intros H; intuition (subst; auto).
  - rewrite in_app_iff. simpl. split; intros H; intuition auto.
Qed.
Lemma fold_add_if_new_ext' (l : list name) : forall a l0, exists ext, fold_left add_if_new l (a ++ l0) = a ++ ext.
Proof.
  induction l as [|x l IH]; intros a l0; simpl.
  - exists l0. reflexivity.
  - unfold add_if_new at 2. destruct (mem x (a ++ l0)).
    + apply IH.
    + rewrite <- app_assoc. apply IH.
Qed.

Section A.
Variable tasks : name -> option task.
Variable wake_rank : name -> name -> N.
Variable calc_rank : name -> N.
Variable continue_ always : bool.

Notation node_of := (node_of tasks).
Notation get_task := (get_task tasks).
Notation eff_dep := (eff_dep tasks).
Notation eff_calc := (eff_calc tasks).
Notation gen_node := (gen_node tasks).
Notation add_wait_one := (add_wait_one tasks).
Notation add_wait_run := (add_wait_run tasks).
Notation process_calc := (process_calc tasks).
Notation gen_step := (gen_step tasks calc_rank).
Notation set_pc := (set_pc tasks).

(* x reaches y through one or more effective dependencies *)
Inductive reach : name -> name -> Prop :=
| re_step x y : eff_dep x y -> reach x y
| re_trans x y z : eff_dep x y -> reach y z -> reach x z.

Lemma reach_snoc x y z : reach x y -> eff_dep y z -> reach x z.
Proof. induction 1 as [x y H|x y w H _ IH]; intros E; [eapply re_trans; eauto; apply re_step; auto|eapply re_trans; eauto]. Qed.

(* a chain of effective dependencies (lists grow at the end, like ancestors) *)
Inductive chain : list name -> Prop :=
| c_one x : chain [x]
| c_snoc l x y : chain (l ++ [x]) -> eff_dep x y -> chain ((l ++ [x]) ++ [y]).

Definition achain (anc : list name) (me : name) : Prop := exists l, anc = l ++ [me] /\ chain anc.

Lemma chain_reach anc : chain anc -> forall l x, anc = l ++ [x] -> forall c, In c l -> reach c x.
Proof.
  induction 1 as [x0|l0 x0 y0 Hc IH He]; intros l x E c Hin.
  - destruct l as [|a l]; [destruct Hin|]. destruct l; discriminate.
  - apply app_inj_tail in E. destruct E as [<- <-].
    apply in_app_iff in Hin. destruct Hin as [Hin|[<-|[]]].
    + eapply reach_snoc; [|exact He]. eapply IH; eauto.
    + apply re_step. exact He.
Qed.

Lemma eff_calc_dep t c : eff_calc t c -> eff_dep t c.
Proof.
  intros H. destruct H as [c H|c c' H H'].
  - apply ed_static. unfold static_deps. rewrite !in_app_iff. auto.
  - eapply ed_dyn; [exact H|]. unfold calc_results. rewrite !in_app_iff. auto.
Qed.

Definition pc_ok (me : name) (nd : node) : Prop :=
  match n_pc nd with
  | PCalc rest calcs tks => incl rest calcs /\ incl calcs (n_all_calc nd) /\ incl tks (n_all_task nd)
  | PTask rest tks => incl rest tks /\ incl tks (n_all_task nd)
  | PSetup rest => incl rest (t_setup (get_task me))
  | _ => True end.

Record anode_ok (me : name) (nd : node) : Prop := {
  a_calc : forall y, In y (n_all_calc nd) -> eff_calc me y;
  a_task : forall y, In y (n_all_task nd) -> eff_dep me y;
  a_pendc : incl (n_pend_calc nd) (n_all_calc nd);
  a_pendt : incl (n_pend_task nd) (n_all_task nd);
  a_wcalc : incl (n_wcalc nd) (n_all_calc nd);
  a_wrun : incl (n_wrun nd) (n_all_task nd ++ t_setup (get_task me));
  a_pc : pc_ok me nd;
  a_anc : achain (n_anc nd) me
}.

Definition AInv (d : dstate) : Prop := forall me nd, d_nodes d me = Some nd -> anode_ok me nd.

Lemma new_node_aok pa k : achain (pa ++ [k]) k -> anode_ok k (new_node tasks pa k).
Proof.
  intros Ha. split; simpl; auto; try apply incl_refl.
  - intros y Hy. apply ec_static. exact Hy.
  - intros y Hy. apply ed_static. unfold static_deps. rewrite !in_app_iff. auto.
  - intros y [].
  - intros y [].
  - exact I.
Qed.

Lemma achain_one k : achain ([] ++ [k]) k.
Proof. exists []. split; [reflexivity|apply c_one]. Qed.

Lemma anode_of_ok d z : AInv d -> anode_ok z (node_of d z).
Proof.
  intros H. unfold Dispatch.node_of. destruct (d_nodes d z) eqn:E; [apply H; auto|].
  apply new_node_aok. apply achain_one.
Qed.

Lemma AInv_set_node d me nd : AInv d -> anode_ok me nd -> AInv (set_node d me nd).
Proof.
  intros H Hn z ndz Hz. destruct (N.eqb_spec z me) as [->|Hne].
  - rewrite nodes_set_same in Hz. inversion Hz; subst. exact Hn.
  - rewrite nodes_set_other in Hz by auto. apply H. exact Hz.
Qed.

Lemma AInv_queues d d' : d_nodes d' = d_nodes d -> AInv d -> AInv d'.
Proof. intros E H z nd Hz. rewrite E in Hz. apply H. exact Hz. Qed.

(* ---------- gen_node ---------- *)
Lemma gen_node_A d pa k :
  AInv d -> (forall a, pa = Some a -> achain (a ++ [k]) k) -> AInv (snd (gen_node d pa k)).
Proof.
  intros H Ha. unfold Dispatch.gen_node. destruct (d_nodes d k) eqn:E.
  - destruct pa as [a|]; [destruct (mem k a)|]; exact H.
  - simpl. apply AInv_set_node; auto. apply new_node_aok.
    destruct pa as [a|]; [apply Ha; reflexivity|apply achain_one].
Qed.

(* fields untouched by the small node updates *)
Lemma aok_wme me nd w : anode_ok me nd -> anode_ok me (nd_wme nd w).
Proof. intros [A B C D E W F G]. split; auto. Qed.
Lemma aok_st me nd s : anode_ok me nd -> anode_ok me (nd_st nd s).
Proof. intros [A B C D E W F G]. split; auto. Qed.
Lemma aok_wsel me nd b : anode_ok me nd -> anode_ok me (nd_wsel nd b).
Proof. intros [A B C D E W F G]. split; auto. Qed.
Lemma aok_wait me nd wr wc : anode_ok me nd -> incl wc (n_all_calc nd) ->
  incl wr (n_all_task nd ++ t_setup (get_task me)) -> anode_ok me (nd_wait nd wr wc).
Proof. intros [A B C D E W F G] H H'. split; auto. Qed.
Lemma aok_parent me nd dep s : anode_ok me nd -> anode_ok me (parent_status nd dep s).
Proof. intros H. destruct s; simpl; auto; destruct H as [A B C D E W F G]; split; auto. Qed.

Lemma aok_process_calc me nd c s :
  anode_ok me nd -> eff_calc me c -> anode_ok me (process_calc nd c s).
Proof.
  intros [A B C D E W F G] Hc. unfold Dispatch.process_calc. destruct (calc_values_visible s); [|split; auto].
  set (all1 := n_all_task nd ++ t_calc_new_task (get_task c)).
  set (impl := fold_left add_if_new (t_calc_new_impl (get_task c)) all1).
  set (newc := filter _ _).
  destruct (fold_add_if_new_ext' (t_calc_new_impl (get_task c)) (n_all_task nd) (t_calc_new_task (get_task c))) as [ext Hext].
  fold all1 in Hext. fold impl in Hext.
  assert (Hnewc : forall y, In y newc -> In y (t_calc_new_calc (get_task c))).
  { intros y Hy. unfold newc in Hy. apply filter_In in Hy. destruct Hy as [Hy _].
    apply fold_add_if_new_In' in Hy. destruct Hy as [[]|Hy]. exact Hy. }
  assert (Himpl : forall y, In y impl -> In y (n_all_task nd) \/ In y (t_calc_new_task (get_task c)) \/ In y (t_calc_new_impl (get_task c))).
  { intros y Hy. unfold impl in Hy. apply fold_add_if_new_In' in Hy. unfold all1 in Hy. rewrite in_app_iff in Hy. tauto. }
  split; simpl.
  - intros y Hy. apply in_app_iff in Hy. destruct Hy as [Hy|Hy]; auto.
    eapply ec_more; [exact Hc|]. apply Hnewc. exact Hy.
  - intros y Hy. destruct (Himpl y Hy) as [H|[H|H]]; auto.
    + eapply ed_dyn; [exact Hc|]. unfold calc_results. rewrite !in_app_iff. auto.
    + eapply ed_dyn; [exact Hc|]. unfold calc_results. rewrite !in_app_iff. auto.
  - intros y Hy. apply in_app_iff in Hy. apply in_app_iff. destruct Hy as [Hy|Hy]; auto.
  - intros y Hy. apply in_app_iff in Hy. destruct Hy as [Hy|Hy].
    + rewrite Hext. apply in_app_iff. left. apply D. exact Hy.
    + rewrite Hext in Hy. rewrite skipn_app, skipn_all, Nat.sub_diag in Hy. simpl in Hy.
      rewrite Hext. apply in_app_iff. right. exact Hy.
  - intros y Hy. apply in_app_iff. left. apply E. exact Hy.
  - intros y Hy. specialize (W y Hy). rewrite in_app_iff in *. destruct W as [W|W]; auto.
    left. rewrite Hext. apply in_app_iff. left. exact W.
  - unfold pc_ok in *. simpl. destruct (n_pc nd); auto.
    + destruct F as (F1 & F2 & F3). repeat split; auto.
      * intros y Hy. apply in_app_iff. left. apply F2. exact Hy.
      * intros y Hy. rewrite Hext. apply in_app_iff. left. apply F3. exact Hy.
    + destruct F as (F1 & F2). split; auto. intros y Hy. rewrite Hext. apply in_app_iff. left. apply F2. exact Hy.
  - exact G.
Qed.

(* ---------- _node_add_wait_run ---------- *)
Lemma add_wait_one_A d me x calc :
  AInv d -> (calc = true -> In x (n_all_calc (node_of d me))) ->
  (calc = false -> In x (n_all_task (node_of d me) ++ t_setup (get_task me))) ->
  AInv (add_wait_one d me x calc) /\
  n_pc (node_of (add_wait_one d me x calc) me) = n_pc (node_of d me) /\
  n_anc (node_of (add_wait_one d me x calc) me) = n_anc (node_of d me) /\
  incl (n_all_calc (node_of d me)) (n_all_calc (node_of (add_wait_one d me x calc) me)) /\
  incl (n_all_task (node_of d me)) (n_all_task (node_of (add_wait_one d me x calc) me)).
Proof.
  intros H Hc Hnc. unfold Dispatch.add_wait_one.
  destruct (unfinished (st_of tasks d x)) eqn:Eu.
  - set (nx := node_of d x).
    set (d1 := set_node d x (nd_wme nx (addset me (n_wme nx)))).
    assert (H1 : AInv d1) by (apply AInv_set_node; auto; apply aok_wme; apply anode_of_ok; exact H).
    assert (Hnd1 : exists w, node_of d1 me = nd_wme (node_of d me) w).
    { unfold d1. destruct (N.eqb_spec me x) as [->|Hne].
      - rewrite node_of_set_same. eexists; reflexivity.
      - rewrite node_of_set_other by auto. exists (n_wme (node_of d me)). destruct (node_of d me); reflexivity. }
    destruct Hnd1 as [w1 Hnd1].
    pose proof (anode_of_ok d1 me H1) as Hme. rewrite Hnd1 in Hme.
    split; [|rewrite node_of_set_same; destruct calc; simpl; rewrite Hnd1; simpl; repeat split; auto; apply incl_refl].
    apply AInv_set_node; auto. destruct calc.
    + apply aok_wait; [rewrite Hnd1; exact Hme| |]; rewrite Hnd1; simpl.
      * intros y Hy. apply addset_In in Hy. destruct Hy as [->|Hy]; [apply Hc; reflexivity|].
        apply (a_wcalc _ _ Hme). exact Hy.
      * apply (a_wrun _ _ Hme).
    + apply aok_wait; [rewrite Hnd1; exact Hme| |]; rewrite Hnd1; simpl.
      * apply (a_wcalc _ _ Hme).
      * intros y Hy. apply addset_In in Hy. destruct Hy as [->|Hy]; [apply Hnc; reflexivity|].
        apply (a_wrun _ _ Hme). exact Hy.
  - set (nd0 := node_of d me). set (nd1 := parent_status nd0 x (st_of tasks d x)).
    assert (Hf1 := parent_status_fields nd0 x (st_of tasks d x)). cbv zeta in Hf1. fold nd1 in Hf1.
    destruct Hf1 as (f1 & f2 & f3 & f4 & f5 & f6 & f7 & f8 & f9).
    assert (Hf2 := process_calc_fields tasks nd1 x (st_of tasks d x)). cbv zeta in Hf2.
    destruct Hf2 as (g1 & g2 & g3 & g4 & g5 & g6 & g7 & g8 & g9).
    assert (Hn1 : anode_ok me nd1) by (apply aok_parent; apply anode_of_ok; exact H).
    assert (Hanc1 : n_anc nd1 = n_anc nd0) by (unfold nd1; destruct (st_of tasks d x); reflexivity).
    rewrite node_of_set_same. destruct calc.
    + pose proof (Hc eq_refl) as Hx.
      split; [apply AInv_set_node; auto; apply aok_process_calc; auto|].
      * apply (a_calc _ _ Hn1). rewrite f8. exact Hx.
      * split; [rewrite g1; exact f1|]. split; [rewrite g9; exact Hanc1|].
        destruct (process_calc_incl tasks nd1 x (st_of tasks d x)) as [I1 I2].
        split; [rewrite <- f8; exact I2|rewrite <- f7; exact I1].
    + split; [apply AInv_set_node; auto|]. split; [exact f1|]. split; [exact Hanc1|].
      split; [rewrite f8|rewrite f7]; apply incl_refl.
Qed.

Lemma add_wait_run_A l : forall d me calc,
  AInv d -> (calc = true -> incl l (n_all_calc (node_of d me))) ->
  (calc = false -> incl l (n_all_task (node_of d me) ++ t_setup (get_task me))) ->
  AInv (add_wait_run d me l calc) /\
  n_pc (node_of (add_wait_run d me l calc) me) = n_pc (node_of d me) /\
  n_anc (node_of (add_wait_run d me l calc) me) = n_anc (node_of d me) /\
  incl (n_all_calc (node_of d me)) (n_all_calc (node_of (add_wait_run d me l calc) me)) /\
  incl (n_all_task (node_of d me)) (n_all_task (node_of (add_wait_run d me l calc) me)).
Proof.
  induction l as [|x r IH]; intros d me calc H Hc Hnc; cbn [Dispatch.add_wait_run].
  - split; auto. split; auto. split; auto. split; apply incl_refl.
  - destruct (add_wait_one_A d me x calc H) as (H1 & P1 & A1 & I1 & J1).
    { intros E. apply (Hc E). left; reflexivity. }
    { intros E. apply (Hnc E). left; reflexivity. }
    destruct (IH (add_wait_one d me x calc) me calc H1) as (H2 & P2 & A2 & I2 & J2).
    { intros E y Hy. apply I1. apply (Hc E). right; exact Hy. }
    { intros E y Hy. specialize (Hnc E y (or_intror Hy)). rewrite in_app_iff in *. destruct Hnc as [Hn|Hn]; auto. }
    split; auto. split; [congruence|]. split; [congruence|]. split; eapply incl_tran; eauto.
Qed.

Lemma set_pc_A d me p :
  AInv d -> pc_ok me (nd_pc (node_of d me) p) -> AInv (set_pc d me p).
Proof.
  intros H Hp. unfold Dispatch.set_pc. apply AInv_set_node; auto.
  destruct (anode_of_ok d me H) as [A B C D E W F G]. split; auto.
Qed.

(* ---------- one resumption of the generator ---------- *)
Lemma cycle_of d me c :
  AInv d -> eff_dep me c -> mem c (n_anc (node_of d me)) = true -> exists k, reach k k.
Proof.
  intros H He Hm. apply mem_In in Hm.
  destruct (a_anc _ _ (anode_of_ok d me H)) as (l & El & Hch). rewrite El in Hm.
  apply in_app_iff in Hm. destruct Hm as [Hm|[<-|[]]].
  - exists c. eapply reach_snoc; [|exact He]. eapply chain_reach; eauto.
  - exists me. apply re_step. exact He.
Qed.

Lemma child_chain d me c : AInv d -> eff_dep me c -> achain (n_anc (node_of d me) ++ [c]) c.
Proof.
  intros H He. destruct (a_anc _ _ (anode_of_ok d me H)) as (l & El & Hch).
  exists (n_anc (node_of d me)). split; auto. rewrite El in *. apply c_snoc; auto.
Qed.

Lemma gen_node_frame d pa k z : z <> k -> node_of (snd (gen_node d pa k)) z = node_of d z.
Proof.
  intros Hz. unfold Dispatch.gen_node. destruct (d_nodes d k).
  - destruct pa as [a|]; [destruct (mem k a)|]; reflexivity.
  - simpl. apply node_of_set_other. exact Hz.
Qed.

Lemma child_step d me c (p' : pc) :
  AInv d -> d_nodes d me <> None -> eff_dep me c -> pc_ok me (nd_pc (node_of d me) p') ->
  match gen_node d (Some (n_anc (node_of d me))) c with
  | (GCycle, _) => exists k, reach k k
  | (_, d1) => AInv (set_pc d1 me p')
  end.
Proof.
  intros H Hme He Hp.
  pose proof (gen_node_A d (Some (n_anc (node_of d me))) c H) as HA.
  assert (Hch : forall a, Some (n_anc (node_of d me)) = Some a -> achain (a ++ [c]) c).
  { intros a E. inversion E; subst. apply child_chain; auto. }
  specialize (HA Hch).
  unfold Dispatch.gen_node in *. destruct (d_nodes d c) eqn:Ec.
  - destruct (mem c (n_anc (node_of d me))) eqn:Em.
    + eapply cycle_of; eauto.
    + apply set_pc_A; auto.
  - simpl in *. assert (Hne : me <> c) by (intros ->; contradiction).
    apply set_pc_A; auto. rewrite node_of_set_other by auto. exact Hp.
Qed.

Lemma gen_step_A fuel : forall d me y d',
  AInv d -> gen_step fuel d me = (y, d') ->
  AInv d' /\ (forall p, y = YCycle p -> exists k, reach k k).
Proof.
  induction fuel as [|fuel IH]; intros d me y d' H Hg; cbn [Dispatch.gen_step] in Hg.
  { inversion Hg; subst. split; auto. intros p E; discriminate. }
  assert (Hdone : forall d0, AInv d0 -> forall y0, (forall p, y0 <> YCycle p) -> (y0, d0) = (y, d') ->
                  AInv d' /\ (forall p, y = YCycle p -> exists k, reach k k)).
  { intros d0 H0 y0 Hy0 E. inversion E; subst. split; auto. intros p Ep. exfalso. eapply Hy0; eauto. }
  pose proof (anode_of_ok d me H) as Hme. destruct Hme as [Ac At Apc Apt Aw Awr Ap Aa].
  destruct (n_pc (node_of d me)) as [|rest calcs tks|rest tks| | | |rest| |] eqn:Epc.
  - (* PLoop *)
    eapply IH; [|exact Hg]. apply AInv_set_node; auto. split; simpl; auto.
    + intros z [].
    + intros z [].
    + unfold pc_ok. simpl. split; [apply incl_refl|]. split; auto.
      intros z Hz. apply sort_by_In in Hz. apply Apc. exact Hz.
  - (* PCalc *)
    unfold pc_ok in Ap. rewrite Epc in Ap. destruct Ap as (P1 & P2 & P3).
    destruct rest as [|c r].
    + destruct (add_wait_run_A calcs d me true H) as (H1 & E1 & E2 & I1 & J1).
      { intros _. exact P2. }
      { intros E; discriminate. }
      eapply IH; [|exact Hg]. apply set_pc_A; auto. unfold pc_ok. simpl. split; [apply incl_refl|].
      eapply incl_tran; eauto.
    + assert (Hex : d_nodes d me <> None) by (apply (exists_of_pc tasks); rewrite Epc; discriminate).
      assert (He : eff_dep me c) by (apply eff_calc_dep; apply Ac; apply P2; apply P1; left; reflexivity).
      pose proof (child_step d me c (PCalc r calcs tks) H Hex He) as Hc.
      assert (Hp : pc_ok me (nd_pc (node_of d me) (PCalc r calcs tks))).
      { unfold pc_ok. simpl. split; auto. intros z Hz. apply P1. right; exact Hz. }
      specialize (Hc Hp).
      destruct (gen_node d (Some (n_anc (node_of d me))) c) as [[| |] d1].
      * eapply Hdone; [exact Hc| |exact Hg]. intros p; discriminate.
      * eapply IH; [exact Hc|exact Hg].
      * inversion Hg; subst. split; auto.
  - (* PTask *)
    unfold pc_ok in Ap. rewrite Epc in Ap. destruct Ap as (P1 & P2).
    destruct rest as [|c r].
    + destruct (add_wait_run_A tks d me false H) as (H1 & E1 & E2 & I1 & J1).
      { intros E; discriminate. }
      { intros _ z Hz. apply in_app_iff. left. apply P2. exact Hz. }
      set (d1 := add_wait_run d me tks false) in *.
      assert (HL : AInv (set_pc d1 me PLoop)) by (apply set_pc_A; auto; exact I).
      assert (HS : AInv (set_pc d1 me PSelf)) by (apply set_pc_A; auto; exact I).
      destruct (negb (is_nil (n_pend_calc (node_of d1 me))) || negb (is_nil (n_pend_task (node_of d1 me)))).
      * eapply IH; [exact HL|exact Hg].
      * destruct (negb (is_nil (n_wrun (node_of d1 me))) || negb (is_nil (n_wcalc (node_of d1 me)))).
        -- eapply Hdone; [exact HL| |exact Hg]. intros p; discriminate.
        -- eapply IH; [exact HS|exact Hg].
    + assert (Hex : d_nodes d me <> None) by (apply (exists_of_pc tasks); rewrite Epc; discriminate).
      assert (He : eff_dep me c) by (apply At; apply P2; apply P1; left; reflexivity).
      pose proof (child_step d me c (PTask r tks) H Hex He) as Hc.
      assert (Hp : pc_ok me (nd_pc (node_of d me) (PTask r tks))).
      { unfold pc_ok. simpl. split; auto. intros z Hz. apply P1. right; exact Hz. }
      specialize (Hc Hp).
      destruct (gen_node d (Some (n_anc (node_of d me))) c) as [[| |] d1].
      * eapply Hdone; [exact Hc| |exact Hg]. intros p; discriminate.
      * eapply IH; [exact Hc|exact Hg].
      * inversion Hg; subst. split; auto.
  - (* PSelf *)
    eapply Hdone; [| |exact Hg]; [apply set_pc_A; auto; exact I|intros p; discriminate].
  - (* PAfterSelf *)
    destruct (is_nil (t_setup (get_task me))).
    + eapply Hdone; [| |exact Hg]; [apply set_pc_A; auto; exact I|intros p; discriminate].
    + assert (HW : AInv (set_pc d me PAfterSelWait)) by (apply set_pc_A; auto; exact I).
      destruct (n_st (node_of d me)); try (eapply IH; [exact HW|exact Hg]).
      eapply Hdone; [| |exact Hg]; [|intros p; discriminate].
      apply AInv_set_node; auto. split; simpl; auto. exact I.
  - (* PAfterSelWait *)
    assert (HD : AInv (set_pc d me PDone)) by (apply set_pc_A; auto; exact I).
    destruct (n_st (node_of d me)); try (eapply Hdone; [exact HD| |exact Hg]; intros p; discriminate).
    eapply IH; [|exact Hg]. apply set_pc_A; auto. unfold pc_ok. simpl. apply incl_refl.
  - (* PSetup *)
    unfold pc_ok in Ap. rewrite Epc in Ap.
    destruct rest as [|c r].
    + destruct (add_wait_run_A (t_setup (get_task me)) d me false H) as (H1 & E1 & E2 & I1 & J1).
      { intros E; discriminate. }
      { intros _ z Hz. apply in_app_iff. right. exact Hz. }
      set (d1 := add_wait_run d me (t_setup (get_task me)) false) in *.
      destruct (is_nil (n_wrun (node_of d1 me))).
      * eapply Hdone; [| |exact Hg]; [apply set_pc_A; auto; exact I|intros p; discriminate].
      * eapply Hdone; [| |exact Hg]; [apply set_pc_A; auto; exact I|intros p; discriminate].
    + assert (Hex : d_nodes d me <> None) by (apply (exists_of_pc tasks); rewrite Epc; discriminate).
      assert (He : eff_dep me c).
      { apply ed_static. unfold static_deps. rewrite !in_app_iff. right; right. apply Ap. left; reflexivity. }
      pose proof (child_step d me c (PSetup r) H Hex He) as Hc.
      assert (Hp : pc_ok me (nd_pc (node_of d me) (PSetup r))).
      { unfold pc_ok. simpl. intros z Hz. apply Ap. right; exact Hz. }
      specialize (Hc Hp).
      destruct (gen_node d (Some (n_anc (node_of d me))) c) as [[| |] d1].
      * eapply Hdone; [exact Hc| |exact Hg]. intros p; discriminate.
      * eapply IH; [exact Hc|exact Hg].
      * inversion Hg; subst. split; auto.
  - (* PSetupWaited *)
    eapply Hdone; [| |exact Hg]; [apply set_pc_A; auto; exact I|intros p; discriminate].
  - (* PDone *)
    eapply Hdone; [exact H| |exact Hg]. intros p; discriminate.
Qed.

(* ---------- _update_waiting, _get_next_node, the dispatcher loop ---------- *)
Lemma wake_node_A w nd fin fs : anode_ok w nd -> anode_ok w (wake_node tasks nd fin fs).
Proof.
  intros Hn. unfold Dispatch.wake_node.
  set (nw := parent_status nd fin fs).
  assert (Hf1 := parent_status_fields nd fin fs). cbv zeta in Hf1. fold nw in Hf1.
  destruct Hf1 as (f1 & f2 & f3 & f4 & f5 & f6 & f7 & f8 & f9).
  assert (Hnw : anode_ok w nw) by (apply aok_parent; exact Hn).
  assert (Hnw1 : anode_ok w (nd_wait nw (rem fin (n_wrun nw)) (rem fin (n_wcalc nw)))).
  { apply aok_wait; auto.
    - intros y Hy. apply rem_In in Hy. apply (a_wcalc _ _ Hnw). apply Hy.
    - intros y Hy. apply rem_In in Hy. apply (a_wrun _ _ Hnw). apply Hy. }
  destruct (mem fin (n_wcalc nd)) eqn:Ec; auto.
  apply aok_process_calc; auto.
  apply (a_calc _ _ Hn). apply (a_wcalc _ _ Hn). apply mem_In. exact Ec.
Qed.

Lemma wake_one_A d fin fs w : AInv d -> AInv (wake_one tasks d fin fs w).
Proof.
  intros H. unfold Dispatch.wake_one.
  set (d1 := set_node d w (wake_node tasks (node_of d w) fin fs)).
  assert (H1 : AInv d1) by (apply AInv_set_node; auto; apply wake_node_A; apply anode_of_ok; exact H).
  destruct (wake_ready _ _ _ && mem w (d_waiting d1)); auto.
Qed.

Lemma wake_A l : forall d fin fs, AInv d -> AInv (wake tasks d fin fs l).
Proof. induction l as [|w r IH]; intros d fin fs H; simpl; auto. apply IH. apply wake_one_A. exact H. Qed.

Lemma update_waiting_A d p : AInv d -> AInv (update_waiting tasks wake_rank d p).
Proof.
  intros H. unfold Dispatch.update_waiting. destruct p as [p|]; auto.
  set (np := node_of d p).
  assert (H1 : AInv (if n_wsel np then
                       let d0 := set_node d p (nd_wsel np false) in
                       set_waiting (set_ready d0 (d_ready d0 ++ [p])) (rem p (d_waiting d0))
                     else d)).
  { destruct (n_wsel np); auto. cbv zeta. eapply AInv_queues; [reflexivity|].
    apply AInv_set_node; auto. apply aok_wsel. apply anode_of_ok. exact H. }
  destruct (n_st np); auto; apply wake_A; exact H1.
Qed.

Lemma next_from_torun_A l : forall d o d', AInv d -> next_from_torun tasks d l = (o, d') -> AInv d'.
Proof.
  induction l as [|x r IH]; intros d o d' H E; simpl in E.
  - inversion E; subst. eapply AInv_queues; [reflexivity|exact H].
  - pose proof (gen_node_A d None x H ltac:(intros a Ea; discriminate)) as H1.
    destruct (Dispatch.gen_node tasks d None x) as [[| |] d1]; simpl in H1.
    + inversion E; subst. eapply AInv_queues; [reflexivity|exact H1].
    + eapply IH; eauto.
    + eapply IH; eauto.
Qed.

Lemma disp_run_A fuel : forall d y d', AInv d -> disp_run tasks calc_rank fuel d = (y, d') ->
  AInv d' /\ (forall p, y = DCycle p -> exists k, reach k k).
Proof.
  induction fuel as [|fuel IH]; intros d y d' H E; cbn [Dispatch.disp_run] in E.
  { inversion E; subst. split; auto. intros p Ep; discriminate. }
  destruct (d_cur d) as [me|] eqn:Ecur.
  - destruct (gen_step (S (S fuel)) d me) as [g d1] eqn:Eg.
    destruct (gen_step_A _ _ _ _ _ H Eg) as [H1 C1].
    destruct g.
    + eapply IH; [|exact E]. eapply AInv_queues; [reflexivity|exact H1].
    + eapply IH; [|exact E]. eapply AInv_queues; [reflexivity|exact H1].
    + inversion E; subst. split; auto. intros p Ep; discriminate.
    + eapply IH; [|exact E]. eapply AInv_queues; [reflexivity|exact H1].
    + inversion E; subst. split; auto. intros p Ep. inversion Ep; subst. eapply C1; eauto.
    + inversion E; subst. split; auto. intros p Ep; discriminate.
  - destruct (d_ready d) as [|x r] eqn:Er.
    + destruct (next_from_torun tasks d (d_torun d)) as [o d1] eqn:En.
      pose proof (next_from_torun_A _ _ _ _ H En) as H1.
      destruct o as [x|].
      * eapply IH; [|exact E]. eapply AInv_queues; [reflexivity|exact H1].
      * destruct (is_nil (d_waiting d1)); inversion E; subst; split; auto; intros p Ep; discriminate.
    + eapply IH; [|exact E]. eapply AInv_queues; [reflexivity|exact H].
Qed.

Lemma disp_send_A fuel d p y d' : AInv d -> disp_send tasks wake_rank calc_rank fuel d p = (y, d') ->
  AInv d' /\ (forall path, y = DCycle path -> exists k, reach k k).
Proof. intros H E. unfold Dispatch.disp_send in E. eapply disp_run_A; [|exact E]. apply update_waiting_A. exact H. Qed.

(* ---------- the runner only changes statuses ---------- *)
Lemma set_status_A d k s : AInv d -> AInv (set_status tasks d k s).
Proof. intros H. unfold Runner.set_status. apply AInv_set_node; auto. apply aok_st. apply anode_of_ok. exact H. Qed.

Lemma select_task_A r k b r1 :
  AInv (r_d r) -> select_task tasks continue_ always r k = (b, r1) -> AInv (r_d r1).
Proof.
  apply (select_task_pres tasks continue_ always (fun r0 => AInv (r_d r0)) k).
  - intros r0 s H. simpl. apply set_status_A. exact H.
  - intros r0 e H _. exact H.
  - intros r0 kd H. unfold handle_error, handle_error_gen. simpl. apply set_status_A. exact H.
Qed.

Lemma process_result_A r k : AInv (r_d r) -> AInv (r_d (process_result tasks continue_ r k)).
Proof.
  intros H. unfold process_result, handle_error, handle_error_gen. destruct (t_outcome (get_task k)); simpl; auto; apply set_status_A; exact H.
Qed.

Lemma serial_A fuel : forall r last r' s,
  AInv (r_d r) -> serial tasks wake_rank calc_rank continue_ always fuel r last = (r', s) ->
  forall p, s = StopCycle p -> exists k, reach k k.
Proof.
  induction fuel as [|fuel IH]; intros r last r' s H E p Es; cbn [Runner.serial] in E.
  { inversion E; subst. discriminate. }
  destruct (r_stop r). { inversion E; subst. discriminate. }
  destruct (disp_send tasks wake_rank calc_rank (S fuel) (r_d r) last) as [y d] eqn:Ed.
  destruct (disp_send_A _ _ _ _ _ H Ed) as [H1 C1].
  destruct y as [k| | |path|].
  - destruct (select_task tasks continue_ always (with_d r d) k) as [b r1] eqn:Esel.
    assert (H2 : AInv (r_d r1)) by (eapply select_task_A; [|exact Esel]; exact H1).
    destruct b.
    + destruct (is_interrupt tasks k). { inversion E; subst. discriminate. }
      eapply IH; [|exact E|exact Es]. apply process_result_A. exact H2.
    + eapply IH; [exact H2|exact E|exact Es].
  - inversion E; subst. discriminate.
  - inversion E; subst. discriminate.
  - inversion E; subst. eapply C1; eauto.
  - inversion E; subst. discriminate.
Qed.

Lemma AInv_init sel : AInv (disp_init sel).
Proof. intros me nd E. discriminate. Qed.

(* the runner itself never reports a cycle error: it only appears as the marker of StopCycle *)
Definition is_cyc (e : event) : bool := match e with ECycleError _ => true | _ => false end.
Definition nocyc (tr : list event) : Prop := forallb (fun e => negb (is_cyc e)) tr = true.
Lemma nocyc_app a b : nocyc a -> nocyc b -> nocyc (a ++ b).
Proof. unfold nocyc. intros A B. rewrite forallb_app, A, B. reflexivity. Qed.

Lemma select_task_nocyc r k b r1 :
  nocyc (r_tr r) -> select_task tasks continue_ always r k = (b, r1) -> nocyc (r_tr r1).
Proof.
  apply (select_task_pres tasks continue_ always (fun r0 => nocyc (r_tr r0)) k).
  - intros r0 s H. exact H.
  - intros r0 e H [<-|[<-|[<-|[]]]]; unfold emit; simpl; apply nocyc_app; auto; reflexivity.
  - intros r0 kd H. unfold handle_error, handle_error_gen. simpl. apply nocyc_app; auto; reflexivity.
Qed.

Lemma finish_nocyc r : nocyc (r_tr r) -> nocyc (r_tr (finish r)).
Proof.
  intros H. unfold finish, emit. simpl. apply nocyc_app; auto. unfold nocyc. simpl.
  induction (rev (r_td r)); simpl; auto.
Qed.

Lemma serial_nocyc fuel : forall r last r' s,
  nocyc (r_tr r) -> serial tasks wake_rank calc_rank continue_ always fuel r last = (r', s) -> nocyc (r_tr r').
Proof.
  induction fuel as [|fuel IH]; intros r last r' s H E; cbn [Runner.serial] in E.
  { inversion E; subst. exact H. }
  destruct (r_stop r). { inversion E; subst. apply finish_nocyc. exact H. }
  destruct (disp_send tasks wake_rank calc_rank (S fuel) (r_d r) last) as [y d].
  destruct y as [k| | |path|]; try (inversion E; subst; try apply finish_nocyc; exact H).
  destruct (select_task tasks continue_ always (with_d r d) k) as [b r1] eqn:Esel.
  assert (H1 : nocyc (r_tr r1)) by (eapply select_task_nocyc; [|exact Esel]; exact H).
  destruct b.
  - assert (H2 : nocyc (r_tr (start_task tasks r1 k))) by (unfold start_task; simpl; apply nocyc_app; auto; reflexivity).
    destruct (is_interrupt tasks k). { inversion E; subst. apply finish_nocyc. exact H2. }
    eapply IH; [|exact E]. unfold process_result, handle_error, handle_error_gen.
    destruct (t_outcome (get_task k)); simpl; auto; apply nocyc_app; auto; reflexivity.
  - eapply IH; [exact H1|exact E].
Qed.

(* the "Cyclic/Invalid task dependency" error of a serial run is never a false alarm: if it is raised,
   the task graph has a cycle through effective dependencies *)
Theorem serial_cycle_error_is_real fuel sel p :
  In (ECycleError p) (fst (run_serial tasks wake_rank calc_rank continue_ always fuel sel)) ->
  exists k, reach k k.
Proof.
  unfold run_serial.
  destruct (serial tasks wake_rank calc_rank continue_ always fuel (r_init sel) None) as [r' s] eqn:E.
  simpl. intros Hin.
  assert (Hn : nocyc (r_tr r')) by (eapply serial_nocyc; [|exact E]; reflexivity).
  apply in_app_iff in Hin. destruct Hin as [Hin|Hin].
  - exfalso. unfold nocyc in Hn. rewrite forallb_forall in Hn. specialize (Hn _ Hin). discriminate.
  - destruct s; simpl in Hin; try contradiction; destruct Hin as [Hin|[]]; try discriminate.
    eapply (serial_A fuel (r_init sel) None r' (StopCycle path)); [apply AInv_init|exact E|reflexivity].
Qed.

End A.
