(* HoldG.v -- HoldP.v generalised to runners that keep calling the dispatcher while tasks are still
   executing (MRunner / MThreadRunner): the wait-graph invariant [HG] and the pc/status relation [PG]
   are stated relative to a set [F] of tasks IN FLIGHT (handed to the runner, selected to run, final
   status not set yet).  Such a task is -- after its generator was resumed and ended -- neither the
   dispatcher's current node nor ready nor waiting, and its generator is exhausted although it is not
   finished.  With F = (fun _ => False) this is HoldP.HI / HoldP.PS.  The dispatcher-level lemmas follow
   HoldP.v one by one; definitions that do not mention the invariant (exn, located, wln, pcxn, keeps,
   same_ps, the pigeonhole lemma) are taken from HoldP. *)
From DoitV Require Import Base Dispatch Runner DispatchP DispatchInv RunnerTr RunnerP AncP HoldP.
Open Scope N_scope.

Section G.
Variable tasks : name -> option task.
Variable wake_rank : name -> name -> N.
Variable calc_rank : name -> N.
Variable continue_ always : bool.
(* the tasks in flight *)
Variable F : name -> Prop.

Notation node_of := (node_of tasks).
Notation st_of := (st_of tasks).
Notation get_task := (get_task tasks).
Notation eff_dep := (eff_dep tasks).
Notation reach := (reach tasks).
Notation AInv := (AInv tasks).
Notation gen_node := (gen_node tasks).
Notation add_wait_one := (add_wait_one tasks).
Notation add_wait_run := (add_wait_run tasks).
Notation process_calc := (process_calc tasks).
Notation gen_step := (gen_step tasks calc_rank).
Notation set_pc := (set_pc tasks).
Notation set_status := (set_status tasks).
Notation pcxn := (HoldP.pcxn tasks).
Notation same_ps := (HoldP.same_ps tasks).
Notation exn_set_node := (HoldP.exn_set_node tasks wake_rank calc_rank).
Notation exn_set_pc := (HoldP.exn_set_pc tasks wake_rank calc_rank).
Notation node_of_none := (HoldP.node_of_none tasks).
Notation wake_node_keeps := (HoldP.wake_node_keeps tasks).
Notation set_status_fields := (HoldP.set_status_fields tasks).
Notation keeps_calc := (HoldP.keeps_calc tasks).
Notation same_ps_refl := (HoldP.same_ps_refl tasks).
Notation same_ps_trans := (HoldP.same_ps_trans tasks).
Notation same_ps_set_node := (HoldP.same_ps_set_node tasks).
Notation wl_edge := (HoldP.wl_edge tasks).
Notation tc_reach := (HoldP.tc_reach tasks).
Notation pcxn_mono := (HoldP.pcxn_mono tasks).

Record HG (exc : option name) (d : dstate) : Prop := {
  g_wne : forall w, In w (d_waiting d) -> wln (node_of d w) <> [];
  g_reg : forall w x, In x (wln (node_of d w)) -> In w (n_wme (node_of d x));
  g_unf : forall w x, In x (wln (node_of d w)) -> unfinished (st_of d x) = true \/ exc = Some x;
  g_ex : forall w x, In x (wln (node_of d w)) -> exn d x;
  g_loc : forall x, exn d x -> unfinished (st_of d x) = true -> located d x \/ F x;
  g_nws : forall w, n_wsel (node_of d w) = false;
  g_pcx : forall me, pcxn d me (node_of d me);
  g_qex : forall x, located d x -> exn d x;
  g_wex : forall w x, In w (n_wme (node_of d x)) -> exn d w
}.

(* program counter vs status, for every node but the one handed to the runner *)
Definition gstn (me : name) (nd : node) : Prop :=
  match n_pc nd with
  | PAfterSelf => n_st nd <> SNone /\ (is_nil (t_setup (get_task me)) = true -> unfinished (n_st nd) = false \/ F me)
  | PAfterSelWait | PSetup _ | PSetupWaited => n_st nd <> SNone
  | PDone => unfinished (n_st nd) = false \/ F me
  | _ => True end.
Record PG (pexc : option name) (d : dstate) : Prop := {
  pg_all : forall me, pexc <> Some me -> gstn me (node_of d me);
  pg_exc : forall me, pexc = Some me ->
          n_pc (node_of d me) = PAfterSelf \/ (n_pc (node_of d me) = PDone /\ st_of d me <> SNone)
}.

(* nothing in flight, nothing running, nothing ready, somebody waiting: a cycle *)
Lemma hold_cycle d :
  AInv d -> HG None d -> (forall x, ~ F x) -> d_cur d = None -> d_ready d = [] -> d_waiting d <> [] -> exists k, reach k k.
Proof.
  intros HA HH HF Hc Hr Hw.
  destruct (cycle_in_list eff_dep (d_waiting d) Hw) as [k Hk].
  - intros w Hin. pose proof (g_wne _ _ HH w Hin) as Hne.
    destruct (wln (node_of d w)) as [|x r] eqn:E; [contradiction|].
    assert (Hx : In x (wln (node_of d w))) by (rewrite E; left; reflexivity).
    exists x. split; [|eapply wl_edge; eauto].
    destruct (g_unf _ _ HH w x Hx) as [Hu|Hu]; [|discriminate].
    destruct (g_loc _ _ HH x (g_ex _ _ HH w x Hx) Hu) as [[H|[H|H]]|H]; auto.
    + rewrite Hr in H. destruct H.
    + rewrite Hc in H. discriminate.
    + destruct (HF x H).
  - exists k. apply tc_reach. exact Hk.
Qed.

(* one node [k] is replaced (or created), the queues change: the master preservation lemma *)
Lemma HG_step exc d d' k nd' :
  HG exc d ->
  (forall z, z <> k -> node_of d' z = node_of d z) -> node_of d' k = nd' ->
  (forall z, exn d z -> exn d' z) -> (forall z, exn d' z -> exn d z \/ z = k) ->
  n_st nd' = st_of d k -> n_wsel nd' = false ->
  (forall w, In w (n_wme nd') -> In w (n_wme (node_of d k)) \/ exn d w) ->
  incl (n_wme (node_of d k)) (n_wme nd') ->
  (forall x, In x (wln nd') -> In x (wln (node_of d k)) \/
       (exn d x /\ unfinished (st_of d x) = true /\ In k (n_wme (if N.eqb x k then nd' else node_of d x)))) ->
  pcxn d k nd' ->
  (forall w, In w (d_waiting d') -> (w = k -> wln nd' <> []) /\ (w <> k -> In w (d_waiting d))) ->
  (forall x, exn d' x -> unfinished (st_of d x) = true -> (exn d x -> located d x \/ F x) -> located d' x \/ F x) ->
  (forall x, located d' x -> located d x \/ exn d' x) ->
  HG exc d'.
Proof.
  intros [Hwne Hreg Hunf Hex Hloc Hnws Hpcx Hqex Hwex] Hoth Hk Hmono Hnew Hst Hws Hwme1 Hwme2 Hwl Hpc Hwait Hl1 Hl2.
  assert (Est : forall z, st_of d' z = st_of d z).
  { intros z. unfold Dispatch.st_of. destruct (N.eqb_spec z k) as [->|Hne]; [rewrite Hk; exact Hst|rewrite Hoth; auto]. }
  assert (Hwme : forall x w, In w (n_wme (node_of d x)) -> In w (n_wme (node_of d' x))).
  { intros x w Hw. destruct (N.eqb_spec x k) as [->|Hne]; [rewrite Hk; apply Hwme2; exact Hw|rewrite Hoth; auto]. }
  assert (Hwln : forall w x, In x (wln (node_of d' w)) ->
            In x (wln (node_of d w)) \/ (w = k /\ exn d x /\ unfinished (st_of d x) = true /\ In k (n_wme (node_of d' x)))).
  { intros w x Hx. destruct (N.eqb_spec w k) as [->|Hne].
    - rewrite Hk in Hx. destruct (Hwl x Hx) as [H|(A & B & C)]; auto. right. split; auto. split; auto. split; auto.
      destruct (N.eqb_spec x k) as [->|Hxk]; [rewrite Hk; exact C|rewrite Hoth; auto].
    - rewrite Hoth in Hx by auto. auto. }
  split.
  - intros w Hw. destruct (Hwait w Hw) as [A B]. destruct (N.eqb_spec w k) as [->|Hne].
    + rewrite Hk. apply A. reflexivity.
    + rewrite Hoth by auto. apply Hwne. apply B. exact Hne.
  - intros w x Hx. destruct (Hwln w x Hx) as [H|(-> & A & B & C)]; auto.
  - intros w x Hx. rewrite Est. destruct (Hwln w x Hx) as [H|(-> & A & B & C)]; eauto.
  - intros w x Hx. apply Hmono. destruct (Hwln w x Hx) as [H|(-> & A & B & C)]; eauto.
  - intros x Hx Hu. rewrite Est in Hu. apply Hl1; auto.
  - intros w. destruct (N.eqb_spec w k) as [->|Hne]; [rewrite Hk; exact Hws|rewrite Hoth; auto].
  - intros me. destruct (N.eqb_spec me k) as [->|Hne].
    + rewrite Hk. eapply pcxn_mono; [exact Hmono|exact Hpc].
    + rewrite Hoth by auto. eapply pcxn_mono; [exact Hmono|apply Hpcx].
  - intros x Hx. destruct (Hl2 x Hx) as [H|H]; auto.
  - intros w x Hw. destruct (N.eqb_spec x k) as [->|Hne].
    + rewrite Hk in Hw. apply Hmono. destruct (Hwme1 w Hw) as [H|H]; eauto.
    + rewrite Hoth in Hw by auto. apply Hmono. eauto.
Qed.

(* an existing node is replaced, queues untouched *)
Lemma HG_node exc d k nd' :
  HG exc d -> exn d k ->
  n_st nd' = st_of d k -> n_wsel nd' = false ->
  (forall w, In w (n_wme nd') -> In w (n_wme (node_of d k)) \/ exn d w) ->
  incl (n_wme (node_of d k)) (n_wme nd') ->
  (forall x, In x (wln nd') -> In x (wln (node_of d k)) \/
       (exn d x /\ unfinished (st_of d x) = true /\ In k (n_wme (if N.eqb x k then nd' else node_of d x)))) ->
  pcxn d k nd' ->
  (In k (d_waiting d) -> wln nd' <> []) ->
  HG exc (set_node d k nd').
Proof.
  intros H Hk Hst Hws Hw1 Hw2 Hwl Hpc Hne.
  eapply (HG_step exc d _ k nd'); eauto.
  - intros z Hz. apply node_of_set_other. exact Hz.
  - apply node_of_set_same.
  - intros z Hz. apply exn_set_node. auto.
  - intros z Hz. apply exn_set_node in Hz. auto.
  - intros w Hw. simpl in Hw. split; auto. intros ->. auto.
  - intros x Hx Hu Hl. apply exn_set_node in Hx. destruct Hx as [Hx| ->]; [exact (Hl Hx)|exact (Hl Hk)].
Qed.

(* only the queues change *)
Lemma HG_q exc d d' :
  HG exc d -> d_nodes d' = d_nodes d ->
  (forall w, In w (d_waiting d') -> wln (node_of d w) <> []) ->
  (forall x, exn d x -> unfinished (st_of d x) = true -> located d x -> located d' x \/ F x) ->
  (forall x, located d' x -> located d x) ->
  HG exc d'.
Proof.
  intros [Hwne Hreg Hunf Hex Hloc Hnws Hpcx Hqex Hwex] En Hw Hl1 Hl2.
  assert (Enode : forall z, node_of d' z = node_of d z) by (intros z; unfold Dispatch.node_of; rewrite En; reflexivity).
  assert (Est : forall z, st_of d' z = st_of d z) by (intros z; unfold Dispatch.st_of; rewrite Enode; reflexivity).
  assert (Eex : forall z, exn d' z <-> exn d z) by (intros z; unfold exn; rewrite En; tauto).
  split.
  - intros w Hin. rewrite Enode. auto.
  - intros w x. rewrite !Enode. apply Hreg.
  - intros w x. rewrite Enode, Est. apply Hunf.
  - intros w x. rewrite Enode, Eex. apply Hex.
  - intros x. rewrite Eex, Est. intros A B. destruct (Hloc x A B) as [L|L]; [apply Hl1; auto|right; exact L].
  - intros w. rewrite Enode. apply Hnws.
  - intros me. rewrite Enode. eapply pcxn_mono; [|apply Hpcx]. intros c. apply Eex.
  - intros x Hx. apply Eex. apply Hqex. apply Hl2. exact Hx.
  - intros w x. rewrite Enode, Eex. apply Hwex.
Qed.

Lemma HG_q0 exc d d' :
  HG exc d -> d_nodes d' = d_nodes d ->
  (forall w, In w (d_waiting d') -> wln (node_of d w) <> []) ->
  (forall x, exn d x -> unfinished (st_of d x) = true -> located d x -> located d' x) ->
  (forall x, located d' x -> located d x) ->
  HG exc d'.
Proof. intros H En Hw Hl1 Hl2. apply (HG_q exc d); auto. Qed.

Lemma HG_keeps exc d k nd' : HG exc d -> exn d k -> keeps (node_of d k) nd' -> HG exc (set_node d k nd').
Proof.
  intros H Hk (E1 & E2 & E3 & E4 & E5 & E6).
  apply HG_node; auto.
  - rewrite E2. apply (g_nws _ _ H).
  - intros w Hw. left. rewrite <- E6. exact Hw.
  - rewrite E6. apply incl_refl.
  - intros x Hx. left. unfold wln in *. rewrite E3, E4 in Hx. exact Hx.
  - pose proof (g_pcx _ _ H k) as P. unfold HoldP.pcxn in *. rewrite E1. exact P.
  - intros Hin. unfold wln. rewrite E3, E4. apply (g_wne _ _ H). exact Hin.
Qed.

Lemma PG_same pexc d d' : same_ps d d' -> PG pexc d -> PG pexc d'.
Proof.
  intros S [A B]. split.
  - intros me Hme. specialize (A me Hme). unfold gstn in *. destruct (S me) as [-> ->]. exact A.
  - intros me Hme. specialize (B me Hme). unfold Dispatch.st_of in *. destruct (S me) as [-> ->]. exact B.
Qed.
(* ---------- _node_add_wait_run ---------- *)
Lemma add_wait_one_G exc d me x calc :
  HG exc d -> exn d me -> exn d x ->
  let d' := add_wait_one d me x calc in
  HG exc d' /\ same_ps d d' /\ same_q d d' /\ (forall z, exn d' z <-> exn d z).
Proof.
  intros H Hme Hx. cbv zeta. unfold Dispatch.add_wait_one.
  destruct (unfinished (st_of d x)) eqn:Eu.
  - set (nx := node_of d x).
    set (d1 := set_node d x (nd_wme nx (addset me (n_wme nx)))).
    assert (H1 : HG exc d1).
    { apply HG_node; auto; simpl.
      - apply (g_nws _ _ H).
      - intros w Hw. apply addset_In in Hw. destruct Hw as [->|Hw]; auto.
      - intros w Hw. apply addset_In. auto.
      - exact (g_pcx _ _ H x).
      - apply (g_wne _ _ H). }
    assert (Ex1 : forall z, exn d1 z <-> exn d z).
    { intros z. unfold d1. rewrite exn_set_node. split; [intros [A| ->]; auto|auto]. }
    assert (S1 : same_ps d d1) by (apply same_ps_set_node; reflexivity).
    assert (Hwx : In me (n_wme (node_of d1 x))).
    { unfold d1. rewrite node_of_set_same. simpl. apply addset_In. auto. }
    assert (Hstx : st_of d1 x = st_of d x) by (unfold Dispatch.st_of; destruct (S1 x) as [_ ->]; reflexivity).
    set (nd1 := node_of d1 me).
    assert (G : forall ndw, n_pc ndw = n_pc nd1 -> n_st ndw = n_st nd1 -> n_wsel ndw = n_wsel nd1 -> n_wme ndw = n_wme nd1 ->
                (forall y, In y (wln ndw) -> In y (wln nd1) \/ y = x) -> (wln nd1 <> [] -> wln ndw <> []) ->
                HG exc (set_node d1 me ndw) /\ same_ps d (set_node d1 me ndw)).
    { intros ndw P1 P2 P3 P4 P5 P6. split.
      - apply HG_node; auto; fold nd1.
        + apply Ex1. exact Hme.
        + rewrite P3. apply (g_nws _ _ H1).
        + intros w Hw. left. rewrite <- P4. exact Hw.
        + rewrite P4. apply incl_refl.
        + intros y Hy. destruct (P5 y Hy) as [A| ->]; auto. right.
          split; [apply Ex1; exact Hx|]. split; [rewrite Hstx; exact Eu|].
          destruct (N.eqb_spec x me) as [->|Hne]; [rewrite P4; exact Hwx|exact Hwx].
        + pose proof (g_pcx _ _ H1 me) as P. unfold HoldP.pcxn in *. rewrite P1. exact P.
        + intros Hin. apply P6. apply (g_wne _ _ H1). exact Hin.
      - eapply same_ps_trans; [exact S1|]. apply same_ps_set_node; auto. }
    assert (Hex2 : forall ndw z, exn (set_node d1 me ndw) z <-> exn d z).
    { intros ndw z. rewrite exn_set_node, Ex1. split; [intros [A| ->]; auto|auto]. }
    destruct calc.
    + destruct (G (nd_wait nd1 (n_wrun nd1) (addset x (n_wcalc nd1)))) as [A B]; try reflexivity.
      * intros y Hy. unfold wln in *. simpl in Hy. rewrite in_app_iff in *. destruct Hy as [Hy|Hy]; auto.
        apply addset_In in Hy. destruct Hy; auto.
      * intros _. unfold wln. simpl. intros E. apply app_eq_nil in E. destruct E as [_ E].
        unfold addset in E. destruct (mem x (n_wcalc nd1)) eqn:Em; [apply mem_In in Em; rewrite E in Em; destruct Em|].
        destruct (n_wcalc nd1); discriminate.
      * split; auto. split; auto. split; [repeat split|apply Hex2].
    + destruct (G (nd_wait nd1 (addset x (n_wrun nd1)) (n_wcalc nd1))) as [A B]; try reflexivity.
      * intros y Hy. unfold wln in *. simpl in Hy. rewrite in_app_iff in *. destruct Hy as [Hy|Hy]; auto.
        apply addset_In in Hy. destruct Hy; auto.
      * intros _. unfold wln. simpl. intros E. apply app_eq_nil in E. destruct E as [E _].
        unfold addset in E. destruct (mem x (n_wrun nd1)) eqn:Em; [apply mem_In in Em; rewrite E in Em; destruct Em|].
        destruct (n_wrun nd1); discriminate.
      * split; auto. split; auto. split; [repeat split|apply Hex2].
  - set (nd1 := parent_status (node_of d me) x (st_of d x)).
    assert (K1 : keeps (node_of d me) nd1) by apply keeps_parent.
    assert (K2 : keeps (node_of d me) (if calc then process_calc nd1 x (st_of d x) else nd1)).
    { destruct calc; auto. eapply keeps_trans; [exact K1|apply keeps_calc]. }
    split; [apply HG_keeps; auto|].
    split; [apply same_ps_set_node; destruct K2 as (A & _ & _ & _ & B & _); auto|].
    split; [repeat split|].
    intros z. rewrite exn_set_node. split; [intros [A| ->]; auto|auto].
Qed.

Lemma add_wait_run_G exc l : forall d me calc,
  HG exc d -> exn d me -> (forall x, In x l -> exn d x) ->
  let d' := add_wait_run d me l calc in
  HG exc d' /\ same_ps d d' /\ same_q d d' /\ (forall z, exn d' z <-> exn d z).
Proof.
  induction l as [|x r IH]; intros d me calc H Hme Hl; cbn [Dispatch.add_wait_run].
  - split; auto. split; [apply same_ps_refl|]. split; [repeat split|tauto].
  - destruct (add_wait_one_G exc d me x calc H Hme (Hl x (or_introl eq_refl))) as (H1 & S1 & Q1 & E1).
    destruct (IH (add_wait_one d me x calc) me calc H1) as (H2 & S2 & Q2 & E2).
    { apply E1. exact Hme. }
    { intros y Hy. apply E1. apply Hl. right. exact Hy. }
    split; auto. split; [eapply same_ps_trans; eauto|]. split; [eapply same_q_trans; eauto|].
    intros z. rewrite E2. apply E1.
Qed.

Lemma HG_new exc d d' k pa :
  HG exc d -> d_nodes d k = None ->
  (forall z, z <> k -> node_of d' z = node_of d z) -> node_of d' k = new_node tasks pa k ->
  (forall z, exn d' z <-> exn d z \/ z = k) ->
  d_waiting d' = d_waiting d -> located d' k ->
  (forall x, located d x -> located d' x) -> (forall x, located d' x -> located d x \/ x = k) ->
  HG exc d'.
Proof.
  intros H Hk Hoth Hnew Hex Hw Hlk Hl1 Hl2.
  assert (Hnk : ~ exn d k) by (unfold exn; rewrite Hk; auto).
  eapply (HG_step exc d d' k (new_node tasks pa k)); eauto.
  - intros z Hz. apply Hex. auto.
  - intros z Hz. apply Hex. exact Hz.
  - unfold Dispatch.st_of. rewrite (node_of_none d k Hk). reflexivity.
  - simpl. intros w [].
  - simpl. rewrite (node_of_none d k Hk). simpl. apply incl_refl.
  - simpl. intros x [].
  - exact I.
  - intros w Hin. rewrite Hw in Hin. split.
    + intros ->. exfalso. apply Hnk. apply (g_qex _ _ H). right; left. exact Hin.
    + intros _. exact Hin.
  - intros x Hx Hu Hl. apply Hex in Hx. destruct Hx as [Hx| ->]; auto. destruct (Hl Hx) as [L|L]; auto.
  - intros x Hx. destruct (Hl2 x Hx) as [A| ->]; auto. right. apply Hex. auto.
Qed.

Lemma HG_set_pc exc d me p :
  HG exc d -> exn d me -> pcxn d me (nd_pc (node_of d me) p) -> HG exc (set_pc d me p).
Proof.
  intros H Hme Hp. unfold Dispatch.set_pc. apply HG_node; auto; simpl.
  - apply (g_nws _ _ H).
  - apply incl_refl.
  - apply (g_wne _ _ H).
Qed.

Lemma PG_upd pexc pexc' d d' me :
  PG pexc d ->
  (forall z, z <> me -> n_pc (node_of d' z) = n_pc (node_of d z) /\ n_st (node_of d' z) = n_st (node_of d z)) ->
  (pexc = None \/ pexc = Some me) ->
  match pexc' with
  | None => gstn me (node_of d' me)
  | Some k => k = me /\ (n_pc (node_of d' me) = PAfterSelf \/ (n_pc (node_of d' me) = PDone /\ st_of d' me <> SNone))
  end ->
  PG pexc' d'.
Proof.
  intros [A B] Hoth He Hme. split.
  - intros z Hz. destruct (N.eqb_spec z me) as [->|Hne].
    + destruct pexc' as [k|]; [destruct Hme as [-> _]; congruence|exact Hme].
    + unfold gstn. destruct (Hoth z Hne) as [-> ->]. apply A. destruct He as [->| ->]; congruence.
  - intros z Hz. subst pexc'. destruct Hme as [-> Hme]. exact Hme.
Qed.

Lemma PG_set_pc d me p : PG None d -> gstn me (nd_pc (node_of d me) p) -> PG None (set_pc d me p).
Proof.
  intros H Hp. apply (PG_upd None None d _ me); auto.
  - intros z Hz. unfold Dispatch.set_pc. rewrite node_of_set_other by auto. auto.
  - rewrite set_pc_node. exact Hp.
Qed.

Lemma PG_q pexc d d' : d_nodes d' = d_nodes d -> PG pexc d -> PG pexc d'.
Proof.
  intros E. apply PG_same. intros z. unfold Dispatch.node_of. rewrite E. auto.
Qed.

(* the `for dep in list: yield self._gen_node(node, dep)` loops *)
Lemma child_G d me c p' :
  HG None d -> PG None d -> d_cur d = Some me -> exn d me ->
  (forall dX, (forall z, exn d z -> exn dX z) -> exn dX c -> pcxn dX me (nd_pc (node_of d me) p')) ->
  gstn me (nd_pc (node_of d me) p') ->
  match gen_node d (Some (n_anc (node_of d me))) c with
  | (GCycle, _) => True
  | (GNew, d1) => let d' := set_pc d1 me p' in
                  HG None (set_ready d' (d_ready d' ++ [c])) /\ PG None d' /\ d_cur d' = Some me
  | (GOld, d1) => let d' := set_pc d1 me p' in HG None d' /\ PG None d' /\ d_cur d' = Some me /\ exn d' me
  end.
Proof.
  intros H P Hc Hme Hpcx Hpst. unfold Dispatch.gen_node. destruct (d_nodes d c) eqn:Ec.
  - destruct (mem c (n_anc (node_of d me))); [exact I|]. cbv zeta.
    split; [apply HG_set_pc; auto; apply Hpcx; auto; unfold exn; rewrite Ec; discriminate|].
    split; [apply PG_set_pc; auto|]. split; [exact Hc|]. apply exn_set_pc; auto.
  - cbv zeta. set (nn := new_node tasks (n_anc (node_of d me)) c). set (d1 := set_node d c nn).
    assert (Hne : me <> c) by (intros ->; apply Hme; exact Ec).
    assert (Hnode : node_of d1 me = node_of d me) by (apply node_of_set_other; exact Hne).
    set (dA := set_ready d1 (d_ready d ++ [c])).
    assert (HA : HG None dA).
    { apply (HG_new None d dA c (n_anc (node_of d me))); auto.
      - intros z Hz. apply node_of_set_other. exact Hz.
      - apply node_of_set_same.
      - intros z. apply exn_set_node.
      - left. simpl. apply in_app_iff. right. left. reflexivity.
      - intros x [Hx|[Hx|Hx]]; [left; simpl; apply in_app_iff; auto|right; left; exact Hx|right; right; exact Hx].
      - intros x [Hx|[Hx|Hx]]; [|left; right; left; exact Hx|left; right; right; exact Hx].
        simpl in Hx. apply in_app_iff in Hx. destruct Hx as [Hx|[<-|[]]]; auto. left; left; exact Hx. }
    assert (HmeA : exn dA me) by (apply exn_set_node; auto).
    split.
    + change (HG None (set_pc dA me p')). apply HG_set_pc; auto.
      change (node_of dA me) with (node_of d1 me). rewrite Hnode. apply Hpcx.
      * intros z Hz. apply exn_set_node. auto.
      * apply exn_set_node. auto.
    + split; [|exact Hc]. apply PG_set_pc.
      * apply (PG_upd None None d d1 c); auto.
        -- intros z Hz. unfold d1. rewrite node_of_set_other by auto. auto.
        -- unfold d1. rewrite node_of_set_same. exact I.
      * rewrite Hnode. exact Hpst.
Qed.

(* ---------- one resumption of a node's generator (the node is the dispatcher's current node) ---------- *)
Definition gpost (me : name) (y : gyield) (d' : dstate) : Prop :=
  match y with
  | YNode k => HG None (set_ready d' (d_ready d' ++ [k])) /\ PG None d' /\ d_cur d' = Some me
  | YWait => HG None (set_cur (set_waiting d' (addset me (d_waiting d'))) None) /\ PG None d'
  | YEnd => HG None (set_cur d' None) /\ PG None d'
  | YSelf => HG None d' /\ PG (Some me) d' /\ d_cur d' = Some me
  | _ => True end.

Lemma HG_wait d me : HG None d -> d_cur d = Some me -> wln (node_of d me) <> [] ->
  HG None (set_cur (set_waiting d (addset me (d_waiting d))) None).
Proof.
  intros H Hc Hw. apply (HG_q0 None d); auto.
  - intros w Hin. simpl in Hin. apply addset_In in Hin. destruct Hin as [->|Hin]; auto. apply (g_wne _ _ H). exact Hin.
  - intros x _ _ [Hx|[Hx|Hx]]; [left; exact Hx|right; left; simpl; apply addset_In; auto|].
    right; left. simpl. apply addset_In. left. congruence.
  - intros x [Hx|[Hx|Hx]]; [left; exact Hx| |discriminate].
    simpl in Hx. apply addset_In in Hx. destruct Hx as [->|Hx]; [right; right; exact Hc|right; left; exact Hx].
Qed.

Lemma HG_end d me : HG None d -> d_cur d = Some me -> unfinished (st_of d me) = false \/ F me -> HG None (set_cur d None).
Proof.
  intros H Hc Hf. apply (HG_q None d); auto.
  - intros w Hin. apply (g_wne _ _ H). exact Hin.
  - intros x _ Hu [Hx|[Hx|Hx]]; [left; left; exact Hx|left; right; left; exact Hx|].
    rewrite Hc in Hx. inversion Hx; subst. destruct Hf as [Hf|Hf]; [congruence|right; exact Hf].
  - intros x [Hx|[Hx|Hx]]; [left; exact Hx|right; left; exact Hx|discriminate].
Qed.

Lemma gen_step_G fuel : forall d me y d',
  HG None d -> PG None d -> d_cur d = Some me -> exn d me ->
  gen_step fuel d me = (y, d') -> gpost me y d'.
Proof.
  induction fuel as [|fuel IH]; intros d me y d' H P Hc Hme Hg; cbn [Dispatch.gen_step] in Hg.
  { inversion Hg; subst. exact I. }
  pose proof (g_pcx _ _ H me) as Hpcx. pose proof (pg_all _ _ P me ltac:(discriminate)) as Hpst.
  unfold HoldP.pcxn in Hpcx. unfold gstn in Hpst.
  assert (Hstpc : forall p, n_st (nd_pc (node_of d me) p) = n_st (node_of d me)) by reflexivity.
  destruct (n_pc (node_of d me)) as [|rest calcs tks|rest tks| | | |rest| |] eqn:Epc.
  - (* PLoop *)
    eapply IH; [| | | |exact Hg].
    + apply HG_node; auto; simpl.
      * apply (g_nws _ _ H).
      * apply incl_refl.
      * unfold HoldP.pcxn. simpl. intros c Hin. auto.
      * apply (g_wne _ _ H).
    + apply (PG_upd None None d _ me); auto.
      * intros z Hz. rewrite node_of_set_other by auto. auto.
      * rewrite node_of_set_same. exact I.
    + exact Hc.
    + apply exn_set_node. auto.
  - (* PCalc *)
    destruct rest as [|c r].
    + destruct (add_wait_run_G None calcs d me true H Hme) as (H1 & S1 & Q1 & E1).
      { intros x Hx. destruct (Hpcx x Hx) as [[]|A]; exact A. }
      set (d1 := add_wait_run d me calcs true) in *.
      assert (Hme1 : exn d1 me) by (apply E1; exact Hme).
      eapply IH; [| | | |exact Hg].
      * apply HG_set_pc; auto. unfold HoldP.pcxn. simpl. auto.
      * apply PG_set_pc; [eapply PG_same; eauto|]. exact I.
      * change (d_cur d1 = Some me). destruct Q1 as (_ & _ & ->). exact Hc.
      * apply exn_set_pc; auto.
    + pose proof (child_G d me c (PCalc r calcs tks) H P Hc Hme) as Hch.
      destruct (gen_node d (Some (n_anc (node_of d me))) c) as [[| |] d1].
      * destruct Hch as (A & B & C); [| |inversion Hg; subst; simpl; auto].
        -- intros dX M Hx. unfold HoldP.pcxn. simpl. intros c0 Hc0. destruct (Hpcx c0 Hc0) as [[->|X]|X]; auto.
        -- exact I.
      * destruct Hch as (A & B & C & D); [| |eapply IH; [exact A|exact B|exact C|exact D|exact Hg]].
        -- intros dX M Hx. unfold HoldP.pcxn. simpl. intros c0 Hc0. destruct (Hpcx c0 Hc0) as [[->|X]|X]; auto.
        -- exact I.
      * inversion Hg; subst. exact I.
  - (* PTask *)
    destruct rest as [|c r].
    + destruct (add_wait_run_G None tks d me false H Hme) as (H1 & S1 & Q1 & E1).
      { intros x Hx. destruct (Hpcx x Hx) as [[]|A]; exact A. }
      set (d1 := add_wait_run d me tks false) in *.
      assert (Hme1 : exn d1 me) by (apply E1; exact Hme).
      assert (Hc1 : d_cur d1 = Some me) by (destruct Q1 as (_ & _ & ->); exact Hc).
      assert (P1 : PG None d1) by (eapply PG_same; eauto).
      assert (HL : HG None (set_pc d1 me PLoop)) by (apply HG_set_pc; auto; try exact I).
      assert (PL : PG None (set_pc d1 me PLoop)) by (apply PG_set_pc; auto; try exact I).
      destruct (negb (is_nil (n_pend_calc (node_of d1 me))) || negb (is_nil (n_pend_task (node_of d1 me)))).
      * eapply IH; [exact HL|exact PL|exact Hc1|apply exn_set_pc; auto|exact Hg].
      * destruct (negb (is_nil (n_wrun (node_of d1 me))) || negb (is_nil (n_wcalc (node_of d1 me)))) eqn:Ew.
        -- inversion Hg; subst. simpl. split; [|exact PL].
           apply (HG_wait (set_pc d1 me PLoop) me HL Hc1). rewrite set_pc_node. unfold wln. simpl.
           intros E. apply app_eq_nil in E. destruct E as [E1' E2']. rewrite E1', E2' in Ew. discriminate.
        -- eapply IH; [| | | |exact Hg].
           ++ apply HG_set_pc; auto; try exact I.
           ++ apply PG_set_pc; auto; try exact I.
           ++ exact Hc1.
           ++ apply exn_set_pc; auto.
    + pose proof (child_G d me c (PTask r tks) H P Hc Hme) as Hch.
      destruct (gen_node d (Some (n_anc (node_of d me))) c) as [[| |] d1].
      * destruct Hch as (A & B & C); [| |inversion Hg; subst; simpl; auto].
        -- intros dX M Hx. unfold HoldP.pcxn. simpl. intros c0 Hc0. destruct (Hpcx c0 Hc0) as [[->|X]|X]; auto.
        -- exact I.
      * destruct Hch as (A & B & C & D); [| |eapply IH; [exact A|exact B|exact C|exact D|exact Hg]].
        -- intros dX M Hx. unfold HoldP.pcxn. simpl. intros c0 Hc0. destruct (Hpcx c0 Hc0) as [[->|X]|X]; auto.
        -- exact I.
      * inversion Hg; subst. exact I.
  - (* PSelf *)
    inversion Hg; subst. simpl. split; [apply HG_set_pc; auto; try exact I|]. split; [|exact Hc].
    apply (PG_upd None (Some me) d _ me); auto.
    + intros z Hz. unfold Dispatch.set_pc. rewrite node_of_set_other by auto. auto.
    + split; auto. left. rewrite set_pc_node. reflexivity.
  - (* PAfterSelf *)
    destruct Hpst as [Hs1 Hs2].
    destruct (is_nil (t_setup (get_task me))) eqn:En.
    + inversion Hg; subst. simpl. split; [|apply PG_set_pc; auto; unfold gstn; simpl; auto].
      apply (HG_end (set_pc d me PDone) me); auto.
      * apply HG_set_pc; auto; try exact I.
      * rewrite set_pc_st. apply Hs2. reflexivity.
    + destruct (n_st (node_of d me)) eqn:Est; try congruence;
        (eapply IH; [| | | |exact Hg]; [apply HG_set_pc; auto; try exact I| |exact Hc|apply exn_set_pc; auto];
         apply PG_set_pc; auto; unfold gstn; simpl; rewrite Est; discriminate).
  - (* PAfterSelWait *)
    assert (HD : gpost me YEnd (set_pc d me PDone) \/ n_st (node_of d me) = SRun).
    { destruct (n_st (node_of d me)) eqn:Est; try congruence; auto; left; simpl;
        (split; [|apply PG_set_pc; auto; unfold gstn; simpl; rewrite Est; left; reflexivity]);
        (apply (HG_end (set_pc d me PDone) me); auto; [apply HG_set_pc; auto; try exact I|];
         left; rewrite set_pc_st; unfold Dispatch.st_of; rewrite Est; reflexivity). }
    destruct (n_st (node_of d me)) eqn:Est;
      try (destruct HD as [HD|HD]; [inversion Hg; subst; exact HD|discriminate]).
    eapply IH; [| | | |exact Hg].
    + apply HG_set_pc; auto. unfold HoldP.pcxn. simpl. auto.
    + apply PG_set_pc; auto. unfold gstn. simpl. rewrite Est. discriminate.
    + exact Hc.
    + apply exn_set_pc; auto.
  - (* PSetup *)
    destruct rest as [|c r].
    + destruct (add_wait_run_G None (t_setup (get_task me)) d me false H Hme) as (H1 & S1 & Q1 & E1).
      { intros x Hx. destruct (Hpcx x Hx) as [[]|A]; exact A. }
      set (d1 := add_wait_run d me (t_setup (get_task me)) false) in *.
      assert (Hme1 : exn d1 me) by (apply E1; exact Hme).
      assert (Hc1 : d_cur d1 = Some me) by (destruct Q1 as (_ & _ & ->); exact Hc).
      assert (P1 : PG None d1) by (eapply PG_same; eauto).
      assert (Hst1 : n_st (node_of d1 me) <> SNone) by (destruct (S1 me) as [_ ->]; exact Hpst).
      destruct (is_nil (n_wrun (node_of d1 me))) eqn:Ew.
      * inversion Hg; subst. simpl. split; [apply HG_set_pc; auto; try exact I|]. split; [|exact Hc1].
        apply (PG_upd None (Some me) d1 _ me); auto.
        -- intros z Hz. unfold Dispatch.set_pc. rewrite node_of_set_other by auto. auto.
        -- split; auto. right. rewrite set_pc_node. split; [reflexivity|]. rewrite set_pc_st. exact Hst1.
      * inversion Hg; subst. simpl.
        assert (HW : HG None (set_pc d1 me PSetupWaited)) by (apply HG_set_pc; auto; try exact I).
        split; [|apply PG_set_pc; auto; unfold gstn; simpl; exact Hst1].
        apply (HG_wait _ me HW Hc1). rewrite set_pc_node. unfold wln. simpl.
        intros E. apply app_eq_nil in E. destruct E as [E1' _]. rewrite E1' in Ew. discriminate.
    + pose proof (child_G d me c (PSetup r) H P Hc Hme) as Hch.
      destruct (gen_node d (Some (n_anc (node_of d me))) c) as [[| |] d1].
      * destruct Hch as (A & B & C); [| |inversion Hg; subst; simpl; auto].
        -- intros dX M Hx. unfold HoldP.pcxn. simpl. intros c0 Hc0. destruct (Hpcx c0 Hc0) as [[->|X]|X]; auto.
        -- unfold gstn. simpl. exact Hpst.
      * destruct Hch as (A & B & C & D); [| |eapply IH; [exact A|exact B|exact C|exact D|exact Hg]].
        -- intros dX M Hx. unfold HoldP.pcxn. simpl. intros c0 Hc0. destruct (Hpcx c0 Hc0) as [[->|X]|X]; auto.
        -- unfold gstn. simpl. exact Hpst.
      * inversion Hg; subst. exact I.
  - (* PSetupWaited *)
    inversion Hg; subst. simpl. split; [apply HG_set_pc; auto; try exact I|]. split; [|exact Hc].
    apply (PG_upd None (Some me) d _ me); auto.
    + intros z Hz. unfold Dispatch.set_pc. rewrite node_of_set_other by auto. auto.
    + split; auto. right. rewrite set_pc_node. split; [reflexivity|]. rewrite set_pc_st. exact Hpst.
  - (* PDone *)
    inversion Hg; subst. simpl. split; [|exact P]. apply (HG_end d' me); auto.
Qed.

Lemma wake_one_G p fs d w :
  HG (Some p) d -> exn d w ->
  let d' := wake_one tasks d p fs w in
  HG (Some p) d' /\ same_ps d d' /\ (forall z, exn d' z <-> exn d z) /\ d_cur d' = d_cur d /\
  ~ In p (wln (node_of d' w)) /\ (forall z, ~ In p (wln (node_of d z)) -> ~ In p (wln (node_of d' z))).
Proof.
  intros H Hw. cbv zeta. unfold Dispatch.wake_one.
  set (nd := node_of d w). set (nw2 := wake_node tasks nd p fs).
  destruct (wake_node_keeps nd p fs) as (k1 & k2 & k3 & k4 & k5 & k6). fold nw2 in k1, k2, k3, k4, k5, k6.
  set (d1 := set_node d w nw2).
  assert (Hsub : forall y, In y (wln nw2) -> In y (wln nd) /\ y <> p).
  { intros y Hy. unfold wln in *. rewrite k5, k6 in Hy. rewrite in_app_iff in *.
    destruct Hy as [Hy|Hy]; apply rem_In in Hy; tauto. }
  assert (Hnp : ~ In p (wln nw2)) by (intros Hy; apply Hsub in Hy; destruct Hy as [_ Hy]; congruence).
  assert (Hex1 : forall z, exn d1 z <-> exn d z).
  { intros z. unfold d1. rewrite exn_set_node. split; [intros [A| ->]; auto|auto]. }
  assert (S1 : same_ps d d1) by (apply same_ps_set_node; auto).
  assert (Hother : forall z, ~ In p (wln (node_of d z)) -> ~ In p (wln (node_of d1 z))).
  { intros z Hz. unfold d1. destruct (N.eqb_spec z w) as [->|Hne]; [rewrite node_of_set_same; exact Hnp|rewrite node_of_set_other; auto]. }
  assert (Hself : ~ In p (wln (node_of d1 w))) by (unfold d1; rewrite node_of_set_same; exact Hnp).
  (* the common part of both outcomes *)
  assert (G : forall dq, d_nodes dq = d_nodes d1 ->
            (forall z, In z (d_waiting dq) -> (z = w -> wln nw2 <> []) /\ (z <> w -> In z (d_waiting d))) ->
            (forall x, located d x -> located dq x) -> (forall x, located dq x -> located d x) -> HG (Some p) dq).
  { intros dq En Hwq Hl1 Hl2.
    assert (Enode : forall z, node_of dq z = node_of d1 z) by (intros z; unfold Dispatch.node_of; rewrite En; reflexivity).
    eapply (HG_step (Some p) d dq w nw2); eauto.
    - intros z Hz. rewrite Enode. unfold d1. apply node_of_set_other. exact Hz.
    - rewrite Enode. unfold d1. apply node_of_set_same.
    - intros z Hz. unfold exn. rewrite En. apply Hex1. exact Hz.
    - intros z Hz. left. unfold exn in Hz. rewrite En in Hz. apply Hex1. exact Hz.
    - rewrite k2. apply (g_nws _ _ H).
    - intros y Hy. left. rewrite k4 in Hy. exact Hy.
    - rewrite k4. apply incl_refl.
    - intros y Hy. left. apply Hsub. exact Hy.
    - pose proof (g_pcx _ _ H w) as Px. unfold HoldP.pcxn in *. rewrite k1. exact Px.
    - intros x Hx Hu Hl. destruct Hl as [L|L]; [unfold exn in Hx; rewrite En in Hx; apply Hex1; exact Hx|left; apply Hl1; exact L|right; exact L]. }
  destruct (wake_ready nd p nw2 && mem w (d_waiting d1)) eqn:Erdy.
  - split; [|split; [|split; [|split; [reflexivity|split]]]]; auto.
    apply G; auto.
    + intros z Hz. simpl in Hz. apply rem_In in Hz. destruct Hz as [Hz Hne]. split; [congruence|auto].
    + intros x [Hx|[Hx|Hx]]; [left; simpl; apply in_app_iff; auto| |right; right; exact Hx].
      destruct (N.eqb_spec x w) as [->|Hne]; [left; simpl; apply in_app_iff; right; left; reflexivity|].
      right; left. simpl. apply rem_In. auto.
    + apply andb_true_iff in Erdy. destruct Erdy as [_ Em]. apply mem_In in Em. simpl in Em.
      intros x [Hx|[Hx|Hx]]; [|right; left; simpl in Hx; apply rem_In in Hx; tauto|right; right; exact Hx].
      simpl in Hx. apply in_app_iff in Hx. destruct Hx as [Hx|[<-|[]]]; [left; exact Hx|right; left; exact Em].
  - split; [|split; [|split; [|split; [reflexivity|split]]]]; auto.
    apply G; auto.
    intros z Hz. simpl in Hz. split; auto. intros ->.
    apply andb_false_iff in Erdy. destruct Erdy as [Er|Er].
    + unfold wake_ready in Er. destruct (mem p (n_wcalc nd)); [discriminate|].
      unfold wln. intros E. apply app_eq_nil in E. destruct E as [E1 E2]. rewrite E1, E2 in Er. discriminate.
    + simpl in Er. apply mem_false_In in Er. contradiction.
Qed.

Lemma wake_G p fs l : forall d,
  HG (Some p) d -> (forall w, In w l -> exn d w) ->
  let d' := wake tasks d p fs l in
  HG (Some p) d' /\ same_ps d d' /\ d_cur d' = d_cur d /\
  (forall w, In w l -> ~ In p (wln (node_of d' w))) /\
  (forall z, ~ In p (wln (node_of d z)) -> ~ In p (wln (node_of d' z))).
Proof.
  induction l as [|w r IH]; intros d H Hl; cbn [Dispatch.wake]; cbv zeta.
  - split; [exact H|]. split; [apply same_ps_refl|]. split; [reflexivity|]. split; [intros w []|intros z Hz; exact Hz].
  - destruct (wake_one_G p fs d w H (Hl w (or_introl eq_refl))) as (H1 & S1 & E1 & C1 & N1 & O1).
    destruct (IH (wake_one tasks d p fs w) H1) as (H2 & S2 & C2 & N2 & O2).
    { intros z Hz. apply E1. apply Hl. right. exact Hz. }
    split; auto. split; [eapply same_ps_trans; eauto|]. split; [congruence|]. split.
    + intros z [<-|Hz]; [apply O2; exact N1|apply N2; exact Hz].
    + intros z Hz. apply O2. apply O1. exact Hz.
Qed.

Lemma HG_weaken p d : HG (Some p) d -> (forall z, ~ In p (wln (node_of d z))) -> HG None d.
Proof.
  intros [Hwne Hreg Hunf Hex Hloc Hnws Hpcx Hqex Hwex] Hn. split; auto.
  intros w x Hx. destruct (Hunf w x Hx) as [A|A]; auto. inversion A; subst. exfalso. eapply Hn; eauto.
Qed.

Lemma HG_strengthen exc d : HG None d -> HG exc d.
Proof.
  intros [Hwne Hreg Hunf Hex Hloc Hnws Hpcx Hqex Hwex]. split; auto.
  intros w x Hx. destruct (Hunf w x Hx) as [A|A]; auto. discriminate.
Qed.

Lemma update_waiting_G d p :
  HG p d -> let d' := update_waiting tasks wake_rank d p in HG None d' /\ same_ps d d' /\ d_cur d' = d_cur d.
Proof.
  intros H. cbv zeta. unfold Dispatch.update_waiting. destruct p as [p|]; [|split; auto; split; [apply same_ps_refl|reflexivity]].
  rewrite (g_nws _ _ H p).
  assert (Hrun : unfinished (st_of d p) = true -> HG None d).
  { intros Hu. destruct H as [Hwne Hreg Hunf Hex Hloc Hnws Hpcx Hqex Hwex]. split; auto.
    intros w x Hx. destruct (Hunf w x Hx) as [A|A]; auto. inversion A; subst. auto. }
  assert (Hwake : forall s, let d' := wake tasks d p s (wake_order wake_rank p (n_wme (node_of d p))) in
            HG None d' /\ same_ps d d' /\ d_cur d' = d_cur d).
  { intros s. cbv zeta.
    destruct (wake_G p s (wake_order wake_rank p (n_wme (node_of d p))) d H) as (H1 & S1 & C1 & N1 & O1).
    { intros w Hw. unfold wake_order in Hw. apply sort_by_In in Hw. apply (g_wex _ _ H w p). exact Hw. }
    split; [|split; auto]. apply (HG_weaken p); auto.
    intros z. destruct (in_dec N.eq_dec z (n_wme (node_of d p))) as [Hin|Hnin].
    - apply N1. unfold wake_order. apply sort_by_In. exact Hin.
    - apply O1. intros Hz. apply Hnin. apply (g_reg _ _ H z p). exact Hz. }
  unfold Dispatch.st_of in Hrun.
  destruct (n_st (node_of d p)); try apply Hwake.
  split; [apply Hrun; reflexivity|]. split; [apply same_ps_refl|reflexivity].
Qed.

(* ---------- _get_next_node, the dispatcher loop ---------- *)
Lemma next_from_torun_G l : forall d o d1,
  HG None d -> PG None d -> d_cur d = None -> next_from_torun tasks d l = (o, d1) ->
  PG None d1 /\
  match o with
  | Some x => HG None (set_cur d1 (Some x))
  | None => HG None d1 /\ d_cur d1 = None /\ d_ready d1 = d_ready d /\ d_waiting d1 = d_waiting d
  end.
Proof.
  induction l as [|x r IH]; intros d o d1 H P Hc E; simpl in E.
  - inversion E; subst. split; [apply (PG_q None d); [reflexivity|exact P]|].
    split; [|auto]. apply (HG_q None d); auto. intros w Hw. apply (g_wne _ _ H). exact Hw.
  - unfold Dispatch.gen_node in E. destruct (d_nodes d x) eqn:Ex.
    + eapply IH; eauto.
    + inversion E; subst. clear E. split.
      * apply (PG_q None (set_node d x (new_node tasks [] x))); [reflexivity|].
        apply (PG_upd None None d _ x); auto.
        -- intros z Hz. rewrite node_of_set_other by auto. auto.
        -- rewrite node_of_set_same. exact I.
      * apply (HG_new None d _ x []); auto.
        -- intros z Hz. apply (node_of_set_other tasks d x). exact Hz.
        -- apply (node_of_set_same tasks d x).
        -- intros z. apply (exn_set_node d x).
        -- right; right. reflexivity.
        -- intros y [Hy|[Hy|Hy]]; [left; exact Hy|right; left; exact Hy|congruence].
        -- intros y [Hy|[Hy|Hy]]; [left; left; exact Hy|left; right; left; exact Hy|].
           simpl in Hy. inversion Hy. auto.
Qed.

Lemma disp_run_G fuel : forall d y d',
  HG None d -> PG None d -> disp_run tasks calc_rank fuel d = (y, d') ->
  match y with
  | DTask k => HG None d' /\ PG (Some k) d' /\ d_cur d' = Some k
  | DHold => HG None d' /\ d_cur d' = None /\ d_ready d' = [] /\ d_waiting d' <> [] /\ PG None d'
  | DStop => HG None d' /\ d_cur d' = None /\ d_ready d' = [] /\ d_waiting d' = [] /\ PG None d'
  | _ => True end.
Proof.
  induction fuel as [|fuel IH]; intros d y d' H P E; cbn [Dispatch.disp_run] in E.
  { inversion E; subst. exact I. }
  destruct (d_cur d) as [me|] eqn:Ecur.
  - destruct (gen_step (S (S fuel)) d me) as [g d1] eqn:Eg.
    assert (Hme : exn d me) by (apply (g_qex _ _ H); right; right; exact Ecur).
    pose proof (gen_step_G _ _ _ _ _ H P Ecur Hme Eg) as G.
    destruct g; simpl in G.
    + destruct G as (A & B & C). eapply IH; [exact A| |exact E]. apply (PG_q None d1); [reflexivity|exact B].
    + destruct G as (A & B). eapply IH; [exact A| |exact E]. apply (PG_q None d1); [reflexivity|exact B].
    + inversion E; subst. exact G.
    + destruct G as (A & B). eapply IH; [exact A| |exact E]. apply (PG_q None d1); [reflexivity|exact B].
    + inversion E; subst. exact I.
    + inversion E; subst. exact I.
  - destruct (d_ready d) as [|x r] eqn:Er.
    + destruct (next_from_torun tasks d (d_torun d)) as [o d1] eqn:En.
      destruct (next_from_torun_G _ _ _ _ H P Ecur En) as [P1 H1].
      destruct o as [x|].
      * eapply IH; [exact H1| |exact E]. apply (PG_q None d1); [reflexivity|exact P1].
      * destruct H1 as (A & B & C & D). destruct (is_nil (d_waiting d1)) eqn:Ew; inversion E; subst.
        -- split; auto. split; auto. split; [congruence|]. split; [apply is_nil_true; exact Ew|exact P1].
        -- split; auto. split; auto. split; [congruence|]. split; [|exact P1]. intros Ew'. rewrite Ew' in Ew. discriminate.
    + eapply IH; [| |exact E].
      * apply (HG_q0 None d); auto.
        -- intros w Hw. apply (g_wne _ _ H). exact Hw.
        -- intros y0 _ _ [Hy|[Hy|Hy]]; [|right; left; exact Hy|congruence].
           rewrite Er in Hy. destruct Hy as [<-|Hy]; [right; right; reflexivity|left; exact Hy].
        -- intros y0 [Hy|[Hy|Hy]]; [left; rewrite Er; right; exact Hy|right; left; exact Hy|].
           simpl in Hy. inversion Hy; subst. left. rewrite Er. left. reflexivity.
      * apply (PG_q None d); [reflexivity|exact P].
Qed.

Lemma set_status_G e d k s :
  HG e d -> (e = None \/ e = Some k) -> d_cur d = Some k -> HG (Some k) (set_status d k s).
Proof.
  intros H He Hc.
  assert (Hk : exn d k) by (apply (g_qex _ _ H); right; right; exact Hc).
  assert (Eex : forall z, exn (set_status d k s) z <-> exn d z).
  { intros z. unfold Runner.set_status. rewrite exn_set_node. split; [intros [A| ->]; auto|auto]. }
  assert (Ewl : forall z, wln (node_of (set_status d k s) z) = wln (node_of d z)).
  { intros z. unfold wln. destruct (set_status_fields d k s z) as (-> & -> & _). reflexivity. }
  destruct H as [Hwne Hreg Hunf Hex Hloc Hnws Hpcx Hqex Hwex].
  split.
  - intros w Hw. rewrite Ewl. apply Hwne. exact Hw.
  - intros w x. rewrite Ewl. destruct (set_status_fields d k s x) as (_ & _ & -> & _). apply Hreg.
  - intros w x. rewrite Ewl. intros Hx. rewrite set_status_st. destruct (N.eqb_spec x k) as [->|Hne]; [right; reflexivity|].
    destruct (Hunf w x Hx) as [A|A]; auto. destruct He as [->| ->]; [discriminate|]. inversion A; subst. contradiction.
  - intros w x. rewrite Ewl, Eex. apply Hex.
  - intros x. rewrite Eex, set_status_st. intros Hx Hu. destruct (N.eqb_spec x k) as [->|Hne].
    + left; right; right. exact Hc.
    + apply Hloc; auto.
  - intros w. destruct (set_status_fields d k s w) as (_ & _ & _ & -> & _). apply Hnws.
  - intros me. pose proof (Hpcx me) as Px. unfold HoldP.pcxn in *.
    destruct (set_status_fields d k s me) as (_ & _ & _ & _ & ->).
    destruct (n_pc (node_of d me)); auto; intros c Hin; destruct (Px c Hin); auto; right; apply Eex; auto.
  - intros x Hx. apply Eex. apply Hqex. exact Hx.
  - intros w x. destruct (set_status_fields d k s x) as (_ & _ & -> & _). rewrite Eex. apply Hwex.
Qed.

(* every node but k satisfies the pc/status relation; k keeps its program counter *)
Definition PGo (k : name) (p0 : pc) (d : dstate) : Prop :=
  (forall me, me <> k -> gstn me (node_of d me)) /\ n_pc (node_of d k) = p0.

Lemma PGo_set_status k p0 d s : PGo k p0 d -> PGo k p0 (set_status d k s).
Proof.
  intros [A B]. split.
  - intros me Hne. unfold gstn. rewrite set_status_pc.
    change (n_st (node_of (set_status d k s) me)) with (Dispatch.st_of tasks (set_status d k s) me).
    rewrite set_status_st. destruct (N.eqb_spec me k); [contradiction|]. apply A. exact Hne.
  - rewrite set_status_pc. exact B.
Qed.

Definition RG (k : name) (p0 : pc) (r : rstate) : Prop :=
  HG (Some k) (r_d r) /\ d_cur (r_d r) = Some k /\ PGo k p0 (r_d r).

Lemma RG_set k p0 r s : RG k p0 r -> RG k p0 (with_d r (set_status (r_d r) k s)).
Proof.
  intros (A & B & C). split; [|split]; cbn [r_d with_d].
  - apply (set_status_G (Some k)); auto.
  - rewrite set_status_cur. exact B.
  - apply PGo_set_status. exact C.
Qed.

Lemma select_task_RG k p0 r b r1 :
  RG k p0 r -> select_task tasks continue_ always r k = (b, r1) -> RG k p0 r1.
Proof.
  apply (select_task_pres tasks continue_ always (RG k p0) k).
  - intros r0 s H. apply RG_set. exact H.
  - intros r0 e H _. exact H.
  - intros r0 kd H. unfold handle_error, handle_error_gen, RG. simpl. apply (RG_set k p0 r0 SFailure H).
Qed.

Lemma process_result_RG k p0 r : RG k p0 r -> RG k p0 (process_result tasks continue_ r k).
Proof.
  intros H. unfold process_result, handle_error, handle_error_gen.
  destruct (t_outcome (get_task k)); auto;
    first [apply (RG_set k p0 r SSuccess H)|apply (RG_set k p0 r SFailure H)|apply (RG_set k p0 r SFailureV H)].
Qed.

Lemma PG_of_PGo k p0 d : PGo k p0 d -> gstn k (node_of d k) -> PG None d.
Proof.
  intros [A B] Hk. split.
  - intros me _. destruct (N.eqb_spec me k) as [->|Hne]; auto.
  - intros me E. discriminate.
Qed.


Lemma HG_init sel : HG None (disp_init sel).
Proof.
  split; simpl; auto.
  - intros w x [].
  - intros x Hx. exfalso. apply Hx. reflexivity.
  - intros me. exact I.
  - intros x [[]|[[]|Hx]]. discriminate.
  - intros w x [].
Qed.
Lemma PG_init sel : PG None (disp_init sel).
Proof. split; [intros me _; exact I|intros me E; discriminate]. Qed.

End G.

(* ---------- the set of tasks in flight changes ---------- *)
Section G2.
Variable tasks : name -> option task.
Variable wake_rank : name -> name -> N.
Variable calc_rank : name -> N.

Notation node_of := (node_of tasks).
Notation st_of := (st_of tasks).
Notation get_task := (get_task tasks).
Notation set_status := (set_status tasks).
Notation HG := (HG tasks).
Notation PG := (PG tasks).
Notation gstn := (gstn tasks).
Notation PGo := (PGo tasks).

Lemma HG_mono (F F' : name -> Prop) exc d : (forall x, F x -> F' x) -> HG F exc d -> HG F' exc d.
Proof.
  intros M [Hwne Hreg Hunf Hex Hloc Hnws Hpcx Hqex Hwex]. split; auto.
  intros x Hx Hu. destruct (Hloc x Hx Hu) as [L|L]; auto.
Qed.

Lemma gstn_mono (F F' : name -> Prop) me nd : (F me -> F' me) -> gstn F me nd -> gstn F' me nd.
Proof.
  intros M. unfold HoldG.gstn. destruct (n_pc nd); auto.
  - intros [A B]. split; auto. intros E. destruct (B E); auto.
  - intros [A|A]; auto.
Qed.

Lemma PG_mono (F F' : name -> Prop) pexc d : (forall x, F x -> F' x) -> PG F pexc d -> PG F' pexc d.
Proof.
  intros M [A B]. split; auto. intros me Hme. eapply gstn_mono; [apply M|apply A; exact Hme].
Qed.

(* the task whose completion has not been sent to the dispatcher yet is in fact not finished *)
Lemma HG_drop_exc (F : name -> Prop) k d : HG F (Some k) d -> unfinished (st_of d k) = true -> HG F None d.
Proof.
  intros [Hwne Hreg Hunf Hex Hloc Hnws Hpcx Hqex Hwex] Hu. split; auto.
  intros w x Hx. destruct (Hunf w x Hx) as [A|A]; auto. inversion A; subst. auto.
Qed.

(* the task handed to the runner was selected to run: it is in flight from now on *)
Lemma PG_flight_in (F F' : name -> Prop) k p0 d :
  PGo F k p0 d -> (p0 = PAfterSelf \/ p0 = PDone) -> st_of d k <> SNone ->
  (forall x, F x -> F' x) -> F' k -> PG F' None d.
Proof.
  intros [A B] Hp Hst M Hk. split; [|intros me E; discriminate].
  intros me _. destruct (N.eqb_spec me k) as [->|Hne].
  - unfold HoldG.gstn. rewrite B. destruct Hp as [-> | ->]; auto.
  - eapply gstn_mono; [apply M|apply A; exact Hne].
Qed.

(* a task in flight gets its final status (its result reaches the main thread): it leaves F, and is
   the `completed` task of the next dispatcher call *)
Lemma set_status_flight_H (F F' : name -> Prop) d k s :
  HG F None d -> exn d k -> unfinished s = false -> (forall x, F x -> x <> k -> F' x) ->
  HG F' (Some k) (set_status d k s).
Proof.
  intros H Hk Hs M.
  assert (Eex : forall z, exn (set_status d k s) z <-> exn d z).
  { intros z. unfold Runner.set_status. rewrite (HoldP.exn_set_node tasks wake_rank calc_rank). split; [intros [A| ->]; auto|auto]. }
  assert (Ewl : forall z, wln (node_of (set_status d k s) z) = wln (node_of d z)).
  { intros z. unfold wln. destruct (HoldP.set_status_fields tasks d k s z) as (-> & -> & _). reflexivity. }
  destruct H as [Hwne Hreg Hunf Hex Hloc Hnws Hpcx Hqex Hwex].
  split.
  - intros w Hw. rewrite Ewl. apply Hwne. exact Hw.
  - intros w x. rewrite Ewl. destruct (HoldP.set_status_fields tasks d k s x) as (_ & _ & -> & _). apply Hreg.
  - intros w x. rewrite Ewl. intros Hx. rewrite set_status_st. destruct (N.eqb_spec x k) as [->|Hne]; [right; reflexivity|].
    destruct (Hunf w x Hx) as [A|A]; auto. discriminate.
  - intros w x. rewrite Ewl, Eex. apply Hex.
  - intros x. rewrite Eex, set_status_st. intros Hx Hu. destruct (N.eqb_spec x k) as [->|Hne].
    + congruence.
    + destruct (Hloc x Hx Hu) as [L|L]; [left; exact L|right; apply M; auto].
  - intros w. destruct (HoldP.set_status_fields tasks d k s w) as (_ & _ & _ & -> & _). apply Hnws.
  - intros me. pose proof (Hpcx me) as Px. unfold HoldP.pcxn in *.
    destruct (HoldP.set_status_fields tasks d k s me) as (_ & _ & _ & _ & ->).
    destruct (n_pc (node_of d me)); auto; intros c Hin; destruct (Px c Hin); auto; right; apply Eex; auto.
  - intros x Hx. apply Eex. apply Hqex. exact Hx.
  - intros w x. destruct (HoldP.set_status_fields tasks d k s x) as (_ & _ & -> & _). rewrite Eex. apply Hwex.
Qed.

Lemma set_status_flight_P (F F' : name -> Prop) d k s :
  PG F None d -> unfinished s = false -> (forall x, F x -> x <> k -> F' x) -> PG F' None (set_status d k s).
Proof.
  intros [A _] Hs M. split; [|intros me E; discriminate].
  intros me _. unfold HoldG.gstn. rewrite set_status_pc.
  change (n_st (node_of (set_status d k s) me)) with (Dispatch.st_of tasks (set_status d k s) me).
  rewrite set_status_st. destruct (N.eqb_spec me k) as [->|Hne].
  - assert (Hn : s <> SNone) by (intros ->; discriminate).
    destruct (n_pc (node_of d k)); auto.
  - apply (gstn_mono F F'); [intros Hm; apply M; auto|]. apply A. discriminate.
Qed.

End G2.

(* ---------- states in which the dispatcher has nothing left to hand out ---------- *)
Section G3.
Variable tasks : name -> option task.
Variable wake_rank : name -> name -> N.
Variable calc_rank : name -> N.

Notation node_of := (node_of tasks).

(* "hold on": nothing current, nothing ready, nothing new to start, somebody waiting *)
Definition hold4 (d : dstate) : Prop := d_cur d = None /\ d_ready d = [] /\ d_waiting d <> [] /\ d_torun d = [].
(* exhausted *)
Definition stop4 (d : dstate) : Prop := d_cur d = None /\ d_ready d = [] /\ d_waiting d = [] /\ d_torun d = [].

Lemma next_from_torun_nil l : forall d d', next_from_torun tasks d l = (None, d') -> d_torun d' = [].
Proof.
  induction l as [|x r IH]; intros d d' E; simpl in E.
  - inversion E; subst. reflexivity.
  - destruct (gen_node tasks d None x) as [[| |] d1]; [discriminate|eapply IH; eauto|eapply IH; eauto].
Qed.

Lemma disp_run_torun fuel : forall d y d',
  disp_run tasks calc_rank fuel d = (y, d') -> y = DHold \/ y = DStop -> d_torun d' = [].
Proof.
  induction fuel as [|fuel IH]; intros d y d' E Hy; cbn [Dispatch.disp_run] in E.
  { inversion E; subst. destruct Hy; discriminate. }
  destruct (d_cur d) as [me|].
  - destruct (gen_step tasks calc_rank (S (S fuel)) d me) as [g d1].
    destruct g; try (eapply IH; eauto; fail); inversion E; subst; destruct Hy; discriminate.
  - destruct (d_ready d) as [|x r].
    + destruct (next_from_torun tasks d (d_torun d)) as [o d1] eqn:En. destruct o as [x|].
      * eapply IH; eauto.
      * apply next_from_torun_nil in En. destruct (is_nil (d_waiting d1)); inversion E; subst; exact En.
    + eapply IH; eauto.
Qed.

(* asked again (nothing completed in between) the dispatcher answers "hold on" again, same state *)
Lemma hold4_send fuel d : hold4 d ->
  disp_send tasks wake_rank calc_rank (S fuel) d None = (DHold, set_torun d []).
Proof.
  intros (A & B & C & D). unfold Dispatch.disp_send. cbn [Dispatch.update_waiting Dispatch.disp_run].
  rewrite A, B, D. cbn [Dispatch.next_from_torun]. cbn [d_waiting set_torun]. destruct (d_waiting d) eqn:E; [contradiction|]. reflexivity.
Qed.
Lemma hold4_set_torun d : hold4 d -> hold4 (set_torun d []).
Proof. intros (A & B & C & D). repeat split; auto. Qed.

(* the queues after waking the nodes that waited for a finished task, when no node is in `waiting` *)
Definition same_q4 (d d' : dstate) : Prop :=
  d_cur d' = d_cur d /\ d_ready d' = d_ready d /\ d_waiting d' = d_waiting d /\ d_torun d' = d_torun d.
Lemma wake_one_q4 d fin fs w : d_waiting d = [] -> same_q4 d (wake_one tasks d fin fs w).
Proof.
  intros E. unfold Dispatch.wake_one. cbn [d_waiting set_node]. rewrite E. cbn [mem]. rewrite andb_false_r.
  repeat split.
Qed.
Lemma wake_q4 l : forall d fin fs, d_waiting d = [] -> same_q4 d (wake tasks d fin fs l).
Proof.
  induction l as [|w r IH]; intros d fin fs E; cbn [Dispatch.wake]; [repeat split|].
  destruct (wake_one_q4 d fin fs w E) as (A & B & C & D).
  destruct (IH (wake_one tasks d fin fs w) fin fs) as (A' & B' & C' & D'); [congruence|].
  repeat split; congruence.
Qed.
Lemma update_waiting_q4 d c :
  d_waiting d = [] -> (forall k, c = Some k -> n_wsel (node_of d k) = false) ->
  same_q4 d (update_waiting tasks wake_rank d c).
Proof.
  intros E Hc. unfold Dispatch.update_waiting. destruct c as [p|]; [|repeat split].
  rewrite (Hc p eq_refl). destruct (n_st (node_of d p)); try (apply wake_q4; exact E). repeat split.
Qed.

(* once exhausted, always exhausted *)
Lemma stop4_send fuel d c :
  stop4 d -> (forall k, c = Some k -> n_wsel (node_of d k) = false) ->
  exists d', disp_send tasks wake_rank calc_rank (S fuel) d c = (DStop, d') /\ stop4 d'.
Proof.
  intros (A & B & C & D) Hc. unfold Dispatch.disp_send.
  destruct (update_waiting_q4 d c C Hc) as (A' & B' & C' & D').
  set (d0 := update_waiting tasks wake_rank d c) in *.
  cbn [Dispatch.disp_run]. rewrite A', A, B', B, D', D. cbn [Dispatch.next_from_torun].
  cbn [d_waiting set_torun]. rewrite C', C. cbn [is_nil].
  eexists. split; [reflexivity|]. repeat split; cbn; congruence.
Qed.

End G3.
