(* HoldP.v -- the second cyclic-dependency diagnostic of the serial runner ("hold on" while nothing is
   running: every remaining node waits) is never a false alarm either: if the dispatcher answers
   "hold on" to the serial runner, the task graph has a cycle through effective dependencies.
   Equivalently: on an acyclic graph the serial run never ends up waiting with nothing executing. *)
From DoitV Require Import Base Dispatch Runner DispatchP DispatchInv RunnerTr RunnerP AncP.
Open Scope N_scope.

(* ---------- a finite graph in which every vertex has a successor has a cycle ---------- *)
Section Pigeon.
Variable R : name -> name -> Prop.
Inductive tc : name -> name -> Prop :=
| tc_step x y : R x y -> tc x y
| tc_trans x y z : R x y -> tc y z -> tc x z.

(* a walk: consecutive elements related *)
Fixpoint walk (p : list name) : Prop :=
  match p with
  | x :: ((y :: _) as r) => R x y /\ walk r
  | _ => True end.

Lemma walk_tail x r : walk (x :: r) -> walk r.
Proof. destruct r; simpl; auto. intros [_ H]; exact H. Qed.
Lemma walk_suffix p1 : forall q, walk (p1 ++ q) -> walk q.
Proof. induction p1 as [|x p1 IH]; intros q H; simpl in *; auto. apply IH. eapply walk_tail; eauto. Qed.
Lemma walk_seg p2 : forall a b p3, walk (a :: p2 ++ b :: p3) -> tc a b.
Proof.
  induction p2 as [|y p2 IH]; intros a b p3 H; simpl in H.
  - apply tc_step. apply H.
  - destruct H as [H1 H2]. eapply tc_trans; [exact H1|]. eapply IH. exact H2.
Qed.
Lemma walk_tc p : walk p -> forall p1 a p2 b p3, p = p1 ++ a :: p2 ++ b :: p3 -> tc a b.
Proof. intros Hw p1 a p2 b p3 ->. apply walk_suffix in Hw. eapply walk_seg; eauto. Qed.

Lemma repeat_or_nodup (p : list name) : NoDup p \/ exists p1 a p2 p3, p = p1 ++ a :: p2 ++ a :: p3.
Proof.
  induction p as [|x p IH]; [left; constructor|].
  destruct IH as [IH|(p1 & a & p2 & p3 & ->)].
  - destruct (in_dec N.eq_dec x p) as [Hin|Hn].
    + right. apply in_split in Hin. destruct Hin as (l1 & l2 & ->). exists [], x, l1, l2. reflexivity.
    + left. constructor; auto.
  - right. exists (x :: p1), a, p2, p3. reflexivity.
Qed.

Lemma walk_from l : (forall w, In w l -> exists x, In x l /\ R w x) ->
  forall n w, In w l -> exists p, length p = S n /\ walk (w :: p) /\ incl (w :: p) l.
Proof.
  intros H n. induction n as [|n IH]; intros w Hw.
  - destruct (H w Hw) as (x & Hx & Hr). exists [x]. split; auto. split; [simpl; auto|].
    intros z [<-|[<-|[]]]; auto.
  - destruct (H w Hw) as (x & Hx & Hr). destruct (IH x Hx) as (p & Lp & Wp & Ip).
    exists (x :: p). split; [simpl; congruence|]. split; [simpl; auto|].
    intros z [<-|Hz]; auto.
Qed.

Lemma cycle_in_list l : l <> [] -> (forall w, In w l -> exists x, In x l /\ R w x) -> exists k, tc k k.
Proof.
  intros Hne H. destruct l as [|w0 l0]; [contradiction|].
  destruct (walk_from (w0 :: l0) H (length (w0 :: l0)) w0 (or_introl eq_refl)) as (p & Lp & Wp & Ip).
  destruct (repeat_or_nodup (w0 :: p)) as [Hn|(p1 & a & p2 & p3 & E)].
  - exfalso. pose proof (NoDup_incl_length Hn Ip) as Hl. simpl in Hl, Lp. lia.
  - exists a. eapply walk_tc; eauto.
Qed.
End Pigeon.

Section H.
Variable tasks : name -> option task.
Variable wake_rank : name -> name -> N.
Variable calc_rank : name -> N.
Variable continue_ always : bool.

Notation node_of := (node_of tasks).
Notation st_of := (st_of tasks).
Notation get_task := (get_task tasks).
Notation eff_dep := (eff_dep tasks).
Notation reach := (reach tasks).
Notation AInv := (AInv tasks).
Notation gen_node := (gen_node tasks).
Notation add_wait_one := (add_wait_one tasks).
Notation add_wait_run := (add_wait_run tasks).
Notation process_calc := (process_calc tasks).
Notation gen_step := (gen_step tasks calc_rank).
Notation set_pc := (set_pc tasks).

(* what a node waits for *)
Definition wln (nd : node) : list name := n_wrun nd ++ n_wcalc nd.
Definition exn (d : dstate) (x : name) : Prop := d_nodes d x <> None.
Definition located (d : dstate) (x : name) : Prop := In x (d_ready d) \/ In x (d_waiting d) \/ d_cur d = Some x.

(* the elements of the list a generator is iterating that it has passed already have a node *)
Definition pcxn (d : dstate) (me : name) (nd : node) : Prop :=
  match n_pc nd with
  | PCalc rest calcs _ => forall c, In c calcs -> In c rest \/ exn d c
  | PTask rest tks => forall c, In c tks -> In c rest \/ exn d c
  | PSetup rest => forall c, In c (t_setup (get_task me)) -> In c rest \/ exn d c
  | _ => True end.

Record HI (exc : option name) (d : dstate) : Prop := {
  h_wne : forall w, In w (d_waiting d) -> wln (node_of d w) <> [];
  h_reg : forall w x, In x (wln (node_of d w)) -> In w (n_wme (node_of d x));
  h_unf : forall w x, In x (wln (node_of d w)) -> unfinished (st_of d x) = true \/ exc = Some x;
  h_ex : forall w x, In x (wln (node_of d w)) -> exn d x;
  h_loc : forall x, exn d x -> unfinished (st_of d x) = true -> located d x;
  h_nws : forall w, n_wsel (node_of d w) = false;
  h_pcx : forall me, pcxn d me (node_of d me);
  h_qex : forall x, located d x -> exn d x;
  h_wex : forall w x, In w (n_wme (node_of d x)) -> exn d w
}.

(* program counter vs status, for every node but the one handed to the runner *)
Definition pstn (me : name) (nd : node) : Prop :=
  match n_pc nd with
  | PAfterSelf => n_st nd <> SNone /\ (is_nil (t_setup (get_task me)) = true -> unfinished (n_st nd) = false)
  | PAfterSelWait | PSetup _ | PSetupWaited => n_st nd <> SNone
  | PDone => unfinished (n_st nd) = false
  | _ => True end.
Record PS (pexc : option name) (d : dstate) : Prop := {
  p_all : forall me, pexc <> Some me -> pstn me (node_of d me);
  p_exc : forall me, pexc = Some me ->
          n_pc (node_of d me) = PAfterSelf \/ (n_pc (node_of d me) = PDone /\ st_of d me <> SNone)
}.

Lemma tc_reach x y : tc eff_dep x y -> reach x y.
Proof. induction 1; [apply re_step; auto|eapply re_trans; eauto]. Qed.

Lemma wl_edge d w x : AInv d -> In x (wln (node_of d w)) -> eff_dep w x.
Proof.
  intros HA Hx. pose proof (anode_of_ok tasks d w HA) as Hn. unfold wln in Hx. apply in_app_iff in Hx.
  destruct Hx as [Hx|Hx].
  - apply (a_wrun _ _ _ Hn) in Hx. apply in_app_iff in Hx. destruct Hx as [Hx|Hx].
    + apply (a_task _ _ _ Hn). exact Hx.
    + apply ed_static. unfold static_deps. rewrite !in_app_iff. auto.
  - apply eff_calc_dep. apply (a_calc _ _ _ Hn). apply (a_wcalc _ _ _ Hn). exact Hx.
Qed.

(* nothing running, nothing ready, somebody waiting: a cycle *)
Lemma hold_cycle d :
  AInv d -> HI None d -> d_cur d = None -> d_ready d = [] -> d_waiting d <> [] -> exists k, reach k k.
Proof.
  intros HA HH Hc Hr Hw.
  destruct (cycle_in_list eff_dep (d_waiting d) Hw) as [k Hk].
  - intros w Hin. pose proof (h_wne _ _ HH w Hin) as Hne.
    destruct (wln (node_of d w)) as [|x r] eqn:E; [contradiction|].
    assert (Hx : In x (wln (node_of d w))) by (rewrite E; left; reflexivity).
    exists x. split; [|eapply wl_edge; eauto].
    destruct (h_unf _ _ HH w x Hx) as [Hu|Hu]; [|discriminate].
    destruct (h_loc _ _ HH x (h_ex _ _ HH w x Hx) Hu) as [H|[H|H]]; auto.
    + rewrite Hr in H. destruct H.
    + rewrite Hc in H. discriminate.
  - exists k. apply tc_reach. exact Hk.
Qed.

Lemma pcxn_mono d d' me nd : (forall c, exn d c -> exn d' c) -> pcxn d me nd -> pcxn d' me nd.
Proof.
  intros M H. unfold pcxn in *. destruct (n_pc nd); auto; intros c Hc; destruct (H c Hc); auto.
Qed.

(* one node [k] is replaced (or created), the queues change: the master preservation lemma *)
Lemma HI_step exc d d' k nd' :
  HI exc d ->
  (forall z, z <> k -> node_of d' z = node_of d z) -> node_of d' k = nd' ->
  (forall z, exn d z -> exn d' z) -> (forall z, exn d' z -> exn d z \/ z = k) ->
  n_st nd' = st_of d k -> n_wsel nd' = false ->
  (forall w, In w (n_wme nd') -> In w (n_wme (node_of d k)) \/ exn d w) ->
  incl (n_wme (node_of d k)) (n_wme nd') ->
  (forall x, In x (wln nd') -> In x (wln (node_of d k)) \/
       (exn d x /\ unfinished (st_of d x) = true /\ In k (n_wme (if N.eqb x k then nd' else node_of d x)))) ->
  pcxn d k nd' ->
  (forall w, In w (d_waiting d') -> (w = k -> wln nd' <> []) /\ (w <> k -> In w (d_waiting d))) ->
  (forall x, exn d' x -> unfinished (st_of d x) = true -> (exn d x -> located d x) -> located d' x) ->
  (forall x, located d' x -> located d x \/ exn d' x) ->
  HI exc d'.
Proof.
  intros [Hwne Hreg Hunf Hex Hloc Hnws Hpcx Hqex Hwex] Hoth Hk Hmono Hnew Hst Hws Hwme1 Hwme2 Hwl Hpc Hwait Hl1 Hl2.
  assert (Est : forall z, st_of d' z = st_of d z).
  { intros z. unfold Dispatch.st_of. destruct (N.eqb_spec z k) as [->|Hne]; [rewrite Hk; exact Hst|rewrite Hoth; auto]. }
  assert (Hwme : forall x w, In w (n_wme (node_of d x)) -> In w (n_wme (node_of d' x))).
  { intros x w Hw. destruct (N.eqb_spec x k) as [->|Hne]; [rewrite Hk; apply Hwme2; exact Hw|rewrite Hoth; auto]. }
  assert (Hwln : forall w x, In x (wln (node_of d' w)) ->
            In x (wln (node_of d w)) \/ (w = k /\ exn d x /\ unfinished (st_of d x) = true /\ In k (n_wme (node_of d' x)))).
  { intros w x Hx. destruct (N.eqb_spec w k) as [->|Hne].
    - rewrite Hk in Hx. destruct (Hwl x Hx) as [H|(A & B & C)]; auto. right. split; auto. split; auto. split; auto.
      destruct (N.eqb_spec x k) as [->|Hxk]; [rewrite Hk; exact C|rewrite Hoth; auto].
    - rewrite Hoth in Hx by auto. auto. }
  split.
  - intros w Hw. destruct (Hwait w Hw) as [A B]. destruct (N.eqb_spec w k) as [->|Hne].
    + rewrite Hk. apply A. reflexivity.
    + rewrite Hoth by auto. apply Hwne. apply B. exact Hne.
  - intros w x Hx. destruct (Hwln w x Hx) as [H|(-> & A & B & C)]; auto.
  - intros w x Hx. rewrite Est. destruct (Hwln w x Hx) as [H|(-> & A & B & C)]; eauto.
  - intros w x Hx. apply Hmono. destruct (Hwln w x Hx) as [H|(-> & A & B & C)]; eauto.
  - intros x Hx Hu. rewrite Est in Hu. apply Hl1; auto.
  - intros w. destruct (N.eqb_spec w k) as [->|Hne]; [rewrite Hk; exact Hws|rewrite Hoth; auto].
  - intros me. destruct (N.eqb_spec me k) as [->|Hne].
    + rewrite Hk. eapply pcxn_mono; [exact Hmono|exact Hpc].
    + rewrite Hoth by auto. eapply pcxn_mono; [exact Hmono|apply Hpcx].
  - intros x Hx. destruct (Hl2 x Hx) as [H|H]; auto.
  - intros w x Hw. destruct (N.eqb_spec x k) as [->|Hne].
    + rewrite Hk in Hw. apply Hmono. destruct (Hwme1 w Hw) as [H|H]; eauto.
    + rewrite Hoth in Hw by auto. apply Hmono. eauto.
Qed.

Lemma exn_set_node d k nd z : exn (set_node d k nd) z <-> exn d z \/ z = k.
Proof.
  unfold exn. destruct (N.eqb_spec z k) as [->|Hne].
  - rewrite nodes_set_same. split; [auto|discriminate].
  - rewrite nodes_set_other by auto. tauto.
Qed.

(* an existing node is replaced, queues untouched *)
Lemma HI_node exc d k nd' :
  HI exc d -> exn d k ->
  n_st nd' = st_of d k -> n_wsel nd' = false ->
  (forall w, In w (n_wme nd') -> In w (n_wme (node_of d k)) \/ exn d w) ->
  incl (n_wme (node_of d k)) (n_wme nd') ->
  (forall x, In x (wln nd') -> In x (wln (node_of d k)) \/
       (exn d x /\ unfinished (st_of d x) = true /\ In k (n_wme (if N.eqb x k then nd' else node_of d x)))) ->
  pcxn d k nd' ->
  (In k (d_waiting d) -> wln nd' <> []) ->
  HI exc (set_node d k nd').
Proof.
  intros H Hk Hst Hws Hw1 Hw2 Hwl Hpc Hne.
  eapply (HI_step exc d _ k nd'); eauto.
  - intros z Hz. apply node_of_set_other. exact Hz.
  - apply node_of_set_same.
  - intros z Hz. apply exn_set_node. auto.
  - intros z Hz. apply exn_set_node in Hz. auto.
  - intros w Hw. simpl in Hw. split; auto. intros ->. auto.
  - intros x Hx Hu Hl. apply exn_set_node in Hx. destruct Hx as [Hx| ->]; [exact (Hl Hx)|exact (Hl Hk)].
Qed.

(* only the queues change *)
Lemma HI_q exc d d' :
  HI exc d -> d_nodes d' = d_nodes d ->
  (forall w, In w (d_waiting d') -> wln (node_of d w) <> []) ->
  (forall x, exn d x -> unfinished (st_of d x) = true -> located d x -> located d' x) ->
  (forall x, located d' x -> located d x) ->
  HI exc d'.
Proof.
  intros [Hwne Hreg Hunf Hex Hloc Hnws Hpcx Hqex Hwex] En Hw Hl1 Hl2.
  assert (Enode : forall z, node_of d' z = node_of d z) by (intros z; unfold Dispatch.node_of; rewrite En; reflexivity).
  assert (Est : forall z, st_of d' z = st_of d z) by (intros z; unfold Dispatch.st_of; rewrite Enode; reflexivity).
  assert (Eex : forall z, exn d' z <-> exn d z) by (intros z; unfold exn; rewrite En; tauto).
  split.
  - intros w Hin. rewrite Enode. auto.
  - intros w x. rewrite !Enode. apply Hreg.
  - intros w x. rewrite Enode, Est. apply Hunf.
  - intros w x. rewrite Enode, Eex. apply Hex.
  - intros x. rewrite Eex, Est. intros A B. apply Hl1; auto.
  - intros w. rewrite Enode. apply Hnws.
  - intros me. rewrite Enode. eapply pcxn_mono; [|apply Hpcx]. intros c. apply Eex.
  - intros x Hx. apply Eex. apply Hqex. apply Hl2. exact Hx.
  - intros w x. rewrite Enode, Eex. apply Hwex.
Qed.

Definition keeps (nd nd' : node) : Prop :=
  n_pc nd' = n_pc nd /\ n_wsel nd' = n_wsel nd /\ n_wrun nd' = n_wrun nd /\ n_wcalc nd' = n_wcalc nd /\
  n_st nd' = n_st nd /\ n_wme nd' = n_wme nd.
Lemma keeps_refl nd : keeps nd nd. Proof. repeat split. Qed.
Lemma keeps_trans a b c : keeps a b -> keeps b c -> keeps a c.
Proof. unfold keeps. intuition congruence. Qed.
Lemma keeps_parent nd dep s : keeps nd (parent_status nd dep s).
Proof. destruct s; repeat split. Qed.
Lemma keeps_calc nd c s : keeps nd (process_calc nd c s).
Proof. unfold Dispatch.process_calc. destruct (calc_values_visible s); repeat split. Qed.

Lemma HI_keeps exc d k nd' : HI exc d -> exn d k -> keeps (node_of d k) nd' -> HI exc (set_node d k nd').
Proof.
  intros H Hk (E1 & E2 & E3 & E4 & E5 & E6).
  apply HI_node; auto.
  - rewrite E2. apply (h_nws _ _ H).
  - intros w Hw. left. rewrite <- E6. exact Hw.
  - rewrite E6. apply incl_refl.
  - intros x Hx. left. unfold wln in *. rewrite E3, E4 in Hx. exact Hx.
  - pose proof (h_pcx _ _ H k) as P. unfold pcxn in *. rewrite E1. exact P.
  - intros Hin. unfold wln. rewrite E3, E4. apply (h_wne _ _ H). exact Hin.
Qed.

(* pc and status of every node, and the queues, are the same *)
Definition same_ps (d d' : dstate) : Prop :=
  forall z, n_pc (node_of d' z) = n_pc (node_of d z) /\ n_st (node_of d' z) = n_st (node_of d z).
Definition same_q (d d' : dstate) : Prop :=
  d_ready d' = d_ready d /\ d_waiting d' = d_waiting d /\ d_cur d' = d_cur d.
Lemma PS_same pexc d d' : same_ps d d' -> PS pexc d -> PS pexc d'.
Proof.
  intros S [A B]. split.
  - intros me Hme. specialize (A me Hme). unfold pstn in *. destruct (S me) as [-> ->]. exact A.
  - intros me Hme. specialize (B me Hme). unfold Dispatch.st_of in *. destruct (S me) as [-> ->]. exact B.
Qed.
Lemma same_ps_refl d : same_ps d d. Proof. intros z; split; reflexivity. Qed.
Lemma same_ps_trans a b c : same_ps a b -> same_ps b c -> same_ps a c.
Proof. intros A B z. destruct (A z), (B z). split; congruence. Qed.
Lemma same_ps_set_node d k nd' : n_pc nd' = n_pc (node_of d k) -> n_st nd' = n_st (node_of d k) -> same_ps d (set_node d k nd').
Proof.
  intros A B z. destruct (N.eqb_spec z k) as [->|Hne].
  - rewrite node_of_set_same. auto.
  - rewrite node_of_set_other by auto. auto.
Qed.

(* ---------- _node_add_wait_run ---------- *)
Lemma add_wait_one_H exc d me x calc :
  HI exc d -> exn d me -> exn d x ->
  let d' := add_wait_one d me x calc in
  HI exc d' /\ same_ps d d' /\ same_q d d' /\ (forall z, exn d' z <-> exn d z).
Proof.
  intros H Hme Hx. cbv zeta. unfold Dispatch.add_wait_one.
  destruct (unfinished (st_of d x)) eqn:Eu.
  - set (nx := node_of d x).
    set (d1 := set_node d x (nd_wme nx (addset me (n_wme nx)))).
    assert (H1 : HI exc d1).
    { apply HI_node; auto; simpl.
      - apply (h_nws _ _ H).
      - intros w Hw. apply addset_In in Hw. destruct Hw as [->|Hw]; auto.
      - intros w Hw. apply addset_In. auto.
      - exact (h_pcx _ _ H x).
      - apply (h_wne _ _ H). }
    assert (Ex1 : forall z, exn d1 z <-> exn d z).
    { intros z. unfold d1. rewrite exn_set_node. split; [intros [A| ->]; auto|auto]. }
    assert (S1 : same_ps d d1) by (apply same_ps_set_node; reflexivity).
    assert (Hwx : In me (n_wme (node_of d1 x))).
    { unfold d1. rewrite node_of_set_same. simpl. apply addset_In. auto. }
    assert (Hstx : st_of d1 x = st_of d x) by (unfold Dispatch.st_of; destruct (S1 x) as [_ ->]; reflexivity).
    set (nd1 := node_of d1 me).
    assert (G : forall ndw, n_pc ndw = n_pc nd1 -> n_st ndw = n_st nd1 -> n_wsel ndw = n_wsel nd1 -> n_wme ndw = n_wme nd1 ->
                (forall y, In y (wln ndw) -> In y (wln nd1) \/ y = x) -> (wln nd1 <> [] -> wln ndw <> []) ->
                HI exc (set_node d1 me ndw) /\ same_ps d (set_node d1 me ndw)).
    { intros ndw P1 P2 P3 P4 P5 P6. split.
      - apply HI_node; auto; fold nd1.
        + apply Ex1. exact Hme.
        + rewrite P3. apply (h_nws _ _ H1).
        + intros w Hw. left. rewrite <- P4. exact Hw.
        + rewrite P4. apply incl_refl.
        + intros y Hy. destruct (P5 y Hy) as [A| ->]; auto. right.
          split; [apply Ex1; exact Hx|]. split; [rewrite Hstx; exact Eu|].
          destruct (N.eqb_spec x me) as [->|Hne]; [rewrite P4; exact Hwx|exact Hwx].
        + pose proof (h_pcx _ _ H1 me) as P. unfold pcxn in *. rewrite P1. exact P.
        + intros Hin. apply P6. apply (h_wne _ _ H1). exact Hin.
      - eapply same_ps_trans; [exact S1|]. apply same_ps_set_node; auto. }
    assert (Hex2 : forall ndw z, exn (set_node d1 me ndw) z <-> exn d z).
    { intros ndw z. rewrite exn_set_node, Ex1. split; [intros [A| ->]; auto|auto]. }
    destruct calc.
    + destruct (G (nd_wait nd1 (n_wrun nd1) (addset x (n_wcalc nd1)))) as [A B]; try reflexivity.
      * intros y Hy. unfold wln in *. simpl in Hy. rewrite in_app_iff in *. destruct Hy as [Hy|Hy]; auto.
        apply addset_In in Hy. destruct Hy; auto.
      * intros _. unfold wln. simpl. intros E. apply app_eq_nil in E. destruct E as [_ E].
        unfold addset in E. destruct (mem x (n_wcalc nd1)) eqn:Em; [apply mem_In in Em; rewrite E in Em; destruct Em|].
        destruct (n_wcalc nd1); discriminate.
      * split; auto. split; auto. split; [repeat split|apply Hex2].
    + destruct (G (nd_wait nd1 (addset x (n_wrun nd1)) (n_wcalc nd1))) as [A B]; try reflexivity.
      * intros y Hy. unfold wln in *. simpl in Hy. rewrite in_app_iff in *. destruct Hy as [Hy|Hy]; auto.
        apply addset_In in Hy. destruct Hy; auto.
      * intros _. unfold wln. simpl. intros E. apply app_eq_nil in E. destruct E as [E _].
        unfold addset in E. destruct (mem x (n_wrun nd1)) eqn:Em; [apply mem_In in Em; rewrite E in Em; destruct Em|].
        destruct (n_wrun nd1); discriminate.
      * split; auto. split; auto. split; [repeat split|apply Hex2].
  - set (nd1 := parent_status (node_of d me) x (st_of d x)).
    assert (K1 : keeps (node_of d me) nd1) by apply keeps_parent.
    assert (K2 : keeps (node_of d me) (if calc then process_calc nd1 x (st_of d x) else nd1)).
    { destruct calc; auto. eapply keeps_trans; [exact K1|apply keeps_calc]. }
    split; [apply HI_keeps; auto|].
    split; [apply same_ps_set_node; destruct K2 as (A & _ & _ & _ & B & _); auto|].
    split; [repeat split|].
    intros z. rewrite exn_set_node. split; [intros [A| ->]; auto|auto].
Qed.

Lemma same_q_trans a b c : same_q a b -> same_q b c -> same_q a c.
Proof. unfold same_q. intuition congruence. Qed.

Lemma add_wait_run_H exc l : forall d me calc,
  HI exc d -> exn d me -> (forall x, In x l -> exn d x) ->
  let d' := add_wait_run d me l calc in
  HI exc d' /\ same_ps d d' /\ same_q d d' /\ (forall z, exn d' z <-> exn d z).
Proof.
  induction l as [|x r IH]; intros d me calc H Hme Hl; cbn [Dispatch.add_wait_run].
  - split; auto. split; [apply same_ps_refl|]. split; [repeat split|tauto].
  - destruct (add_wait_one_H exc d me x calc H Hme (Hl x (or_introl eq_refl))) as (H1 & S1 & Q1 & E1).
    destruct (IH (add_wait_one d me x calc) me calc H1) as (H2 & S2 & Q2 & E2).
    { apply E1. exact Hme. }
    { intros y Hy. apply E1. apply Hl. right. exact Hy. }
    split; auto. split; [eapply same_ps_trans; eauto|]. split; [eapply same_q_trans; eauto|].
    intros z. rewrite E2. apply E1.
Qed.

(* ---------- creating a node, moving the program counter ---------- *)
Lemma node_of_none d k : d_nodes d k = None -> node_of d k = new_node tasks [] k.
Proof. intros E. unfold Dispatch.node_of. rewrite E. reflexivity. Qed.

Lemma HI_new exc d d' k pa :
  HI exc d -> d_nodes d k = None ->
  (forall z, z <> k -> node_of d' z = node_of d z) -> node_of d' k = new_node tasks pa k ->
  (forall z, exn d' z <-> exn d z \/ z = k) ->
  d_waiting d' = d_waiting d -> located d' k ->
  (forall x, located d x -> located d' x) -> (forall x, located d' x -> located d x \/ x = k) ->
  HI exc d'.
Proof.
  intros H Hk Hoth Hnew Hex Hw Hlk Hl1 Hl2.
  assert (Hnk : ~ exn d k) by (unfold exn; rewrite Hk; auto).
  eapply (HI_step exc d d' k (new_node tasks pa k)); eauto.
  - intros z Hz. apply Hex. auto.
  - intros z Hz. apply Hex. exact Hz.
  - unfold Dispatch.st_of. rewrite (node_of_none d k Hk). reflexivity.
  - simpl. intros w [].
  - simpl. rewrite (node_of_none d k Hk). simpl. apply incl_refl.
  - simpl. intros x [].
  - exact I.
  - intros w Hin. rewrite Hw in Hin. split.
    + intros ->. exfalso. apply Hnk. apply (h_qex _ _ H). right; left. exact Hin.
    + intros _. exact Hin.
  - intros x Hx Hu Hl. apply Hex in Hx. destruct Hx as [Hx| ->]; auto.
  - intros x Hx. destruct (Hl2 x Hx) as [A| ->]; auto. right. apply Hex. auto.
Qed.

Lemma HI_set_pc exc d me p :
  HI exc d -> exn d me -> pcxn d me (nd_pc (node_of d me) p) -> HI exc (set_pc d me p).
Proof.
  intros H Hme Hp. unfold Dispatch.set_pc. apply HI_node; auto; simpl.
  - apply (h_nws _ _ H).
  - apply incl_refl.
  - apply (h_wne _ _ H).
Qed.

Lemma PS_upd pexc pexc' d d' me :
  PS pexc d ->
  (forall z, z <> me -> n_pc (node_of d' z) = n_pc (node_of d z) /\ n_st (node_of d' z) = n_st (node_of d z)) ->
  (pexc = None \/ pexc = Some me) ->
  match pexc' with
  | None => pstn me (node_of d' me)
  | Some k => k = me /\ (n_pc (node_of d' me) = PAfterSelf \/ (n_pc (node_of d' me) = PDone /\ st_of d' me <> SNone))
  end ->
  PS pexc' d'.
Proof.
  intros [A B] Hoth He Hme. split.
  - intros z Hz. destruct (N.eqb_spec z me) as [->|Hne].
    + destruct pexc' as [k|]; [destruct Hme as [-> _]; congruence|exact Hme].
    + unfold pstn. destruct (Hoth z Hne) as [-> ->]. apply A. destruct He as [->| ->]; congruence.
  - intros z Hz. subst pexc'. destruct Hme as [-> Hme]. exact Hme.
Qed.

Lemma PS_set_pc d me p : PS None d -> pstn me (nd_pc (node_of d me) p) -> PS None (set_pc d me p).
Proof.
  intros H Hp. apply (PS_upd None None d _ me); auto.
  - intros z Hz. unfold Dispatch.set_pc. rewrite node_of_set_other by auto. auto.
  - rewrite set_pc_node. exact Hp.
Qed.

Lemma PS_q pexc d d' : d_nodes d' = d_nodes d -> PS pexc d -> PS pexc d'.
Proof.
  intros E. apply PS_same. intros z. unfold Dispatch.node_of. rewrite E. auto.
Qed.

Lemma exn_set_pc d me p z : exn d me -> (exn (set_pc d me p) z <-> exn d z).
Proof. intros Hme. unfold Dispatch.set_pc. rewrite exn_set_node. split; [intros [A| ->]; auto|auto]. Qed.

(* the `for dep in list: yield self._gen_node(node, dep)` loops *)
Lemma child_H d me c p' :
  HI None d -> PS None d -> d_cur d = Some me -> exn d me ->
  (forall dX, (forall z, exn d z -> exn dX z) -> exn dX c -> pcxn dX me (nd_pc (node_of d me) p')) ->
  pstn me (nd_pc (node_of d me) p') ->
  match gen_node d (Some (n_anc (node_of d me))) c with
  | (GCycle, _) => True
  | (GNew, d1) => let d' := set_pc d1 me p' in
                  HI None (set_ready d' (d_ready d' ++ [c])) /\ PS None d' /\ d_cur d' = Some me
  | (GOld, d1) => let d' := set_pc d1 me p' in HI None d' /\ PS None d' /\ d_cur d' = Some me /\ exn d' me
  end.
Proof.
  intros H P Hc Hme Hpcx Hpst. unfold Dispatch.gen_node. destruct (d_nodes d c) eqn:Ec.
  - destruct (mem c (n_anc (node_of d me))); [exact I|]. cbv zeta.
    split; [apply HI_set_pc; auto; apply Hpcx; auto; unfold exn; rewrite Ec; discriminate|].
    split; [apply PS_set_pc; auto|]. split; [exact Hc|]. apply exn_set_pc; auto.
  - cbv zeta. set (nn := new_node tasks (n_anc (node_of d me)) c). set (d1 := set_node d c nn).
    assert (Hne : me <> c) by (intros ->; apply Hme; exact Ec).
    assert (Hnode : node_of d1 me = node_of d me) by (apply node_of_set_other; exact Hne).
    set (dA := set_ready d1 (d_ready d ++ [c])).
    assert (HA : HI None dA).
    { apply (HI_new None d dA c (n_anc (node_of d me))); auto.
      - intros z Hz. apply node_of_set_other. exact Hz.
      - apply node_of_set_same.
      - intros z. apply exn_set_node.
      - left. simpl. apply in_app_iff. right. left. reflexivity.
      - intros x [Hx|[Hx|Hx]]; [left; simpl; apply in_app_iff; auto|right; left; exact Hx|right; right; exact Hx].
      - intros x [Hx|[Hx|Hx]]; [|left; right; left; exact Hx|left; right; right; exact Hx].
        simpl in Hx. apply in_app_iff in Hx. destruct Hx as [Hx|[<-|[]]]; auto. left; left; exact Hx. }
    assert (HmeA : exn dA me) by (apply exn_set_node; auto).
    split.
    + change (HI None (set_pc dA me p')). apply HI_set_pc; auto.
      change (node_of dA me) with (node_of d1 me). rewrite Hnode. apply Hpcx.
      * intros z Hz. apply exn_set_node. auto.
      * apply exn_set_node. auto.
    + split; [|exact Hc]. apply PS_set_pc.
      * apply (PS_upd None None d d1 c); auto.
        -- intros z Hz. unfold d1. rewrite node_of_set_other by auto. auto.
        -- unfold d1. rewrite node_of_set_same. exact I.
      * rewrite Hnode. exact Hpst.
Qed.

(* ---------- one resumption of a node's generator (the node is the dispatcher's current node) ---------- *)
Definition gpost (me : name) (y : gyield) (d' : dstate) : Prop :=
  match y with
  | YNode k => HI None (set_ready d' (d_ready d' ++ [k])) /\ PS None d' /\ d_cur d' = Some me
  | YWait => HI None (set_cur (set_waiting d' (addset me (d_waiting d'))) None) /\ PS None d'
  | YEnd => HI None (set_cur d' None) /\ PS None d'
  | YSelf => HI None d' /\ PS (Some me) d' /\ d_cur d' = Some me
  | _ => True end.

Lemma HI_wait d me : HI None d -> d_cur d = Some me -> wln (node_of d me) <> [] ->
  HI None (set_cur (set_waiting d (addset me (d_waiting d))) None).
Proof.
  intros H Hc Hw. apply (HI_q None d); auto.
  - intros w Hin. simpl in Hin. apply addset_In in Hin. destruct Hin as [->|Hin]; auto. apply (h_wne _ _ H). exact Hin.
  - intros x _ _ [Hx|[Hx|Hx]]; [left; exact Hx|right; left; simpl; apply addset_In; auto|].
    right; left. simpl. apply addset_In. left. congruence.
  - intros x [Hx|[Hx|Hx]]; [left; exact Hx| |discriminate].
    simpl in Hx. apply addset_In in Hx. destruct Hx as [->|Hx]; [right; right; exact Hc|right; left; exact Hx].
Qed.

Lemma HI_end d me : HI None d -> d_cur d = Some me -> unfinished (st_of d me) = false -> HI None (set_cur d None).
Proof.
  intros H Hc Hf. apply (HI_q None d); auto.
  - intros w Hin. apply (h_wne _ _ H). exact Hin.
  - intros x _ Hu [Hx|[Hx|Hx]]; [left; exact Hx|right; left; exact Hx|].
    rewrite Hc in Hx. inversion Hx; subst. congruence.
  - intros x [Hx|[Hx|Hx]]; [left; exact Hx|right; left; exact Hx|discriminate].
Qed.

Lemma gen_step_H fuel : forall d me y d',
  HI None d -> PS None d -> d_cur d = Some me -> exn d me ->
  gen_step fuel d me = (y, d') -> gpost me y d'.
Proof.
  induction fuel as [|fuel IH]; intros d me y d' H P Hc Hme Hg; cbn [Dispatch.gen_step] in Hg.
  { inversion Hg; subst. exact I. }
  pose proof (h_pcx _ _ H me) as Hpcx. pose proof (p_all _ _ P me ltac:(discriminate)) as Hpst.
  unfold pcxn in Hpcx. unfold pstn in Hpst.
  assert (Hstpc : forall p, n_st (nd_pc (node_of d me) p) = n_st (node_of d me)) by reflexivity.
  destruct (n_pc (node_of d me)) as [|rest calcs tks|rest tks| | | |rest| |] eqn:Epc.
  - (* PLoop *)
    eapply IH; [| | | |exact Hg].
    + apply HI_node; auto; simpl.
      * apply (h_nws _ _ H).
      * apply incl_refl.
      * unfold pcxn. simpl. intros c Hin. auto.
      * apply (h_wne _ _ H).
    + apply (PS_upd None None d _ me); auto.
      * intros z Hz. rewrite node_of_set_other by auto. auto.
      * rewrite node_of_set_same. exact I.
    + exact Hc.
    + apply exn_set_node. auto.
  - (* PCalc *)
    destruct rest as [|c r].
    + destruct (add_wait_run_H None calcs d me true H Hme) as (H1 & S1 & Q1 & E1).
      { intros x Hx. destruct (Hpcx x Hx) as [[]|A]; exact A. }
      set (d1 := add_wait_run d me calcs true) in *.
      assert (Hme1 : exn d1 me) by (apply E1; exact Hme).
      eapply IH; [| | | |exact Hg].
      * apply HI_set_pc; auto. unfold pcxn. simpl. auto.
      * apply PS_set_pc; [eapply PS_same; eauto|]. exact I.
      * change (d_cur d1 = Some me). destruct Q1 as (_ & _ & ->). exact Hc.
      * apply exn_set_pc; auto.
    + pose proof (child_H d me c (PCalc r calcs tks) H P Hc Hme) as Hch.
      destruct (gen_node d (Some (n_anc (node_of d me))) c) as [[| |] d1].
      * destruct Hch as (A & B & C); [| |inversion Hg; subst; simpl; auto].
        -- intros dX M Hx. unfold pcxn. simpl. intros c0 Hc0. destruct (Hpcx c0 Hc0) as [[->|X]|X]; auto.
        -- exact I.
      * destruct Hch as (A & B & C & D); [| |eapply IH; [exact A|exact B|exact C|exact D|exact Hg]].
        -- intros dX M Hx. unfold pcxn. simpl. intros c0 Hc0. destruct (Hpcx c0 Hc0) as [[->|X]|X]; auto.
        -- exact I.
      * inversion Hg; subst. exact I.
  - (* PTask *)
    destruct rest as [|c r].
    + destruct (add_wait_run_H None tks d me false H Hme) as (H1 & S1 & Q1 & E1).
      { intros x Hx. destruct (Hpcx x Hx) as [[]|A]; exact A. }
      set (d1 := add_wait_run d me tks false) in *.
      assert (Hme1 : exn d1 me) by (apply E1; exact Hme).
      assert (Hc1 : d_cur d1 = Some me) by (destruct Q1 as (_ & _ & ->); exact Hc).
      assert (P1 : PS None d1) by (eapply PS_same; eauto).
      assert (HL : HI None (set_pc d1 me PLoop)) by (apply HI_set_pc; auto; try exact I).
      assert (PL : PS None (set_pc d1 me PLoop)) by (apply PS_set_pc; auto; try exact I).
      destruct (negb (is_nil (n_pend_calc (node_of d1 me))) || negb (is_nil (n_pend_task (node_of d1 me)))).
      * eapply IH; [exact HL|exact PL|exact Hc1|apply exn_set_pc; auto|exact Hg].
      * destruct (negb (is_nil (n_wrun (node_of d1 me))) || negb (is_nil (n_wcalc (node_of d1 me)))) eqn:Ew.
        -- inversion Hg; subst. simpl. split; [|exact PL].
           apply (HI_wait (set_pc d1 me PLoop) me HL Hc1). rewrite set_pc_node. unfold wln. simpl.
           intros E. apply app_eq_nil in E. destruct E as [E1' E2']. rewrite E1', E2' in Ew. discriminate.
        -- eapply IH; [| | | |exact Hg].
           ++ apply HI_set_pc; auto; try exact I.
           ++ apply PS_set_pc; auto; try exact I.
           ++ exact Hc1.
           ++ apply exn_set_pc; auto.
    + pose proof (child_H d me c (PTask r tks) H P Hc Hme) as Hch.
      destruct (gen_node d (Some (n_anc (node_of d me))) c) as [[| |] d1].
      * destruct Hch as (A & B & C); [| |inversion Hg; subst; simpl; auto].
        -- intros dX M Hx. unfold pcxn. simpl. intros c0 Hc0. destruct (Hpcx c0 Hc0) as [[->|X]|X]; auto.
        -- exact I.
      * destruct Hch as (A & B & C & D); [| |eapply IH; [exact A|exact B|exact C|exact D|exact Hg]].
        -- intros dX M Hx. unfold pcxn. simpl. intros c0 Hc0. destruct (Hpcx c0 Hc0) as [[->|X]|X]; auto.
        -- exact I.
      * inversion Hg; subst. exact I.
  - (* PSelf *)
    inversion Hg; subst. simpl. split; [apply HI_set_pc; auto; try exact I|]. split; [|exact Hc].
    apply (PS_upd None (Some me) d _ me); auto.
    + intros z Hz. unfold Dispatch.set_pc. rewrite node_of_set_other by auto. auto.
    + split; auto. left. rewrite set_pc_node. reflexivity.
  - (* PAfterSelf *)
    destruct Hpst as [Hs1 Hs2].
    destruct (is_nil (t_setup (get_task me))) eqn:En.
    + inversion Hg; subst. simpl. split; [|apply PS_set_pc; auto; unfold pstn; simpl; auto].
      apply (HI_end (set_pc d me PDone) me); auto.
      * apply HI_set_pc; auto; try exact I.
      * rewrite set_pc_st. apply Hs2. reflexivity.
    + destruct (n_st (node_of d me)) eqn:Est; try congruence;
        (eapply IH; [| | | |exact Hg]; [apply HI_set_pc; auto; try exact I| |exact Hc|apply exn_set_pc; auto];
         apply PS_set_pc; auto; unfold pstn; simpl; rewrite Est; discriminate).
  - (* PAfterSelWait *)
    assert (HD : gpost me YEnd (set_pc d me PDone) \/ n_st (node_of d me) = SRun).
    { destruct (n_st (node_of d me)) eqn:Est; try congruence; auto; left; simpl;
        (split; [|apply PS_set_pc; auto; unfold pstn; simpl; rewrite Est; reflexivity]);
        (apply (HI_end (set_pc d me PDone) me); auto; [apply HI_set_pc; auto; try exact I|];
         rewrite set_pc_st; unfold Dispatch.st_of; rewrite Est; reflexivity). }
    destruct (n_st (node_of d me)) eqn:Est;
      try (destruct HD as [HD|HD]; [inversion Hg; subst; exact HD|discriminate]).
    eapply IH; [| | | |exact Hg].
    + apply HI_set_pc; auto. unfold pcxn. simpl. auto.
    + apply PS_set_pc; auto. unfold pstn. simpl. rewrite Est. discriminate.
    + exact Hc.
    + apply exn_set_pc; auto.
  - (* PSetup *)
    destruct rest as [|c r].
    + destruct (add_wait_run_H None (t_setup (get_task me)) d me false H Hme) as (H1 & S1 & Q1 & E1).
      { intros x Hx. destruct (Hpcx x Hx) as [[]|A]; exact A. }
      set (d1 := add_wait_run d me (t_setup (get_task me)) false) in *.
      assert (Hme1 : exn d1 me) by (apply E1; exact Hme).
      assert (Hc1 : d_cur d1 = Some me) by (destruct Q1 as (_ & _ & ->); exact Hc).
      assert (P1 : PS None d1) by (eapply PS_same; eauto).
      assert (Hst1 : n_st (node_of d1 me) <> SNone) by (destruct (S1 me) as [_ ->]; exact Hpst).
      destruct (is_nil (n_wrun (node_of d1 me))) eqn:Ew.
      * inversion Hg; subst. simpl. split; [apply HI_set_pc; auto; try exact I|]. split; [|exact Hc1].
        apply (PS_upd None (Some me) d1 _ me); auto.
        -- intros z Hz. unfold Dispatch.set_pc. rewrite node_of_set_other by auto. auto.
        -- split; auto. right. rewrite set_pc_node. split; [reflexivity|]. rewrite set_pc_st. exact Hst1.
      * inversion Hg; subst. simpl.
        assert (HW : HI None (set_pc d1 me PSetupWaited)) by (apply HI_set_pc; auto; try exact I).
        split; [|apply PS_set_pc; auto; unfold pstn; simpl; exact Hst1].
        apply (HI_wait _ me HW Hc1). rewrite set_pc_node. unfold wln. simpl.
        intros E. apply app_eq_nil in E. destruct E as [E1' _]. rewrite E1' in Ew. discriminate.
    + pose proof (child_H d me c (PSetup r) H P Hc Hme) as Hch.
      destruct (gen_node d (Some (n_anc (node_of d me))) c) as [[| |] d1].
      * destruct Hch as (A & B & C); [| |inversion Hg; subst; simpl; auto].
        -- intros dX M Hx. unfold pcxn. simpl. intros c0 Hc0. destruct (Hpcx c0 Hc0) as [[->|X]|X]; auto.
        -- unfold pstn. simpl. exact Hpst.
      * destruct Hch as (A & B & C & D); [| |eapply IH; [exact A|exact B|exact C|exact D|exact Hg]].
        -- intros dX M Hx. unfold pcxn. simpl. intros c0 Hc0. destruct (Hpcx c0 Hc0) as [[->|X]|X]; auto.
        -- unfold pstn. simpl. exact Hpst.
      * inversion Hg; subst. exact I.
  - (* PSetupWaited *)
    inversion Hg; subst. simpl. split; [apply HI_set_pc; auto; try exact I|]. split; [|exact Hc].
    apply (PS_upd None (Some me) d _ me); auto.
    + intros z Hz. unfold Dispatch.set_pc. rewrite node_of_set_other by auto. auto.
    + split; auto. right. rewrite set_pc_node. split; [reflexivity|]. rewrite set_pc_st. exact Hpst.
  - (* PDone *)
    inversion Hg; subst. simpl. split; [|exact P]. apply (HI_end d' me); auto.
Qed.

(* ---------- _update_waiting ---------- *)
Lemma wake_node_keeps nd fin fs :
  let nd' := wake_node tasks nd fin fs in
  n_pc nd' = n_pc nd /\ n_wsel nd' = n_wsel nd /\ n_st nd' = n_st nd /\ n_wme nd' = n_wme nd /\
  n_wrun nd' = rem fin (n_wrun nd) /\ n_wcalc nd' = rem fin (n_wcalc nd).
Proof.
  cbv zeta. unfold Dispatch.wake_node.
  destruct (keeps_parent nd fin fs) as (a1 & a2 & a3 & a4 & a5 & a6).
  set (nw := parent_status nd fin fs) in *.
  set (nw1 := nd_wait nw (rem fin (n_wrun nw)) (rem fin (n_wcalc nw))).
  destruct (keeps_calc nw1 fin fs) as (b1 & b2 & b3 & b4 & b5 & b6).
  destruct (mem fin (n_wcalc nd)).
  - rewrite b1, b2, b3, b4, b5, b6. simpl. rewrite a1, a2, a3, a4, a5, a6. repeat split.
  - simpl. rewrite a1, a2, a3, a4, a5, a6. repeat split.
Qed.

Lemma wake_one_H p fs d w :
  HI (Some p) d -> exn d w ->
  let d' := wake_one tasks d p fs w in
  HI (Some p) d' /\ same_ps d d' /\ (forall z, exn d' z <-> exn d z) /\ d_cur d' = d_cur d /\
  ~ In p (wln (node_of d' w)) /\ (forall z, ~ In p (wln (node_of d z)) -> ~ In p (wln (node_of d' z))).
Proof.
  intros H Hw. cbv zeta. unfold Dispatch.wake_one.
  set (nd := node_of d w). set (nw2 := wake_node tasks nd p fs).
  destruct (wake_node_keeps nd p fs) as (k1 & k2 & k3 & k4 & k5 & k6). fold nw2 in k1, k2, k3, k4, k5, k6.
  set (d1 := set_node d w nw2).
  assert (Hsub : forall y, In y (wln nw2) -> In y (wln nd) /\ y <> p).
  { intros y Hy. unfold wln in *. rewrite k5, k6 in Hy. rewrite in_app_iff in *.
    destruct Hy as [Hy|Hy]; apply rem_In in Hy; tauto. }
  assert (Hnp : ~ In p (wln nw2)) by (intros Hy; apply Hsub in Hy; destruct Hy as [_ Hy]; congruence).
  assert (Hex1 : forall z, exn d1 z <-> exn d z).
  { intros z. unfold d1. rewrite exn_set_node. split; [intros [A| ->]; auto|auto]. }
  assert (S1 : same_ps d d1) by (apply same_ps_set_node; auto).
  assert (Hother : forall z, ~ In p (wln (node_of d z)) -> ~ In p (wln (node_of d1 z))).
  { intros z Hz. unfold d1. destruct (N.eqb_spec z w) as [->|Hne]; [rewrite node_of_set_same; exact Hnp|rewrite node_of_set_other; auto]. }
  assert (Hself : ~ In p (wln (node_of d1 w))) by (unfold d1; rewrite node_of_set_same; exact Hnp).
  (* the common part of both outcomes *)
  assert (G : forall dq, d_nodes dq = d_nodes d1 ->
            (forall z, In z (d_waiting dq) -> (z = w -> wln nw2 <> []) /\ (z <> w -> In z (d_waiting d))) ->
            (forall x, located d x -> located dq x) -> (forall x, located dq x -> located d x) -> HI (Some p) dq).
  { intros dq En Hwq Hl1 Hl2.
    assert (Enode : forall z, node_of dq z = node_of d1 z) by (intros z; unfold Dispatch.node_of; rewrite En; reflexivity).
    eapply (HI_step (Some p) d dq w nw2); eauto.
    - intros z Hz. rewrite Enode. unfold d1. apply node_of_set_other. exact Hz.
    - rewrite Enode. unfold d1. apply node_of_set_same.
    - intros z Hz. unfold exn. rewrite En. apply Hex1. exact Hz.
    - intros z Hz. left. unfold exn in Hz. rewrite En in Hz. apply Hex1. exact Hz.
    - rewrite k2. apply (h_nws _ _ H).
    - intros y Hy. left. rewrite k4 in Hy. exact Hy.
    - rewrite k4. apply incl_refl.
    - intros y Hy. left. apply Hsub. exact Hy.
    - pose proof (h_pcx _ _ H w) as Px. unfold pcxn in *. rewrite k1. exact Px.
    - intros x Hx Hu Hl. apply Hl1. apply Hl. unfold exn in Hx. rewrite En in Hx. apply Hex1. exact Hx. }
  destruct (wake_ready nd p nw2 && mem w (d_waiting d1)) eqn:Erdy.
  - split; [|split; [|split; [|split; [reflexivity|split]]]]; auto.
    apply G; auto.
    + intros z Hz. simpl in Hz. apply rem_In in Hz. destruct Hz as [Hz Hne]. split; [congruence|auto].
    + intros x [Hx|[Hx|Hx]]; [left; simpl; apply in_app_iff; auto| |right; right; exact Hx].
      destruct (N.eqb_spec x w) as [->|Hne]; [left; simpl; apply in_app_iff; right; left; reflexivity|].
      right; left. simpl. apply rem_In. auto.
    + apply andb_true_iff in Erdy. destruct Erdy as [_ Em]. apply mem_In in Em. simpl in Em.
      intros x [Hx|[Hx|Hx]]; [|right; left; simpl in Hx; apply rem_In in Hx; tauto|right; right; exact Hx].
      simpl in Hx. apply in_app_iff in Hx. destruct Hx as [Hx|[<-|[]]]; [left; exact Hx|right; left; exact Em].
  - split; [|split; [|split; [|split; [reflexivity|split]]]]; auto.
    apply G; auto.
    intros z Hz. simpl in Hz. split; auto. intros ->.
    apply andb_false_iff in Erdy. destruct Erdy as [Er|Er].
    + unfold wake_ready in Er. destruct (mem p (n_wcalc nd)); [discriminate|].
      unfold wln. intros E. apply app_eq_nil in E. destruct E as [E1 E2]. rewrite E1, E2 in Er. discriminate.
    + simpl in Er. apply mem_false_In in Er. contradiction.
Qed.

Lemma wake_H p fs l : forall d,
  HI (Some p) d -> (forall w, In w l -> exn d w) ->
  let d' := wake tasks d p fs l in
  HI (Some p) d' /\ same_ps d d' /\ d_cur d' = d_cur d /\
  (forall w, In w l -> ~ In p (wln (node_of d' w))) /\
  (forall z, ~ In p (wln (node_of d z)) -> ~ In p (wln (node_of d' z))).
Proof.
  induction l as [|w r IH]; intros d H Hl; cbn [Dispatch.wake]; cbv zeta.
  - split; [exact H|]. split; [apply same_ps_refl|]. split; [reflexivity|]. split; [intros w []|intros z Hz; exact Hz].
  - destruct (wake_one_H p fs d w H (Hl w (or_introl eq_refl))) as (H1 & S1 & E1 & C1 & N1 & O1).
    destruct (IH (wake_one tasks d p fs w) H1) as (H2 & S2 & C2 & N2 & O2).
    { intros z Hz. apply E1. apply Hl. right. exact Hz. }
    split; auto. split; [eapply same_ps_trans; eauto|]. split; [congruence|]. split.
    + intros z [<-|Hz]; [apply O2; exact N1|apply N2; exact Hz].
    + intros z Hz. apply O2. apply O1. exact Hz.
Qed.

Lemma HI_weaken p d : HI (Some p) d -> (forall z, ~ In p (wln (node_of d z))) -> HI None d.
Proof.
  intros [Hwne Hreg Hunf Hex Hloc Hnws Hpcx Hqex Hwex] Hn. split; auto.
  intros w x Hx. destruct (Hunf w x Hx) as [A|A]; auto. inversion A; subst. exfalso. eapply Hn; eauto.
Qed.

Lemma HI_strengthen exc d : HI None d -> HI exc d.
Proof.
  intros [Hwne Hreg Hunf Hex Hloc Hnws Hpcx Hqex Hwex]. split; auto.
  intros w x Hx. destruct (Hunf w x Hx) as [A|A]; auto. discriminate.
Qed.

Lemma update_waiting_H d p :
  HI p d -> let d' := update_waiting tasks wake_rank d p in HI None d' /\ same_ps d d' /\ d_cur d' = d_cur d.
Proof.
  intros H. cbv zeta. unfold Dispatch.update_waiting. destruct p as [p|]; [|split; auto; split; [apply same_ps_refl|reflexivity]].
  rewrite (h_nws _ _ H p).
  assert (Hrun : unfinished (st_of d p) = true -> HI None d).
  { intros Hu. destruct H as [Hwne Hreg Hunf Hex Hloc Hnws Hpcx Hqex Hwex]. split; auto.
    intros w x Hx. destruct (Hunf w x Hx) as [A|A]; auto. inversion A; subst. auto. }
  assert (Hwake : forall s, let d' := wake tasks d p s (wake_order wake_rank p (n_wme (node_of d p))) in
            HI None d' /\ same_ps d d' /\ d_cur d' = d_cur d).
  { intros s. cbv zeta.
    destruct (wake_H p s (wake_order wake_rank p (n_wme (node_of d p))) d H) as (H1 & S1 & C1 & N1 & O1).
    { intros w Hw. unfold wake_order in Hw. apply sort_by_In in Hw. apply (h_wex _ _ H w p). exact Hw. }
    split; [|split; auto]. apply (HI_weaken p); auto.
    intros z. destruct (in_dec N.eq_dec z (n_wme (node_of d p))) as [Hin|Hnin].
    - apply N1. unfold wake_order. apply sort_by_In. exact Hin.
    - apply O1. intros Hz. apply Hnin. apply (h_reg _ _ H z p). exact Hz. }
  unfold Dispatch.st_of in Hrun.
  destruct (n_st (node_of d p)); try apply Hwake.
  split; [apply Hrun; reflexivity|]. split; [apply same_ps_refl|reflexivity].
Qed.

(* ---------- _get_next_node, the dispatcher loop ---------- *)
Lemma next_from_torun_H l : forall d o d1,
  HI None d -> PS None d -> d_cur d = None -> next_from_torun tasks d l = (o, d1) ->
  PS None d1 /\
  match o with
  | Some x => HI None (set_cur d1 (Some x))
  | None => HI None d1 /\ d_cur d1 = None /\ d_ready d1 = d_ready d /\ d_waiting d1 = d_waiting d
  end.
Proof.
  induction l as [|x r IH]; intros d o d1 H P Hc E; simpl in E.
  - inversion E; subst. split; [apply (PS_q None d); [reflexivity|exact P]|].
    split; [|auto]. apply (HI_q None d); auto. intros w Hw. apply (h_wne _ _ H). exact Hw.
  - unfold Dispatch.gen_node in E. destruct (d_nodes d x) eqn:Ex.
    + eapply IH; eauto.
    + inversion E; subst. clear E. split.
      * apply (PS_q None (set_node d x (new_node tasks [] x))); [reflexivity|].
        apply (PS_upd None None d _ x); auto.
        -- intros z Hz. rewrite node_of_set_other by auto. auto.
        -- rewrite node_of_set_same. exact I.
      * apply (HI_new None d _ x []); auto.
        -- intros z Hz. apply (node_of_set_other tasks d x). exact Hz.
        -- apply (node_of_set_same tasks d x).
        -- intros z. apply (exn_set_node d x).
        -- right; right. reflexivity.
        -- intros y [Hy|[Hy|Hy]]; [left; exact Hy|right; left; exact Hy|congruence].
        -- intros y [Hy|[Hy|Hy]]; [left; left; exact Hy|left; right; left; exact Hy|].
           simpl in Hy. inversion Hy. auto.
Qed.

Lemma disp_run_H fuel : forall d y d',
  HI None d -> PS None d -> disp_run tasks calc_rank fuel d = (y, d') ->
  match y with
  | DTask k => HI None d' /\ PS (Some k) d' /\ d_cur d' = Some k
  | DHold => HI None d' /\ d_cur d' = None /\ d_ready d' = [] /\ d_waiting d' <> []
  | DStop => HI None d' /\ d_cur d' = None /\ d_ready d' = [] /\ d_waiting d' = []
  | _ => True end.
Proof.
  induction fuel as [|fuel IH]; intros d y d' H P E; cbn [Dispatch.disp_run] in E.
  { inversion E; subst. exact I. }
  destruct (d_cur d) as [me|] eqn:Ecur.
  - destruct (gen_step (S (S fuel)) d me) as [g d1] eqn:Eg.
    assert (Hme : exn d me) by (apply (h_qex _ _ H); right; right; exact Ecur).
    pose proof (gen_step_H _ _ _ _ _ H P Ecur Hme Eg) as G.
    destruct g; simpl in G.
    + destruct G as (A & B & C). eapply IH; [exact A| |exact E]. apply (PS_q None d1); [reflexivity|exact B].
    + destruct G as (A & B). eapply IH; [exact A| |exact E]. apply (PS_q None d1); [reflexivity|exact B].
    + inversion E; subst. exact G.
    + destruct G as (A & B). eapply IH; [exact A| |exact E]. apply (PS_q None d1); [reflexivity|exact B].
    + inversion E; subst. exact I.
    + inversion E; subst. exact I.
  - destruct (d_ready d) as [|x r] eqn:Er.
    + destruct (next_from_torun tasks d (d_torun d)) as [o d1] eqn:En.
      destruct (next_from_torun_H _ _ _ _ H P Ecur En) as [P1 H1].
      destruct o as [x|].
      * eapply IH; [exact H1| |exact E]. apply (PS_q None d1); [reflexivity|exact P1].
      * destruct H1 as (A & B & C & D). destruct (is_nil (d_waiting d1)) eqn:Ew; inversion E; subst.
        -- split; auto. split; auto. split; [congruence|]. apply is_nil_true. exact Ew.
        -- split; auto. split; auto. split; [congruence|]. intros Ew'. rewrite Ew' in Ew. discriminate.
    + eapply IH; [| |exact E].
      * apply (HI_q None d); auto.
        -- intros w Hw. apply (h_wne _ _ H). exact Hw.
        -- intros y0 _ _ [Hy|[Hy|Hy]]; [|right; left; exact Hy|congruence].
           rewrite Er in Hy. destruct Hy as [<-|Hy]; [right; right; reflexivity|left; exact Hy].
        -- intros y0 [Hy|[Hy|Hy]]; [left; rewrite Er; right; exact Hy|right; left; exact Hy|].
           simpl in Hy. inversion Hy; subst. left. rewrite Er. left. reflexivity.
      * apply (PS_q None d); [reflexivity|exact P].
Qed.

(* ---------- the runner: only the status of the task handed over changes ---------- *)
Notation set_status := (set_status tasks).

Lemma set_status_fields d k s z :
  n_wrun (node_of (set_status d k s) z) = n_wrun (node_of d z) /\
  n_wcalc (node_of (set_status d k s) z) = n_wcalc (node_of d z) /\
  n_wme (node_of (set_status d k s) z) = n_wme (node_of d z) /\
  n_wsel (node_of (set_status d k s) z) = n_wsel (node_of d z) /\
  n_pc (node_of (set_status d k s) z) = n_pc (node_of d z).
Proof.
  unfold Runner.set_status. destruct (N.eqb_spec z k) as [->|Hne].
  - rewrite node_of_set_same. simpl. auto.
  - rewrite node_of_set_other by auto. auto.
Qed.

Lemma set_status_H e d k s :
  HI e d -> (e = None \/ e = Some k) -> d_cur d = Some k -> HI (Some k) (set_status d k s).
Proof.
  intros H He Hc.
  assert (Hk : exn d k) by (apply (h_qex _ _ H); right; right; exact Hc).
  assert (Eex : forall z, exn (set_status d k s) z <-> exn d z).
  { intros z. unfold Runner.set_status. rewrite exn_set_node. split; [intros [A| ->]; auto|auto]. }
  assert (Ewl : forall z, wln (node_of (set_status d k s) z) = wln (node_of d z)).
  { intros z. unfold wln. destruct (set_status_fields d k s z) as (-> & -> & _). reflexivity. }
  destruct H as [Hwne Hreg Hunf Hex Hloc Hnws Hpcx Hqex Hwex].
  split.
  - intros w Hw. rewrite Ewl. apply Hwne. exact Hw.
  - intros w x. rewrite Ewl. destruct (set_status_fields d k s x) as (_ & _ & -> & _). apply Hreg.
  - intros w x. rewrite Ewl. intros Hx. rewrite set_status_st. destruct (N.eqb_spec x k) as [->|Hne]; [right; reflexivity|].
    destruct (Hunf w x Hx) as [A|A]; auto. destruct He as [->| ->]; [discriminate|]. inversion A; subst. contradiction.
  - intros w x. rewrite Ewl, Eex. apply Hex.
  - intros x. rewrite Eex, set_status_st. intros Hx Hu. destruct (N.eqb_spec x k) as [->|Hne].
    + right; right. exact Hc.
    + apply Hloc; auto.
  - intros w. destruct (set_status_fields d k s w) as (_ & _ & _ & -> & _). apply Hnws.
  - intros me. pose proof (Hpcx me) as Px. unfold pcxn in *.
    destruct (set_status_fields d k s me) as (_ & _ & _ & _ & ->).
    destruct (n_pc (node_of d me)); auto; intros c Hin; destruct (Px c Hin); auto; right; apply Eex; auto.
  - intros x Hx. apply Eex. apply Hqex. exact Hx.
  - intros w x. destruct (set_status_fields d k s x) as (_ & _ & -> & _). rewrite Eex. apply Hwex.
Qed.

(* every node but k satisfies the pc/status relation; k keeps its program counter *)
Definition PSo (k : name) (p0 : pc) (d : dstate) : Prop :=
  (forall me, me <> k -> pstn me (node_of d me)) /\ n_pc (node_of d k) = p0.

Lemma PSo_set_status k p0 d s : PSo k p0 d -> PSo k p0 (set_status d k s).
Proof.
  intros [A B]. split.
  - intros me Hne. unfold pstn. rewrite set_status_pc.
    change (n_st (node_of (set_status d k s) me)) with (Dispatch.st_of tasks (set_status d k s) me).
    rewrite set_status_st. destruct (N.eqb_spec me k); [contradiction|]. apply A. exact Hne.
  - rewrite set_status_pc. exact B.
Qed.

Definition RH (k : name) (p0 : pc) (r : rstate) : Prop :=
  HI (Some k) (r_d r) /\ d_cur (r_d r) = Some k /\ PSo k p0 (r_d r).

Lemma RH_set k p0 r s : RH k p0 r -> RH k p0 (with_d r (set_status (r_d r) k s)).
Proof.
  intros (A & B & C). split; [|split]; cbn [r_d with_d].
  - apply (set_status_H (Some k)); auto.
  - rewrite set_status_cur. exact B.
  - apply PSo_set_status. exact C.
Qed.

Lemma select_task_RH k p0 r b r1 :
  RH k p0 r -> select_task tasks continue_ always r k = (b, r1) -> RH k p0 r1.
Proof.
  apply (select_task_pres tasks continue_ always (RH k p0) k).
  - intros r0 s H. apply RH_set. exact H.
  - intros r0 e H _. exact H.
  - intros r0 kd H. unfold handle_error, handle_error_gen, RH. simpl. apply (RH_set k p0 r0 SFailure H).
Qed.

Lemma process_result_RH k p0 r : RH k p0 r -> RH k p0 (process_result tasks continue_ r k).
Proof.
  intros H. unfold process_result, handle_error, handle_error_gen.
  destruct (t_outcome (get_task k)); auto;
    first [apply (RH_set k p0 r SSuccess H)|apply (RH_set k p0 r SFailure H)|apply (RH_set k p0 r SFailureV H)].
Qed.

(* what the status of the selected task is afterwards *)
Lemma st_with_d_set r k s : st_of (r_d (with_d r (set_status (r_d r) k s))) k = s.
Proof. simpl. rewrite set_status_st, N.eqb_refl. reflexivity. Qed.

Lemma set_status_nst d k s : n_st (node_of (set_status d k s) k) = s.
Proof. unfold Runner.set_status. rewrite node_of_set_same. reflexivity. Qed.

Lemma select_false_st r k r1 :
  select_task tasks continue_ always r k = (false, r1) ->
  st_of (r_d r1) k <> SNone /\
  (is_nil (t_setup (get_task k)) = true \/ st_of (r_d r) k <> SNone -> unfinished (st_of (r_d r1) k) = false).
Proof.
  unfold select_task, get_args, handle_error, handle_error_gen, emit. unfold Dispatch.st_of at 3.
  destruct (n_st (node_of (r_d r) k)) eqn:Est;
    repeat match goal with
    | |- context [if ?c then _ else _] => destruct c eqn:?
    | |- context [match t_check ?t with _ => _ end] => destruct (t_check t) eqn:?
    end;
    intros E; inversion E; subst; clear E; simpl;
    unfold Dispatch.st_of; rewrite ?set_status_nst; (split; [discriminate|]); intros [A|A]; try reflexivity; try congruence.
Qed.

Lemma process_result_final r k :
  is_interrupt tasks k = false -> unfinished (st_of (r_d (process_result tasks continue_ r k)) k) = false.
Proof.
  unfold is_interrupt, process_result, handle_error, handle_error_gen. intros Hi.
  destruct (t_outcome (get_task k)); try discriminate; simpl; rewrite set_status_st, N.eqb_refl; reflexivity.
Qed.

Lemma PS_of_PSo k p0 d : PSo k p0 d -> pstn k (node_of d k) -> PS None d.
Proof.
  intros [A B] Hk. split.
  - intros me _. destruct (N.eqb_spec me k) as [->|Hne]; auto.
  - intros me E. discriminate.
Qed.

Lemma serial_H fuel : forall r last r' s,
  AInv (r_d r) -> HI last (r_d r) -> PS None (r_d r) ->
  serial tasks wake_rank calc_rank continue_ always fuel r last = (r', s) ->
  s = StopHold -> exists k, reach k k.
Proof.
  induction fuel as [|fuel IH]; intros r last r' s HA H P E Es; cbn [Runner.serial] in E.
  { inversion E; subst. discriminate. }
  destruct (r_stop r). { inversion E; subst. discriminate. }
  destruct (disp_send tasks wake_rank calc_rank (S fuel) (r_d r) last) as [y d] eqn:Ed.
  destruct (disp_send_A tasks wake_rank calc_rank _ _ _ _ _ HA Ed) as [HA1 _].
  unfold Dispatch.disp_send in Ed.
  destruct (update_waiting_H (r_d r) last H) as (H0 & S0 & _).
  pose proof (disp_run_H _ _ _ _ H0 (PS_same _ _ _ S0 P) Ed) as G.
  destruct y as [k| | |path|]; try (inversion E; subst; discriminate).
  - destruct G as (H1 & P1 & C1).
    set (p0 := n_pc (node_of d k)).
    assert (R0 : RH k p0 (with_d r d)).
    { split; [apply HI_strengthen; exact H1|]. split; [exact C1|]. split; [|reflexivity].
      intros me Hne. apply (p_all _ _ P1). congruence. }
    pose proof (p_exc _ _ P1 k eq_refl) as Hp0. fold p0 in Hp0.
    destruct (select_task tasks continue_ always (with_d r d) k) as [b r1] eqn:Esel.
    pose proof (select_task_RH k p0 _ _ _ R0 Esel) as R1.
    assert (HA2 : AInv (r_d r1)) by (eapply select_task_A; [|exact Esel]; exact HA1).
    destruct b.
    + destruct (is_interrupt tasks k) eqn:Ei. { inversion E; subst. discriminate. }
      assert (R2 : RH k p0 (start_task tasks r1 k)) by exact R1.
      pose proof (process_result_RH k p0 _ R2) as R3.
      pose proof (process_result_final (start_task tasks r1 k) k Ei) as F3.
      destruct R3 as (H3 & C3 & S3).
      eapply IH; [| | |exact E|exact Es].
      * apply process_result_A. exact HA2.
      * exact H3.
      * apply (PS_of_PSo k p0); auto. unfold pstn. destruct S3 as [_ ->].
        unfold Dispatch.st_of in F3.
        destruct Hp0 as [->|[-> _]]; [|exact F3]. split; [|intros _; exact F3].
        intros E0. rewrite E0 in F3. discriminate.
    + destruct (select_false_st _ _ _ Esel) as [F1 F2]. destruct R1 as (H3 & C3 & S3).
      eapply IH; [exact HA2|exact H3| |exact E|exact Es].
      apply (PS_of_PSo k p0); auto. unfold pstn. destruct S3 as [_ ->].
      destruct Hp0 as [->|[-> Hn]]; [split; [exact F1|intros En; apply F2; left; exact En]|].
      apply F2. right. exact Hn.
  - inversion E; subst. destruct G as (H1 & C1 & R1 & W1). eapply hold_cycle; eauto.
Qed.

(* the runner itself never reports the hold error: it only appears as the marker of StopHold *)
Definition is_hold (e : event) : bool := match e with EHoldError => true | _ => false end.
Definition nohold (tr : list event) : Prop := forallb (fun e => negb (is_hold e)) tr = true.
Lemma nohold_app a b : nohold a -> nohold b -> nohold (a ++ b).
Proof. unfold nohold. intros A B. rewrite forallb_app, A, B. reflexivity. Qed.

Lemma select_task_nohold r k b r1 :
  nohold (r_tr r) -> select_task tasks continue_ always r k = (b, r1) -> nohold (r_tr r1).
Proof.
  apply (select_task_pres tasks continue_ always (fun r0 => nohold (r_tr r0)) k).
  - intros r0 s H. exact H.
  - intros r0 e H [<-|[<-|[<-|[]]]]; unfold emit; simpl; apply nohold_app; auto; reflexivity.
  - intros r0 kd H. unfold handle_error, handle_error_gen. simpl. apply nohold_app; auto; reflexivity.
Qed.

Lemma finish_nohold r : nohold (r_tr r) -> nohold (r_tr (finish r)).
Proof.
  intros H. unfold finish, emit. simpl. apply nohold_app; auto. unfold nohold. simpl.
  induction (rev (r_td r)); simpl; auto.
Qed.

Lemma serial_nohold fuel : forall r last r' s,
  nohold (r_tr r) -> serial tasks wake_rank calc_rank continue_ always fuel r last = (r', s) -> nohold (r_tr r').
Proof.
  induction fuel as [|fuel IH]; intros r last r' s H E; cbn [Runner.serial] in E.
  { inversion E; subst. exact H. }
  destruct (r_stop r). { inversion E; subst. apply finish_nohold. exact H. }
  destruct (disp_send tasks wake_rank calc_rank (S fuel) (r_d r) last) as [y d].
  destruct y as [k| | |path|]; try (inversion E; subst; try apply finish_nohold; exact H).
  destruct (select_task tasks continue_ always (with_d r d) k) as [b r1] eqn:Esel.
  assert (H1 : nohold (r_tr r1)) by (eapply select_task_nohold; [|exact Esel]; exact H).
  destruct b.
  - assert (H2 : nohold (r_tr (start_task tasks r1 k))) by (unfold start_task; simpl; apply nohold_app; auto; reflexivity).
    destruct (is_interrupt tasks k). { inversion E; subst. apply finish_nohold. exact H2. }
    eapply IH; [|exact E]. unfold process_result, handle_error, handle_error_gen.
    destruct (t_outcome (get_task k)); simpl; auto; apply nohold_app; auto; reflexivity.
  - eapply IH; [exact H1|exact E].
Qed.

Lemma HI_init sel : HI None (disp_init sel).
Proof.
  split; simpl; auto.
  - intros w x [].
  - intros x Hx. exfalso. apply Hx. reflexivity.
  - intros me. exact I.
  - intros x [[]|[[]|Hx]]. discriminate.
  - intros w x [].
Qed.
Lemma PS_init sel : PS None (disp_init sel).
Proof. split; [intros me _; exact I|intros me E; discriminate]. Qed.

(* the "tasks waiting for each other" error of a serial run is never a false alarm: if it is raised, the
   task graph has a cycle through effective dependencies *)
Theorem serial_hold_error_is_real fuel sel :
  In EHoldError (fst (run_serial tasks wake_rank calc_rank continue_ always fuel sel)) ->
  exists k, reach k k.
Proof.
  unfold run_serial.
  destruct (serial tasks wake_rank calc_rank continue_ always fuel (r_init sel) None) as [r' s] eqn:E.
  simpl. intros Hin.
  assert (Hn : nohold (r_tr r')) by (eapply serial_nohold; [|exact E]; reflexivity).
  apply in_app_iff in Hin. destruct Hin as [Hin|Hin].
  - exfalso. unfold nohold in Hn. rewrite forallb_forall in Hn. specialize (Hn _ Hin). discriminate.
  - destruct s; simpl in Hin; try contradiction; destruct Hin as [Hin|[]]; try discriminate.
    eapply (serial_H fuel (r_init sel) None r' StopHold); [apply AInv_init|apply HI_init|apply PS_init|exact E|reflexivity].
Qed.

(* conversely stated: over an acyclic graph the serial run never ends with either cycle diagnostic *)
Corollary serial_acyclic_no_diagnostic fuel sel :
  (forall k, ~ reach k k) ->
  let tr := fst (run_serial tasks wake_rank calc_rank continue_ always fuel sel) in
  ~ In EHoldError tr /\ forall p, ~ In (ECycleError p) tr.
Proof.
  intros Hac. cbv zeta. split.
  - intros Hin. destruct (serial_hold_error_is_real fuel sel Hin) as [k Hk]. exact (Hac k Hk).
  - intros p Hin. destruct (serial_cycle_error_is_real tasks wake_rank calc_rank continue_ always fuel sel p Hin) as [k Hk].
    exact (Hac k Hk).
Qed.

End H.
