(* ParallelTdProcP.v -- teardown discipline of MRunner (process flavour of the parallel model, proc = true):
   every worker process has its own runner copy, hence its own teardown list.  When a worker receives the
   terminating job it runs the teardowns of the tasks IT started (those with teardown actions), once each, in
   reverse order of start, as one contiguous block, and does nothing afterwards; the reports travel through
   the (FIFO) result queue and the main process reports them in the order the workers ran them -- under every
   schedule, every worker count, every fuel. *)
From DoitV Require Import Base Dispatch Runner Parallel DispatchP DispatchInv RunnerTr RunnerP ParallelP.
Open Scope N_scope.

(* ---------- definitions of the statements ---------- *)
Definition wstarts (w : nat) (log : list pevent) : list name :=
  flat_map (fun e => match e with PStart k w' => if Nat.eqb w' w then [k] else [] | _ => [] end) log.
Definition wtds (w : nat) (log : list pevent) : list name :=
  flat_map (fun e => match e with PTdRun k w' => if Nat.eqb w' w then [k] else [] | _ => [] end) log.
Definition of_worker (w : nat) (e : pevent) : bool :=
  match e with PStart _ w' | PEnd _ w' | PTdRun _ w' => Nat.eqb w' w | _ => false end.
(* worker w either never ran a teardown (it was killed by terminate / exited on an interrupt / never received the
   terminating job), or its teardown events are ONE contiguous block = the tasks with teardown actions whose actions
   it started, once each, in reverse order of start, and the worker does nothing afterwards *)
Definition wshape (has_td : name -> bool) (w : nat) (log : list pevent) : Prop :=
  wtds w log = [] \/
  exists pre post, log = pre ++ map (fun k => PTdRun k w) (rev (filter has_td (wstarts w pre))) ++ post /\
     wtds w pre = [] /\ forallb (fun e => negb (of_worker w e)) post = true.

Definition fwd (log : list pevent) : list name :=   (* teardowns run by workers, in log order *)
  flat_map (fun e => match e with PTdRun k _ => [k] | _ => [] end) log.
Definition tdm (tr : list event) : list name :=     (* teardown reports of the main process *)
  flat_map (fun e => match e with ETeardown k => [k] | _ => [] end) tr.
Definition mtd (ms : list msg) : list name :=
  flat_map (fun m => match m with MTeardown k => [k] | _ => [] end) ms.

(* ---------- lists of events ---------- *)
Definition noev (w : nat) (l : list pevent) : Prop := forallb (fun e => negb (of_worker w e)) l = true.
Definition is_wev (e : pevent) : bool := match e with PStart _ _ | PEnd _ _ | PTdRun _ _ => true | _ => false end.
Definition nowev (l : list pevent) : Prop := forallb (fun e => negb (is_wev e)) l = true.

Lemma wstarts_app w a b : wstarts w (a ++ b) = wstarts w a ++ wstarts w b.
Proof. unfold wstarts. apply flat_map_app. Qed.
Lemma wtds_app w a b : wtds w (a ++ b) = wtds w a ++ wtds w b.
Proof. unfold wtds. apply flat_map_app. Qed.
Lemma fwd_app a b : fwd (a ++ b) = fwd a ++ fwd b.
Proof. unfold fwd. apply flat_map_app. Qed.
Lemma tdm_app a b : tdm (a ++ b) = tdm a ++ tdm b.
Proof. unfold tdm. apply flat_map_app. Qed.
Lemma mtd_app a b : mtd (a ++ b) = mtd a ++ mtd b.
Proof. unfold mtd. apply flat_map_app. Qed.

Lemma noev_app w a b : noev w a -> noev w b -> noev w (a ++ b).
Proof. unfold noev. intros A B. rewrite forallb_app, A, B. reflexivity. Qed.
Lemma noev_nil w : noev w [].
Proof. reflexivity. Qed.
Lemma noev_wstarts w l : noev w l -> wstarts w l = [].
Proof.
  unfold noev. induction l as [|e l IH]; simpl; auto. intros H. apply andb_true_iff in H. destruct H as [He Hl].
  rewrite IH by exact Hl. destruct e; simpl in *; auto. destruct (Nat.eqb w0 w); [discriminate|reflexivity].
Qed.
Lemma noev_wtds w l : noev w l -> wtds w l = [].
Proof.
  unfold noev. induction l as [|e l IH]; simpl; auto. intros H. apply andb_true_iff in H. destruct H as [He Hl].
  rewrite IH by exact Hl. destruct e; simpl in *; auto. destruct (Nat.eqb w0 w); [discriminate|reflexivity].
Qed.
Lemma nowev_noev w l : nowev l -> noev w l.
Proof.
  unfold nowev, noev. induction l as [|e l IH]; simpl; auto. intros H. apply andb_true_iff in H. destruct H as [He Hl].
  rewrite IH by exact Hl. destruct e; simpl in *; auto; discriminate.
Qed.
Lemma nowev_fwd l : nowev l -> fwd l = [].
Proof.
  unfold nowev. induction l as [|e l IH]; simpl; auto. intros H. apply andb_true_iff in H. destruct H as [He Hl].
  rewrite IH by exact Hl. destruct e; simpl in *; auto; discriminate.
Qed.
Lemma nowev_app a b : nowev a -> nowev b -> nowev (a ++ b).
Proof. unfold nowev. intros A B. rewrite forallb_app, A, B. reflexivity. Qed.
Lemma nowev_map_PE tr : nowev (map PE tr).
Proof. unfold nowev. induction tr; simpl; auto. Qed.
Lemma noev_tdrun_other w w' l : w' <> w -> noev w' (map (fun k => PTdRun k w) l).
Proof.
  intros Hne. unfold noev. induction l as [|k l IH]; simpl; auto. rewrite IH.
  apply Nat.eqb_neq in Hne. rewrite Nat.eqb_sym in Hne. rewrite Hne. reflexivity.
Qed.
Lemma wtds_tdrun_self w l : wtds w (map (fun k => PTdRun k w) l) = l.
Proof. induction l as [|k l IH]; simpl; auto. rewrite Nat.eqb_refl. simpl. f_equal. exact IH. Qed.
Lemma fwd_tdrun w l : fwd (map (fun k => PTdRun k w) l) = l.
Proof. induction l as [|k l IH]; simpl; auto. f_equal. exact IH. Qed.
Lemma mtd_teardown l : mtd (map MTeardown l) = l.
Proof. induction l as [|k l IH]; simpl; auto. f_equal. exact IH. Qed.

Lemma wshape_notd h w log : wtds w log = [] -> wshape h w log.
Proof. intros H. left. exact H. Qed.
Lemma wshape_app_noev h w log evs : wshape h w log -> noev w evs -> wshape h w (log ++ evs).
Proof.
  intros [H|(pre & post & E & Hp & Hq)] He.
  - left. rewrite wtds_app, H, (noev_wtds _ _ He). reflexivity.
  - right. exists pre, (post ++ evs). split; [|split; auto].
    + rewrite E, <- !app_assoc. reflexivity.
    + apply noev_app; auto.
Qed.
(* what a worker tore down, read off the shape *)
Lemma wshape_wtds h w log : wshape h w log ->
  exists pre rest, log = pre ++ rest /\ wtds w log = rev (filter h (wstarts w pre)).
Proof.
  intros [H|(pre & post & E & Hp & Hq)].
  - exists [], log. split; auto.
  - exists pre, (map (fun k => PTdRun k w) (rev (filter h (wstarts w pre))) ++ post). split; auto.
    rewrite E at 1. rewrite !wtds_app, Hp, wtds_tdrun_self, (noev_wtds _ _ Hq), app_nil_r. reflexivity.
Qed.

Lemma NoDup_app_l {A} (a b : list A) : NoDup (a ++ b) -> NoDup a.
Proof.
  induction a as [|x a IH]; simpl; intros H; [constructor|]. inversion H as [|y l Hn Hd]; subst.
  constructor; [intros Hin; apply Hn; apply in_or_app; auto|apply IH; exact Hd].
Qed.
Lemma NoDup_app_r {A} (a b : list A) : NoDup (a ++ b) -> NoDup b.
Proof. induction a as [|x a IH]; simpl; intros H; auto. inversion H; subst. auto. Qed.

Lemma nth_set_nth_eq {A} (l : list A) : forall w v d, (w < length l)%nat -> nth w (set_nth l w v) d = v.
Proof. induction l as [|x l IH]; intros [|w] v d H; simpl in *; try lia; auto. apply IH. lia. Qed.
Lemma nth_set_nth_neq {A} (l : list A) : forall w w' v d, w' <> w -> nth w' (set_nth l w v) d = nth w' l d.
Proof.
  induction l as [|x l IH]; intros [|w] [|w'] v d H; simpl in *; auto; try congruence; try (apply IH; congruence).
Qed.

(* the state of worker w *)
Definition wok (h : name -> bool) (ws : list wst) (td : list (list name)) (log : list pevent) (w : nat) : Prop :=
  match nth w ws WExited with
  | WExited => wshape h w log /\ ((length ws <= w)%nat -> noev w log)
  | _ => wtds w log = [] /\ nth w td [] = filter h (wstarts w log)
  end.

Lemma wok_ext h ws td log ws' td' evs w :
  nth w ws' WExited = nth w ws WExited -> nth w td' [] = nth w td [] -> (length ws <= length ws')%nat ->
  noev w evs -> wok h ws td log w -> wok h ws' td' (log ++ evs) w.
Proof.
  intros E1 E2 Hl He. unfold wok. rewrite E1. destruct (nth w ws WExited).
  - intros [A B]. split; [rewrite wtds_app, A, (noev_wtds _ _ He); reflexivity|].
    rewrite E2, B, wstarts_app, (noev_wstarts _ _ He), app_nil_r. reflexivity.
  - intros [A B]. split; [rewrite wtds_app, A, (noev_wtds _ _ He); reflexivity|].
    rewrite E2, B, wstarts_app, (noev_wstarts _ _ He), app_nil_r. reflexivity.
  - intros [A B]. split; [apply wshape_app_noev; auto|]. intros H. apply noev_app; auto. apply B. lia.
Qed.
Lemma wok_shape h ws td log w : wok h ws td log w -> wshape h w log.
Proof. unfold wok. destruct (nth w ws WExited); intros [A B]; auto; left; exact A. Qed.
Lemma wok_noev_out h ws td log w : (length ws <= w)%nat -> wok h ws td log w -> noev w log.
Proof. intros H. unfold wok. rewrite nth_overflow by exact H. intros [_ B]. auto. Qed.

Section T.
Variable tasks : name -> option task.
Variable wake_rank : name -> name -> N.
Variable calc_rank : name -> N.
Variable continue_ always : bool.

Notation get_task := (get_task tasks).
Notation worker_step := (worker_step tasks true).
Notation main_get := (main_get tasks true).
Notation join_all := (join_all tasks true).
Notation next_job_loop := (next_job_loop tasks wake_rank calc_rank continue_ always).
Notation get_next_job := (get_next_job tasks wake_rank calc_rank continue_ always).
Notation start_procs := (start_procs tasks wake_rank calc_rank continue_ always true).
Notation hand_out := (hand_out tasks wake_rank calc_rank continue_ always).
Notation main_loop := (main_loop tasks wake_rank calc_rank continue_ always true).
Notation has_td := (has_td tasks).

(* ---------- the main runner: its own teardown list stays empty (it never calls start_task), and only the
   main loop / drain add teardown reports to its trace ---------- *)
Definition RQ (l : list name) (r : rstate) : Prop := r_td r = [] /\ tdm (r_tr r) = l.

Lemma RQ_with_d l r d : RQ l r -> RQ l (with_d r d).
Proof. intros [A B]. split; auto. Qed.
Lemma RQ_emit l r evs : RQ l r -> tdm evs = [] -> RQ l (emit r evs).
Proof. intros [A B] He. unfold emit. split; simpl; auto. rewrite tdm_app, He, app_nil_r. exact B. Qed.
Lemma RQ_handle l st r k kd : RQ l r -> RQ l (handle_error_gen tasks continue_ st r k kd).
Proof. intros [A B]. unfold handle_error_gen. split; simpl; auto. rewrite tdm_app. simpl. rewrite app_nil_r. exact B. Qed.
Lemma RQ_select l r k b r1 : RQ l r -> select_task tasks continue_ always r k = (b, r1) -> RQ l r1.
Proof.
  apply (select_task_pres tasks continue_ always (RQ l) k).
  - intros r0 s H. apply RQ_with_d. exact H.
  - intros r0 e H [<-|[<-|[<-|[]]]]; apply RQ_emit; auto.
  - intros r0 kd H. apply RQ_handle. exact H.
Qed.
Lemma RQ_process l r k : RQ l r -> RQ l (process_result tasks continue_ r k).
Proof.
  intros H. unfold process_result.
  destruct (t_outcome (get_task k)); first [exact H|apply RQ_handle; exact H|apply RQ_emit; [apply RQ_with_d; exact H|reflexivity]].
Qed.

(* ---------- the invariant ---------- *)
Record XI (p : pstate) : Prop := {
  xi_len : length (p_wtd p) = length (p_workers p);
  xi_w : forall w, wok has_td (p_workers p) (p_wtd p) (p_log p) w;
  xi_td : r_td (p_r p) = [];
  (* FIFO result queue: what the workers tore down = what main reported ++ what is still queued *)
  xi_q : fwd (p_log p) = tdm (r_tr (p_r p)) ++ mtd (p_results p)
}.

Lemma XI_same p p' :
  p_workers p' = p_workers p -> p_wtd p' = p_wtd p -> p_log p' = p_log p -> r_td (p_r p') = [] ->
  tdm (r_tr (p_r p')) ++ mtd (p_results p') = tdm (r_tr (p_r p)) ++ mtd (p_results p) -> XI p -> XI p'.
Proof. intros E1 E2 E3 E4 E5 [A B C D]. split; rewrite ?E1, ?E2, ?E3, ?E5; auto. Qed.
Lemma XI_same0 p p' :
  p_workers p' = p_workers p -> p_wtd p' = p_wtd p -> p_log p' = p_log p -> p_r p' = p_r p ->
  p_results p' = p_results p -> XI p -> XI p'.
Proof. intros E1 E2 E3 E4 E5 H. apply (XI_same p); auto; rewrite ?E4, ?E5; auto. apply (xi_td _ H). Qed.
Lemma XI_with_r p r' : XI p -> RQ (tdm (r_tr (p_r p))) r' -> XI (with_r p r').
Proof. intros H [A B]. apply (XI_same p); simpl; auto. rewrite B. reflexivity. Qed.

Lemma XI_plog p evs : XI p -> nowev evs -> XI (plog p evs).
Proof.
  intros [A B C D] He. split; cbn [p_wtd p_workers p_log p_r p_results plog sync]; auto.
  - intros w. rewrite <- app_assoc. eapply wok_ext; eauto. apply nowev_noev. apply nowev_app; auto. apply nowev_map_PE.
  - rewrite !fwd_app, (nowev_fwd _ (nowev_map_PE _)), (nowev_fwd _ He), !app_nil_r. exact D.
Qed.
Lemma XI_sync p : XI p -> XI (sync p).
Proof.
  intros [A B C D]. split; cbn [p_wtd p_workers p_log p_r p_results sync]; auto.
  - intros w. eapply wok_ext; eauto. apply nowev_noev. apply nowev_map_PE.
  - rewrite !fwd_app, (nowev_fwd _ (nowev_map_PE _)), !app_nil_r. exact D.
Qed.

Lemma worker_step_XI p w : XI p -> XI (worker_step p w).
Proof.
  intros H. pose proof H as [L W T Q]. unfold Parallel.worker_step.
  destruct (nth w (p_workers p) WExited) as [|k|] eqn:Ew; auto.
  - assert (Hw : (w < length (p_workers p))%nat) by (eapply nth_lt_of; [exact Ew|discriminate]).
    assert (Wi : wtds w (p_log p) = [] /\ nth w (p_wtd p) [] = filter has_td (wstarts w (p_log p))).
    { specialize (W w). unfold wok in W. rewrite Ew in W. exact W. }
    destruct Wi as [Wt Wl].
    destruct (p_jobs p) as [|j js] eqn:Ej; auto.
    destruct j as [k| |].
    + (* a task: registered in this worker's own teardown list *)
      split; cbn [p_wtd p_workers p_log p_r p_results plog sync with_jobs with_workers with_results]; auto.
      * rewrite set_nth_length. destruct (t_teardown (get_task k)); rewrite ?set_nth_length; exact L.
      * match goal with |- context [map PE ?l] => set (pes := map PE l); assert (Hpes : nowev pes) by apply nowev_map_PE end.
        intros w0. rewrite <- app_assoc. destruct (Nat.eq_dec w0 w) as [->|Hne].
        -- unfold wok. rewrite nth_set_nth_eq by exact Hw.
           rewrite !wtds_app, !wstarts_app, Wt, (noev_wtds _ _ (nowev_noev w _ Hpes)), (noev_wstarts _ _ (nowev_noev w _ Hpes)).
           simpl. rewrite Nat.eqb_refl. split; [reflexivity|]. rewrite filter_app. simpl. unfold RunnerTr.has_td at 2.
           destruct (t_teardown (get_task k)).
           ++ rewrite nth_set_nth_eq by (rewrite L; exact Hw). rewrite Wl. reflexivity.
           ++ rewrite app_nil_r. exact Wl.
        -- eapply wok_ext; [| | | |apply W].
           ++ apply nth_set_nth_neq. exact Hne.
           ++ destruct (t_teardown (get_task k)); [apply nth_set_nth_neq; exact Hne|reflexivity].
           ++ rewrite set_nth_length. lia.
           ++ apply noev_app; [apply nowev_noev; exact Hpes|]. unfold noev. simpl.
              apply Nat.eqb_neq in Hne. rewrite Nat.eqb_sym in Hne. rewrite Hne. reflexivity.
      * rewrite !fwd_app, (nowev_fwd _ (nowev_map_PE _)), mtd_app. simpl. rewrite !app_nil_r. exact Q.
    + (* hold *)
      apply (XI_same0 p); auto.
    + (* the terminating job: run this worker's teardowns *)
      split; cbn [p_wtd p_workers p_log p_r p_results plog sync with_jobs with_workers with_results]; auto.
      * rewrite set_nth_length. exact L.
      * match goal with |- context [map PE ?l] => set (pes := map PE l); assert (Hpes : nowev pes) by apply nowev_map_PE end.
        intros w0. destruct (Nat.eq_dec w0 w) as [->|Hne].
        -- unfold wok. rewrite nth_set_nth_eq by exact Hw. split; [|rewrite set_nth_length; lia].
           right. exists (p_log p ++ pes), []. split; [|split; [|reflexivity]].
           ++ rewrite app_nil_r, wstarts_app, (noev_wstarts _ _ (nowev_noev w _ Hpes)), app_nil_r, Wl. reflexivity.
           ++ rewrite wtds_app, Wt, (noev_wtds _ _ (nowev_noev w _ Hpes)). reflexivity.
        -- rewrite <- app_assoc. eapply wok_ext; [| | | |apply W]; auto.
           ++ apply nth_set_nth_neq. exact Hne.
           ++ rewrite set_nth_length. lia.
           ++ apply noev_app; [apply nowev_noev; exact Hpes|]. apply noev_tdrun_other. exact Hne.
      * rewrite !fwd_app, (nowev_fwd _ (nowev_map_PE _)), mtd_app, fwd_tdrun, mtd_teardown, app_nil_r, Q, app_assoc. reflexivity.
  - (* a busy worker finishes its task *)
    assert (Hw : (w < length (p_workers p))%nat) by (eapply nth_lt_of; [exact Ew|discriminate]).
    assert (Wi : wtds w (p_log p) = [] /\ nth w (p_wtd p) [] = filter has_td (wstarts w (p_log p))).
    { specialize (W w). unfold wok in W. rewrite Ew in W. exact W. }
    destruct Wi as [Wt Wl].
    assert (G : forall s m, mtd [m] = [] ->
              match s with WExited => True | _ => nth w (p_wtd p) [] = filter has_td (wstarts w (p_log (plog p [PEnd k w]))) end ->
              XI (with_results (with_workers (plog p [PEnd k w]) (set_nth (p_workers (plog p [PEnd k w])) w s) (p_wtd (plog p [PEnd k w])))
                    (p_results (plog p [PEnd k w]) ++ [m]))).
    { intros s m Hm Hs.
      split; cbn [p_wtd p_workers p_log p_r p_results plog sync with_jobs with_workers with_results] in *; auto.
      * rewrite set_nth_length. exact L.
      * match goal with |- context [map PE ?l] => set (pes := map PE l) in *; assert (Hpes : nowev pes) by apply nowev_map_PE end.
        intros w0. destruct (Nat.eq_dec w0 w) as [->|Hne].
        -- assert (Ht : wtds w ((p_log p ++ pes) ++ [PEnd k w]) = []).
           { rewrite !wtds_app, Wt, (noev_wtds _ _ (nowev_noev w _ Hpes)). reflexivity. }
           unfold wok. rewrite nth_set_nth_eq by exact Hw. destruct s; auto.
           split; [left; exact Ht|rewrite set_nth_length; lia].
        -- rewrite <- app_assoc. eapply wok_ext; [| | | |apply W]; auto.
           ++ apply nth_set_nth_neq. exact Hne.
           ++ rewrite set_nth_length. lia.
           ++ apply noev_app; [apply nowev_noev; exact Hpes|]. unfold noev. simpl.
              apply Nat.eqb_neq in Hne. rewrite Nat.eqb_sym in Hne. rewrite Hne. reflexivity.
      * rewrite !fwd_app, (nowev_fwd _ (nowev_map_PE _)), mtd_app, Hm. simpl. rewrite !app_nil_r. exact Q. }
    destruct (is_interrupt tasks k); apply G; auto.
    cbn [p_log plog sync]. rewrite !wstarts_app, (noev_wstarts _ _ (nowev_noev w _ (nowev_map_PE _))). simpl. rewrite !app_nil_r. exact Wl.
Qed.

(* ---------- the main process ---------- *)
Definition olist (m : option msg) : list msg := match m with Some m => [m] | None => [] end.

(* the dequeued message put back in front: the invariant still holds *)
Lemma main_get_XI fuel : forall p m p', XI p -> main_get fuel p = (m, p') ->
  XI (with_results p' (olist m ++ p_results p')).
Proof.
  induction fuel as [|fuel IH]; intros p m p' H E; cbn [Parallel.main_get] in E.
  { inversion E; subst. apply (XI_same0 p'); auto. }
  set (ws := enabled_workers p (length (p_workers p)) 0) in *.
  destruct ((if negb (is_nil (p_results p)) then 1 else 0) + length ws)%nat.
  { inversion E; subst. apply (XI_same0 (plog p [PHang])); auto. apply XI_plog; auto. reflexivity. }
  destruct (choose (S n) (p_sched p)) as [c s].
  assert (Hs : XI (with_sched p s)) by (apply (XI_same0 p); auto).
  destruct (negb (is_nil (p_results p)) && Nat.eqb c 0).
  - simpl in E. destruct (p_results p) as [|m0 rs] eqn:Er.
    + inversion E; subst. apply (XI_same0 p); auto.
    + inversion E; subst. apply (XI_same0 p); auto.
  - eapply IH; [|exact E]. apply worker_step_XI. exact Hs.
Qed.

Lemma join_all_XI fuel : forall p, XI p -> XI (join_all fuel p).
Proof.
  induction fuel as [|fuel IH]; intros p H; cbn [Parallel.join_all]; auto.
  destruct (enabled_workers p (length (p_workers p)) 0) as [|w ws]; auto.
  destruct (choose (length (w :: ws)) (p_sched p)) as [c s].
  apply IH. apply worker_step_XI. apply (XI_same0 p); auto.
Qed.

Lemma XI_RQ p : XI p -> RQ (tdm (r_tr (p_r p))) (p_r p).
Proof. intros H. split; [apply (xi_td _ H)|reflexivity]. Qed.

(* get_next_job: the main runner selects tasks, nothing is torn down *)
Definition same_td (p p' : pstate) : Prop := tdm (r_tr (p_r p')) = tdm (r_tr (p_r p)) /\ p_results p' = p_results p.

Lemma next_job_loop_XI fuel : forall p completed g p', XI p -> next_job_loop fuel p completed = (g, p') ->
  XI p' /\ same_td p p'.
Proof.
  induction fuel as [|fuel IH]; intros p completed g p' H E; cbn [Parallel.next_job_loop] in E.
  { inversion E; subst. split; [exact H|split; reflexivity]. }
  destruct (disp_send tasks wake_rank calc_rank (S fuel) (r_d (p_r p)) completed) as [y d].
  assert (Hd : RQ (tdm (r_tr (p_r p))) (with_d (p_r p) d)) by (apply RQ_with_d; apply XI_RQ; exact H).
  destruct y as [k| | |path|].
  - destruct (select_task tasks continue_ always (with_d (p_r p) d) k) as [b r1] eqn:Es.
    pose proof (RQ_select _ _ _ _ _ Hd Es) as Hr1.
    assert (H1 : XI (with_r p r1)) by (apply XI_with_r; auto).
    assert (S1 : same_td p (with_r p r1)) by (split; [apply (proj2 Hr1)|reflexivity]).
    destruct b; [inversion E; subst; split; assumption|].
    destruct (IH _ _ _ _ H1 E) as [H2 [A B]]. split; auto. split; [rewrite A; apply (proj1 S1)|rewrite B; reflexivity].
  - inversion E; subst. split; [|split; reflexivity].
    apply (XI_same0 (with_r p (with_d (p_r p) d))); auto. apply XI_with_r; auto.
  - inversion E; subst. split; [apply XI_with_r; auto|split; reflexivity].
  - inversion E; subst. split; [apply XI_with_r; auto|split; reflexivity].
  - inversion E; subst. split; [exact H|split; reflexivity].
Qed.

Lemma get_next_job_XI fuel p completed g p' : XI p -> get_next_job fuel p completed = (g, p') -> XI p'.
Proof.
  intros H E. unfold Parallel.get_next_job in E. destruct (r_stop (p_r p)); [inversion E; subst; exact H|].
  eapply next_job_loop_XI; eauto.
Qed.

(* proc.terminate(): every worker is killed; those that had not exited never ran a teardown *)
Lemma terminate_XI p : XI p -> XI (terminate true p).
Proof.
  intros H. unfold terminate. destruct (true && negb (is_nil (p_workers p))); auto.
  pose proof H as [L W T Q].
  split; cbn [p_wtd p_workers p_log p_r p_results plog sync with_workers]; auto.
  - rewrite map_length. exact L.
  - match goal with |- context [map PE ?l] => set (pes := map PE l); assert (Hpes : nowev pes) by apply nowev_map_PE end.
    intros w. rewrite <- app_assoc.
    assert (He : noev w (pes ++ [PTerminate])) by (apply nowev_noev; apply nowev_app; auto; reflexivity).
    unfold wok. replace (nth w (map (fun _ : wst => WExited) (p_workers p)) WExited) with WExited.
    2:{ clear. revert w. induction (p_workers p) as [|x l IH]; intros [|w]; simpl; auto. }
    split.
    + apply wshape_app_noev; auto. apply (wok_shape _ _ _ _ _ (W w)).
    + rewrite map_length. intros Hl. apply noev_app; auto. apply (wok_noev_out _ _ _ _ _ Hl (W w)).
  - rewrite !fwd_app, (nowev_fwd _ (nowev_map_PE _)). simpl. rewrite !app_nil_r. exact Q.
Qed.

Lemma put_job_XI p j : XI p -> XI (put_job p j).
Proof. intros H. apply (XI_same0 p); auto. Qed.

Lemma start_worker_XI p : XI p -> XI (start_worker p).
Proof.
  intros H. pose proof H as [L W T Q]. unfold start_worker.
  split; cbn [p_wtd p_workers p_log p_r p_results with_workers]; auto.
  - rewrite !app_length, L. reflexivity.
  - intros w. destruct (Nat.lt_ge_cases w (length (p_workers p))) as [Hw|Hw].
    + rewrite <- (app_nil_r (p_log p)). eapply wok_ext; [| | | |apply W].
      * apply app_nth1. exact Hw.
      * apply app_nth1. rewrite L. exact Hw.
      * rewrite app_length. lia.
      * reflexivity.
    + pose proof (wok_noev_out _ _ _ _ _ Hw (W w)) as Hn. unfold wok.
      destruct (Nat.eq_dec w (length (p_workers p))) as [->|Hne].
      * rewrite app_nth2, Nat.sub_diag by lia. simpl.
        rewrite (noev_wtds _ _ Hn), (noev_wstarts _ _ Hn). split; auto.
        rewrite <- L. rewrite app_nth2, Nat.sub_diag by lia. reflexivity.
      * rewrite nth_overflow by (rewrite app_length; simpl; lia). split; auto.
        left. apply noev_wtds. exact Hn.
Qed.

Lemma start_procs_XI fuel n : forall p e p', XI p -> start_procs fuel n p = (e, p') -> XI p'.
Proof.
  induction n as [|n IH]; intros p e p' H E; cbn [Parallel.start_procs] in E.
  { inversion E; subst. exact H. }
  destruct (get_next_job fuel p None) as [g p1] eqn:Eg.
  pose proof (get_next_job_XI _ _ _ _ _ H Eg) as H1.
  destruct g as [j| |path|]; try (inversion E; subst; first [exact H1|apply terminate_XI; exact H1]).
  eapply IH; [|exact E]. apply start_worker_XI. apply put_job_XI. exact H1.
Qed.

Lemma hand_out_XI fuel n : forall p completed e p', XI p -> hand_out fuel n p completed = (e, p') -> XI p'.
Proof.
  induction n as [|n IH]; intros p completed e p' H E; cbn [Parallel.hand_out] in E.
  { inversion E; subst. exact H. }
  destruct (get_next_job fuel p completed) as [g p1] eqn:Eg.
  pose proof (get_next_job_XI _ _ _ _ _ H Eg) as H1.
  destruct g as [j| |path|]; try (inversion E; subst; exact H1);
    (eapply IH; [|exact E]; apply put_job_XI; auto; apply (XI_same0 p1); auto).
Qed.

(* the main loop: a dequeued MTeardown becomes a teardown report of the main process *)
Lemma main_loop_XI fuel : forall p e p', XI p -> main_loop fuel p = (e, p') -> XI p'.
Proof.
  induction fuel as [|fuel IH]; intros p e p' H E; cbn [Parallel.main_loop] in E.
  { inversion E; subst. exact H. }
  destruct (p_count p). { inversion E; subst. exact H. }
  destruct (main_get (S fuel * 4) p) as [m p1] eqn:Em.
  pose proof (main_get_XI _ _ _ _ H Em) as H0.
  pose proof (xi_td _ H0) as T0. pose proof (xi_q _ H0) as Q0.
  cbn [p_log p_r p_results with_results] in T0, Q0.
  assert (G : forall r', r_td r' = [] -> tdm (r_tr r') = tdm (r_tr (p_r p1)) ++ mtd (olist m) -> XI (with_r p1 r')).
  { intros r' A B. apply (XI_same (with_results p1 (olist m ++ p_results p1))); auto.
    cbn [p_log p_r p_results with_results with_r]. rewrite B, mtd_app, app_assoc. reflexivity. }
  destruct m as [[k|k|k|k]|]; cbn [olist mtd flat_map app] in G.
  - (* a result *)
    set (p2 := with_r p1 (process_result tasks continue_ (p_r p1) k)) in *.
    assert (H2 : XI p2).
    { destruct (RQ_process (tdm (r_tr (p_r p1))) (p_r p1) k (conj T0 eq_refl)) as [A B].
      apply G; auto. rewrite B, app_nil_r. reflexivity. }
    destruct (hand_out (S fuel) (S (p_free p2)) (with_counts p2 0 (p_count p2)) (Some k)) as [e2 p3] eqn:Eh.
    assert (H3 : XI p3).
    { eapply hand_out_XI; [|exact Eh]. apply (XI_same0 p2); auto. }
    destruct e2; try (inversion E; subst; apply terminate_XI; exact H3).
    destruct (deadlocked p3); [inversion E; subst; apply terminate_XI; exact H3|eapply IH; eauto].
  - (* execute report forwarded by a worker *)
    eapply IH; [|exact E]. apply G; auto. unfold emit. simpl. rewrite tdm_app. reflexivity.
  - (* teardown report forwarded by a worker *)
    eapply IH; [|exact E]. apply G; auto. unfold emit. simpl. rewrite tdm_app. reflexivity.
  - inversion E; subst. apply terminate_XI. apply (XI_same0 (with_r p1 (p_r p1))); auto; apply G; auto; rewrite app_nil_r; reflexivity.
  - inversion E; subst. apply terminate_XI. apply (XI_same0 (with_r p1 (p_r p1))); auto; apply G; auto; rewrite app_nil_r; reflexivity.
Qed.

(* after join: what is left in the queue is reported *)
Lemma tdm_drain ms :
  tdm (flat_map (fun m => match m with MTeardown k => [ETeardown k] | MReport k => [EExecute k] | _ => [] end) ms) = mtd ms.
Proof. induction ms as [|m ms IH]; simpl; auto. rewrite tdm_app, IH. destruct m; reflexivity. Qed.

Lemma drain_XI p : XI p -> XI (drain p) /\ p_results (drain p) = [].
Proof.
  intros H. split; [|reflexivity]. unfold drain. apply (XI_same p); auto.
  - apply (xi_td _ H).
  - cbn [p_r p_results with_results with_r emit r_tr]. rewrite tdm_app, tdm_drain, app_nil_r. reflexivity.
Qed.

Lemma XI_init sched sel : XI (p_init sched sel).
Proof.
  split; simpl; auto. intros w. unfold wok. simpl. destruct w; (split; [left; reflexivity|intros _; reflexivity]).
Qed.

(* the state just before finish(), process flavour; the queue is empty unless the run ended on an error path *)
Notation PI := (PI tasks).
Definition marker_notd (mk : list pevent) : Prop := mk = [] \/ exists e, mk = [PE e] /\ tdm [e] = [].
Lemma proc_before_finish fuel nprocs sched sel :
  exists p2 mk, XI p2 /\ PI p2 /\ marker_notd mk /\
    fst (run_parallel tasks wake_rank calc_rank continue_ always true fuel nprocs sched sel)
      = p_log (sync (with_r p2 (finish (p_r p2)))) ++ mk /\
    (p_results p2 = [] \/ In (snd (run_parallel tasks wake_rank calc_rank continue_ always true fuel nprocs sched sel)) [3; 4; 98; 99]).
Proof.
  unfold run_parallel.
  destruct (start_procs fuel nprocs (p_init sched sel)) as [e1 p1] eqn:E1.
  pose proof (start_procs_XI fuel nprocs _ _ _ (XI_init sched sel) E1) as H1.
  pose proof (start_procs_PI tasks wake_rank calc_rank continue_ always true fuel nprocs _ _ _ (PI_init tasks sched sel) E1) as Q1.
  assert (Fin : forall p2 (e2 : pend), XI p2 -> PI p2 -> e2 <> PNormal ->
    exists p2' mk, XI p2' /\ PI p2' /\ marker_notd mk /\
      fst (let p3 := sync (with_r p2 (finish (p_r p2))) in
           (p_log p3 ++ match e2 with
                        | PCycleErr path => [PE (ECycleError path)] | PHoldErr => [PE EHoldError]
                        | PInterrupt k => [PE (EInterrupt k)] | _ => [] end,
            match e2 with
            | PNormal => r_final (p_r p3) | PCycleErr _ | PHoldErr => 3 | PInterrupt _ => 4 | PHung => 98 | PFuel => 99 end))
        = p_log (sync (with_r p2' (finish (p_r p2')))) ++ mk /\
      (p_results p2' = [] \/
       In (snd (let p3 := sync (with_r p2 (finish (p_r p2))) in
           (p_log p3 ++ match e2 with
                        | PCycleErr path => [PE (ECycleError path)] | PHoldErr => [PE EHoldError]
                        | PInterrupt k => [PE (EInterrupt k)] | _ => [] end,
            match e2 with
            | PNormal => r_final (p_r p3) | PCycleErr _ | PHoldErr => 3 | PInterrupt _ => 4 | PHung => 98 | PFuel => 99 end)))
          [3; 4; 98; 99])).
  { intros p2 e2 HX HP Hne. exists p2. eexists. split; [exact HX|]. split; [exact HP|].
    cbv beta iota zeta delta [fst snd].
    split; [|split; [reflexivity|]].
    - destruct e2; first [left; reflexivity|right; eexists; split; reflexivity].
    - right. destruct e2; simpl; tauto. }
  destruct e1 as [|path| |k| |];
    [|apply (Fin p1 (PCycleErr path)); [exact H1|exact Q1|discriminate]
     |apply (Fin p1 PHoldErr); [exact H1|exact Q1|discriminate]
     |apply (Fin p1 (PInterrupt k)); [exact H1|exact Q1|discriminate]
     |apply (Fin p1 PHung); [exact H1|exact Q1|discriminate]
     |apply (Fin p1 PFuel); [exact H1|exact Q1|discriminate]].
  set (p1' := with_counts p1 (p_free p1) (length (p_workers p1))).
  assert (H1' : XI p1') by (apply (XI_same0 p1); auto).
  assert (Q1' : PI p1') by (apply with_counts_PI; exact Q1).
  destruct (deadlocked p1').
  { apply (Fin (terminate true p1') PHoldErr); [apply terminate_XI; exact H1'|apply terminate_PI; exact Q1'|discriminate]. }
  destruct (main_loop fuel p1') as [e2 p2] eqn:E2.
  pose proof (main_loop_XI fuel _ _ _ H1' E2) as H2.
  pose proof (main_loop_PI tasks wake_rank calc_rank continue_ always true fuel _ _ _ Q1' E2) as Q2.
  destruct e2 as [|path| |k| |];
    [|apply (Fin p2 (PCycleErr path)); [exact H2|exact Q2|discriminate]
     |apply (Fin p2 PHoldErr); [exact H2|exact Q2|discriminate]
     |apply (Fin p2 (PInterrupt k)); [exact H2|exact Q2|discriminate]
     |apply (Fin p2 PHung); [exact H2|exact Q2|discriminate]
     |apply (Fin p2 PFuel); [exact H2|exact Q2|discriminate]].
  cbv beta iota zeta delta [fst snd].
  destruct (drain_XI (join_all (fuel * 4) p2) (join_all_XI _ _ H2)) as [H3 R3].
  exists (drain (join_all (fuel * 4) p2)), []. split; [exact H3|].
  split; [apply drain_PI; apply (join_all_PI tasks true); exact Q2|].
  split; [left; reflexivity|]. split; [reflexivity|left; exact R3].
Qed.

Lemma marker_notd_nowev mk : marker_notd mk -> nowev mk.
Proof. intros [->|(e & -> & _)]; reflexivity. Qed.

(* (A) MRunner, every worker count, EVERY schedule, every fuel: worker w either never ran a teardown (killed by
   terminate / exited on an interrupt / never got the terminating job), or its teardowns are one contiguous block:
   the tasks with teardown actions whose actions IT started, once each, in reverse order of start; the worker
   does nothing afterwards *)
Theorem proc_teardown_per_worker fuel nprocs sched sel w :
  wshape has_td w (fst (run_parallel tasks wake_rank calc_rank continue_ always true fuel nprocs sched sel)).
Proof.
  destruct (proc_before_finish fuel nprocs sched sel) as (p2 & mk & HX & _ & Hm & -> & _).
  cbn [p_log sync with_r].
  apply wshape_app_noev; [|apply nowev_noev; apply marker_notd_nowev; exact Hm].
  apply wshape_app_noev; [|apply nowev_noev; apply nowev_map_PE].
  apply (wok_shape _ _ _ _ _ (xi_w _ HX w)).
Qed.

Lemma in_wtds w l k : In k (wtds w l) <-> In (PTdRun k w) l.
Proof.
  unfold wtds. rewrite in_flat_map. split.
  - intros (e & He & Hk). destruct e as [ev|k0 w0|k0 w0|k0 w0| |]; simpl in Hk; try contradiction.
    destruct (Nat.eqb_spec w0 w) as [->|Hne]; [|contradiction]. destruct Hk as [<-|[]]. exact He.
  - intros H. exists (PTdRun k w). split; auto. simpl. rewrite Nat.eqb_refl. left. reflexivity.
Qed.
Lemma in_wstarts w l k : In k (wstarts w l) <-> In (PStart k w) l.
Proof.
  unfold wstarts. rewrite in_flat_map. split.
  - intros (e & He & Hk). destruct e as [ev|k0 w0|k0 w0|k0 w0| |]; simpl in Hk; try contradiction.
    destruct (Nat.eqb_spec w0 w) as [->|Hne]; [|contradiction]. destruct Hk as [<-|[]]. exact He.
  - intros H. exists (PStart k w). split; auto. simpl. rewrite Nat.eqb_refl. left. reflexivity.
Qed.
Lemma in_pstarts l k w : In (PStart k w) l -> In k (pstarts l).
Proof. intros H. unfold pstarts. apply in_flat_map. exists (PStart k w). split; auto. left. reflexivity. Qed.
Lemma in_fwd l k : In k (fwd l) -> exists w, In (PTdRun k w) l.
Proof.
  unfold fwd. rewrite in_flat_map. intros (e & He & Hk).
  destruct e as [ev|k0 w0|k0 w0|k0 w0| |]; simpl in Hk; try contradiction. destruct Hk as [<-|[]]. exists w0. exact He.
Qed.

Lemma NoDup_wstarts w l : NoDup (pstarts l) -> NoDup (wstarts w l).
Proof.
  induction l as [|e l IH]; simpl; intros H; [constructor|].
  destruct e as [ev|k0 w0|k0 w0|k0 w0| |]; simpl in *; auto.
  inversion H as [|x y Hn Hd]; subst. destruct (Nat.eqb w0 w); simpl; auto. constructor; auto.
  intros Hin. apply Hn. apply in_wstarts in Hin. eapply in_pstarts; eauto.
Qed.

Lemma pstart_unique l k w w' : NoDup (pstarts l) -> In (PStart k w) l -> In (PStart k w') l -> w = w'.
Proof.
  induction l as [|e l IH]; intros Hn H1 H2; simpl in H1, H2; [contradiction|].
  assert (Hl : NoDup (pstarts l)).
  { change (e :: l) with ([e] ++ l) in Hn. rewrite pstarts_app in Hn. apply NoDup_app_r in Hn. exact Hn. }
  destruct H1 as [->|H1], H2 as [E|H2]; auto.
  - inversion E; reflexivity.
  - simpl in Hn. inversion Hn as [|x y Hni Hd]; subst. exfalso. apply Hni. eapply in_pstarts; eauto.
  - subst e. simpl in Hn. inversion Hn as [|x y Hni Hd]; subst. exfalso. apply Hni. eapply in_pstarts; eauto.
Qed.

Lemma NoDup_fwd l :
  (forall w, NoDup (wtds w l)) -> (forall k w w', In (PTdRun k w) l -> In (PTdRun k w') l -> w = w') -> NoDup (fwd l).
Proof.
  induction l as [|e l IH]; intros Hw Hu; simpl; [constructor|].
  assert (Hl : NoDup (fwd l)).
  { apply IH.
    - intros w. specialize (Hw w). change (e :: l) with ([e] ++ l) in Hw. rewrite wtds_app in Hw.
      apply NoDup_app_r in Hw. exact Hw.
    - intros k w w' A B. apply (Hu k w w'); right; auto. }
  destruct e as [ev|k0 w0|k0 w0|k0 w0| |]; simpl; auto. constructor; auto. intros Hin.
  apply in_fwd in Hin. destruct Hin as [w1 Hin].
  assert (w1 = w0) by (apply (Hu k0 w1 w0); [right; exact Hin|left; reflexivity]). subst w1.
  specialize (Hw w0). simpl in Hw. rewrite Nat.eqb_refl in Hw. simpl in Hw.
  inversion Hw as [|x y Hni Hd]; subst. apply Hni. apply in_wtds. exact Hin.
Qed.

(* a teardown runs only in the worker process that started the task, and only for tasks with teardown actions *)
Theorem proc_teardown_owner fuel nprocs sched sel k w :
  let log := fst (run_parallel tasks wake_rank calc_rank continue_ always true fuel nprocs sched sel) in
  In (PTdRun k w) log -> In (PStart k w) log /\ has_td k = true.
Proof.
  cbv zeta. intros Hin.
  destruct (wshape_wtds _ _ _ (proc_teardown_per_worker fuel nprocs sched sel w)) as (pre & rest & E & Ht).
  apply in_wtds in Hin. rewrite Ht in Hin. apply in_rev in Hin. apply filter_In in Hin. destruct Hin as [Hs Hh].
  split; auto. rewrite E. apply in_or_app. left. apply in_wstarts. exact Hs.
Qed.

(* no worker tears a task down twice ... *)
Theorem proc_teardown_once_worker fuel nprocs sched sel w :
  NoDup (wtds w (fst (run_parallel tasks wake_rank calc_rank continue_ always true fuel nprocs sched sel))).
Proof.
  pose proof (parallel_exec_once tasks wake_rank calc_rank continue_ always true fuel nprocs sched sel) as Hn.
  destruct (wshape_wtds _ _ _ (proc_teardown_per_worker fuel nprocs sched sel w)) as (pre & rest & E & Ht).
  rewrite Ht. apply NoDup_rev. apply NoDup_filter. apply NoDup_wstarts.
  rewrite E, pstarts_app in Hn. apply NoDup_app_l in Hn. exact Hn.
Qed.

(* ... and nothing is torn down twice, by any worker *)
Theorem proc_teardown_once fuel nprocs sched sel :
  NoDup (fwd (fst (run_parallel tasks wake_rank calc_rank continue_ always true fuel nprocs sched sel))).
Proof.
  apply NoDup_fwd.
  - intros w. apply proc_teardown_once_worker.
  - intros k w w' A B.
    apply (pstart_unique _ k w w' (parallel_exec_once tasks wake_rank calc_rank continue_ always true fuel nprocs sched sel)).
    + apply (proc_teardown_owner fuel nprocs sched sel k w A).
    + apply (proc_teardown_owner fuel nprocs sched sel k w' B).
Qed.

(* (B) the main process reports (reporter.teardown_task) a PREFIX, in the order the workers ran them, of the teardowns
   the workers ran, and ALL of them when the run ends normally (exit code 0/1/2: the loop ended, join, drain).
   On the error paths (cycle / hold error 3, interrupt 4, hang 98, fuel 99) terminate() kills the workers: their
   pending teardowns do NOT run (no PTdRun at all for them) and teardown messages still in the result queue are
   not reported -- that is what the model (and the code) does. *)
Theorem proc_teardown_reports fuel nprocs sched sel :
  let res := run_parallel tasks wake_rank calc_rank continue_ always true fuel nprocs sched sel in
  exists rest, fwd (fst res) = tdm (proj (fst res)) ++ rest /\ (~ In (snd res) [3; 4; 98; 99] -> rest = []).
Proof.
  cbv zeta. destruct (proc_before_finish fuel nprocs sched sel) as (p2 & mk & HX & HP & Hm & E & Hc).
  exists (mtd (p_results p2)). split.
  - rewrite E. pose proof (finish_PI tasks p2 HP) as HP3.
    rewrite proj_app, (pi_proj tasks _ HP3), fwd_app, (nowev_fwd _ (marker_notd_nowev _ Hm)), app_nil_r.
    cbn [p_seen p_r p_log sync with_r]. rewrite firstn_all, fwd_app, (nowev_fwd _ (nowev_map_PE _)), app_nil_r.
    unfold finish, emit. cbn [r_tr]. rewrite (xi_td _ HX). simpl. rewrite !tdm_app. simpl.
    assert (Hk : tdm (proj mk) = []) by (destruct Hm as [->|(e & -> & He)]; [reflexivity|exact He]).
    rewrite Hk.
    rewrite !app_nil_r. apply (xi_q _ HX).
  - intros Hn. destruct Hc as [->|Hc]; [reflexivity|contradiction].
Qed.

End T.

Print Assumptions proc_teardown_per_worker.
Print Assumptions proc_teardown_owner.
Print Assumptions proc_teardown_once_worker.
Print Assumptions proc_teardown_once.
Print Assumptions proc_teardown_reports.

(* ---------- non-vacuity ---------- *)
(* five independent tasks, all but 3 with teardown actions, two worker processes, a schedule under which both
   workers start tasks: worker 1 started 0 then 3 and tears down 0; worker 0 started 1, 2, 4 and tears down 4, 2, 1;
   the main process reports the teardowns in the order the workers ran them; finish() adds none of its own *)
Definition ex11p (n : name) : option task :=
  match n with
  | 0 | 1 | 2 | 4 => Some (Build_task [] [] [] true false CkRun false OOk [] [] [])
  | 3 => Some (Build_task [] [] [] false false CkRun false OOk [] [] [])
  | _ => None end.
Definition ex11p_keep (e : pevent) : bool :=
  match e with PStart _ _ | PTdRun _ _ | PTerminate | PE (ETeardown _) | PE EClose | PE (EInterrupt _) => true | _ => false end.
Example proc_teardown_nonvacuous :
  let r := run_parallel ex11p (fun _ _ => 0) (fun _ => 0) false false true 200 2
             [1;0;2;1;0;1;1;2;0;1;2;1;1;0;2;1;0]%nat [0;1;2;3;4] in
  (filter ex11p_keep (fst r), snd r)
  = ([PStart 0 1; PStart 1 0; PStart 2 0; PStart 3 1; PStart 4 0;
      PTdRun 0 1; PE (ETeardown 0);
      PTdRun 4 0; PTdRun 2 0; PTdRun 1 0; PE (ETeardown 4); PE (ETeardown 2); PE (ETeardown 1); PE EClose], 0).
Proof. vm_compute. reflexivity. Qed.

(* an error path: task 2 is interrupted in worker 0; worker 1 had already got its terminating job and torn down
   task 0 (reported); terminate() kills worker 0: the teardowns of 1 and 2 never run *)
Definition ex11p_int (n : name) : option task :=
  match n with
  | 0 | 1 => Some (Build_task [] [] [] true false CkRun false OOk [] [] [])
  | 2 => Some (Build_task [] [] [] true false CkRun false OInterrupt [] [] [])
  | _ => None end.
Example proc_teardown_interrupt_example :
  let r := run_parallel ex11p_int (fun _ _ => 0) (fun _ => 0) false false true 200 2
             [1;0;2;1;0;1;1;2;0;1;2;1;1;0;2;1;0]%nat [0;1;2] in
  (filter ex11p_keep (fst r), snd r)
  = ([PStart 0 1; PStart 1 0; PStart 2 0; PTdRun 0 1; PE (ETeardown 0); PTerminate; PE EClose; PE (EInterrupt 2)], 4).
Proof. vm_compute. reflexivity. Qed.
