(* ParTermP.v -- TERMINATION of the parallel runners (MRunner / MThreadRunner model of Parallel.v) over a
   finite task table: above an explicit amount of fuel (par_enough_fuel: computed from the table, the
   selection and the number of processes) the model never answers "out of fuel" (exit code 99), and -- with
   ParLiveP.v -- never "hung" (98: that code is also what main_get's own fuel exhaustion produces),
   whatever the graph, the flavour, the schedule, the flags, the set-order oracles.

   Measure (np = bound of proc_count, T = TermP's potential PHI of the dispatcher state):
     Psi np p = 1 + [ |result_q| + #busy + #pending teardowns + 3 #JTask queued + 3 T ]         (iterations left)
                  + [ |job_q| + np * (#results queued + #busy + #JTask queued + T) ]            (jobs ever queued)
   - a worker step never increases Psi (a task taken from the queue becomes busy, reports, gets a teardown
     entry; a finished task becomes a result; a worker that gets None turns its teardown list into messages);
   - every message the main thread dequeues decreases Psi by 1 (a result: by 1 + np), and handing out
     free_proc + 1 <= proc_count <= np jobs adds at most np: each iteration of `while proc_count` decreases
     Psi; every task the dispatcher hands decreases T (TermP.disp_run_T), "hold on" / exhausted answers do
     not increase it (disp_run_T2), _update_waiting does not increase it (update_waiting_TG: TermP's lemma
     for the wait-graph invariant HG relative to the tasks in flight);
   - main_get is called with 4 * fuel >= 4 * Psi > mu = 2 |job_q| + #busy: it always dequeues (ParLiveP). *)
From Coq Require Import Permutation.
From DoitV Require Import Base Dispatch Runner Parallel DispatchP DispatchInv RunnerTr RunnerP AncP HoldP HoldG CompleteP ParallelP ParHoldP TermP ParStepP ParLiveP.
Open Scope nat_scope.

Tactic Notation "pcbn" :=
  cbn [p_results p_r p_free p_count p_workers p_wtd p_jobs p_sched p_log p_seen with_jobs with_workers with_results with_r with_sched with_counts plog sync
       put_job start_worker].
Tactic Notation "pcbn" "in" hyp(H) :=
  cbn [p_results p_r p_free p_count p_workers p_wtd p_jobs p_sched p_log p_seen with_jobs with_workers with_results with_r with_sched with_counts plog sync
       put_job start_worker] in H.

(* teardown entries of the workers that have not exited: each becomes one MTeardown message *)
Fixpoint tdw (ws : list wst) (td : list (list name)) : nat :=
  match ws, td with
  | w :: ws', l :: td' => (if is_alive w then length l else 0) + tdw ws' td'
  | _, _ => 0 end.

Lemma tdw_set_alive ws : forall td w s, is_alive (nth w ws WExited) = true -> is_alive s = true ->
  tdw (set_nth ws w s) td = tdw ws td.
Proof.
  induction ws as [|x ws IH]; intros td w s Ha Hs; simpl; auto.
  destruct w as [|w]; destruct td as [|l td]; simpl in *; auto;
    try (rewrite Ha, Hs; reflexivity); try (rewrite (IH td w s Ha Hs); reflexivity).
Qed.
Lemma tdw_set_exit ws : forall td w, is_alive (nth w ws WExited) = true ->
  tdw (set_nth ws w WExited) td + length (nth w td []) = tdw ws td.
Proof.
  induction ws as [|x ws IH]; intros td w Ha; simpl in *.
  - destruct w; discriminate.
  - destruct w as [|w]; destruct td as [|l td]; simpl in *; auto;
      try (rewrite Ha; lia); try (destruct w; reflexivity); try (specialize (IH td w Ha); lia).
Qed.
Lemma tdw_set_td ws : forall td w k, tdw ws (set_nth td w (nth w td [] ++ [k])) <= tdw ws td + 1.
Proof.
  induction ws as [|x ws IH]; intros td w k; simpl; [lia|].
  destruct td as [|l td]; simpl; [lia|].
  destruct w as [|w]; simpl.
  - rewrite app_length. simpl. destruct (is_alive x); lia.
  - specialize (IH td w k). lia.
Qed.
Lemma tdw_nil ws : forall td, (forall l, In l td -> l = []) -> tdw ws td = 0.
Proof.
  induction ws as [|x ws IH]; intros td H; simpl; auto. destruct td as [|l td]; auto.
  rewrite (H l (or_introl eq_refl)), IH; [destruct (is_alive x); reflexivity|]. intros l0 Hl. apply H. right. exact Hl.
Qed.

Section PT.
Variable tasks : name -> option task.
Variable Ud : list name.
Variable M : nat.
Variable wake_rank : name -> name -> N.
Variable calc_rank : name -> N.
Variable continue_ always proc : bool.

Hypothesis HND : NoDup Ud.
Hypothesis HTC : tclosed tasks Ud.
Hypothesis HM : forall c, length (t_calc_new_task (get_task tasks c)) <= M.

Notation node_of := (node_of tasks).
Notation st_of := (st_of tasks).
Notation get_task := (get_task tasks).
Notation reach := (reach tasks).
Notation PI := (PI tasks).
Notation NI := (NI tasks continue_).
Notation DI := (DI tasks).
Notation DJ := (DJ tasks).
Notation HG := (HG tasks).
Notation PG := (PG tasks).
Notation HOI := (HOI tasks continue_).
Notation SPI := (SPI tasks continue_).
Notation MI := (MI tasks continue_).
Notation LI := (LI tasks continue_).
Notation CL := (TermP.CL tasks Ud).
Notation PHI := (TermP.PHI tasks Ud M).
Notation NN := (TermP.NN tasks Ud M).
Notation NW := (TermP.NW tasks Ud M).
Notation nin := (TermP.nin Ud).
Notation RT := (TermP.RT tasks Ud M).
Notation worker_step := (worker_step tasks proc).
Notation main_get := (main_get tasks proc).
Notation join_all := (join_all tasks proc).
Notation next_job_loop := (next_job_loop tasks wake_rank calc_rank continue_ always).
Notation get_next_job := (get_next_job tasks wake_rank calc_rank continue_ always).
Notation start_procs := (start_procs tasks wake_rank calc_rank continue_ always proc).
Notation hand_out := (hand_out tasks wake_rank calc_rank continue_ always).
Notation main_loop := (main_loop tasks wake_rank calc_rank continue_ always proc).
Notation terminate := (terminate proc).
Notation run_parallel := (run_parallel tasks wake_rank calc_rank continue_ always proc).
Notation run_core := (run_core tasks wake_rank calc_rank continue_ always proc).

(* ---------- _update_waiting, for the wait-graph invariant relative to the tasks in flight ---------- *)
(* (TermP.wake_one_T / wake_T / update_waiting_T with HoldG.HG in place of HoldP.HI) *)
Lemma wake_one_TG (F : name -> Prop) p fs d w : HG F (Some p) d -> CL d -> In w Ud ->
  let d' := wake_one tasks d p fs w in CL d' /\ PHI d' <= PHI d.
Proof.
  intros HH H Hw. cbv zeta. unfold Dispatch.wake_one.
  set (nd := node_of d w). set (nw2 := wake_node tasks nd p fs).
  set (d1 := set_node d w nw2).
  set (moved := wake_ready nd p nw2 && mem w (d_waiting d1)).
  assert (Hin : nin nw2).
  { unfold nw2, Dispatch.wake_node. destruct (mem p (n_wcalc nd)); [apply (process_calc_nin tasks Ud wake_rank calc_rank HTC)|];
      apply nin_wait; apply parent_status_nin; apply (cl_n _ _ _ H). }
  assert (Hwt : NW w nw2 + (if moved then 4 else 0) <= NW w nd).
  { unfold moved, nw2, Dispatch.wake_ready, Dispatch.wake_node.
    set (nw := parent_status nd p fs).
    destruct (ps_wait nd p fs) as [Er Ec]. fold nw in Er, Ec.
    pose proof (parent_status_NW tasks Ud M w nd p fs) as En. fold nw in En.
    pose proof (NW_wait tasks Ud M w nw (rem p (n_wrun nw)) (rem p (n_wcalc nw))) as Ew.
    set (nw1 := nd_wait nw (rem p (n_wrun nw)) (rem p (n_wcalc nw))) in *.
    rewrite Er, Ec, En in Ew.
    pose proof (rem_length_le p (n_wrun nd)) as L1. pose proof (rem_length_le p (n_wcalc nd)) as L2.
    destruct (mem p (n_wcalc nd)) eqn:Em.
    - apply mem_In in Em. pose proof (rem_length_lt p (n_wcalc nd) Em) as L3.
      pose proof (Nat.mul_le_mono_l _ _ (12 * M + 4) L3) as L4.
      pose proof (process_calc_NW tasks Ud M HTC HM w nw1 p fs).
      destruct (true && mem w (d_waiting d1)); nlia.
    - pose proof (Nat.mul_le_mono_l _ _ (12 * M + 4) L2) as L4.
      destruct (is_nil (n_wrun nw1) && is_nil (n_wcalc nw1) && mem w (d_waiting d1)) eqn:Emv; [|nlia].
      apply andb_true_iff in Emv. destruct Emv as [Emv Ewt]. apply andb_true_iff in Emv. destruct Emv as [E1 E2].
      apply is_nil_true in E1. apply is_nil_true in E2.
      unfold nw1 in E1, E2. cbn [n_wrun n_wcalc nd_wait] in E1, E2. rewrite Er in E1. rewrite Ec in E2. rewrite E1, E2 in Ew. cbn [length] in Ew.
      apply mem_In in Ewt. change (d_waiting d1) with (d_waiting d) in Ewt.
      pose proof (g_wne _ _ _ _ HH w Ewt) as Hne. fold nd in Hne. unfold wln in Hne.
      destruct (n_wrun nd) as [|a ra]; [destruct (n_wcalc nd) as [|b rb]; [contradiction|]|]; cbn [length] in *; nlia. }
  assert (H1 : CL d1) by (apply CL_set_node; auto).
  pose proof (NN_set_node tasks Ud M HND d w nw2 Hw) as En. fold nd in En. fold d1 in En.
  assert (Hq : QQ d1 = QQ d) by reflexivity.
  fold moved. destruct moved.
  - split.
    + apply (CL_q tasks Ud d1); auto.
      * intros x Hx. simpl in Hx. apply in_app_iff in Hx. destruct Hx as [Hx|[<-|[]]]; [apply (cl_r _ _ _ H1); exact Hx|].
        split; auto. apply (exn_set_same d w nw2).
      * apply (cl_t _ _ _ H1).
      * apply (cl_c _ _ _ H1).
    + set (d2 := set_waiting (set_ready d1 (d_ready d1 ++ [w])) (rem w (d_waiting d1))).
      assert (E2 : NN d2 = NN d1) by (apply NN_q; reflexivity).
      unfold TermP.PHI. rewrite E2. unfold QQ in *. unfold d2. cbn [d_ready d_torun d_cur set_ready set_waiting] in *.
      rewrite app_length. simpl length. change (d_cur d1) with (d_cur d). change (d_ready d1) with (d_ready d).
      change (d_torun d1) with (d_torun d). lia.
  - split; auto. unfold TermP.PHI. lia.
Qed.

Lemma wake_TG (F : name -> Prop) p fs l : forall d, HG F (Some p) d -> CL d -> incl l Ud -> (forall w, In w l -> exn d w) ->
  let d' := wake tasks d p fs l in CL d' /\ PHI d' <= PHI d.
Proof.
  induction l as [|w r IH]; intros d HH H Hl Hex; cbn [Dispatch.wake]; cbv zeta.
  - split; auto.
  - destruct (wake_one_G tasks wake_rank calc_rank F p fs d w HH (Hex w (or_introl eq_refl))) as (H1 & _ & E1 & _).
    destruct (wake_one_TG F p fs d w HH H (Hl w (or_introl eq_refl))) as (C1 & P1).
    destruct (IH (wake_one tasks d p fs w) H1 C1) as (C2 & P2).
    + intros z Hz. apply Hl. right. exact Hz.
    + intros z Hz. apply E1. apply Hex. right. exact Hz.
    + split; auto. lia.
Qed.

Lemma update_waiting_TG (F : name -> Prop) d p : HG F p d -> CL d ->
  let d' := update_waiting tasks wake_rank d p in CL d' /\ PHI d' <= PHI d.
Proof.
  intros HH H. cbv zeta. unfold Dispatch.update_waiting. destruct p as [p|]; [|split; auto].
  rewrite (g_nws _ _ _ _ HH p).
  assert (Hwake : forall s, let d' := wake tasks d p s (wake_order wake_rank p (n_wme (node_of d p))) in
            CL d' /\ PHI d' <= PHI d).
  { intros s. apply (wake_TG F); auto.
    - unfold wake_order. apply sort_by_incl. destruct (cl_n _ _ _ H p) as (_ & _ & C & _). exact C.
    - intros w Hw. unfold wake_order in Hw. apply sort_by_In in Hw. apply (g_wex _ _ _ _ HH w p). exact Hw. }
  destruct (n_st (node_of d p)); try apply Hwake. split; auto.
Qed.

(* ---------- the dispatcher loop: "hold on" and "exhausted" answers do not raise the potential ---------- *)
Lemma disp_run_T2 fuel : forall d y d', CL d -> disp_run tasks calc_rank fuel d = (y, d') ->
  y = DHold \/ y = DStop -> CL d' /\ PHI d' <= PHI d.
Proof.
  induction fuel as [|fuel IH]; intros d y d' H E Hy; cbn [Dispatch.disp_run] in E.
  { inversion E; subst. destruct Hy; discriminate. }
  assert (Hrec : forall d2, CL d2 -> PHI d2 + 1 <= PHI d -> disp_run tasks calc_rank fuel d2 = (y, d') -> CL d' /\ PHI d' <= PHI d).
  { intros d2 H2 Hd E2. destruct (IH d2 y d' H2 E2 Hy) as [A B]. split; auto. lia. }
  destruct (d_cur d) as [me|] eqn:Ecur.
  - destruct (cl_c _ _ _ H me Ecur) as [Hme Hex].
    destruct (gen_step tasks calc_rank (S (S fuel)) d me) as [g d1] eqn:Eg.
    destruct (gen_step_T tasks Ud M wake_rank calc_rank HND HTC HM _ _ _ _ _ H Hme Hex Eg) as (A1 & A2 & A3 & A4).
    pose proof (QQ_sameq _ _ A2) as Hq. destruct A2 as (q1 & q2 & q3 & q4).
    assert (Hqd : QQ d = 4 * length (d_ready d) + 4 * length (d_torun d) + 3) by (unfold QQ; rewrite Ecur; reflexivity).
    destruct g; simpl in A4.
    + destruct A4 as (a1 & a2 & a3).
      set (d2 := set_ready d1 (d_ready d1 ++ [k])) in *.
      assert (H2 : CL d2).
      { apply (CL_q tasks Ud d1); auto.
        - intros x Hx. simpl in Hx. apply in_app_iff in Hx. destruct Hx as [Hx|[<-|[]]]; [apply (cl_r _ _ _ A1); exact Hx|auto].
        - apply (cl_t _ _ _ A1).
        - apply (cl_c _ _ _ A1). }
      apply (Hrec d2 H2); [|exact E].
      unfold TermP.PHI. rewrite (NN_q tasks Ud M d1 d2 eq_refl). unfold QQ at 1. unfold d2; cbn [d_ready d_torun d_cur set_ready].
      rewrite app_length, q1, q3, q4, Ecur. simpl length. lia.
    + set (d2 := set_cur (set_waiting d1 (addset me (d_waiting d1))) None) in *.
      assert (H2 : CL d2).
      { apply (CL_q tasks Ud d1); auto.
        - apply (cl_r _ _ _ A1).
        - apply (cl_t _ _ _ A1).
        - intros x Hx. discriminate. }
      apply (Hrec d2 H2); [|exact E].
      unfold TermP.PHI. rewrite (NN_q tasks Ud M d1 d2 eq_refl). unfold QQ at 1. unfold d2; cbn [d_ready d_torun d_cur set_cur set_waiting].
      rewrite q1, q3. lia.
    + inversion E; subst. destruct Hy; discriminate.
    + set (d2 := set_cur d1 None) in *.
      assert (H2 : CL d2).
      { apply (CL_q tasks Ud d1); auto.
        - apply (cl_r _ _ _ A1).
        - apply (cl_t _ _ _ A1).
        - intros x Hx. discriminate. }
      apply (Hrec d2 H2); [|exact E].
      unfold TermP.PHI. rewrite (NN_q tasks Ud M d1 d2 eq_refl). unfold QQ at 1. unfold d2; cbn [d_ready d_torun d_cur set_cur].
      rewrite q1, q3. lia.
    + inversion E; subst. destruct Hy; discriminate.
    + inversion E; subst. destruct Hy; discriminate.
  - destruct (d_ready d) as [|x r] eqn:Er.
    + destruct (next_from_torun tasks d (d_torun d)) as [o d1] eqn:En.
      destruct (next_from_torun_T tasks Ud M HND HTC _ _ _ _ H (cl_t _ _ _ H) En) as (A1 & A2 & A3 & A4 & A5).
      destruct o as [x|].
      * destruct A5 as (a1 & a2 & a3).
        set (d2 := set_cur d1 (Some x)) in *.
        assert (H2 : CL d2).
        { apply (CL_q tasks Ud d1); auto.
          - apply (cl_r _ _ _ A1).
          - apply (cl_t _ _ _ A1).
          - intros z Hz. simpl in Hz. inversion Hz; subst. auto. }
        apply (Hrec d2 H2); [|exact E].
        unfold TermP.PHI. rewrite (NN_q tasks Ud M d1 d2 eq_refl), A2. unfold QQ. unfold d2; cbn [d_ready d_torun d_cur set_cur].
        rewrite A3, Er, Ecur. simpl length. lia.
      * pose proof (next_from_torun_nil tasks _ _ _ En) as Et.
        assert (Hd1 : CL d1 /\ PHI d1 <= PHI d).
        { split; auto. unfold TermP.PHI, QQ. rewrite A2, A3, A4, Et, Er, Ecur. simpl. lia. }
        destruct (is_nil (d_waiting d1)); inversion E; subst; exact Hd1.
    + set (d2 := set_cur (set_ready d r) (Some x)) in *.
      assert (H2 : CL d2).
      { apply (CL_q tasks Ud d); auto.
        - intros z Hz. simpl in Hz. apply (cl_r _ _ _ H). rewrite Er. right. exact Hz.
        - apply (cl_t _ _ _ H).
        - intros z Hz. simpl in Hz. inversion Hz; subst. apply (cl_r _ _ _ H). rewrite Er. left. reflexivity. }
      apply (Hrec d2 H2); [|exact E].
      unfold TermP.PHI. rewrite (NN_q tasks Ud M d d2 eq_refl). unfold QQ. unfold d2; cbn [d_ready d_torun d_cur set_cur set_ready].
      rewrite Er, Ecur. simpl length. lia.
Qed.

(* ---------- the runner: the final status of a task does not change the potential ---------- *)
Lemma set_status_T' d k s : CL d -> CL (set_status tasks d k s) /\ PHI (set_status tasks d k s) = PHI d.
Proof.
  intros H. destruct (in_dec N.eq_dec k Ud) as [Hk|Hk]; [apply (set_status_T tasks Ud M HND); auto|].
  unfold Runner.set_status. split.
  - apply CL_set_node; auto. destruct (cl_n _ _ _ H k) as (A & B & C & D). repeat split; auto.
  - unfold TermP.PHI. change (QQ (set_node d k (nd_st (node_of d k) s))) with (QQ d). f_equal.
    unfold TermP.NN. apply sumN_ext. intros z Hz. rewrite (node_of_set_other tasks); [reflexivity|]. intros ->. contradiction.
Qed.

Lemma process_result_T r k : CL (r_d r) ->
  CL (r_d (process_result tasks continue_ r k)) /\ PHI (r_d (process_result tasks continue_ r k)) = PHI (r_d r).
Proof.
  intros H. unfold process_result, handle_error, handle_error_gen.
  destruct (t_outcome (get_task k)); cbn [r_d emit with_d]; auto; apply set_status_T'; exact H.
Qed.

(* ---------- get_next_job ---------- *)
Definition jw (g : gnj) : nat := match g with GJob (JTask _) => 1 | _ => 0 end.

Lemma next_job_loop_T fuel : forall p c g p',
  PI p -> NI p -> DI (Fl p) c (r_d (p_r p)) -> (forall k, c = Some k -> st_of (r_d (p_r p)) k <> SNone) ->
  CL (r_d (p_r p)) -> next_job_loop fuel p c = (g, p') ->
  (PHI (r_d (p_r p)) < fuel -> g <> GFuel) /\
  match g with GCycle _ | GFuel => True | _ => CL (r_d (p_r p')) /\ PHI (r_d (p_r p')) + jw g <= PHI (r_d (p_r p)) end.
Proof.
  induction fuel as [|fuel IH]; intros p c g p' HP HN HD Hc HC E; cbn [Parallel.next_job_loop] in E.
  { inversion E; subst. split; [lia|exact I]. }
  destruct (disp_send tasks wake_rank calc_rank (S fuel) (r_d (p_r p)) c) as [y d] eqn:Ed.
  destruct (disp_send_parts tasks wake_rank calc_rank (Fl p) _ _ _ _ _ HD Ed) as (G0 & G1 & P1 & Er & Hcur). cbv zeta in *.
  destruct (update_waiting_TG (Fl p) _ c G0 HC) as (C0 & F0).
  destruct (disp_run_T tasks Ud M wake_rank calc_rank HND HTC HM _ _ _ _ C0 Er) as (T1 & T2).
  destruct y as [k| | |path|].
  - destruct (T2 k eq_refl) as (C2 & Fd). destruct (cl_c _ _ _ C2 k (Hcur k eq_refl)) as [Hk _].
    destruct (select_task tasks continue_ always (with_d (p_r p) d) k) as [b r1] eqn:Es.
    assert (Q0 : RT (PHI d) (with_d (p_r p) d)) by (split; cbn [r_d with_d]; auto).
    pose proof (select_task_RT tasks Ud M continue_ always HND _ k _ _ _ Hk Q0 Es) as [C3 F3].
    destruct b.
    + inversion E; subst. split; [discriminate|]. pcbn. simpl jw. split; [exact C3|lia].
    + destruct (njl_false_step tasks wake_rank calc_rank continue_ always _ _ _ _ _ _ HP HN HD Hc Ed Es) as (P2 & N2 & D2 & S2).
      destruct (IH (with_r p r1) (Some k) g p' P2 N2 D2 ltac:(intros k0 Ek; inversion Ek; subst; exact S2) C3 E) as (A & B).
      pcbn in A. pcbn in B.
      split; [intros Hf; apply A; lia|]. destruct g as [j| | |]; auto; destruct B as [B1 B2]; split; auto; lia.
  - inversion E; subst. destruct (disp_run_T2 _ _ _ _ C0 Er (or_introl eq_refl)) as [C2 F2].
    split; [discriminate|]. pcbn. cbn [r_d with_d]. split; auto. simpl. lia.
  - inversion E; subst. destruct (disp_run_T2 _ _ _ _ C0 Er (or_intror eq_refl)) as [C2 F2].
    split; [discriminate|]. pcbn. cbn [r_d with_d]. split; auto. simpl. lia.
  - inversion E; subst. split; [discriminate|exact I].
  - inversion E; subst. split; [|exact I]. intros Hf. exfalso. apply T1; [lia|reflexivity].
Qed.

Lemma get_next_job_T fuel p c g p' :
  PI p -> NI p -> (r_stop (p_r p) = false -> DI (Fl p) c (r_d (p_r p))) ->
  (forall k, c = Some k -> st_of (r_d (p_r p)) k <> SNone) ->
  CL (r_d (p_r p)) -> get_next_job fuel p c = (g, p') ->
  (PHI (r_d (p_r p)) < fuel -> g <> GFuel) /\
  match g with GCycle _ | GFuel => True | _ => CL (r_d (p_r p')) /\ PHI (r_d (p_r p')) + jw g <= PHI (r_d (p_r p)) end.
Proof.
  intros HP HN HD Hc HC E. unfold Parallel.get_next_job in E. destruct (r_stop (p_r p)) eqn:Es.
  - inversion E; subst. split; [discriminate|]. split; auto. simpl. lia.
  - eapply next_job_loop_T; eauto.
Qed.

(* ---------- the measure ---------- *)
Definition jt (p : pstate) : nat := length (job_tasks (p_jobs p)).
Definition rr (p : pstate) : nat := length (res_tasks (p_results p)).
Definition Tp (p : pstate) : nat := PHI (r_d (p_r p)).
Definition Aq (p : pstate) : nat :=
  length (p_results p) + nbusy (p_workers p) + tdw (p_workers p) (p_wtd p) + 3 * jt p + 3 * Tp p.
Definition Bq (p : pstate) : nat := rr p + nbusy (p_workers p) + jt p + Tp p.
Definition Psi (np : nat) (p : pstate) : nat := 1 + Aq p + length (p_jobs p) + np * Bq p.

Lemma Psi_le np p p' : Aq p' + length (p_jobs p') <= Aq p + length (p_jobs p) -> Bq p' <= Bq p -> Psi np p' <= Psi np p.
Proof. intros A B. unfold Psi. pose proof (Nat.mul_le_mono_l _ _ np B). lia. Qed.

Lemma mu_Psi np p : mu p < 4 * Psi np p.
Proof. unfold mu, Psi, Aq. lia. Qed.

Lemma res_tasks_teardowns' l : res_tasks (map MTeardown l) = [].
Proof. induction l; simpl; auto. Qed.

Lemma worker_step_Psi np p w : worker_enabled p w = true -> Psi np (worker_step p w) <= Psi np p.
Proof.
  intros He. destruct (worker_step_cases tasks proc p w He) as (Hw & Hc & _ & Hd & _ & _ & _ & Hs). cbv zeta in *.
  assert (HT : Tp (worker_step p w) = Tp p) by (unfold Tp; rewrite Hd; reflexivity).
  apply Psi_le; unfold Aq, Bq, jt, rr; rewrite HT;
  destruct Hs as [k js A B C D E F|js A B C D E F|js A B C D E F|k A C D E F]; rewrite ?C, ?D, ?E, ?F.
  - pose proof (nbusy_set_nth (p_workers p) w (WBusy k) Hw) as Hb. rewrite A in Hb. rewrite B. simpl in *.
    assert (Htd : tdw (set_nth (p_workers p) w (WBusy k))
                    (if proc then if t_teardown (get_task k) then set_nth (p_wtd p) w (nth w (p_wtd p) [] ++ [k]) else p_wtd p else p_wtd p)
                  <= tdw (p_workers p) (p_wtd p) + 1).
    { rewrite tdw_set_alive by (rewrite ?A; reflexivity).
      destruct proc; [destruct (t_teardown (get_task k))|]; try lia. apply tdw_set_td. }
    destruct proc; rewrite ?app_length; simpl; nlia.
  - rewrite B. simpl. nlia.
  - pose proof (nbusy_set_nth (p_workers p) w WExited Hw) as Hb. rewrite A in Hb. rewrite B. simpl in *.
    pose proof (tdw_set_exit (p_workers p) (p_wtd p) w ltac:(rewrite A; reflexivity)) as Htd.
    destruct proc; rewrite ?app_length, ?map_length, ?rev_length; simpl; nlia.
  - pose proof (nbusy_set_nth (p_workers p) w (if is_interrupt tasks k then WExited else WIdle) Hw) as Hb. rewrite A in Hb.
    assert (Htd : tdw (set_nth (p_workers p) w (if is_interrupt tasks k then WExited else WIdle)) (p_wtd p) <= tdw (p_workers p) (p_wtd p)).
    { destruct (is_interrupt tasks k).
      - pose proof (tdw_set_exit (p_workers p) (p_wtd p) w ltac:(rewrite A; reflexivity)). lia.
      - rewrite tdw_set_alive by (rewrite ?A; reflexivity). lia. }
    rewrite app_length. destruct (is_interrupt tasks k); simpl in *; nlia.
  - pose proof (nbusy_set_nth (p_workers p) w (WBusy k) Hw) as Hb. rewrite A in Hb. rewrite B. simpl in *.
    destruct proc; rewrite ?res_tasks_app; simpl; rewrite ?app_nil_r; nlia.
  - rewrite B. simpl. nlia.
  - pose proof (nbusy_set_nth (p_workers p) w WExited Hw) as Hb. rewrite A in Hb. rewrite B. simpl in *.
    destruct proc; rewrite ?res_tasks_app, ?res_tasks_teardowns'; simpl; rewrite ?app_nil_r; nlia.
  - pose proof (nbusy_set_nth (p_workers p) w (if is_interrupt tasks k then WExited else WIdle) Hw) as Hb. rewrite A in Hb.
    rewrite res_tasks_app, app_length. destruct (is_interrupt tasks k); simpl in *; nlia.
Qed.

(* the main thread dequeues a message *)
Lemma Psi_deq np p0 m0 rs : p_results p0 = m0 :: rs ->
  Psi np (with_results p0 rs) + 1 + (match m0 with MResult _ => np | _ => 0 end) <= Psi np p0.
Proof.
  intros Er. unfold Psi.
  assert (HA : Aq (with_results p0 rs) + 1 = Aq p0) by (unfold Aq, jt, Tp; pcbn; rewrite Er; simpl; lia).
  assert (HB : Bq (with_results p0 rs) + (match m0 with MResult _ => 1 | _ => 0 end) = Bq p0)
    by (unfold Bq, jt, rr, Tp; pcbn; rewrite Er; destruct m0; simpl; lia).
  pcbn. destruct m0; try (rewrite <- HB, Nat.add_0_r; lia).
  rewrite <- HB. lia.
Qed.

(* a job is queued *)
Lemma Psi_put np p p1 j : same_w p p1 -> CL (r_d (p_r p1)) -> Tp p1 + jw (GJob j) <= Tp p ->
  Psi np (put_job p1 j) <= Psi np p + 1 /\ Tp (put_job p1 j) = Tp p1.
Proof.
  intros (Sw & Std & Sj & Sr & Sl & Sc) _ HT. split; [|reflexivity].
  assert (HA : Aq (put_job p1 j) + length (p_jobs (put_job p1 j)) <= Aq p + length (p_jobs p) + 1).
  { unfold Aq, jt. change (Tp (put_job p1 j)) with (Tp p1). pcbn. rewrite Sw, Std, Sj, Sr, job_tasks_app, !app_length.
    destruct j; simpl in *; nlia. }
  assert (HB : Bq (put_job p1 j) <= Bq p).
  { unfold Bq, jt, rr. change (Tp (put_job p1 j)) with (Tp p1). pcbn. rewrite Sw, Sj, Sr, job_tasks_app, !app_length.
    destruct j; simpl in *; nlia. }
  unfold Psi. pose proof (Nat.mul_le_mono_l _ _ np HB). lia.
Qed.

Lemma hand_out_never fuel n : forall p c e p', hand_out fuel n p c = (e, p') -> e <> PHung /\ (forall k, e <> PInterrupt k).
Proof.
  induction n as [|n IH]; intros p c e p' E; cbn [Parallel.hand_out] in E; [inversion E; split; [discriminate|intros k; discriminate]|].
  destruct (get_next_job fuel p c) as [[j| |path|] p1]; try (eapply IH; eauto; fail); inversion E; split; try discriminate; intros k; discriminate.
Qed.

Lemma hand_out_T np fuel n : forall p c e p',
  HOI n p c -> CL (r_d (p_r p)) -> Tp p < fuel -> hand_out fuel n p c = (e, p') ->
  e <> PFuel /\
  (e = PNormal -> CL (r_d (p_r p')) /\ Psi np p' <= Psi np p + n /\ p_count p' <= p_count p).
Proof.
  induction n as [|n IH]; intros p c e p' HH HC Hf E; cbn [Parallel.hand_out] in E.
  { inversion E; subst. split; [discriminate|]. intros _. split; auto. split; lia. }
  destruct (get_next_job fuel p c) as [g p1] eqn:Eg.
  destruct (hand_out_step tasks wake_rank calc_rank continue_ always fuel n p c g p1 HH Eg) as (Q1 & Hg).
  pose proof (get_next_job_same tasks wake_rank calc_rank continue_ always _ _ _ _ _ Eg) as Hsw.
  pose proof HH as (HP & HN & Hc & HJ & _).
  destruct (get_next_job_T fuel p c g p1 HP HN (proj1 HJ) Hc HC Eg) as (Gf & Gt).
  destruct g as [j| |path|].
  - destruct Hg as (H2 & Hj). destruct Gt as [C1 T1].
    destruct (Psi_put np p p1 j Hsw C1 T1) as [Pp Tq].
    destruct (IH (put_job p1 j) None e p' H2 C1 ltac:(unfold Tp in *; rewrite Tq; simpl in T1; lia) E) as (A & B).
    split; [exact A|]. intros He. destruct (B He) as (B1 & B2 & B3). split; [exact B1|]. split; [lia|].
    pcbn in B3. destruct Hsw as (_ & _ & _ & _ & _ & Sc). lia.
  - destruct Hg as (Hfree & H2). destruct Gt as [C1 T1].
    destruct (Psi_put np p p1 JNone Hsw C1 T1) as [Pp Tq].
    set (p2 := put_job (with_counts p1 (p_free p1) (Init.Nat.pred (p_count p1))) JNone) in *.
    assert (Pp2 : Psi np p2 <= Psi np p + 1) by exact Pp.
    destruct (IH p2 None e p' H2 C1 ltac:(change (Tp p2) with (Tp p1); simpl in T1; unfold Tp in *; lia) E) as (A & B).
    split; [exact A|]. intros He. destruct (B He) as (B1 & B2 & B3). split; [exact B1|]. split; [lia|].
    unfold p2 in B3. pcbn in B3. destruct Hsw as (_ & _ & _ & _ & _ & Sc). lia.
  - inversion E; subst. split; discriminate.
  - exfalso. apply Gf; [exact Hf|reflexivity].
Qed.

(* ---------- the main loop ---------- *)
Lemma main_get_T np fuel p m0 p1 : main_get fuel p = (Some m0, p1) ->
  Psi np p1 + 1 + (match m0 with MResult _ => np | _ => 0 end) <= Psi np p /\
  r_d (p_r p1) = r_d (p_r p) /\ p_count p1 = p_count p /\ p_free p1 = p_free p.
Proof.
  intros E.
  destruct (main_get_inv tasks proc
              (fun q => Psi np q <= Psi np p /\ r_d (p_r q) = r_d (p_r p) /\ p_count q = p_count p /\ p_free q = p_free p)
              (fun q s H => H)
              ltac:(intros q w (A & B & C & D) He;
                    destruct (worker_step_cases tasks proc q w He) as (_ & Hc & Hf & Hd & _); cbv zeta in *;
                    pose proof (worker_step_Psi np q w He); split; [lia|split; [congruence|split; congruence]])
              fuel p m0 p1 (conj (le_n _) (conj eq_refl (conj eq_refl eq_refl))) E) as (p0 & (A & B & C & D) & Er & Ep).
  pose proof (Psi_deq np p0 m0 (p_results p1) Er) as Hd. rewrite <- Ep in Hd.
  split; [lia|]. rewrite Ep. pcbn. auto.
Qed.

Lemma main_loop_T np fuel : forall p e p',
  LI p -> NH p -> CL (r_d (p_r p)) -> p_count p <= np -> Psi np p <= fuel ->
  main_loop fuel p = (e, p') ->
  e <> PFuel /\ e <> PHung /\ (e = PNormal -> LI p' /\ p_count p' = 0 /\ Psi np p' <= Psi np p).
Proof.
  induction fuel as [|fuel IH]; intros p e p' HL Hh HC Hnp Hpsi E; cbn [Parallel.main_loop] in E.
  { unfold Psi in Hpsi. lia. }
  destruct (p_count p) eqn:Ecnt.
  { inversion E; subst. split; [discriminate|]. split; [discriminate|]. intros _. split; [exact HL|]. split; [exact Ecnt|lia]. }
  assert (HK : K p) by (apply (LI_K tasks continue_); auto; lia).
  destruct HL as (HMi & HW & Hd).
  destruct (main_get_some tasks proc (S fuel * 4) p HK) as (m0 & p1 & Em).
  { pose proof (mu_Psi np p). lia. }
  rewrite Em in E.
  destruct (main_get_T np _ _ _ _ Em) as (Hpsi1 & Qd & Qc & Qf).
  destruct (main_get_WI tasks proc _ _ _ _ HK Em) as [HLn HW1].
  destruct (main_get_live tasks proc _ _ _ _ HK Em) as [Hh1 _]. specialize (Hh1 Hh).
  assert (HC1 : CL (r_d (p_r p1))) by (rewrite Qd; exact HC).
  assert (Hrec : forall p3, LI p3 -> NH p3 -> CL (r_d (p_r p3)) -> p_count p3 <= np -> Psi np p3 + 1 <= Psi np p ->
            main_loop fuel p3 = (e, p') ->
            e <> PFuel /\ e <> PHung /\ (e = PNormal -> LI p' /\ p_count p' = 0 /\ Psi np p' <= Psi np p)).
  { intros p3 L3 N3 C3 K3 P3 E3. destruct (IH p3 e p' L3 N3 C3 K3 ltac:(lia) E3) as (A & B & C).
    split; [exact A|]. split; [exact B|]. intros He. destruct (C He) as (C1 & C2 & C4). split; [exact C1|]. split; [exact C2|lia]. }
  destruct m0 as [k|k|k|k].
  - (* a result *)
    destruct (main_step_result tasks wake_rank calc_rank continue_ proc _ _ _ _ HMi Em) as [HH Hi]. cbv zeta in HH.
    destruct (process_result_T (p_r p1) k HC1) as [C2 T2].
    set (p2 := with_r p1 (process_result tasks continue_ (p_r p1) k)) in *.
    set (pX := with_counts p2 0 (p_count p2)) in *.
    assert (HpX : Psi np pX = Psi np p1).
    { unfold Psi, Aq, Bq, jt, rr, Tp. unfold pX, p2. pcbn. rewrite T2. reflexivity. }
    assert (HTX : Tp pX < S fuel).
    { assert (Tp pX < Psi np pX) by (unfold Psi, Aq; lia). lia. }
    assert (Hfree : S (p_free p2) <= np).
    { destruct HH as (_ & _ & _ & _ & HCI & _). unfold CI in HCI. unfold pX, p2 in HCI. pcbn in HCI. unfold p2. pcbn. lia. }
    destruct (hand_out (S fuel) (S (p_free p2)) pX (Some k)) as [e2 p3] eqn:Eh.
    destruct (hand_out_T np (S fuel) _ _ _ _ _ HH C2 HTX Eh) as (Hnf & B).
    destruct (hand_out_never _ _ _ _ _ _ Eh) as [Hnh _].
    assert (HW2 : WI pX) by (unfold WI, pX, p2; pcbn; simpl in HW1; exact HW1).
    assert (Hh2 : NH pX) by exact Hh1.
    destruct (hand_out_L tasks wake_rank calc_rank continue_ always _ _ _ _ _ _ HH HW2 Hh2 Eh) as (Hh3 & B3).
    destruct e2; try (inversion E; subst; split; [first [exact Hnf|discriminate]|split; [first [exact Hnh|discriminate]|intros He; discriminate He]]).
    destruct (B eq_refl) as (C3 & P3 & N3). destruct (B3 eq_refl) as (H3 & W3 & L3).
    destruct (deadlocked p3) eqn:Edl; [inversion E; subst; split; [discriminate|split; [discriminate|intros He; discriminate He]]|].
    apply (Hrec p3); auto.
    + split; [apply HOI_MI; exact H3|]. split; auto.
    + unfold pX, p2 in N3. pcbn in N3. lia.
    + cbv beta iota in Hpsi1. lia.
  - (* execute report forwarded by a worker process *)
    pose proof (main_step_report tasks continue_ proc _ _ _ _ HMi Em) as HM1.
    apply (Hrec _) with (6 := E); auto.
    + split; [exact HM1|]. split; [exact HW1|]. unfold deadlocked in *. pcbn. rewrite Qf, Qc. exact Hd.
    + pcbn. lia.
    + assert (Ep : Psi np (with_r p1 (emit (p_r p1) [EExecute k])) = Psi np p1) by reflexivity. lia.
  - pose proof (main_step_teardown tasks continue_ proc _ _ _ _ HMi Em) as HM1.
    apply (Hrec _) with (6 := E); auto.
    + split; [exact HM1|]. split; [exact HW1|]. unfold deadlocked in *. pcbn. rewrite Qf, Qc. exact Hd.
    + pcbn. lia.
    + assert (Ep : Psi np (with_r p1 (emit (p_r p1) [ETeardown k])) = Psi np p1) by reflexivity. lia.
  - inversion E; subst. split; [discriminate|]. split; [discriminate|intros He; discriminate He].
Qed.

(* ---------- start_procs ---------- *)
Lemma start_procs_T fuel n : forall p e p',
  SPI p -> CL (r_d (p_r p)) -> Tp p < fuel -> start_procs fuel n p = (e, p') ->
  e <> PFuel /\ e <> PHung /\ (e = PNormal -> CL (r_d (p_r p')) /\ Tp p' + jt p' <= Tp p + jt p).
Proof.
  induction n as [|n IH]; intros p e p' HS HC Hf E; cbn [Parallel.start_procs] in E.
  { inversion E; subst. split; [discriminate|]. split; [discriminate|]. intros _. split; auto. }
  destruct (get_next_job fuel p None) as [g p1] eqn:Eg.
  destruct (start_procs_step tasks wake_rank calc_rank continue_ always fuel p g p1 HS Eg) as (Q1 & Hg).
  destruct (get_next_job_same tasks wake_rank calc_rank continue_ always _ _ _ _ _ Eg) as (Sw & Std & Sj & Sr & Sl & Sc).
  pose proof HS as (HP & HN & HJ & _).
  destruct (get_next_job_T fuel p None g p1 HP HN (proj1 HJ) ltac:(intros k H; discriminate) HC Eg) as (Gf & Gt).
  destruct g as [j| |path|].
  - destruct Hg as (H2 & Hj). destruct Gt as [C1 T1].
    destruct (IH (start_worker (put_job p1 j)) e p' H2 C1) as (A & B & D); [|exact E|].
    + change (Tp (start_worker (put_job p1 j))) with (Tp p1). unfold Tp in *. lia.
    + split; [exact A|]. split; [exact B|]. intros He. destruct (D He) as [D1 D2]. split; [exact D1|].
      change (Tp (start_worker (put_job p1 j))) with (Tp p1) in D2.
      assert (Hjt : jt (start_worker (put_job p1 j)) = jt p + jw (GJob j)).
      { unfold jt. pcbn. rewrite Sj, job_tasks_app, app_length. destruct j; simpl; lia. }
      unfold Tp in *. lia.
  - inversion E; subst. destruct Gt as [C1 T1]. split; [discriminate|]. split; [discriminate|]. intros _. split; [exact C1|].
    unfold jt, Tp in *. rewrite Sj. simpl in T1. lia.
  - inversion E; subst. split; [discriminate|]. split; discriminate.
  - exfalso. apply Gf; [exact Hf|reflexivity].
Qed.

(* ---------- the whole run ---------- *)
Definition PN (nprocs : nat) (sel : list name) : nat := 2 + nprocs + (3 + nprocs) * PHI (disp_init sel).

Lemma run_core_T fuel nprocs sched sel e2 p2 :
  incl sel Ud -> PN nprocs sel <= fuel -> run_core fuel nprocs sched sel = (e2, p2) ->
  e2 <> PFuel /\ e2 <> PHung /\
  (e2 = PNormal -> alive (p_workers p2) = 0 /\ p_results p2 = [] /\ p_count p2 = 0).
Proof.
  intros Hsel Hfuel. unfold ParHoldP.run_core, PN in *.
  set (T0 := PHI (disp_init sel)) in *.
  destruct (start_procs fuel nprocs (p_init sched sel)) as [e1 p1] eqn:E1.
  assert (HC0 : CL (r_d (p_r (p_init sched sel)))) by (apply (CL_init tasks Ud HTC); exact Hsel).
  assert (HT0 : Tp (p_init sched sel) < fuel) by (unfold Tp; simpl; fold T0; lia).
  destruct (start_procs_T _ _ _ _ _ (SPI_init tasks continue_ sched sel) HC0 HT0 E1) as (A1 & B1 & D1).
  destruct (start_procs_L tasks wake_rank calc_rank continue_ always proc _ _ _ _ _ (SPI_init tasks continue_ sched sel) (SS_init sched sel) ltac:(intros []) E1) as (Hh1 & L1).
  destruct e1; try (intros E; inversion E; subst; split; [first [exact A1|discriminate]|split; [first [exact B1|discriminate]|intros He; discriminate He]]).
  destruct (D1 eq_refl) as [C1 T1]. destruct (L1 eq_refl) as (S1 & SS1 & Len1).
  set (p1' := with_counts p1 (p_free p1) (length (p_workers p1))).
  destruct (deadlocked p1') eqn:Edl.
  { intros E. inversion E; subst. split; [discriminate|]. split; [discriminate|intros He; discriminate He]. }
  destruct (main_loop fuel p1') as [em pm] eqn:E2.
  assert (Hem : em <> PFuel /\ em <> PHung /\
                (em = PNormal -> WI pm /\ p_count pm = 0 /\ flight pm = [] /\ mu pm <= fuel * 4)).
  { pose proof SS1 as (R0 & W0 & J0 & Td0 & L0).
    destruct (alive_all_idle _ W0) as [Hal0 Hb0].
    destruct (p_count p1') eqn:Ec.
    - destruct fuel as [|f]; [lia|]. cbn [Parallel.main_loop] in E2. rewrite Ec in E2. inversion E2; subst.
      split; [discriminate|]. split; [discriminate|]. intros _.
      pose proof Ec as Ec'. unfold p1' in Ec. pcbn in Ec.
      destruct S1 as (_ & _ & _ & HCI). unfold CI in HCI.
      assert (Hfl : flight p1 = []) by (destruct (flight p1); [reflexivity|simpl in HCI; lia]).
      split; [|split; [exact Ec'|split; [exact Hfl|]]].
      + unfold WI, p1'. pcbn. rewrite R0, J0, Hal0. simpl. lia.
      + unfold mu, p1'. pcbn. rewrite L0, Hb0, Ec. lia.
    - destruct (main_loop_T nprocs fuel p1' em pm) as (Hm1 & Hm2 & Hm3); [| | | | |exact E2|].
      + apply loop_entry; auto. fold p1'. lia.
      + exact Hh1.
      + exact C1.
      + unfold p1'. pcbn. simpl in Len1. lia.
      + assert (HA : Aq p1' = 3 * jt p1 + 3 * Tp p1).
        { unfold Aq. change (jt p1') with (jt p1). change (Tp p1') with (Tp p1). unfold p1'. pcbn.
          rewrite R0, Hb0, (tdw_nil _ _ Td0). simpl. lia. }
        assert (HB : Bq p1' = jt p1 + Tp p1).
        { unfold Bq, rr. change (jt p1') with (jt p1). change (Tp p1') with (Tp p1). unfold p1'. pcbn.
          rewrite R0, Hb0. simpl. lia. }
        assert (HJT : jt p1 + Tp p1 <= T0) by (unfold jt, Tp in *; simpl in T1; fold T0 in T1; lia).
        unfold Psi. rewrite HA, HB. change (p_jobs p1') with (p_jobs p1). rewrite L0.
        pose proof (Nat.mul_le_mono_l _ _ nprocs HJT). simpl in Len1. lia.
      + split; [exact Hm1|]. split; [exact Hm2|]. intros He. destruct (Hm3 He) as (((_ & _ & HCI & _) & HWm & _) & Hc0 & Hps).
        split; [exact HWm|]. split; [exact Hc0|]. split.
        * unfold CI in HCI. rewrite Hc0 in HCI. destruct (flight pm); [reflexivity|simpl in HCI; lia].
        * pose proof (mu_Psi nprocs pm) as Hmu.
          assert (HA : Aq p1' = 3 * jt p1 + 3 * Tp p1).
          { unfold Aq. change (jt p1') with (jt p1). change (Tp p1') with (Tp p1). unfold p1'. pcbn.
            rewrite R0, Hb0, (tdw_nil _ _ Td0). simpl. lia. }
          assert (HB : Bq p1' = jt p1 + Tp p1).
          { unfold Bq, rr. change (jt p1') with (jt p1). change (Tp p1') with (Tp p1). unfold p1'. pcbn.
            rewrite R0, Hb0. simpl. lia. }
          assert (HJT : jt p1 + Tp p1 <= T0) by (unfold jt, Tp in *; simpl in T1; fold T0 in T1; lia).
          assert (Hp1 : Psi nprocs p1' <= fuel).
          { unfold Psi. rewrite HA, HB. change (p_jobs p1') with (p_jobs p1). rewrite L0.
            pose proof (Nat.mul_le_mono_l _ _ nprocs HJT). simpl in Len1. lia. }
          lia. }
  destruct Hem as (Hm1 & Hm2 & Hm3).
  destruct em; intros E; inversion E; subst; (split; [first [discriminate|exact Hm1]|split; [first [discriminate|exact Hm2]|]]);
    try (intros He; discriminate He).
  intros _. destruct (Hm3 eq_refl) as (HWm & Hc0 & Hfl & Hmu).
  set (pj := join_all (fuel * 4) pm).
  assert (Hj : WI pj /\ p_count pj = 0 /\ flight pj = []).
  { apply (join_all_inv tasks proc (fun q => WI q /\ p_count q = 0 /\ flight q = [])); auto.
    intros q w (A & B & C) He. destruct (worker_step_cases tasks proc q w He) as (_ & Hc & _). cbv zeta in Hc.
    split; [apply worker_step_WI; auto|]. split; [lia|].
    pose proof (worker_step_perm tasks proc q w) as P. rewrite C in P. apply Permutation_nil in P. exact P. }
  destruct Hj as (HWj & Hcj & Hfj).
  pose proof (join_all_done tasks proc (fuel * 4) pm Hmu) as Hdone. fold pj in Hdone.
  unfold drain. pcbn. split; [|split; [reflexivity|exact Hcj]].
  apply no_enabled_all_exited; auto.
Qed.

End PT.

(* ---------- the statements, fully quantified ---------- *)
(* the fuel that is always enough for a parallel run with nprocs processes / threads *)
Definition par_enough_fuel (tasks : name -> option task) (univ selection : list name) (nprocs : nat) : nat :=
  2 + nprocs + (3 + nprocs) * PHI tasks (universe tasks univ selection) (calc_bound tasks univ) (disp_init selection).

Lemma par_enough_fuel_le tasks univ selection nprocs :
  par_enough_fuel tasks univ selection nprocs <= (3 + nprocs) * enough_fuel tasks univ selection.
Proof. unfold par_enough_fuel, enough_fuel. lia. Qed.

(* how a parallel run ends: the exit code and the log in terms of run_core *)
Lemma run_parallel_code tasks wake_rank calc_rank continue_ always proc fuel nprocs sched sel e2 p2 :
  run_core tasks wake_rank calc_rank continue_ always proc fuel nprocs sched sel = (e2, p2) ->
  snd (run_parallel tasks wake_rank calc_rank continue_ always proc fuel nprocs sched sel) = pcode e2 (p_r (pfin p2)) /\
  fst (run_parallel tasks wake_rank calc_rank continue_ always proc fuel nprocs sched sel) = p_log (pfin p2) ++ pmarker e2 /\
  (r_final (p_r (pfin p2)) <= 2)%N.
Proof.
  intros Ec. rewrite run_parallel_eq, Ec. cbn [fst snd]. split; [reflexivity|]. split; [reflexivity|].
  destruct (run_core_G _ _ _ _ _ _ _ _ _ _ _ _ Ec) as (_ & HN & _).
  destruct (NR_finish _ _ (ni_r _ _ _ HN)) as (_ & _ & [F _] & _). exact F.
Qed.

(* TERMINATION (and NO HANG above the fuel bound): over a finite task table a parallel run with at least
   par_enough_fuel fuel ends with neither of the model's two "did not finish" codes -- 99 (out of fuel) and
   98 (main thread blocked for ever, or main_get out of its 4 * fuel scheduler steps) -- whatever the graph,
   the flavour (processes / threads), the number of workers, the schedule, the flags, the oracles *)
Theorem parallel_terminates_explicit tasks univ selection : finite_table tasks univ ->
  forall wake_rank calc_rank continue_ always proc nprocs sched fuel,
  par_enough_fuel tasks univ selection nprocs <= fuel ->
  snd (run_parallel tasks wake_rank calc_rank continue_ always proc fuel nprocs sched selection) <> 99%N /\
  snd (run_parallel tasks wake_rank calc_rank continue_ always proc fuel nprocs sched selection) <> 98%N.
Proof.
  intros Hf wake_rank calc_rank continue_ always proc nprocs sched fuel Hfuel.
  destruct (run_core tasks wake_rank calc_rank continue_ always proc fuel nprocs sched selection) as [e2 p2] eqn:Ec.
  destruct (run_parallel_code _ _ _ _ _ _ _ _ _ _ _ _ Ec) as (-> & _ & HF).
  destruct (run_core_T tasks (universe tasks univ selection) (calc_bound tasks univ) wake_rank calc_rank continue_ always proc
              (NoDup_nodup _ _) (universe_closed tasks univ selection Hf) (calc_bound_ok tasks univ Hf)
              fuel nprocs sched selection e2 p2) as (A & B & _); auto.
  - intros x Hx. unfold universe. apply nodup_In. apply in_or_app. left. exact Hx.
  - destruct e2; cbn [pcode]; try (exfalso; apply A; reflexivity); try (exfalso; apply B; reflexivity);
      split; try discriminate; intros E; rewrite E in HF; lia.
Qed.

(* join_all / drain: when run_tasks returns, every Child.join() has returned -- every worker got its None
   job and exited -- proc_count is 0 and the result queue is drained *)
Theorem parallel_normal_end_all_joined tasks univ selection : finite_table tasks univ ->
  forall wake_rank calc_rank continue_ always proc nprocs sched fuel p2,
  par_enough_fuel tasks univ selection nprocs <= fuel ->
  run_core tasks wake_rank calc_rank continue_ always proc fuel nprocs sched selection = (PNormal, p2) ->
  alive (p_workers p2) = 0 /\ p_results p2 = [] /\ p_count p2 = 0.
Proof.
  intros Hf wake_rank calc_rank continue_ always proc nprocs sched fuel p2 Hfuel Ec.
  destruct (run_core_T tasks (universe tasks univ selection) (calc_bound tasks univ) wake_rank calc_rank continue_ always proc
              (NoDup_nodup _ _) (universe_closed tasks univ selection Hf) (calc_bound_ok tasks univ Hf)
              fuel nprocs sched selection PNormal p2) as (_ & _ & C); auto.
  intros x Hx. unfold universe. apply nodup_In. apply in_or_app. left. exact Hx.
Qed.

Theorem parallel_terminates :
  forall tasks univ selection nprocs, finite_table tasks univ ->
  exists N : nat, forall wake_rank calc_rank continue_ always proc sched fuel, (N <= fuel)%nat ->
    snd (run_parallel tasks wake_rank calc_rank continue_ always proc fuel nprocs sched selection) <> 99%N /\
    snd (run_parallel tasks wake_rank calc_rank continue_ always proc fuel nprocs sched selection) <> 98%N.
Proof.
  intros tasks univ selection nprocs Hf. exists (par_enough_fuel tasks univ selection nprocs).
  intros. apply (parallel_terminates_explicit tasks univ selection Hf); auto.
Qed.

(* every exit code of the model: 0/1/2 (run_tasks returned), 3 with the diagnostic as last event, 4, 98, 99 *)
Lemma parallel_exit_codes tasks wake_rank calc_rank continue_ always proc fuel nprocs sched sel :
  let res := run_parallel tasks wake_rank calc_rank continue_ always proc fuel nprocs sched sel in
  (snd res <= 2)%N \/
  (snd res = 3%N /\ (In (PE EHoldError) (fst res) \/ exists path, In (PE (ECycleError path)) (fst res))) \/
  snd res = 4%N \/ snd res = 98%N \/ snd res = 99%N.
Proof.
  cbv zeta.
  destruct (run_core tasks wake_rank calc_rank continue_ always proc fuel nprocs sched sel) as [e2 p2] eqn:Ec.
  destruct (run_parallel_code _ _ _ _ _ _ _ _ _ _ _ _ Ec) as (-> & -> & HF).
  destruct e2; cbn [pcode pmarker]; auto.
  - right; left. split; auto. right. exists path. apply in_or_app. right. left. reflexivity.
  - right; left. split; auto. left. apply in_or_app. right. left. reflexivity.
Qed.

(* over a finite ACYCLIC table, with enough fuel: run_tasks returns (exit code 0, 1 or 2) or an action
   interrupted the run (4) *)
Theorem parallel_acyclic_completes tasks univ selection : finite_table tasks univ ->
  (forall k, ~ reach tasks k k) ->
  forall wake_rank calc_rank continue_ always proc nprocs sched fuel,
  par_enough_fuel tasks univ selection nprocs <= fuel ->
  let c := snd (run_parallel tasks wake_rank calc_rank continue_ always proc fuel nprocs sched selection) in
  (c <= 2)%N \/ c = 4%N.
Proof.
  intros Hf Hac wake_rank calc_rank continue_ always proc nprocs sched fuel Hfuel. cbv zeta.
  destruct (parallel_terminates_explicit tasks univ selection Hf wake_rank calc_rank continue_ always proc nprocs sched fuel Hfuel) as [H99 H98].
  destruct (parallel_acyclic_no_diagnostic tasks wake_rank calc_rank continue_ always proc fuel nprocs sched selection Hac) as [Hh Hc].
  destruct (parallel_exit_codes tasks wake_rank calc_rank continue_ always proc fuel nprocs sched selection) as [H|[[_ [H|[path H]]]|[H|[H|H]]]]; auto;
    try contradiction.
  exfalso. exact (Hc path H).
Qed.

(* ... and with --continue and at least one worker: the run is interrupted by an action (exit code 4) or EVERY
   selected task has its final report in the merged log (C02 liveness, parallel runners) *)
Theorem parallel_acyclic_continue_all_reported tasks univ selection : finite_table tasks univ ->
  (forall k, ~ reach tasks k k) ->
  forall wake_rank calc_rank always proc nprocs sched fuel,
  (0 < nprocs) -> par_enough_fuel tasks univ selection nprocs <= fuel ->
  let res := run_parallel tasks wake_rank calc_rank true always proc fuel nprocs sched selection in
  snd res = 4%N \/ ((snd res <= 2)%N /\ forall x, In x selection -> pfinished (fst res) x).
Proof.
  intros Hf Hac wake_rank calc_rank always proc nprocs sched fuel Hn Hfuel. cbv zeta.
  destruct (parallel_acyclic_completes tasks univ selection Hf Hac wake_rank calc_rank true always proc nprocs sched fuel Hfuel) as [H|H]; auto.
  right. split; [exact H|]. apply parallel_complete_continue; auto.
Qed.

Print Assumptions parallel_terminates_explicit.
Print Assumptions parallel_terminates.
Print Assumptions parallel_normal_end_all_joined.
Print Assumptions parallel_acyclic_completes.
Print Assumptions parallel_acyclic_continue_all_reported.
