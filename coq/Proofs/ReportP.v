(* ReportP.v -- the reporter layer (Model/Report.v): what the built-in reporters write, for every
   callback sequence the runner models produce.
   Part A: the reporters as folds over the call list (no runner involved).
   Part B: two more trace-shape facts of the runner models (get_status precedes every other report
           about a task and is made once; the DB is closed once, at the start of finish()).
   Part C: composition with the theorems of RunnerTr / RunnerP / ParallelP. *)
From DoitV Require Import Base Dispatch Runner Parallel Report DispatchP DispatchInv RunnerTr RunnerP ParallelP.
Open Scope N_scope.

(* ================================================================== Part A *)
Section A.
Variable ti : name -> tattr.
Notation step := (step ti).
Notation run := (run ti).

Lemma run_app st a b : run st (a ++ b) = run (run st a) b.
Proof. unfold Report.run. apply fold_left_app. Qed.
Lemma run_cons st c cs : run st (c :: cs) = run (step st c) cs.
Proof. reflexivity. Qed.
Lemma run_snoc st cs c : run st (cs ++ [c]) = step (run st cs) c.
Proof. rewrite run_app. reflexivity. Qed.

(* ---- projections of a call list ---- *)
Definition is_complete (c : call) : bool := match c with CCompleteRun => true | _ => false end.
Definition cexecs (cs : list call) : list name := flat_map (fun c => match c with CExecute k => [k] | _ => [] end) cs.
Definition strm_eqb (a b : strm) : bool := match a, b with SOut, SOut | SErr, SErr => true | _, _ => false end.
(* written to sys.stdout / sys.stderr of the main process *)
Definition main_toks (s : strm) (cs : list call) : list chunk :=
  flat_map (fun c => match c with CWrite s' InMain t => if strm_eqb s s' then [Raw t] else [] | _ => [] end) cs.
Definition worker_toks (cs : list call) : list (strm * chunk) :=
  flat_map (fun c => match c with CWrite s InWorker t => [(s, Raw t)] | _ => [] end) cs.
Definition err_msgs (cs : list call) : list chunk :=
  flat_map (fun c => match c with CCleanupError k => [Line (LCleanupMsg k)] | CRuntimeError m => [Line (LRuntime m)] | _ => [] end) cs.

Lemma cexecs_app a b : cexecs (a ++ b) = cexecs a ++ cexecs b. Proof. apply flat_map_app. Qed.
Lemma main_toks_app s a b : main_toks s (a ++ b) = main_toks s a ++ main_toks s b. Proof. apply flat_map_app. Qed.
Lemma worker_toks_app a b : worker_toks (a ++ b) = worker_toks a ++ worker_toks b. Proof. apply flat_map_app. Qed.
Lemma err_msgs_app a b : err_msgs (a ++ b) = err_msgs a ++ err_msgs b. Proof. apply flat_map_app. Qed.

(* ---- facts that hold for every reporter ---- *)
Lemma rep_step_kind r w c : rp_kind (fst (rep_step ti r w c)) = rp_kind r.
Proof.
  unfold rep_step, console_step, zero_step, json_step.
  destruct (rp_kind r) eqn:K; destruct c; simpl; auto;
    try (unfold d_upd; destruct (d_get _ _); simpl; auto);
    try (destruct (w_swapped w); simpl; auto);
    try (destruct (fail_report ti k kind); simpl; auto).
Qed.
Lemma step_kind st c : rp_kind (fst (step st c)) = rp_kind (fst st).
Proof.
  destruct st as [r w]. unfold Report.step. destruct c; try apply rep_step_kind; simpl; auto.
  pose proof (rep_step_kind r w (CExecute k)) as H. destruct (rep_step ti r w (CExecute k)). exact H.
Qed.
Lemma run_kind cs : forall st, rp_kind (fst (run st cs)) = rp_kind (fst st).
Proof. induction cs as [|c cs IH]; intros st; simpl; auto. rewrite IH. apply step_kind. Qed.

Lemma sys_write_executed s p c w : w_executed (sys_write s p c w) = w_executed w.
Proof. unfold sys_write. destruct (w_swapped w); [destruct p|]; destruct s; reflexivity. Qed.
Lemma real_write_executed s l w : w_executed (real_write s l w) = w_executed w.
Proof. destruct s; reflexivity. Qed.
Lemma rep_step_executed r w c : w_executed (snd (rep_step ti r w c)) = w_executed w.
Proof.
  unfold rep_step, console_step, zero_step, json_step, out_write.
  destruct (rp_kind r); destruct c; simpl; auto;
    repeat match goal with |- context [if ?b then _ else _] => destruct b end; simpl;
    rewrite ?real_write_executed, ?sys_write_executed; auto;
    unfold d_upd; destruct (d_get _ _); reflexivity.
Qed.
Lemma step_executed st c :
  w_executed (snd (step st c)) = w_executed (snd st) ++ cexecs [c].
Proof.
  destruct st as [r w]. unfold Report.step.
  destruct c; simpl; rewrite ?app_nil_r; try apply rep_step_executed; try apply sys_write_executed.
  pose proof (rep_step_executed r w (CExecute k)) as H. destruct (rep_step ti r w (CExecute k)) as [r' w'].
  simpl in *. rewrite H. reflexivity.
Qed.
Lemma run_executed cs : forall st, w_executed (snd (run st cs)) = w_executed (snd st) ++ cexecs cs.
Proof.
  induction cs as [|c cs IH]; intros st; simpl; [rewrite app_nil_r; reflexivity|].
  rewrite IH, step_executed. simpl. rewrite <- app_assoc. f_equal. unfold cexecs. simpl. rewrite app_nil_r. reflexivity.
Qed.

(* ---- the dict of JsonReporter ---- *)
Definition keys (d : list (name * trec)) : list name := map fst d.
Lemma d_get_set_same k v d : d_get k (d_set k v d) = Some v.
Proof.
  induction d as [|[k' v'] d IH]; simpl; [rewrite N.eqb_refl; reflexivity|].
  destruct (N.eqb k k') eqn:E; simpl; rewrite ?N.eqb_refl, ?E; auto.
Qed.
Lemma d_get_set_other k k' v d : k <> k' -> d_get k (d_set k' v d) = d_get k d.
Proof.
  intros Hne. induction d as [|[k2 v2] d IH]; simpl.
  - apply N.eqb_neq in Hne. rewrite Hne. reflexivity.
  - destruct (N.eqb k' k2) eqn:E; simpl.
    + apply N.eqb_eq in E. subst k2. apply N.eqb_neq in Hne. rewrite Hne. reflexivity.
    + destruct (N.eqb k k2); auto.
Qed.
Lemma keys_set k v d : keys (d_set k v d) = if mem k (keys d) then keys d else keys d ++ [k].
Proof.
  induction d as [|[k' v'] d IH]; simpl; auto.
  destruct (N.eqb k k') eqn:E; simpl.
  - apply N.eqb_eq in E. subst. reflexivity.
  - rewrite IH. destruct (mem k (keys d)); reflexivity.
Qed.
Lemma d_get_keys k d : d_get k d <> None <-> In k (keys d).
Proof.
  induction d as [|[k' v'] d IH]; simpl; [split; [congruence|tauto]|].
  destruct (N.eqb_spec k k') as [->|Hne]; [split; [auto|discriminate]|].
  rewrite IH. split; [auto|intros [H|H]; [congruence|auto]].
Qed.
Lemma keys_set_In k v d x : In x (keys (d_set k v d)) <-> x = k \/ In x (keys d).
Proof.
  rewrite keys_set. destruct (mem k (keys d)) eqn:E.
  - apply mem_In in E. split; [auto|intros [->|H]; auto].
  - rewrite in_app_iff. simpl. split; [intros [H|[H|[]]]; auto|intros [H|H]; auto].
Qed.
Lemma NoDup_snoc {A} (l : list A) x : NoDup l -> ~ In x l -> NoDup (l ++ [x]).
Proof.
  induction l as [|a l IH]; intros H Hn; simpl; [constructor; auto; constructor|].
  inversion H; subst. constructor.
  - rewrite in_app_iff. simpl. intros [H0|[H0|[]]]; [auto|subst; apply Hn; left; reflexivity].
  - apply IH; auto. intros H0. apply Hn. right. exact H0.
Qed.
Lemma keys_set_NoDup k v d : NoDup (keys d) -> NoDup (keys (d_set k v d)).
Proof.
  intros H. rewrite keys_set. destruct (mem k (keys d)) eqn:E; auto.
  apply mem_false_In in E. apply NoDup_snoc; auto.
Qed.

Lemma d_get_In k v d : NoDup (keys d) -> (In (k, v) d <-> d_get k d = Some v).
Proof.
  induction d as [|[k' v'] d IH]; intros Hn; simpl; [split; [tauto|discriminate]|].
  inversion Hn; subst. destruct (N.eqb_spec k k') as [->|Hne].
  - split; [intros [H|H]; [congruence|]|intros H; left; congruence].
    exfalso. apply H1. change (In k' (keys d)). unfold keys. apply in_map_iff. exists (k', v). auto.
  - rewrite <- IH by auto. split; [intros [H|H]; [congruence|auto]|auto].
Qed.

(* ---------------------------------------------------------------- JsonReporter *)
Definition jst (st : rep * world) : Prop := rp_kind (fst st) = RJson.

Lemma step_json r w c : rp_kind r = RJson ->
  step (r, w) c = match c with
                  | CWrite s p t => (r, sys_write s p (Raw t) w)
                  | CExecute k => (d_upd r k start, mark_exec k w)
                  | _ => json_step ti r w c end.
Proof. intros K. unfold Report.step, rep_step. rewrite K. destruct c; reflexivity. Qed.

Lemma jst_step st c : jst st -> jst (step st c).
Proof. unfold jst. rewrite step_kind. auto. Qed.
Lemma jst_run cs st : jst st -> jst (run st cs).
Proof. unfold jst. rewrite run_kind. auto. Qed.

Lemma d_upd_fields r k f :
  rp_errors (d_upd r k f) = rp_errors r /\ rp_failures (d_upd r k f) = rp_failures r /\ rp_rt (d_upd r k f) = rp_rt r.
Proof. unfold d_upd. destruct (d_get k (rp_results r)); simpl; auto. Qed.

(* while the streams are swapped and complete_run is not called: nothing reaches the real streams,
   every write of the main process is in the capture buffers, every error message in self.errors *)
Record jpre (st st' : rep * world) (cs : list call) : Prop := {
  jp_sw : w_swapped (snd st') = true;
  jp_out : w_stdout (snd st') = w_stdout (snd st);
  jp_err : w_stderr (snd st') = w_stderr (snd st);
  jp_cout : w_cap_out (snd st') = w_cap_out (snd st) ++ main_toks SOut cs;
  jp_cerr : w_cap_err (snd st') = w_cap_err (snd st) ++ main_toks SErr cs;
  jp_lost : w_lost (snd st') = w_lost (snd st) ++ worker_toks cs;
  jp_errors : rp_errors (fst st') = rp_errors (fst st) ++ err_msgs cs
}.

Lemma json_step_pre st c : jst st -> w_swapped (snd st) = true -> is_complete c = false -> jpre st (step st c) [c].
Proof.
  destruct st as [r w]. unfold jst. intros K Hs Hc. cbn [fst snd] in K, Hs. rewrite (step_json r w c K).
  destruct c; try discriminate; simpl;
    try match goal with |- jpre _ (d_upd ?r0 ?k0 ?f0, _) _ => destruct (d_upd_fields r0 k0 f0) as (E1 & _) end;
    try (split; simpl; rewrite ?app_nil_r; auto; fail).
  unfold sys_write. rewrite Hs. destruct p, s; split; simpl; rewrite ?app_nil_r; auto.
Qed.

Lemma jpre_refl st : w_swapped (snd st) = true -> jpre st st [].
Proof. intros H. split; simpl; rewrite ?app_nil_r; auto. Qed.
Lemma jpre_trans st1 st2 st3 a b : jpre st1 st2 a -> jpre st2 st3 b -> jpre st1 st3 (a ++ b).
Proof.
  intros [A1 A2 A3 A4 A5 A6 A7] [B1 B2 B3 B4 B5 B6 B7]. split; auto; try congruence.
  - rewrite B4, A4, main_toks_app, app_assoc. reflexivity.
  - rewrite B5, A5, main_toks_app, app_assoc. reflexivity.
  - rewrite B6, A6, worker_toks_app, app_assoc. reflexivity.
  - rewrite B7, A7, err_msgs_app, app_assoc. reflexivity.
Qed.

Lemma json_run_pre cs : forall st, jst st -> w_swapped (snd st) = true ->
  forallb (fun c => negb (is_complete c)) cs = true -> jpre st (run st cs) cs.
Proof.
  induction cs as [|c cs IH]; intros st K Hs Hc; simpl in *.
  - apply jpre_refl. exact Hs.
  - apply andb_true_iff in Hc. destruct Hc as [Hc1 Hc2]. apply negb_true_iff in Hc1.
    pose proof (json_step_pre st c K Hs Hc1) as H1.
    change (c :: cs) with ([c] ++ cs). eapply jpre_trans; [exact H1|].
    apply IH; auto; [apply jst_step; exact K|apply (jp_sw _ _ _ H1)].
Qed.

(* the effect of one call on the record of task k *)
Definition rec_eff (w : world) (k : name) (c : call) (v : option trec) : option trec :=
  match c with
  | CGetStatus k' => if N.eqb k k' then Some fresh else v
  | CExecute k' => if N.eqb k k' then option_map start v else v
  | CFailure k' kd => if N.eqb k k' then option_map (set_result ti w k' JFail (Some kd)) v else v
  | CSuccess k' => if N.eqb k k' then option_map (set_result ti w k' JSuccess None) v else v
  | CSkipUpToDate k' => if N.eqb k k' then option_map (set_result ti w k' JUpToDate None) v else v
  | CSkipIgnore k' => if N.eqb k k' then option_map (set_result ti w k' JIgnore None) v else v
  | _ => v end.

Lemma d_upd_get r k' f k :
  d_get k (rp_results (d_upd r k' f)) = if N.eqb k k' then option_map f (d_get k (rp_results r)) else d_get k (rp_results r).
Proof.
  unfold d_upd. destruct (N.eqb_spec k k') as [->|Hne].
  - destruct (d_get k' (rp_results r)) eqn:E; simpl; [apply d_get_set_same|exact E].
  - destruct (d_get k' (rp_results r)); simpl; auto. apply d_get_set_other. exact Hne.
Qed.

Lemma json_step_rec st c k : jst st ->
  d_get k (rp_results (fst (step st c))) = rec_eff (snd st) k c (d_get k (rp_results (fst st))).
Proof.
  destruct st as [r w]. unfold jst. intros K. cbn [fst snd] in K. rewrite (step_json r w c K).
  destruct c; simpl; auto; try apply d_upd_get.
  - destruct (N.eqb_spec k k0) as [->|Hne]; [apply d_get_set_same|apply d_get_set_other; exact Hne].
  - destruct (w_swapped w); reflexivity.
Qed.

Lemma d_upd_keys r k f : keys (rp_results (d_upd r k f)) = keys (rp_results r).
Proof.
  unfold d_upd. destruct (d_get k (rp_results r)) eqn:E; simpl; auto.
  rewrite keys_set. assert (H : In k (keys (rp_results r))) by (apply d_get_keys; congruence).
  apply mem_In in H. rewrite H. reflexivity.
Qed.

Definition gs_calls (cs : list call) : list name := flat_map (fun c => match c with CGetStatus k => [k] | _ => [] end) cs.
Lemma gs_calls_app a b : gs_calls (a ++ b) = gs_calls a ++ gs_calls b. Proof. apply flat_map_app. Qed.

Lemma json_step_keys st c : jst st ->
  (forall x, In x (keys (rp_results (fst (step st c)))) <-> In x (keys (rp_results (fst st))) \/ In x (gs_calls [c])) /\
  (NoDup (keys (rp_results (fst st))) -> NoDup (keys (rp_results (fst (step st c))))).
Proof.
  destruct st as [r w]. unfold jst. intros K. cbn [fst snd] in K. rewrite (step_json r w c K).
  destruct c; simpl; rewrite ?d_upd_keys; try (split; [intros x; tauto|auto]).
  - split; [|apply keys_set_NoDup]. intros x. rewrite keys_set_In. split; [intros [->|H]; auto|intros [H|[H|[]]]; auto].
  - destruct (w_swapped w); simpl; split; [intros x; tauto|auto|intros x; tauto|auto].
Qed.

Lemma json_run_keys cs : forall st, jst st ->
  (forall x, In x (keys (rp_results (fst (run st cs)))) <-> In x (keys (rp_results (fst st))) \/ In x (gs_calls cs)) /\
  (NoDup (keys (rp_results (fst st))) -> NoDup (keys (rp_results (fst (run st cs))))).
Proof.
  induction cs as [|c cs IH]; intros st K.
  - simpl. split; [intros x; tauto|auto].
  - rewrite run_cons. destruct (json_step_keys st c K) as [A B]. destruct (IH (step st c) (jst_step st c K)) as [C D].
    split; [|auto]. intros x. rewrite C, A. change (c :: cs) with ([c] ++ cs). rewrite gs_calls_app, in_app_iff. tauto.
Qed.

(* a report about a task whose key is missing raises KeyError *)
Definition about_call (c : call) : option name :=
  match c with CExecute k | CFailure k _ | CSuccess k | CSkipUpToDate k | CSkipIgnore k => Some k | _ => None end.

Lemma json_step_nocrash st c : jst st -> is_complete c = false ->
  (forall k, about_call c = Some k -> In k (keys (rp_results (fst st)))) ->
  rp_crashed (fst (step st c)) = rp_crashed (fst st).
Proof.
  destruct st as [r w]. unfold jst. intros K Hc Hk. cbn [fst snd] in K, Hk. rewrite (step_json r w c K).
  assert (Hu : forall k f, In k (keys (rp_results r)) -> rp_crashed (d_upd r k f) = rp_crashed r).
  { intros k f Hin. unfold d_upd. apply d_get_keys in Hin. destruct (d_get k (rp_results r)); [reflexivity|congruence]. }
  destruct c; simpl; auto; try discriminate; apply Hu; apply Hk; reflexivity.
Qed.

(* calls that do not create / finish the record of k *)
Definition touches (k : name) (c : call) : bool :=
  match c with
  | CGetStatus k' | CFailure k' _ | CSuccess k' | CSkipUpToDate k' | CSkipIgnore k' => N.eqb k k'
  | _ => false end.

Lemma start_start v : start (start v) = start v. Proof. reflexivity. Qed.

Lemma json_frame k cs : forall st, jst st -> forallb (fun c => negb (touches k c)) cs = true ->
  d_get k (rp_results (fst (run st cs))) =
  option_map (fun v => if mem k (cexecs cs) then start v else v) (d_get k (rp_results (fst st))).
Proof.
  induction cs as [|c cs IH]; intros st K Hc; simpl in *.
  - destruct (d_get k (rp_results (fst st))); reflexivity.
  - apply andb_true_iff in Hc. destruct Hc as [Hc1 Hc2]. apply negb_true_iff in Hc1.
    rewrite IH by (auto; apply jst_step; exact K). rewrite json_step_rec by exact K.
    destruct (d_get k (rp_results (fst st))) as [v|] eqn:E;
      destruct c; simpl in *; try rewrite Hc1; simpl; auto;
      unfold cexecs; simpl; fold (cexecs cs); unfold mem; simpl; fold (mem k (cexecs cs));
      destruct (N.eqb k k0); simpl; auto; destruct (mem k (cexecs cs)); reflexivity.
Qed.

Lemma json_run_nocrash cs : forall st, jst st -> forallb (fun c => negb (is_complete c)) cs = true ->
  (forall c k, In c cs -> about_call c = Some k -> In k (keys (rp_results (fst st)))) ->
  rp_crashed (fst (run st cs)) = rp_crashed (fst st).
Proof.
  induction cs as [|c cs IH]; intros st K Hc Hk; [reflexivity|].
  rewrite run_cons. simpl in Hc. apply andb_true_iff in Hc. destruct Hc as [Hc1 Hc2]. apply negb_true_iff in Hc1.
  rewrite IH; auto.
  - apply json_step_nocrash; auto. intros k Hk'. apply (Hk c k); auto. left; reflexivity.
  - apply jst_step; exact K.
  - intros c' k Hin Ha. apply (proj1 (json_step_keys st c K)). left. apply (Hk c' k); auto. right; exact Hin.
Qed.

(* ---------------------------------------------------------------- how the runners drive a reporter *)
Section Drive.
Variable proc : bool.
Notation cb := (cb ti proc).

Lemma echo_write p v o e c : In c (echo p v o e) -> exists s t, c = CWrite s p t.
Proof.
  unfold echo. rewrite in_app_iff. intros [H|H].
  - destruct (2 <=? v); [|destruct H]. apply in_map_iff in H. destruct H as (t & <- & _). eauto.
  - destruct (1 <=? v); [|destruct H]. apply in_map_iff in H. destruct H as (t & <- & _). eauto.
Qed.

(* every call of the chunk of one runner event: a write, or the callback(s) of that event *)
Lemma cb_cases e c : In c (cb e) ->
  (exists s p t, c = CWrite s p t) \/
  match e with
  | EGetStatus k => c = CGetStatus k | ESkipIgnore k => c = CSkipIgnore k | ESkipUpToDate k => c = CSkipUpToDate k
  | EFailure k kd => c = CFailure k kd | EExecute k => c = CExecute k | ESuccess k => c = CSuccess k
  | ETeardown k => c = CTeardown k \/ c = CCleanupError k
  | _ => False end.
Proof.
  destruct e; simpl; try tauto;
    try (intros [<-|[]]; auto; fail);
    try (intros [<-|[]]; left; eauto; fail).
  - intros [<-|H]; auto. left. apply echo_write in H. destruct H as (s & t & ->). eauto.
  - unfold td_calls. simpl. rewrite in_app_iff. intros [<-|[H|H]]; auto.
    + left. apply echo_write in H. destruct H as (s & t & ->). eauto.
    + destruct (ta_td_fail (ti k)); [destruct H as [<-|[]]; auto|destruct H].
Qed.

Lemma cb_nocomplete e : forallb (fun c => negb (is_complete c)) (cb e) = true.
Proof.
  apply forallb_forall. intros c Hin. apply cb_cases in Hin.
  destruct Hin as [(s & p & t & ->)|H]; [reflexivity|]. destruct e; try contradiction; try (subst; reflexivity).
  destruct H as [->| ->]; reflexivity.
Qed.
Lemma cbs_nocomplete tr : forallb (fun c => negb (is_complete c)) (flat_map cb tr) = true.
Proof. induction tr as [|e tr IH]; simpl; auto. rewrite forallb_app, cb_nocomplete, IH. reflexivity. Qed.

Definition needs_gs (e : event) : option name :=
  match e with EExecute k | ESuccess k | ESkipUpToDate k | ESkipIgnore k | EFailure k _ => Some k | _ => None end.

Lemma cb_about e c k : In c (cb e) -> about_call c = Some k -> needs_gs e = Some k.
Proof.
  intros Hin Ha. apply cb_cases in Hin. destruct Hin as [(s & p & t & ->)|H]; [discriminate|].
  destruct e; try contradiction; subst; simpl in *; try congruence. destruct H as [->| ->]; discriminate.
Qed.

Lemma cb_touches k e : e <> EGetStatus k -> is_final_ev k e = false ->
  forallb (fun c => negb (touches k c)) (cb e) = true.
Proof.
  intros Hg Hf. apply forallb_forall. intros c Hin. apply cb_cases in Hin.
  destruct Hin as [(s & p & t & ->)|H]; [reflexivity|].
  destruct e; try contradiction; simpl in Hf; subst; simpl; try rewrite Hf; auto.
  - apply negb_true_iff. apply N.eqb_neq. intros ->. apply Hg. reflexivity.
  - destruct H as [->| ->]; reflexivity.
Qed.
Lemma cbs_touches k tr : ~ In (EGetStatus k) tr -> ~ finished_in tr k ->
  forallb (fun c => negb (touches k c)) (flat_map cb tr) = true.
Proof.
  induction tr as [|e tr IH]; intros Hg Hf; simpl; auto. rewrite forallb_app, IH.
  - rewrite cb_touches; auto.
    + intros ->. apply Hg. left; reflexivity.
    + destruct (is_final_ev k e) eqn:E; auto. exfalso. apply Hf. unfold finished_in. simpl. rewrite E. reflexivity.
  - intros H. apply Hg. right; exact H.
  - intros H. apply Hf. unfold finished_in in *. simpl. rewrite H. apply orb_true_r.
Qed.

Lemma cexecs_echo p v o e : cexecs (echo p v o e) = [].
Proof.
  assert (H : forall l, (forall c, In c l -> exists s t, c = CWrite s p t) -> cexecs l = []).
  { induction l as [|c l IH]; intros Hl; auto. destruct (Hl c (or_introl eq_refl)) as (s & t & ->). simpl. apply IH.
    intros c Hc. apply Hl. right; exact Hc. }
  apply H. intros c. apply echo_write.
Qed.
Lemma gs_calls_echo p v o e : gs_calls (echo p v o e) = [].
Proof.
  assert (H : forall l, (forall c, In c l -> exists s t, c = CWrite s p t) -> gs_calls l = []).
  { induction l as [|c l IH]; intros Hl; auto. destruct (Hl c (or_introl eq_refl)) as (s & t & ->). simpl. apply IH.
    intros c Hc. apply Hl. right; exact Hc. }
  apply H. intros c. apply echo_write.
Qed.

Lemma cb_cexecs e : cexecs (cb e) = execs [e].
Proof.
  destruct e; simpl; auto.
  - unfold cexecs at 1. simpl. fold (cexecs (echo (where_ proc) (ta_verb (ti k)) (ta_out (ti k)) (ta_err (ti k)))).
    rewrite cexecs_echo. reflexivity.
  - unfold td_calls. change (cexecs ((CTeardown k :: echo (where_ proc) (ta_verb (ti k)) (ta_td_out (ti k)) (ta_td_err (ti k))) ++
                                      (if ta_td_fail (ti k) then [CCleanupError k] else [])) = []).
    rewrite cexecs_app. change (cexecs (CTeardown k :: ?l)) with (cexecs l). rewrite cexecs_echo.
    destruct (ta_td_fail (ti k)); reflexivity.
Qed.
Lemma cbs_cexecs tr : cexecs (flat_map cb tr) = execs tr.
Proof.
  induction tr as [|e tr IH]; [reflexivity|].
  change (flat_map cb (e :: tr)) with (cb e ++ flat_map cb tr). change (execs (e :: tr)) with (execs ([e] ++ tr)).
  rewrite cexecs_app, execs_app, IH, cb_cexecs. reflexivity.
Qed.

Definition gss (tr : list event) : list name := flat_map (fun e => match e with EGetStatus k => [k] | _ => [] end) tr.
Lemma gss_In k tr : In k (gss tr) <-> In (EGetStatus k) tr.
Proof.
  unfold gss. rewrite in_flat_map. split.
  - intros (e & Hin & Hk). destruct e; simpl in Hk; try contradiction. destruct Hk as [<-|[]]. exact Hin.
  - intros H. exists (EGetStatus k). split; auto. left; reflexivity.
Qed.
Lemma cb_gs e : gs_calls (cb e) = gss [e].
Proof.
  destruct e; simpl; auto.
  - unfold gs_calls at 1. simpl. fold (gs_calls (echo (where_ proc) (ta_verb (ti k)) (ta_out (ti k)) (ta_err (ti k)))).
    apply gs_calls_echo.
  - unfold td_calls. change (gs_calls ((CTeardown k :: echo (where_ proc) (ta_verb (ti k)) (ta_td_out (ti k)) (ta_td_err (ti k))) ++
                                      (if ta_td_fail (ti k) then [CCleanupError k] else [])) = []).
    rewrite gs_calls_app. change (gs_calls (CTeardown k :: ?l)) with (gs_calls l). rewrite gs_calls_echo.
    destruct (ta_td_fail (ti k)); reflexivity.
Qed.
Lemma gss_cons e tr : gss (e :: tr) = gss [e] ++ gss tr.
Proof. unfold gss. simpl. rewrite app_nil_r. reflexivity. Qed.
Lemma cbs_gs tr : gs_calls (flat_map cb tr) = gss tr.
Proof.
  induction tr as [|e tr IH]; [reflexivity|].
  change (flat_map cb (e :: tr)) with (cb e ++ flat_map cb tr). rewrite gss_cons, gs_calls_app, IH, cb_gs. reflexivity.
Qed.
End Drive.
End A.

(* ---------------------------------------------------------------- get_status first, once *)
Inductive gsok : list event -> Prop :=
| gs_nil : gsok []
| gs_snoc tr e : gsok tr -> (forall k, needs_gs e = Some k -> In (EGetStatus k) tr) ->
                 (forall k, e = EGetStatus k -> ~ In (EGetStatus k) tr) -> gsok (tr ++ [e]).

Lemma gsok_split tr : gsok tr ->
  forall pre e post k, tr = pre ++ e :: post -> needs_gs e = Some k -> In (EGetStatus k) pre.
Proof.
  induction 1 as [|tr e0 Ho IH Hn Hg]; intros pre e post k E Hk.
  - destruct pre; discriminate.
  - destruct post as [|p post'] using rev_ind.
    + apply app_inj_tail in E. destruct E as [-> ->]. apply Hn. exact Hk.
    + clear IHpost'. rewrite app_comm_cons, app_assoc in E. apply app_inj_tail in E. destruct E as [-> _].
      eapply IH; eauto.
Qed.

Lemma gsok_once tr : gsok tr ->
  forall pre k post, tr = pre ++ EGetStatus k :: post -> ~ In (EGetStatus k) pre /\ ~ In (EGetStatus k) post.
Proof.
  intros Hg.
  assert (H1 : forall pre k post, tr = pre ++ EGetStatus k :: post -> ~ In (EGetStatus k) pre).
  { induction Hg as [|tr e0 Ho IH Hn Hg']; intros pre k post E.
    - destruct pre; discriminate.
    - destruct post as [|p post'] using rev_ind.
      + apply app_inj_tail in E. destruct E as [-> ->]. apply Hg'. reflexivity.
      + clear IHpost'. rewrite app_comm_cons, app_assoc in E. apply app_inj_tail in E. destruct E as [-> _].
        eapply IH; eauto. }
  intros pre k post E. split; [eapply H1; eauto|].
  intros Hin. apply in_split in Hin. destruct Hin as (q1 & q2 & ->).
  apply (H1 (pre ++ EGetStatus k :: q1) k q2).
  - rewrite E, <- app_assoc. reflexivity.
  - apply in_or_app. right. left. reflexivity.
Qed.

Lemma gsok_prefix a : forall b, gsok (a ++ b) -> gsok a.
Proof.
  intros b. induction b as [|x b IH] using rev_ind; intros H.
  - rewrite app_nil_r in H. exact H.
  - apply IH. rewrite app_assoc in H. inversion H as [E|tr e H1 H2 H3 E].
    + destruct (a ++ b); discriminate.
    + apply app_inj_tail in E. destruct E as [-> _]. exact H1.
Qed.
Lemma fonce_prefix a : forall b, fonce (a ++ b) -> fonce a.
Proof.
  intros b. induction b as [|x b IH] using rev_ind; intros H.
  - rewrite app_nil_r in H. exact H.
  - apply IH. rewrite app_assoc in H. inversion H as [E|tr e H1 H2 E].
    + destruct (a ++ b); discriminate.
    + apply app_inj_tail in E. destruct E as [-> _]. exact H1.
Qed.

Lemma mem_execs k tr : mem k (execs tr) = true <-> In (EExecute k) tr.
Proof.
  rewrite mem_In. unfold execs. rewrite in_flat_map. split.
  - intros (e & Hin & Hk). destruct e; simpl in Hk; try contradiction. destruct Hk as [<-|[]]. exact Hin.
  - intros H. exists (EExecute k). split; auto. left; reflexivity.
Qed.
Lemma mem_app k a b : mem k (a ++ b) = mem k a || mem k b.
Proof. unfold mem. apply existsb_app. Qed.

(* ---------------------------------------------------------------- the JSON document of a run *)
Definition res_of (e : event) : option jres :=
  match e with
  | ESuccess _ => Some JSuccess | EFailure _ _ => Some JFail
  | ESkipUpToDate _ => Some JUpToDate | ESkipIgnore _ => Some JIgnore | _ => None end.
Definition err_of (e : event) : option N := match e with EFailure _ kd => Some kd | _ => None end.

Section J.
Variable ti : name -> tattr.
Variable proc : bool.
Variable fv : N.
Notation cb := (cb ti proc).
Notation run := (run ti).
Notation step := (step ti).
Definition cbs (tr : list event) : list call := flat_map cb tr.
Lemma cbs_app a b : cbs (a ++ b) = cbs a ++ cbs b. Proof. apply flat_map_app. Qed.

Definition jinit : rep * world := init RJson fv.
Lemma jst_init : jst jinit. Proof. reflexivity. Qed.

(* the state of JsonReporter just before complete_run *)
Definition jbefore (trA : list event) : rep * world := run jinit (CInitialize :: cbs trA).
Lemma jbefore_eq trA : jbefore trA = run jinit (cbs trA).
Proof. reflexivity. Qed.

Lemma jbefore_executed trA : w_executed (snd (jbefore trA)) = execs trA.
Proof. rewrite jbefore_eq, run_executed. unfold cbs. rewrite cbs_cexecs. reflexivity. Qed.

Lemma final_cb k e : is_final_ev k e = true -> exists c, cb e = [c] /\ touches k c = true /\
  forall w v, rec_eff ti w k c v = option_map (set_result ti w k (match res_of e with Some r => r | None => JFail end) (err_of e)) v.
Proof.
  destruct e; simpl; try discriminate; intros E; apply N.eqb_eq in E; subst k0;
    eexists; (split; [reflexivity|]); simpl; rewrite N.eqb_refl; auto.
Qed.

Lemma json_record trA k pre e post :
  gsok trA -> fonce trA -> trA = pre ++ e :: post -> is_final_ev k e = true ->
  d_get k (rp_results (fst (jbefore trA))) =
  Some (Build_trec (res_of e) (mem k (execs trA))
                   (if mem k (execs pre) then ta_out (ti k) else [])
                   (if mem k (execs pre) then ta_err (ti k) else []) (err_of e)).
Proof.
  intros Hg Hf E Hfin.
  assert (Hn : needs_gs e = Some k).
  { destruct e; simpl in *; try discriminate; apply N.eqb_eq in Hfin; congruence. }
  pose proof (gsok_split trA Hg pre e post k E Hn) as Hin.
  apply in_split in Hin. destruct Hin as (p1 & p2 & Ep).
  assert (E2 : trA = p1 ++ EGetStatus k :: (p2 ++ e :: post)) by (rewrite E, Ep, <- app_assoc; reflexivity).
  destruct (gsok_once trA Hg p1 k _ E2) as [G1 G2].
  destruct (fonce_unique trA Hf pre e post k E Hfin) as [F1 F2].
  assert (F3 : ~ finished_in p2 k).
  { intros H. apply F1. rewrite Ep. unfold finished_in in *. rewrite existsb_app. simpl. rewrite H. apply orb_true_r. }
  assert (X1 : mem k (execs p1) = false).
  { destruct (mem k (execs p1)) eqn:M; auto. exfalso. apply mem_execs in M. apply in_split in M. destruct M as (a & b & ->).
    apply G1. apply in_or_app. left.
    apply (gsok_split trA Hg a (EExecute k) (b ++ EGetStatus k :: p2 ++ e :: post) k); [|reflexivity].
    rewrite E2, <- app_assoc. reflexivity. }
  assert (G3 : ~ In (EGetStatus k) p2) by (intros H; apply G2; apply in_or_app; left; exact H).
  assert (G4 : ~ In (EGetStatus k) post) by (intros H; apply G2; apply in_or_app; right; right; exact H).
  destruct (final_cb k e Hfin) as (c & Ec & Tc & Rc).
  rewrite jbefore_eq, E2. rewrite !cbs_app. change (cbs (EGetStatus k :: p2 ++ e :: post)) with (CGetStatus k :: cbs (p2 ++ e :: post)).
  rewrite cbs_app. change (cbs (e :: post)) with (cb e ++ cbs post). rewrite Ec.
  rewrite run_app, run_cons, run_app. change (([c] ++ cbs post)) with (c :: cbs post). rewrite run_cons.
  set (s1 := run jinit (cbs p1)).
  assert (K1 : jst s1) by (apply jst_run; apply jst_init).
  set (s2 := step s1 (CGetStatus k)).
  assert (K2 : jst s2) by (apply jst_step; exact K1).
  assert (R2 : d_get k (rp_results (fst s2)) = Some fresh).
  { unfold s2. rewrite json_step_rec by exact K1. simpl. rewrite N.eqb_refl. reflexivity. }
  set (s3 := run s2 (cbs p2)).
  assert (K3 : jst s3) by (apply jst_run; exact K2).
  assert (R3 : d_get k (rp_results (fst s3)) = Some (if mem k (execs p2) then start fresh else fresh)).
  { unfold s3. rewrite json_frame by (auto; apply cbs_touches; auto). rewrite R2. simpl. unfold cbs. rewrite cbs_cexecs. reflexivity. }
  assert (W3 : w_executed (snd s3) = execs pre).
  { unfold s3, s2. rewrite run_executed, step_executed. unfold s1. rewrite run_executed. simpl.
    unfold cbs. rewrite !cbs_cexecs. rewrite Ep, !execs_app. simpl. rewrite app_nil_r. reflexivity. }
  set (s4 := step s3 c).
  assert (K4 : jst s4) by (apply jst_step; exact K3).
  assert (R4 : d_get k (rp_results (fst s4)) =
               Some (set_result ti (snd s3) k (match res_of e with Some r => r | None => JFail end) (err_of e)
                                (if mem k (execs p2) then start fresh else fresh))).
  { unfold s4. rewrite json_step_rec by exact K3. rewrite Rc, R3. reflexivity. }
  rewrite json_frame by (auto; apply cbs_touches; auto). rewrite R4. simpl. unfold cbs. rewrite cbs_cexecs.
  unfold set_result. rewrite W3.
  assert (X : mem k (execs (p1 ++ EGetStatus k :: p2 ++ e :: post)) = mem k (execs p2) || mem k (execs post)).
  { replace (p1 ++ EGetStatus k :: p2 ++ e :: post) with (p1 ++ [EGetStatus k] ++ p2 ++ [e] ++ post) by reflexivity.
    rewrite !execs_app, !mem_app, X1.
    replace (execs [e]) with (@nil name) by (destruct e; simpl in *; try discriminate; reflexivity). reflexivity. }
  rewrite X.
  assert (Hres : Some (match res_of e with Some r => r | None => JFail end) = res_of e)
    by (destruct e; simpl in *; try discriminate; reflexivity).
  rewrite Hres.
  destruct (mem k (execs post)), (mem k (execs p2)); simpl; rewrite ?orb_true_r; reflexivity.
Qed.

Lemma json_unfinished trA k :
  gsok trA -> In (EGetStatus k) trA -> ~ finished_in trA k ->
  d_get k (rp_results (fst (jbefore trA))) = Some (Build_trec None (mem k (execs trA)) [] [] None).
Proof.
  intros Hg Hin Hf. apply in_split in Hin. destruct Hin as (p1 & p2 & E2).
  destruct (gsok_once trA Hg p1 k _ E2) as [G1 G2].
  assert (F3 : ~ finished_in p2 k).
  { intros H. apply Hf. rewrite E2. unfold finished_in in *. rewrite existsb_app. simpl. rewrite H. apply orb_true_r. }
  assert (X1 : mem k (execs p1) = false).
  { destruct (mem k (execs p1)) eqn:M; auto. exfalso. apply mem_execs in M. apply in_split in M. destruct M as (a & b & ->).
    apply G1. apply in_or_app. left.
    apply (gsok_split trA Hg a (EExecute k) (b ++ EGetStatus k :: p2) k); [|reflexivity].
    rewrite E2, <- app_assoc. reflexivity. }
  rewrite jbefore_eq, E2, cbs_app. change (cbs (EGetStatus k :: p2)) with (CGetStatus k :: cbs p2).
  rewrite run_app, run_cons.
  set (s1 := run jinit (cbs p1)).
  assert (K1 : jst s1) by (apply jst_run; apply jst_init).
  assert (R2 : d_get k (rp_results (fst (step s1 (CGetStatus k)))) = Some fresh).
  { rewrite json_step_rec by exact K1. simpl. rewrite N.eqb_refl. reflexivity. }
  rewrite json_frame by (try (apply jst_step; exact K1); apply cbs_touches; auto).
  rewrite R2. simpl. unfold cbs. rewrite cbs_cexecs.
  replace (p1 ++ EGetStatus k :: p2) with (p1 ++ [EGetStatus k] ++ p2) by reflexivity.
  rewrite !execs_app, !mem_app, X1. simpl. destruct (mem k (execs p2)); reflexivity.
Qed.

Lemma json_keys trA :
  NoDup (keys (rp_results (fst (jbefore trA)))) /\
  forall k, In k (keys (rp_results (fst (jbefore trA)))) <-> In (EGetStatus k) trA.
Proof.
  rewrite jbefore_eq. destruct (json_run_keys ti (cbs trA) jinit jst_init) as [A B]. split.
  - apply B. constructor.
  - intros k. rewrite A. unfold cbs. rewrite cbs_gs, gss_In. simpl. tauto.
Qed.

Lemma json_events_nocrash tr : forall st, jst st ->
  (forall pre e post k, tr = pre ++ e :: post -> needs_gs e = Some k ->
     In (EGetStatus k) pre \/ In k (keys (rp_results (fst st)))) ->
  rp_crashed (fst (run st (cbs tr))) = rp_crashed (fst st).
Proof.
  induction tr as [|e tr IH]; intros st K H; [reflexivity|].
  change (cbs (e :: tr)) with (cb e ++ cbs tr). rewrite run_app.
  rewrite IH.
  - apply json_run_nocrash; auto; [apply cb_nocomplete|].
    intros c k Hin Ha. pose proof (cb_about ti proc e c k Hin Ha) as Hn.
    destruct (H [] e tr k eq_refl Hn) as [[]|Hk]. exact Hk.
  - apply jst_run. exact K.
  - intros pre e' post k E Hn.
    destruct (H (e :: pre) e' post k) as [Hin|Hin]; [rewrite E; reflexivity|exact Hn| |].
    + destruct Hin as [->|Hin]; [|left; exact Hin]. right.
      destruct (json_run_keys ti (cb (EGetStatus k)) st K) as [A _]. apply (proj2 (A k)). right. rewrite cb_gs. simpl. auto.
    + right. destruct (json_run_keys ti (cb e) st K) as [A _]. apply (proj2 (A k)). left. exact Hin.
Qed.

Lemma json_nocrash trA : gsok trA -> rp_crashed (fst (jbefore trA)) = false.
Proof.
  intros Hg. rewrite jbefore_eq, json_events_nocrash; [reflexivity|apply jst_init|].
  intros pre e post k E Hn. left. eapply gsok_split; eauto.
Qed.

Lemma json_world trA : jpre jinit (jbefore trA) (cbs trA).
Proof. rewrite jbefore_eq. apply json_run_pre; [apply jst_init|reflexivity|apply cbs_nocomplete]. Qed.

(* ---- Runner.finish: close -> teardown -> complete_run, then the exception (if any) ---- *)
Definition is_close (e : event) : bool := match e with EClose => true | _ => false end.
Definition is_marker (e : event) : bool := match e with ECycleError _ | EHoldError | EInterrupt _ => true | _ => false end.
Definition marker (mk : list event) : Prop := mk = [] \/ exists e, mk = [e] /\ is_marker e = true.

Lemma calls_of_body body : forall rest, forallb (fun e => negb (is_close e)) body = true ->
  calls_of ti proc (body ++ rest) = cbs body ++ calls_of ti proc rest.
Proof.
  induction body as [|e body IH]; intros rest H; [reflexivity|].
  simpl in H. apply andb_true_iff in H. destruct H as [H1 H2].
  change (cbs (e :: body)) with (cb e ++ cbs body). rewrite <- app_assoc, <- IH by exact H2.
  destruct e; try discriminate; reflexivity.
Qed.
Lemma finish_calls_tds tds mk : marker mk ->
  finish_calls ti proc (map ETeardown tds ++ mk) = cbs (map ETeardown tds) ++ CCompleteRun :: cbs mk.
Proof.
  intros Hm. induction tds as [|k tds IH].
  - destruct Hm as [->|(m & -> & Hm)]; [reflexivity|]. destruct m; try discriminate; reflexivity.
  - change (map ETeardown (k :: tds) ++ mk) with (ETeardown k :: map ETeardown tds ++ mk).
    change (cbs (map ETeardown (k :: tds))) with (cb (ETeardown k) ++ cbs (map ETeardown tds)).
    rewrite <- app_assoc, <- IH. reflexivity.
Qed.

Lemma calls_of_shape body tds mk : forallb (fun e => negb (is_close e)) body = true -> marker mk ->
  calls_of ti proc ((body ++ EClose :: map ETeardown tds) ++ mk) =
  cbs (body ++ EClose :: map ETeardown tds) ++ CCompleteRun :: cbs mk.
Proof.
  intros Hb Hm. rewrite <- app_assoc. rewrite calls_of_body by exact Hb.
  change (calls_of ti proc ((EClose :: map ETeardown tds) ++ mk)) with (finish_calls ti proc (map ETeardown tds ++ mk)).
  rewrite finish_calls_tds by exact Hm. rewrite cbs_app. change (cbs (EClose :: map ETeardown tds)) with (cbs (map ETeardown tds)).
  rewrite <- app_assoc. reflexivity.
Qed.

Lemma step_write st s p t : step st (CWrite s p t) = (fst st, sys_write s p (Raw t) (snd st)).
Proof. destruct st. reflexivity. Qed.

(* the document JsonReporter.complete_run writes for the events trA *)
Definition doc_of (trA : list event) : jdoc :=
  {| d_tasks := rp_results (fst (jbefore trA));
     d_out := main_toks SOut (cbs trA);
     d_err := main_toks SErr (cbs trA) ++ err_msgs (cbs trA) |}.

Lemma json_complete trA mk : marker mk ->
  let st := run (jbefore trA) (CCompleteRun :: cbs mk) in
  w_stdout (snd st) = [ODoc (doc_of trA)] /\
  w_stderr (snd st) = map OChunk (main_toks SErr (cbs mk)) /\
  rp_crashed (fst st) = rp_crashed (fst (jbefore trA)).
Proof.
  intros Hm. cbv zeta. rewrite run_cons.
  pose proof (json_world trA) as [A1 A2 A3 A4 A5 A6 A7].
  assert (K : jst (jbefore trA)) by (apply jst_run; apply jst_init).
  destruct (jbefore trA) as [r w] eqn:Eb. unfold jst in K. cbn [fst snd] in *.
  rewrite (step_json ti r w CCompleteRun K). cbn [json_step]. rewrite A1.
  assert (Ed : {| d_tasks := rp_results r; d_out := w_cap_out w; d_err := w_cap_err w ++ rp_errors r |} = doc_of trA).
  { unfold doc_of. rewrite Eb. cbn [fst]. rewrite A4, A5, A7. reflexivity. }
  rewrite Ed.
  destruct Hm as [->|(m & -> & Hm)].
  - simpl. rewrite A2, A3. auto.
  - destruct m; try discriminate; simpl; rewrite A2, A3; auto.
Qed.
End J.

(* the assembled statement about `doit run --reporter json` *)
Theorem json_document ti proc fv body tds mk :
  let trA := body ++ EClose :: map ETeardown tds in
  forallb (fun e => negb (is_close e)) body = true -> marker mk -> gsok trA -> fonce trA ->
  let st := report ti proc RJson fv (trA ++ mk) in
  let doc := doc_of ti proc fv trA in
  w_stdout (snd st) = [ODoc doc] /\
  w_stderr (snd st) = map OChunk (main_toks SErr (cbs ti proc mk)) /\
  rp_crashed (fst st) = false /\
  NoDup (map fst (d_tasks doc)) /\
  (forall k, In k (map fst (d_tasks doc)) <-> In (EGetStatus k) trA) /\
  (forall k pre e post, trA = pre ++ e :: post -> is_final_ev k e = true ->
     In (k, Build_trec (res_of e) (mem k (execs trA))
                       (if mem k (execs pre) then ta_out (ti k) else [])
                       (if mem k (execs pre) then ta_err (ti k) else []) (err_of e)) (d_tasks doc)) /\
  (forall k, In (EGetStatus k) trA -> ~ finished_in trA k ->
     In (k, Build_trec None (mem k (execs trA)) [] [] None) (d_tasks doc)) /\
  d_out doc = main_toks SOut (cbs ti proc trA) /\
  d_err doc = main_toks SErr (cbs ti proc trA) ++ err_msgs (cbs ti proc trA).
Proof.
  cbv zeta. intros Hb Hm Hg Hf.
  set (trA := body ++ EClose :: map ETeardown tds) in *.
  assert (Er : report ti proc RJson fv (trA ++ mk) = run ti (jbefore ti proc fv trA) (CCompleteRun :: cbs ti proc mk)).
  { unfold report, trA. rewrite calls_of_shape by auto. unfold jbefore, jinit.
    rewrite app_comm_cons. apply run_app. }
  rewrite Er. destruct (json_complete ti proc fv trA mk Hm) as (A & B & C). cbv zeta in A, B, C.
  destruct (json_keys ti proc fv trA) as [N1 N2].
  split; [exact A|]. split; [exact B|]. split; [rewrite C; apply json_nocrash; exact Hg|].
  split; [exact N1|]. split; [exact N2|].
  split; [|split; [|split; reflexivity]].
  - intros k pre e post E Hfin. apply (d_get_In ti _ _ _ N1). eapply json_record; eauto.
  - intros k Hin Hnf. apply (d_get_In ti _ _ _ N1). apply json_unfinished; auto.
Qed.

(* ---------------------------------------------------------------- console reporters *)
Section Con.
Variable ti : name -> tattr.
Notation step := (step ti).
Notation run := (run ti).

Definition is_result_line (l : cline) : bool :=
  match l with LExec _ | LUpToDate _ | LIgnore _ | LFail _ _ | LEFail _ _ => true | _ => false end.
Definition result_lines (l : list oitem) : list cline :=
  flat_map (fun i => match i with OChunk (Line l) => if is_result_line l then [l] else [] | _ => [] end) l.
Lemma result_lines_app a b : result_lines (a ++ b) = result_lines a ++ result_lines b.
Proof. apply flat_map_app. Qed.

(* the result lines a reporter of class [kind] prints for one runner event *)
Definition shown (kind : rkind) (e : event) : list cline :=
  match e with
  | EExecute k =>
      match kind with
      | RConsole | RExecutedOnly => if ta_actions (ti k) && negb (ta_private (ti k)) then [LExec k] else []
      | _ => [] end
  | ESkipUpToDate k => match kind with RConsole => if negb (ta_private (ti k)) then [LUpToDate k] else [] | _ => [] end
  | ESkipIgnore k => match kind with RConsole => [LIgnore k] | _ => [] end
  | EFailure k kd =>      (* only a failure whose `report` attribute is True *)
      if fail_report ti k kd
      then match kind with RConsole | RExecutedOnly => [LFail k kd] | RErrorOnly => [LEFail k kd] | _ => [] end
      else []
  | _ => [] end.
Definition shown_call (kind : rkind) (c : call) : list cline :=
  match c with
  | CExecute k => shown kind (EExecute k) | CSkipUpToDate k => shown kind (ESkipUpToDate k)
  | CSkipIgnore k => shown kind (ESkipIgnore k) | CFailure k kd => shown kind (EFailure k kd)
  | _ => [] end.

Definition nores (c : chunk) : bool := match c with Line l => negb (is_result_line l) | Raw _ => true end.
Lemma nores_lines l : forallb nores l = true -> result_lines (map OChunk l) = [].
Proof.
  induction l as [|c l IH]; intros H; [reflexivity|]. simpl in H. apply andb_true_iff in H. destruct H as [H1 H2].
  change (map OChunk (c :: l)) with ([OChunk c] ++ map OChunk l). rewrite result_lines_app, IH by exact H2.
  destruct c as [t|ln]; simpl in *; [reflexivity|]. apply negb_true_iff in H1. rewrite H1. reflexivity.
Qed.
Lemma nores_raw l : forallb nores (map Raw l) = true.
Proof. induction l; simpl; auto. Qed.
Lemma summary_nores r w : forallb nores (summary ti r w) = true.
Proof.
  unfold summary. rewrite forallb_app. apply andb_true_iff. split.
  - induction (rp_failures r) as [|[k kd] l IH]; [reflexivity|]. simpl. rewrite forallb_app, IH, andb_true_r.
    destruct (negb (mem k (w_executed w))); [reflexivity|].
    rewrite !forallb_app.
    destruct ((ta_verb (ti k) <? 1) || (0 <? rp_fv r)), ((ta_verb (ti k) <? 2) || (rp_fv r =? 2)); simpl; rewrite ?nores_raw; reflexivity.
  - destruct (is_nil (rp_rt r)); [reflexivity|]. simpl. induction (rp_rt r); simpl; auto.
Qed.

Lemma stdout_real_out l w : w_stdout (real_write SOut l w) = w_stdout w ++ l. Proof. reflexivity. Qed.
Lemma stdout_real_err l w : w_stdout (real_write SErr l w) = w_stdout w. Proof. reflexivity. Qed.
Lemma stdout_sys_err p c w : w_stdout (sys_write SErr p c w) = w_stdout w.
Proof. unfold sys_write. destruct (w_swapped w); [destruct p|]; reflexivity. Qed.
Lemma lines_sys_raw s p t w : result_lines (w_stdout (sys_write s p (Raw t) w)) = result_lines (w_stdout w).
Proof.
  unfold sys_write. destruct (w_swapped w); [destruct p; destruct s; reflexivity|].
  destruct s; simpl; [rewrite result_lines_app; simpl; rewrite app_nil_r|]; reflexivity.
Qed.
Lemma stdout_mark k w : w_stdout (mark_exec k w) = w_stdout w. Proof. reflexivity. Qed.

Lemma console_step_lines st c : rp_kind (fst st) <> RJson ->
  result_lines (w_stdout (snd (step st c))) = result_lines (w_stdout (snd st)) ++ shown_call (rp_kind (fst st)) c.
Proof.
  destruct st as [r w]. cbn [fst snd]. intros K. unfold Report.step, rep_step, console_step, zero_step, out_write.
  destruct (rp_kind r) eqn:Ek; try congruence; destruct c; cbn [fst snd shown_call shown];
    rewrite ?stdout_mark, ?lines_sys_raw, ?stdout_sys_err, ?app_nil_r; auto;
    repeat match goal with |- context [if ?b then _ else _] => destruct b end;
    cbn [fst snd]; rewrite ?stdout_real_out, ?result_lines_app, ?app_nil_r; auto.
  all: try (rewrite nores_lines by apply summary_nores; rewrite app_nil_r; reflexivity).
Qed.

Lemma console_run_lines cs : forall st, rp_kind (fst st) <> RJson ->
  result_lines (w_stdout (snd (run st cs))) =
  result_lines (w_stdout (snd st)) ++ flat_map (shown_call (rp_kind (fst st))) cs.
Proof.
  induction cs as [|c cs IH]; intros st K; simpl; [rewrite app_nil_r; reflexivity|].
  rewrite IH by (rewrite step_kind; exact K). rewrite step_kind, console_step_lines by exact K.
  rewrite <- app_assoc. reflexivity.
Qed.

Section Drive.
Variable proc : bool.
Variable kind : rkind.
Notation cb := (cb ti proc).

Lemma shown_echo p v o e : flat_map (shown_call kind) (echo p v o e) = [].
Proof.
  assert (H : forall l, (forall c, In c l -> exists s t, c = CWrite s p t) -> flat_map (shown_call kind) l = []).
  { induction l as [|c l IH]; intros Hl; auto. destruct (Hl c (or_introl eq_refl)) as (s & t & ->). simpl. apply IH.
    intros c Hc. apply Hl. right; exact Hc. }
  apply H. intros c. apply echo_write.
Qed.
Lemma shown_cb e : flat_map (shown_call kind) (cb e) = shown kind e.
Proof.
  destruct e; simpl; rewrite ?app_nil_r; auto.
  - rewrite shown_echo, app_nil_r. reflexivity.
  - unfold td_calls. change (flat_map (shown_call kind) ((CTeardown k :: echo (where_ proc) (ta_verb (ti k)) (ta_td_out (ti k)) (ta_td_err (ti k))) ++
                                      (if ta_td_fail (ti k) then [CCleanupError k] else [])) = []).
    rewrite flat_map_app. change (flat_map (shown_call kind) (CTeardown k :: ?l)) with (flat_map (shown_call kind) l).
    rewrite shown_echo. destruct (ta_td_fail (ti k)); reflexivity.
Qed.
Lemma shown_cbs tr : flat_map (shown_call kind) (flat_map cb tr) = flat_map (shown kind) tr.
Proof.
  induction tr as [|e tr IH]; [reflexivity|]. simpl. rewrite flat_map_app, IH, shown_cb. reflexivity.
Qed.
Lemma shown_finish tr : flat_map (shown_call kind) (finish_calls ti proc tr) = flat_map (shown kind) tr.
Proof.
  induction tr as [|e tr IH]; [reflexivity|].
  destruct e; try (change (finish_calls ti proc (?e0 :: tr)) with (CCompleteRun :: flat_map cb (e0 :: tr));
                   change (flat_map (shown_call kind) (CCompleteRun :: ?l)) with (flat_map (shown_call kind) l);
                   apply shown_cbs).
  change (finish_calls ti proc (ETeardown k :: tr)) with (cb (ETeardown k) ++ finish_calls ti proc tr).
  rewrite flat_map_app, IH, shown_cb. reflexivity.
Qed.
Lemma shown_calls_of tr : flat_map (shown_call kind) (calls_of ti proc tr) = flat_map (shown kind) tr.
Proof.
  induction tr as [|e tr IH]; [reflexivity|].
  destruct e; try (change (calls_of ti proc (?e0 :: tr)) with (cb e0 ++ calls_of ti proc tr);
                   rewrite flat_map_app, IH, shown_cb; reflexivity).
  change (calls_of ti proc (EClose :: tr)) with (finish_calls ti proc tr).
  change (flat_map (shown kind) (EClose :: tr)) with (flat_map (shown kind) tr). apply shown_finish.
Qed.

(* every console-family reporter, every runner event list: the result lines on stdout are, in order,
   exactly the ones the class shows for the reports made *)
Theorem console_result_lines fv tr : kind <> RJson ->
  result_lines (w_stdout (snd (report ti proc kind fv tr))) = flat_map (shown kind) tr.
Proof.
  intros K. unfold report. rewrite console_run_lines by exact K. simpl. apply shown_calls_of.
Qed.
End Drive.

(* ---- at most one final-result line per task ---- *)
Definition final_line_of (k : name) (l : cline) : bool :=
  match l with LUpToDate k' | LIgnore k' | LFail k' _ | LEFail k' _ => N.eqb k k' | _ => false end.
Definition exec_line_of (k : name) (l : cline) : bool := match l with LExec k' => N.eqb k k' | _ => false end.

Lemma shown_final kind k e : filter (final_line_of k) (shown kind e) <> [] -> is_final_ev k e = true.
Proof.
  destruct e; simpl; try congruence; destruct kind; simpl; try congruence;
    repeat (match goal with |- context [if ?b then _ else _] => destruct b eqn:? end; simpl); intros; congruence.
Qed.
Lemma shown_final_len kind k e : (length (filter (final_line_of k) (shown kind e)) <= 1)%nat.
Proof.
  destruct e; simpl; auto; destruct kind; simpl; auto;
    repeat (match goal with |- context [if ?b then _ else _] => destruct b end; simpl); auto.
Qed.
Lemma shown_finals_finished kind k tr :
  filter (final_line_of k) (flat_map (shown kind) tr) <> [] -> finished_in tr k.
Proof.
  induction tr as [|e tr IH]; simpl; [congruence|]. rewrite filter_app. intros H.
  unfold finished_in. simpl. destruct (filter (final_line_of k) (shown kind e)) eqn:E.
  - simpl in H. rewrite (IH H). apply orb_true_r.
  - rewrite (shown_final kind k e); [reflexivity|]. rewrite E. discriminate.
Qed.

Theorem console_one_final_line kind tr k : fonce tr ->
  (length (filter (final_line_of k) (flat_map (shown kind) tr)) <= 1)%nat.
Proof.
  induction 1 as [|tr e Ho IH He]; [simpl; lia|].
  rewrite flat_map_app, filter_app, app_length. simpl. rewrite app_nil_r.
  pose proof (shown_final_len kind k e) as H1.
  destruct (filter (final_line_of k) (shown kind e)) eqn:E; [simpl; lia|].
  assert (Hf : is_final_ev k e = true) by (apply (shown_final kind); rewrite E; discriminate).
  destruct (filter (final_line_of k) (flat_map (shown kind) tr)) eqn:E2; [simpl in *; lia|].
  exfalso. apply (He k Hf). apply (shown_finals_finished kind). rewrite E2. discriminate.
Qed.

(* ... and exactly one when the task has a final report of a kind the class shows *)
Theorem console_final_line_shown kind tr k e : fonce tr -> In e tr ->
  filter (final_line_of k) (shown kind e) <> [] ->
  length (filter (final_line_of k) (flat_map (shown kind) tr)) = 1%nat.
Proof.
  intros Hf Hin Hs. pose proof (console_one_final_line kind tr k Hf) as H1.
  apply in_split in Hin. destruct Hin as (a & b & ->).
  rewrite flat_map_app, filter_app, app_length in *. simpl in *. rewrite filter_app, app_length in *.
  destruct (filter (final_line_of k) (shown kind e)); [congruence|]. simpl in *. lia.
Qed.

Lemma shown_exec_len kind k tr :
  (length (filter (exec_line_of k) (flat_map (shown kind) tr)) <= count_occ N.eq_dec (execs tr) k)%nat.
Proof.
  induction tr as [|e tr IH]; [simpl; lia|].
  change (flat_map (shown kind) (e :: tr)) with (shown kind e ++ flat_map (shown kind) tr).
  rewrite filter_app, app_length.
  change (execs (e :: tr)) with (execs ([e] ++ tr)). rewrite execs_app, count_occ_app.
  assert (H : (length (filter (exec_line_of k) (shown kind e)) <= count_occ N.eq_dec (execs [e]) k)%nat).
  { destruct e; simpl; auto; destruct kind; simpl; auto;
      repeat (match goal with |- context [if ?b then _ else _] => destruct b eqn:? end; simpl); auto; try lia;
      exfalso; match goal with H : (_ =? _) = true |- _ => apply N.eqb_eq in H end; congruence. }
  apply Nat.add_le_mono; assumption.
Qed.
Theorem console_one_exec_line kind tr k : NoDup (execs tr) ->
  (length (filter (exec_line_of k) (flat_map (shown kind) tr)) <= 1)%nat.
Proof.
  intros Hn. pose proof (shown_exec_len kind k tr) as H.
  pose proof (proj1 (NoDup_count_occ N.eq_dec (execs tr)) Hn k). lia.
Qed.

(* ZeroReporter writes no line at all on its outstream *)
Definition lines_of (l : list oitem) : list cline := flat_map (fun i => match i with OChunk (Line l) => [l] | _ => [] end) l.
Lemma lines_of_app a b : lines_of (a ++ b) = lines_of a ++ lines_of b. Proof. apply flat_map_app. Qed.
Lemma zero_step_lines st c : rp_kind (fst st) = RZero -> lines_of (w_stdout (snd (step st c))) = lines_of (w_stdout (snd st)).
Proof.
  destruct st as [r w]. cbn [fst snd]. intros K. unfold Report.step, rep_step, zero_step. rewrite K.
  destruct c; cbn [fst snd]; rewrite ?stdout_mark, ?stdout_sys_err; auto.
  unfold sys_write. destruct (w_swapped w); [destruct p; destruct s; reflexivity|].
  destruct s; simpl; [rewrite lines_of_app; simpl; rewrite app_nil_r|]; reflexivity.
Qed.
Theorem zero_no_lines proc fv tr : lines_of (w_stdout (snd (report ti proc RZero fv tr))) = [].
Proof.
  unfold report.
  assert (H : forall cs st, rp_kind (fst st) = RZero -> lines_of (w_stdout (snd (run st cs))) = lines_of (w_stdout (snd st))).
  { induction cs as [|c cs IH]; intros st K; [reflexivity|]. simpl. rewrite IH by (rewrite step_kind; exact K).
    apply zero_step_lines. exact K. }
  rewrite H; reflexivity.
Qed.
End Con.

(* ================================================================== Part B *)
(* two more facts about the traces of the runner models: reporter.get_status(k) is called once, before
   any other report about k; dep_manager.close() happens once, at the start of finish() *)
Section GSinv.
Variable tasks : name -> option task.
Variable wake_rank : name -> name -> N.
Variable calc_rank : name -> N.
Variable continue_ always : bool.
Notation st_of := (st_of tasks).
Notation set_status := (set_status tasks).

Record GS (d : dstate) (tr : list event) : Prop := {
  g_ok : gsok tr;
  g_st : forall x, st_of d x <> SNone -> In (EGetStatus x) tr;
  g_ts : forall x, In (EGetStatus x) tr -> st_of d x <> SNone;
  g_nc : forallb (fun e => negb (is_close e)) tr = true
}.
(* while task k is being selected / its result processed *)
Record GSk (k : name) (d : dstate) (tr : list event) : Prop := {
  k_ok : gsok tr;
  k_in : In (EGetStatus k) tr;
  k_st : forall x, st_of d x <> SNone -> In (EGetStatus x) tr;
  k_ts : forall x, x <> k -> In (EGetStatus x) tr -> st_of d x <> SNone;
  k_nc : forallb (fun e => negb (is_close e)) tr = true
}.
(* an event the runner may emit about task k once get_status(k) was reported *)
Definition aboutk (k : name) (e : event) : Prop :=
  (forall x, needs_gs e = Some x -> x = k) /\ (forall x, e <> EGetStatus x) /\ is_close e = false.

Lemma GS_GSk d tr k : GS d tr -> In (EGetStatus k) tr -> GSk k d tr.
Proof. intros [A B C D] H. split; auto. Qed.
Lemma GSk_GS d tr k : GSk k d tr -> st_of d k <> SNone -> GS d tr.
Proof.
  intros [A I B C D] H. split; auto. intros x Hx. destruct (N.eqb_spec x k) as [->|Hne]; auto.
Qed.
Lemma GSk_get d tr k : GS d tr -> st_of d k = SNone -> GSk k d (tr ++ [EGetStatus k]).
Proof.
  intros [A B C D] H. split.
  - constructor; auto; [intros x Hx; discriminate|]. intros x E Hin. inversion E; subst. eapply C; eauto.
  - apply in_or_app. right. left. reflexivity.
  - intros x Hx. apply in_or_app. left. auto.
  - intros x Hne Hin. apply in_app_iff in Hin. destruct Hin as [Hin|[Hin|[]]]; auto. inversion Hin; subst. congruence.
  - rewrite forallb_app, D. reflexivity.
Qed.
Lemma GSk_set d tr k s : GSk k d tr -> GSk k (set_status d k s) tr.
Proof.
  intros [A I B C D]. split; auto.
  - intros x Hx. rewrite set_status_st in Hx. destruct (N.eq_dec x k) as [E|Hne]; [subst; auto|].
    apply B. apply N.eqb_neq in Hne. rewrite Hne in Hx. exact Hx.
  - intros x Hne Hin. rewrite set_status_st. apply N.eqb_neq in Hne. rewrite Hne. apply C; auto. apply N.eqb_neq. exact Hne.
Qed.
Lemma GSk_emit1 d tr k e : GSk k d tr -> aboutk k e -> GSk k d (tr ++ [e]).
Proof.
  intros [A I B C D] (H1 & H2 & H3). split.
  - constructor; auto.
    + intros x Hx. rewrite (H1 x Hx). exact I.
    + intros x E. exfalso. apply (H2 x E).
  - apply in_or_app. left. exact I.
  - intros x Hx. apply in_or_app. left. auto.
  - intros x Hne Hin. apply in_app_iff in Hin. destruct Hin as [Hin|[Hin|[]]]; auto. exfalso. apply (H2 x). auto.
  - rewrite forallb_app, D. simpl. rewrite H3. reflexivity.
Qed.
Lemma GSk_emit d k evs : forall tr, GSk k d tr -> Forall (aboutk k) evs -> GSk k d (tr ++ evs).
Proof.
  induction evs as [|e evs IH]; intros tr H Hf; [rewrite app_nil_r; exact H|].
  inversion Hf; subst. replace (tr ++ e :: evs) with ((tr ++ [e]) ++ evs) by (rewrite <- app_assoc; reflexivity).
  apply IH; auto. apply GSk_emit1; auto.
Qed.
Lemma GS_disp d d' tr : (forall x, st_of d' x = st_of d x) -> GS d tr -> GS d' tr.
Proof. intros E [A B C D]. split; auto; intros x; rewrite E; auto. Qed.

Lemma aboutk_fin k e : needs_gs e = Some k -> aboutk k e.
Proof. intros H. split; [intros x Hx; congruence|]. split; [intros x ->; discriminate|]. destruct e; try discriminate; reflexivity. Qed.
Lemma aboutk_plain k e : needs_gs e = None -> (forall x, e <> EGetStatus x) -> is_close e = false -> aboutk k e.
Proof. intros H1 H2 H3. split; [intros x Hx; congruence|auto]. Qed.

Ltac about1 :=
  first [apply aboutk_fin; reflexivity | apply aboutk_plain; [reflexivity|intros x0 E0; discriminate|reflexivity]].
Ltac about_tac := repeat (apply Forall_cons; [about1|]); apply Forall_nil.

(* _handle_task_error *)
Lemma GSk_handle st k d tr kd : GSk k d tr -> GSk k (set_status d k st) (tr ++ [ERemove k; EFailure k kd]).
Proof. intros H. apply GSk_emit; [apply GSk_set; exact H|about_tac]. Qed.

Lemma select_task_GS r k b r1 :
  GS (r_d r) (r_tr r) -> select_task tasks continue_ always r k = (b, r1) ->
  GS (r_d r1) (r_tr r1) /\ In (EGetStatus k) (r_tr r1).
Proof.
  intros HG E.
  assert (Hfin : forall r', GSk k (r_d r') (r_tr r') -> st_of (r_d r') k <> SNone ->
                            GS (r_d r') (r_tr r') /\ In (EGetStatus k) (r_tr r')).
  { intros r' H Hs. split; [eapply GSk_GS; eauto|apply (k_in _ _ _ H)]. }
  assert (Hga : forall r0 b0 r2, GSk k (r_d r0) (r_tr r0) -> st_of (r_d r0) k <> SNone ->
                get_args tasks continue_ r0 k = (b0, r2) -> GS (r_d r2) (r_tr r2) /\ In (EGetStatus k) (r_tr r2)).
  { intros r0 b0 r2 H Hs Q. unfold get_args in Q. destruct (t_argerr (get_task tasks k)); inversion Q; subst.
    - apply Hfin; simpl; [apply GSk_handle; exact H|rewrite set_status_st, N.eqb_refl; discriminate].
    - apply Hfin; auto. }
  unfold select_task in E. fold (st_of (r_d r) k) in E.
  assert (Hlater : st_of (r_d r) k <> SNone ->
     (if negb (is_nil (n_ign (node_of tasks (r_d r) k)))
      then (false, emit (with_d r (set_status (r_d r) k SIgnore)) [ESkipIgnore k])
      else if negb (is_nil (n_bad (node_of tasks (r_d r) k))) then (false, handle_error tasks continue_ r k kind_unmet)
      else get_args tasks continue_ r k) = (b, r1) -> GS (r_d r1) (r_tr r1) /\ In (EGetStatus k) (r_tr r1)).
  { intros Hs Q. assert (HK : GSk k (r_d r) (r_tr r)) by (apply GS_GSk; auto; apply (g_st _ _ HG); exact Hs).
    destruct (negb (is_nil (n_ign _))).
    { inversion Q; subst. apply Hfin; simpl.
      - apply GSk_emit; [apply GSk_set; exact HK|about_tac].
      - rewrite set_status_st, N.eqb_refl. discriminate. }
    destruct (negb (is_nil (n_bad _))).
    { inversion Q; subst. apply Hfin; simpl; [apply GSk_handle; exact HK|rewrite set_status_st, N.eqb_refl; discriminate]. }
    eapply Hga; eauto. }
  destruct (st_of (r_d r) k) eqn:Es; try (apply Hlater; [discriminate|exact E]).
  clear Hlater.
  assert (HK : GSk k (r_d r) (r_tr r ++ [EGetStatus k])) by (apply GSk_get; auto).
  destruct (negb (is_nil (n_ign (node_of tasks (r_d r) k))) || t_dbignore (get_task tasks k)).
  { inversion E; subst. apply Hfin; simpl.
    - apply GSk_emit; [apply GSk_set; exact HK|about_tac].
    - rewrite set_status_st, N.eqb_refl. discriminate. }
  destruct (negb (is_nil (n_bad (node_of tasks (r_d r) k)))).
  { inversion E; subst. apply Hfin; simpl; [apply GSk_handle; exact HK|rewrite set_status_st, N.eqb_refl; discriminate]. }
  assert (Hrun : forall st, st <> SNone ->
     (if is_nil (t_setup (get_task tasks k))
      then get_args tasks continue_ (with_d (emit r [EGetStatus k]) (set_status (r_d (emit r [EGetStatus k])) k st)) k
      else (false, with_d (emit r [EGetStatus k]) (set_status (r_d (emit r [EGetStatus k])) k st))) = (b, r1) ->
     GS (r_d r1) (r_tr r1) /\ In (EGetStatus k) (r_tr r1)).
  { intros st Hst Q.
    assert (H1 : GSk k (set_status (r_d r) k st) (r_tr r ++ [EGetStatus k])) by (apply GSk_set; exact HK).
    assert (H2 : st_of (set_status (r_d r) k st) k <> SNone) by (rewrite set_status_st, N.eqb_refl; exact Hst).
    destruct (is_nil (t_setup (get_task tasks k))).
    - eapply Hga; [| |exact Q]; simpl; auto.
    - inversion Q; subst. apply Hfin; simpl; auto. }
  destruct (t_check (get_task tasks k)).
  - destruct always; cbv beta iota zeta in E; apply (Hrun SRun); try exact E; discriminate.
  - destruct always; cbv beta iota zeta in E; [apply (Hrun SRun); try exact E; discriminate|].
    inversion E; subst. apply Hfin; simpl.
    + apply GSk_emit; [apply GSk_set; exact HK|about_tac].
    + rewrite set_status_st, N.eqb_refl. discriminate.
  - inversion E; subst. apply Hfin; simpl; [apply GSk_handle; exact HK|rewrite set_status_st, N.eqb_refl; discriminate].
Qed.

Lemma start_task_GS r k : GS (r_d r) (r_tr r) -> In (EGetStatus k) (r_tr r) ->
  GS (r_d (start_task tasks r k)) (r_tr (start_task tasks r k)).
Proof.
  intros HG Hin. simpl. eapply GSk_GS; [apply GSk_emit; [apply GS_GSk; eauto|about_tac]|].
  apply (g_ts _ _ HG). exact Hin.
Qed.

Lemma process_result_GS r k : GS (r_d r) (r_tr r) -> In (EGetStatus k) (r_tr r) ->
  GS (r_d (process_result tasks continue_ r k)) (r_tr (process_result tasks continue_ r k)).
Proof.
  intros HG Hin. pose proof (GS_GSk _ _ k HG Hin) as HK.
  unfold process_result, handle_error, handle_error_gen. destruct (t_outcome (get_task tasks k)); simpl; auto;
    (eapply GSk_GS; [first [apply GSk_handle; exact HK | apply GSk_emit; [apply GSk_set; exact HK|about_tac]]
                    |rewrite set_status_st, N.eqb_refl; discriminate]).
Qed.

Lemma GS_emit_plain d tr evs : GS d tr ->
  Forall (fun e => needs_gs e = None /\ (forall x, e <> EGetStatus x) /\ is_close e = false) evs -> GS d (tr ++ evs).
Proof.
  intros [A B C D] Hf. revert tr A B C D. induction evs as [|e evs IH]; intros tr A B C D; [rewrite app_nil_r; split; auto|].
  inversion Hf as [|e0 l (H1 & H2 & H3) Hf']; subst.
  replace (tr ++ e :: evs) with ((tr ++ [e]) ++ evs) by (rewrite <- app_assoc; reflexivity). apply IH; auto.
  - constructor; auto; [intros x Hx; congruence|intros x E; exfalso; apply (H2 x E)].
  - intros x Hx. apply in_or_app. left. auto.
  - intros x Hin. apply in_app_iff in Hin. destruct Hin as [Hin|[Hin|[]]]; auto. exfalso. apply (H2 x). auto.
  - rewrite forallb_app, D. simpl. rewrite H3. reflexivity.
Qed.

(* Runner.finish: the only place the DB is closed *)
Lemma gsok_app_plain tr evs : gsok tr ->
  Forall (fun e => needs_gs e = None /\ (forall x, e <> EGetStatus x)) evs -> gsok (tr ++ evs).
Proof.
  intros A Hf. revert tr A. induction evs as [|e evs IH]; intros tr A; [rewrite app_nil_r; auto|].
  inversion Hf as [|e0 l (H1 & H2) Hf']; subst.
  replace (tr ++ e :: evs) with ((tr ++ [e]) ++ evs) by (rewrite <- app_assoc; reflexivity). apply IH; auto.
  constructor; auto; [intros x Hx; congruence|intros x E; exfalso; apply (H2 x E)].
Qed.
Lemma finish_plain l : Forall (fun e => needs_gs e = None /\ (forall x, e <> EGetStatus x)) (EClose :: map ETeardown l).
Proof.
  constructor; [split; [reflexivity|intros x E; discriminate]|].
  induction l; simpl; constructor; auto. split; [reflexivity|intros x E; discriminate].
Qed.

Lemma serial_GS fuel : forall r last r' s,
  GS (r_d r) (r_tr r) -> serial tasks wake_rank calc_rank continue_ always fuel r last = (r', s) ->
  exists r0, GS (r_d r0) (r_tr r0) /\ ((s = StopFuel /\ r' = r0) \/ (s <> StopFuel /\ r' = finish r0)).
Proof.
  induction fuel as [|fuel IH]; intros r last r' s HT E; cbn [serial] in E.
  { injection E as <- <-. exists r. auto. }
  destruct (r_stop r). { injection E as <- <-. exists r. split; auto. right. split; [discriminate|reflexivity]. }
  destruct (disp_send tasks wake_rank calc_rank (S fuel) (r_d r) last) as [y d] eqn:Ed.
  assert (Hd : GS d (r_tr r)).
  { eapply GS_disp; [|exact HT]. intros x. replace d with (snd (disp_send tasks wake_rank calc_rank (S fuel) (r_d r) last)) by (rewrite Ed; reflexivity).
    apply disp_send_st. }
  destruct y as [k| | |path|].
  - destruct (select_task tasks continue_ always (with_d r d) k) as [b r1] eqn:Es.
    destruct (select_task_GS (with_d r d) k b r1 Hd Es) as [H1 Hin].
    destruct b.
    + destruct (is_interrupt tasks k).
      * injection E as <- <-. exists (start_task tasks r1 k). split; [apply start_task_GS; auto|]. right. split; [discriminate|reflexivity].
      * eapply IH; [|exact E]. apply process_result_GS.
        -- apply start_task_GS; auto.
        -- simpl. apply in_or_app. left. exact Hin.
    + eapply IH; eauto.
  - injection E as <- <-. exists (with_d r d). split; auto. right. split; [discriminate|reflexivity].
  - injection E as <- <-. exists (with_d r d). split; auto. right. split; [discriminate|reflexivity].
  - injection E as <- <-. exists (with_d r d). split; auto. right. split; [discriminate|reflexivity].
  - injection E as <- <-. exists (with_d r d). split; auto.
Qed.

Lemma GS_init sel : GS (r_d (r_init sel)) (r_tr (r_init sel)).
Proof.
  split; simpl; auto. constructor.
Qed.

Lemma marker_plain s : Forall (fun e => needs_gs e = None /\ (forall x, e <> EGetStatus x)) (stop_marker s).
Proof. destruct s; simpl; repeat constructor; intros x E; discriminate. Qed.

Theorem serial_gsok fuel sel :
  gsok (fst (run_serial tasks wake_rank calc_rank continue_ always fuel sel)).
Proof.
  unfold run_serial.
  destruct (serial tasks wake_rank calc_rank continue_ always fuel (r_init sel) None) as [r' s] eqn:E.
  destruct (serial_GS fuel _ _ _ _ (GS_init sel) E) as (r0 & H0 & [[-> ->]|[Hs ->]]); simpl.
  - rewrite app_nil_r. apply (g_ok _ _ H0).
  - rewrite <- app_assoc. apply gsok_app_plain; [apply (g_ok _ _ H0)|].
    apply Forall_app. split; [apply finish_plain|apply marker_plain].
Qed.
End GSinv.

(* ---------- the same two facts for the parallel runners, every schedule ---------- *)
Section GSpar.
Variable tasks : name -> option task.
Variable wake_rank : name -> name -> N.
Variable calc_rank : name -> N.
Variable continue_ always : bool.
Variable proc : bool.
Notation PI := (PI tasks).
Notation GS := (GS tasks).
Notation ready := (ready tasks).
Notation worker_step := (worker_step tasks proc).
Notation main_get := (main_get tasks proc).
Notation join_all := (join_all tasks proc).
Notation next_job_loop := (next_job_loop tasks wake_rank calc_rank continue_ always).
Notation get_next_job := (get_next_job tasks wake_rank calc_rank continue_ always).
Notation start_procs := (start_procs tasks wake_rank calc_rank continue_ always proc).
Notation hand_out := (hand_out tasks wake_rank calc_rank continue_ always).
Notation main_loop := (main_loop tasks wake_rank calc_rank continue_ always proc).
Notation terminate := (terminate proc).
Notation run_parallel := (run_parallel tasks wake_rank calc_rank continue_ always proc).

Definition Q (p : pstate) : Prop := GS (r_d (p_r p)) (r_tr (p_r p)).

Lemma Q_same p p' : p_r p' = p_r p -> Q p -> Q p'.
Proof. unfold Q. intros ->. auto. Qed.

Lemma ready_gs p k : Q p -> ready p k -> In (EGetStatus k) (r_tr (p_r p)).
Proof. intros HQ [Hs _]. apply (g_st _ _ _ HQ). exact Hs. Qed.

Lemma worker_step_r p w :
  p_r (worker_step p w) = p_r p \/
  (exists k js, p_jobs p = JTask k :: js /\ p_r (worker_step p w) = start_task tasks (p_r p) k).
Proof.
  unfold Parallel.worker_step. destruct (nth w (p_workers p) WExited); auto.
  - destruct (p_jobs p) as [|[k| |] js] eqn:Ej; auto.
    + destruct proc; [left; reflexivity|right; exists k, js; split; reflexivity].
    + left. destruct proc; reflexivity.
  - left. destruct (is_interrupt tasks k); reflexivity.
Qed.

Lemma worker_step_Q p w : PI p -> Q p -> Q (worker_step p w).
Proof.
  intros HP HQ. destruct (worker_step_r p w) as [E|(k & js & Ej & E)].
  - eapply Q_same; eauto.
  - unfold Q. rewrite E. apply start_task_GS; auto. apply ready_gs; auto.
    apply PI_ready_of; auto. apply in_tasks_of_jobs. rewrite Ej. simpl. auto.
Qed.

Lemma with_sched_PI p s : PI p -> PI (with_sched p s).
Proof. intros HP. apply (PI_update tasks p); auto. intros x Hx. apply PI_ready_of; auto. Qed.

Lemma main_get_Q fuel : forall p m p', PI p -> Q p -> main_get fuel p = (m, p') -> Q p'.
Proof.
  induction fuel as [|fuel IH]; intros p m p' HP HQ E; cbn [Parallel.main_get] in E.
  { inversion E; subst. exact HQ. }
  set (ws := enabled_workers p (length (p_workers p)) 0) in *.
  destruct ((if negb (is_nil (p_results p)) then 1 else 0) + length ws)%nat eqn:En.
  { inversion E; subst. eapply Q_same; [|exact HQ]. reflexivity. }
  destruct (choose (S n) (p_sched p)) as [c s].
  destruct (negb (is_nil (p_results p)) && Nat.eqb c 0).
  - simpl in E. destruct (p_results p) as [|m0 rs]; inversion E; subst; (eapply Q_same; [|exact HQ]); reflexivity.
  - eapply IH; [| |exact E].
    + apply worker_step_PI. apply with_sched_PI. exact HP.
    + apply worker_step_Q; [apply with_sched_PI; exact HP|]. eapply Q_same; [|exact HQ]. reflexivity.
Qed.

Lemma join_all_Q fuel : forall p, PI p -> Q p -> Q (join_all fuel p).
Proof.
  induction fuel as [|fuel IH]; intros p HP HQ; cbn [Parallel.join_all]; auto.
  destruct (enabled_workers p (length (p_workers p)) 0) as [|w ws] eqn:Ew; auto.
  destruct (choose (length (w :: ws)) (p_sched p)) as [c s].
  apply IH.
  - apply worker_step_PI. apply with_sched_PI. exact HP.
  - apply worker_step_Q; [apply with_sched_PI; exact HP|]. eapply Q_same; [|exact HQ]. reflexivity.
Qed.

Lemma next_job_loop_Q fuel : forall p completed g p', Q p -> next_job_loop fuel p completed = (g, p') -> Q p'.
Proof.
  induction fuel as [|fuel IH]; intros p completed g p' HQ E; cbn [Parallel.next_job_loop] in E.
  { inversion E; subst. exact HQ. }
  destruct (disp_send tasks wake_rank calc_rank (S fuel) (r_d (p_r p)) completed) as [y d] eqn:Ed.
  assert (Hd : GS d (r_tr (p_r p))).
  { eapply GS_disp; [|exact HQ]. intros x.
    replace d with (snd (disp_send tasks wake_rank calc_rank (S fuel) (r_d (p_r p)) completed)) by (rewrite Ed; reflexivity).
    apply disp_send_st. }
  destruct y as [k| | |path|]; try (inversion E; subst; exact Hd); try (inversion E; subst; exact HQ).
  destruct (select_task tasks continue_ always (with_d (p_r p) d) k) as [b r1] eqn:Es.
  destruct (select_task_GS tasks continue_ always (with_d (p_r p) d) k b r1 Hd Es) as [H1 _].
  destruct b; [inversion E; subst; exact H1|]. eapply IH; [|exact E]. exact H1.
Qed.

Lemma get_next_job_Q fuel p completed g p' : Q p -> get_next_job fuel p completed = (g, p') -> Q p'.
Proof.
  intros HQ E. unfold Parallel.get_next_job in E. destruct (r_stop (p_r p)); [inversion E; subst; exact HQ|].
  eapply next_job_loop_Q; eauto.
Qed.

Lemma terminate_Q p : Q p -> Q (terminate p).
Proof.
  intros HQ. unfold Parallel.terminate. destruct (proc && negb (is_nil (p_workers p))); exact HQ.
Qed.

Lemma start_procs_Q fuel n : forall p e p', Q p -> start_procs fuel n p = (e, p') -> Q p'.
Proof.
  induction n as [|n IH]; intros p e p' HQ E; cbn [Parallel.start_procs] in E.
  { inversion E; subst. exact HQ. }
  destruct (get_next_job fuel p None) as [g p1] eqn:Eg.
  pose proof (get_next_job_Q fuel p None g p1 HQ Eg) as H1.
  destruct g as [j| |path|]; try (inversion E; subst; auto; fail).
  - eapply IH; [|exact E]. eapply Q_same; [|exact H1]. reflexivity.
  - inversion E; subst. apply terminate_Q. exact H1.
Qed.

Lemma hand_out_Q fuel n : forall p completed e p', Q p -> hand_out fuel n p completed = (e, p') -> Q p'.
Proof.
  induction n as [|n IH]; intros p completed e p' HQ E; cbn [Parallel.hand_out] in E.
  { inversion E; subst. exact HQ. }
  destruct (get_next_job fuel p completed) as [g p1] eqn:Eg.
  pose proof (get_next_job_Q fuel p completed g p1 HQ Eg) as H1.
  destruct g as [j| |path|]; try (inversion E; subst; auto; fail);
    (eapply IH; [|exact E]; eapply Q_same; [|exact H1]; reflexivity).
Qed.

Lemma main_loop_PQ fuel : forall p e p', PI p -> Q p -> main_loop fuel p = (e, p') -> PI p' /\ Q p'.
Proof.
  induction fuel as [|fuel IH]; intros p e p' HP HQ E; cbn [Parallel.main_loop] in E.
  { inversion E; subst. auto. }
  destruct (p_count p). { inversion E; subst. auto. }
  destruct (Parallel.main_get tasks proc (S fuel * 4) p) as [m p1] eqn:Em.
  destruct (main_get_PI tasks proc _ _ _ _ HP Em) as (H1 & Hr & Hrr).
  pose proof (main_get_Q _ _ _ _ HP HQ Em) as Q1.
  destruct m as [[k|k|k|k]|].
  - assert (Hk : ready p1 k) by (apply Hr; left; reflexivity).
    destruct (Hrr k eq_refl) as [Hk2 Hk3].
    destruct (process_result_PI tasks continue_ p1 k H1 Hk Hk2 Hk3) as [H2 S2].
    assert (Q2 : Q (with_r p1 (process_result tasks continue_ (p_r p1) k))).
    { unfold Q. simpl. apply process_result_GS; auto. apply ready_gs; auto. }
    set (p2 := with_r p1 (process_result tasks continue_ (p_r p1) k)) in *.
    destruct (Parallel.hand_out tasks wake_rank calc_rank continue_ always (S fuel) (S (p_free p2)) (with_counts p2 0 (p_count p2)) (Some k)) as [e2 p3] eqn:Eh.
    assert (H3 : PI p3).
    { eapply hand_out_PI; [| |exact Eh]; [apply with_counts_PI; exact H2|].
      intros k0 Ek. inversion Ek; subst. exact S2. }
    assert (Q3 : Q p3) by (eapply hand_out_Q; [|exact Eh]; eapply Q_same; [|exact Q2]; reflexivity).
    destruct e2; try (inversion E; subst; split; [apply terminate_PI|apply terminate_Q]; assumption).
    destruct (deadlocked p3).
    + inversion E; subst. split; [apply terminate_PI|apply terminate_Q]; assumption.
    + eapply IH; eauto.
  - assert (Hk : ready p1 k) by (apply Hr; right; reflexivity).
    eapply IH; [| |exact E].
    + apply PI_emit_main; auto. apply RI_exec; [apply (pi_ri _ _ H1)|]. apply (ready_deps _ _ _ Hk).
    + unfold Q. simpl. eapply GSk_GS; [apply GSk_emit; [apply GS_GSk; [exact Q1|apply ready_gs; auto]|]|].
      * apply Forall_cons; [apply aboutk_fin; reflexivity|apply Forall_nil].
      * apply (proj1 Hk).
  - eapply IH; [| |exact E].
    + apply PI_emit_main; auto. apply RI_emit; [apply (pi_ri _ _ H1)|reflexivity|intros e0 x0 [<-|[]]; reflexivity].
    + unfold Q. simpl. apply GS_emit_plain; auto. repeat constructor. intros x E0. discriminate.
  - inversion E; subst. split; [apply terminate_PI|apply terminate_Q]; assumption.
  - inversion E; subst. split; [apply terminate_PI|apply terminate_Q]; assumption.
Qed.

Lemma drain_Q p : PI p -> Q p -> Q (drain p).
Proof.
  intros HP HQ. unfold drain, Q. simpl.
  set (evs := flat_map _ (p_results p)).
  assert (Hev : forall e, In e evs -> (exists k, e = EExecute k /\ In (EGetStatus k) (r_tr (p_r p))) \/ (exists k, e = ETeardown k)).
  { intros e He. unfold evs in He. apply in_flat_map in He. destruct He as [m [Hm He]].
    destruct m; simpl in He; try contradiction; destruct He as [<-|[]]; [left|right; eauto].
    exists k. split; auto. apply ready_gs; auto. apply PI_ready_of; auto. apply in_tasks_of_msgs.
    clear -Hm. induction (p_results p) as [|x l IH]; simpl in *; [contradiction|].
    destruct Hm as [->|Hm]; simpl; auto. apply in_app_iff. right. apply IH. exact Hm. }
  clearbody evs. revert HQ Hev. unfold Q. generalize (r_tr (p_r p)) as tr. induction evs as [|e evs IH]; intros tr HQ Hev.
  - rewrite app_nil_r. exact HQ.
  - replace (tr ++ e :: evs) with ((tr ++ [e]) ++ evs) by (rewrite <- app_assoc; reflexivity). apply IH.
    + destruct (Hev e (or_introl eq_refl)) as [(k & -> & Hin)|(k & ->)].
      * eapply GSk_GS; [apply GSk_emit; [apply GS_GSk; eauto|]|apply (g_ts _ _ _ HQ); exact Hin].
        apply Forall_cons; [apply aboutk_fin; reflexivity|apply Forall_nil].
      * apply GS_emit_plain; auto. repeat constructor. intros x E0. discriminate.
    + intros e0 H0. destruct (Hev e0 (or_intror H0)) as [(k & -> & Hin)|(k & ->)]; [left|right; eauto].
      exists k. split; auto. apply in_or_app. left. exact Hin.
Qed.

Lemma Q_init sched sel : Q (p_init sched sel).
Proof. unfold Q. simpl. apply (GS_init tasks sel). Qed.

Definition pmarker (mk : list pevent) : Prop := mk = [] \/ exists e, mk = [PE e] /\ is_marker e = true.

(* the state in which run_tasks ended: finish() is applied to it, then the exception (if any) leaves run_all *)
Lemma parallel_final_Q fuel nprocs sched sel :
  exists p2 mk, PI p2 /\ Q p2 /\
    fst (run_parallel fuel nprocs sched sel) = p_log (sync (with_r p2 (finish (p_r p2)))) ++ mk /\
    pmarker mk /\ (mk = [] \/ In (snd (run_parallel fuel nprocs sched sel)) [3; 4]).
Proof.
  unfold Parallel.run_parallel.
  destruct (Parallel.start_procs tasks wake_rank calc_rank continue_ always proc fuel nprocs (p_init sched sel)) as [e1 p1] eqn:E1.
  pose proof (start_procs_PI tasks wake_rank calc_rank continue_ always proc fuel nprocs _ _ _ (PI_init tasks sched sel) E1) as H1.
  pose proof (start_procs_Q fuel nprocs _ _ _ (Q_init sched sel) E1) as Q1.
  assert (M0 : pmarker []) by (left; reflexivity).
  assert (M1 : forall e, is_marker e = true -> pmarker [PE e]) by (intros e A; right; exists e; auto).
  assert (Fin : forall p2 (e2 : pend), PI p2 -> Q p2 -> e2 <> PNormal ->
     exists p2' mk, PI p2' /\ Q p2' /\
       p_log (sync (with_r p2 (finish (p_r p2)))) ++
         match e2 with PCycleErr path => [PE (ECycleError path)] | PHoldErr => [PE EHoldError] | PInterrupt k => [PE (EInterrupt k)] | _ => [] end
       = p_log (sync (with_r p2' (finish (p_r p2')))) ++ mk /\ pmarker mk /\
       (mk = [] \/ In (match e2 with PNormal => r_final (p_r (sync (with_r p2 (finish (p_r p2))))) | PCycleErr _ | PHoldErr => 3 | PInterrupt _ => 4 | PHung => 98 | PFuel => 99 end) [3; 4])).
  { intros p2 e2 HP HQ Hne. exists p2. eexists. split; [exact HP|]. split; [exact HQ|]. split; [reflexivity|].
    destruct e2; try congruence; split; try exact M0; try (apply M1; reflexivity); try (left; reflexivity); right; simpl; tauto. }
  destruct e1 as [|path| |k| |]; cbv beta iota zeta delta [fst snd];
    [|apply (Fin p1 (PCycleErr path))|apply (Fin p1 PHoldErr)|apply (Fin p1 (PInterrupt k))|apply (Fin p1 PHung)|apply (Fin p1 PFuel)];
    auto; try discriminate.
  set (p1' := with_counts p1 (p_free p1) (length (p_workers p1))).
  assert (H1' : PI p1') by (apply with_counts_PI; exact H1).
  assert (Q1' : Q p1') by (eapply Q_same; [|exact Q1]; reflexivity).
  destruct (deadlocked p1').
  { cbv beta iota zeta delta [fst snd]. apply (Fin (terminate p1') PHoldErr); [apply terminate_PI; exact H1'|apply terminate_Q; exact Q1'|discriminate]. }
  destruct (Parallel.main_loop tasks wake_rank calc_rank continue_ always proc fuel p1') as [e2 p2] eqn:E2.
  destruct (main_loop_PQ fuel _ _ _ H1' Q1' E2) as [H2 Q2].
  destruct e2 as [|path| |k| |]; cbv beta iota zeta delta [fst snd];
    [|apply (Fin p2 (PCycleErr path))|apply (Fin p2 PHoldErr)|apply (Fin p2 (PInterrupt k))|apply (Fin p2 PHung)|apply (Fin p2 PFuel)];
    auto; try discriminate.
  exists (drain (Parallel.join_all tasks proc (fuel * 4) p2)). exists [].
  split; [apply drain_PI; apply join_all_PI; exact H2|].
  split; [apply drain_Q; [apply join_all_PI; exact H2|apply join_all_Q; assumption]|].
  split; [reflexivity|split; [exact M0|left; reflexivity]].
Qed.

Lemma events_of_proj log : events_of log = proj log.
Proof. reflexivity. Qed.

(* the reporter / DB events of every parallel run: body ++ close ++ teardowns of the main runner ++ error marker *)
Theorem parallel_events_shape fuel nprocs sched sel :
  let res := run_parallel fuel nprocs sched sel in
  exists body tds mk,
    events_of (fst res) = (body ++ EClose :: map ETeardown tds) ++ mk /\
    forallb (fun e => negb (is_close e)) body = true /\ marker mk /\
    (mk = [] \/ In (snd res) [3; 4]) /\
    gsok (body ++ EClose :: map ETeardown tds).
Proof.
  cbv zeta. destruct (parallel_final_Q fuel nprocs sched sel) as (p2 & mk & HP & HQ & E & Hm & Hc).
  exists (r_tr (p_r p2)), (rev (r_td (p_r p2))), (events_of mk).
  pose proof (finish_PI tasks p2 HP) as HP3.
  split; [|split; [apply (g_nc _ _ _ HQ)|split; [|split]]].
  - rewrite E, events_of_proj, proj_app, (pi_proj _ _ HP3). cbn [p_seen sync p_r with_r]. rewrite firstn_all.
    unfold finish, emit. simpl. reflexivity.
  - destruct Hm as [->|(e & -> & He)]; [left; reflexivity|right; exists e; auto].
  - destruct Hc as [->|Hc]; [left; reflexivity|right; exact Hc].
  - apply gsok_app_plain; [apply (g_ok _ _ _ HQ)|apply finish_plain].
Qed.
End GSpar.

(* ================================================================== Part C *)
(* what a reporter is fed by a finished run: events before the end of finish(), then the error marker *)
Definition run_events (tr : list event) (body : list event) (tds : list name) (mk : list event) : Prop :=
  tr = (body ++ EClose :: map ETeardown tds) ++ mk /\
  forallb (fun e => negb (is_close e)) body = true /\ marker mk /\
  gsok (body ++ EClose :: map ETeardown tds) /\ fonce (body ++ EClose :: map ETeardown tds).

Theorem serial_run_events tasks wake_rank calc_rank continue_ always fuel sel :
  let res := run_serial tasks wake_rank calc_rank continue_ always fuel sel in
  snd res <> 99 ->
  exists body tds mk, run_events (fst res) body tds mk /\ (mk = [] \/ In (snd res) [3; 4]).
Proof.
  cbv zeta. intros Hf.
  pose proof (serial_shape tasks wake_rank calc_rank continue_ always fuel sel) as Hs. cbv zeta in Hs.
  destruct Hs as (body & s & _ & Hnf & [(-> & _ & E99)|(Hs & E & Ec)]); [congruence|].
  pose proof (serial_gsok tasks wake_rank calc_rank continue_ always fuel sel) as Hg.
  pose proof (serial_one_final tasks wake_rank calc_rank continue_ always fuel sel) as Ho.
  exists body, (rev (filter (has_td tasks) (execs body))), (stop_marker s).
  assert (E' : fst (run_serial tasks wake_rank calc_rank continue_ always fuel sel) =
               (body ++ EClose :: map ETeardown (rev (filter (has_td tasks) (execs body)))) ++ stop_marker s).
  { rewrite E, <- app_assoc. reflexivity. }
  split; [split; [exact E'|split; [|split; [|split]]]|].
  - clear -Hnf. induction body as [|e l IH]; simpl in *; auto. apply andb_true_iff in Hnf. destruct Hnf as [A B].
    rewrite IH by exact B. destruct e; simpl in *; auto.
  - destruct s; simpl; [left; reflexivity|right; eexists; split; reflexivity|right; eexists; split; reflexivity
                        |right; eexists; split; reflexivity|congruence].
  - rewrite E' in Hg. eapply gsok_prefix; eauto.
  - rewrite E' in Ho. eapply fonce_prefix; eauto.
  - rewrite Ec. destruct s; simpl; auto; congruence.
Qed.

Theorem parallel_run_events tasks wake_rank calc_rank continue_ always proc fuel nprocs sched sel :
  let res := run_parallel tasks wake_rank calc_rank continue_ always proc fuel nprocs sched sel in
  exists body tds mk, run_events (events_of (fst res)) body tds mk /\ (mk = [] \/ In (snd res) [3; 4]).
Proof.
  cbv zeta.
  destruct (parallel_events_shape tasks wake_rank calc_rank continue_ always proc fuel nprocs sched sel) as (body & tds & mk & E & Hb & Hm & Hc & Hg).
  pose proof (parallel_one_final tasks wake_rank calc_rank continue_ always proc fuel nprocs sched sel) as Ho.
  exists body, tds, mk. split; [|exact Hc]. split; [exact E|]. split; [exact Hb|]. split; [exact Hm|]. split; [exact Hg|].
  rewrite <- events_of_proj, E in Ho. eapply fonce_prefix; eauto.
Qed.

(* `doit run --reporter json`: composition for both runner models *)
Theorem json_of_run ti proc fv tr body tds mk :
  run_events tr body tds mk ->
  let trA := body ++ EClose :: map ETeardown tds in
  let st := report ti proc RJson fv tr in
  let doc := doc_of ti proc fv trA in
  w_stdout (snd st) = [ODoc doc] /\
  w_stderr (snd st) = map OChunk (main_toks SErr (cbs ti proc mk)) /\
  rp_crashed (fst st) = false /\
  NoDup (map fst (d_tasks doc)) /\
  (forall k, In k (map fst (d_tasks doc)) <-> In (EGetStatus k) trA) /\
  (forall k pre e post, trA = pre ++ e :: post -> is_final_ev k e = true ->
     In (k, Build_trec (res_of e) (mem k (execs trA))
                       (if mem k (execs pre) then ta_out (ti k) else [])
                       (if mem k (execs pre) then ta_err (ti k) else []) (err_of e)) (d_tasks doc)) /\
  (forall k, In (EGetStatus k) trA -> ~ finished_in trA k ->
     In (k, Build_trec None (mem k (execs trA)) [] [] None) (d_tasks doc)) /\
  d_out doc = main_toks SOut (cbs ti proc trA) /\
  d_err doc = main_toks SErr (cbs ti proc trA) ++ err_msgs (cbs ti proc trA).
Proof.
  intros (-> & Hb & Hm & Hg & Hf). apply json_document; auto.
Qed.

Lemma marker_toks_nil ti proc : main_toks SErr (cbs ti proc []) = [].
Proof. reflexivity. Qed.

(* every task gets at most one final-result line from a console-family reporter, in both runner models *)
Theorem serial_console_one_final_line tasks wake_rank calc_rank continue_ always fuel sel ti kind fv k :
  kind <> RJson ->
  (length (filter (final_line_of k)
     (result_lines (w_stdout (snd (fst (report_serial tasks wake_rank calc_rank continue_ always fuel sel ti kind fv)))))) <= 1)%nat /\
  (length (filter (exec_line_of k)
     (result_lines (w_stdout (snd (fst (report_serial tasks wake_rank calc_rank continue_ always fuel sel ti kind fv)))))) <= 1)%nat.
Proof.
  intros K. unfold report_serial. cbn [fst snd]. rewrite console_result_lines by exact K. split.
  - apply console_one_final_line. apply serial_one_final.
  - apply console_one_exec_line. apply serial_exec_once.
Qed.

Theorem parallel_console_one_final_line tasks wake_rank calc_rank continue_ always proc fuel nprocs sched sel ti kind fv k :
  kind <> RJson ->
  (length (filter (final_line_of k)
     (result_lines (w_stdout (snd (fst (report_parallel tasks wake_rank calc_rank continue_ always proc fuel nprocs sched sel ti kind fv)))))) <= 1)%nat.
Proof.
  intros K. unfold report_parallel. cbn [fst snd]. rewrite console_result_lines by exact K.
  apply console_one_final_line. rewrite events_of_proj. apply parallel_one_final.
Qed.

(* the same, spelled out over the whole event list of the run *)
Lemma marker_props mk : marker mk ->
  execs mk = [] /\ (forall k e, In e mk -> is_final_ev k e = false) /\ (forall k, ~ In (EGetStatus k) mk).
Proof.
  intros [->|(m & -> & Hm)]; [split; [reflexivity|split; [intros k e []|intros k []]]|].
  destruct m; try discriminate; (split; [reflexivity|split; [intros k0 e [<-|[]]; reflexivity|intros k0 [E|[]]; discriminate]]).
Qed.

Theorem json_of_run_simple ti proc fv tr body tds mk :
  run_events tr body tds mk ->
  let st := report ti proc RJson fv tr in
  exists doc,
    w_stdout (snd st) = [ODoc doc] /\
    (mk = [] -> w_stderr (snd st) = []) /\
    rp_crashed (fst st) = false /\
    NoDup (map fst (d_tasks doc)) /\
    (forall k e, In e tr -> is_final_ev k e = true ->
       exists v, In (k, v) (d_tasks doc) /\ tr_result v = res_of e /\ tr_started v = mem k (execs tr) /\ tr_error v = err_of e) /\
    (forall k v, In (k, v) (d_tasks doc) -> In (EGetStatus k) tr) /\
    (forall k v, In (k, v) (d_tasks doc) -> tr_result v = None -> ~ finished_in tr k) /\
    (forall s t, In (CWrite s InMain t) (cbs ti proc (body ++ EClose :: map ETeardown tds)) ->
       In (Raw t) (match s with SOut => d_out doc | SErr => d_err doc end)).
Proof.
  intros HR. pose proof HR as (E & Hb & Hm & Hg & Hf).
  destruct (json_of_run ti proc fv tr body tds mk HR) as (A1 & A2 & A3 & A4 & A5 & A6 & A7 & A8 & A9). cbv zeta in *.
  set (trA := body ++ EClose :: map ETeardown tds) in *.
  destruct (marker_props mk Hm) as (M1 & M2 & M3).
  exists (doc_of ti proc fv trA).
  assert (Hex : forall k, mem k (execs tr) = mem k (execs trA)).
  { intros k. rewrite E, execs_app, M1, app_nil_r. reflexivity. }
  split; [exact A1|]. split; [intros ->; rewrite A2; reflexivity|]. split; [exact A3|]. split; [exact A4|].
  split; [|split; [|split]].
  - intros k e Hin Hfin. rewrite E in Hin. apply in_app_iff in Hin. destruct Hin as [Hin|Hin]; [|rewrite (M2 k e Hin) in Hfin; discriminate].
    apply in_split in Hin. destruct Hin as (pre & post & Ep).
    eexists. split; [apply (A6 k pre e post Ep Hfin)|]. simpl. rewrite Hex. auto.
  - intros k v Hin. rewrite E. apply in_or_app. left. apply A5. apply in_map_iff. exists (k, v). auto.
  - intros k v Hin Hres Hfin.
    assert (Hfa : finished_in trA k).
    { unfold finished_in in *. rewrite E, existsb_app in Hfin. apply orb_true_iff in Hfin. destruct Hfin as [H|H]; auto.
      apply existsb_exists in H. destruct H as (e & He & Hk). rewrite (M2 k e He) in Hk. discriminate. }
    apply existsb_exists in Hfa. destruct Hfa as (e & He & Hk). apply in_split in He. destruct He as (pre & post & Ep).
    pose proof (A6 k pre e post Ep Hk) as Hrec.
    assert (Hv : v = Build_trec (res_of e) (mem k (execs trA)) (if mem k (execs pre) then ta_out (ti k) else [])
                                (if mem k (execs pre) then ta_err (ti k) else []) (err_of e)).
    { apply (d_get_In ti _ _ _ A4) in Hin. apply (d_get_In ti _ _ _ A4) in Hrec. congruence. }
    rewrite Hv in Hres. simpl in Hres. destruct e; simpl in *; discriminate.
  - intros s t Hin. assert (Hm' : In (Raw t) (main_toks s (cbs ti proc trA))).
    { unfold main_toks. apply in_flat_map. exists (CWrite s InMain t). split; [exact Hin|]. destruct s; simpl; auto. }
    destruct s; [rewrite A8; exact Hm'|rewrite A9; apply in_or_app; left; exact Hm'].
Qed.

(* output written after complete_run is outside the document (this is where the teardown output of a
   runner calling complete_run before teardown would land) *)
Lemma json_write_after_complete ti proc fv trA s t :
  let st := run ti (jbefore ti proc fv trA) [CCompleteRun; CWrite s InMain t] in
  match s with SOut => w_stdout (snd st) | SErr => w_stderr (snd st) end =
  (match s with SOut => [ODoc (doc_of ti proc fv trA)] | SErr => [] end) ++ [OChunk (Raw t)].
Proof.
  cbv zeta.
  pose proof (json_world ti proc fv trA) as [A1 A2 A3 A4 A5 A6 A7].
  assert (K : jst (jbefore ti proc fv trA)) by (apply jst_run; apply jst_init).
  change (run ti (jbefore ti proc fv trA) [CCompleteRun; CWrite s InMain t])
    with (step ti (step ti (jbefore ti proc fv trA) CCompleteRun) (CWrite s InMain t)).
  destruct (jbefore ti proc fv trA) as [r w] eqn:Eb. unfold jst in K. cbn [fst snd] in *.
  rewrite (step_json ti r w CCompleteRun K). cbn [json_step]. rewrite A1.
  assert (Ed : {| d_tasks := rp_results r; d_out := w_cap_out w; d_err := w_cap_err w ++ rp_errors r |} = doc_of ti proc fv trA).
  { unfold doc_of. rewrite Eb. cbn [fst]. rewrite A4, A5, A7. reflexivity. }
  rewrite Ed. destruct s; simpl; rewrite ?A2, ?A3; reflexivity.
Qed.

(* composed and read over the whole trace of a run *)
Theorem json_serial :
  forall tasks wake_rank calc_rank continue_ always fuel selection ti fv,
  let run := run_serial tasks wake_rank calc_rank continue_ always fuel selection in
  let st := report ti false RJson fv (fst run) in
  snd run <> 99 ->
  exists doc,
    w_stdout (snd st) = [ODoc doc] /\
    (w_stderr (snd st) = [] \/ In (snd run) [3; 4]) /\
    rp_crashed (fst st) = false /\
    NoDup (map fst (d_tasks doc)) /\
    (forall k e, In e (fst run) -> is_final_ev k e = true ->
       exists v, In (k, v) (d_tasks doc) /\ tr_result v = res_of e /\ tr_started v = mem k (execs (fst run)) /\
                 tr_error v = err_of e) /\
    (forall k v, In (k, v) (d_tasks doc) -> In (EGetStatus k) (fst run)) /\
    (forall k v, In (k, v) (d_tasks doc) -> tr_result v = None -> ~ finished_in (fst run) k).
Proof.
  intros tasks wake_rank calc_rank continue_ always fuel selection ti fv run st Hf.
  destruct (serial_run_events tasks wake_rank calc_rank continue_ always fuel selection Hf) as (body & tds & mk & HR & Hc).
  destruct (json_of_run_simple ti false fv _ body tds mk HR) as (doc & A1 & A2 & A3 & A4 & A5 & A6 & A7 & _).
  exists doc. split; [exact A1|]. split; [destruct Hc as [Hc|Hc]; [left; apply A2; exact Hc|right; exact Hc]|].
  split; [exact A3|]. split; [exact A4|]. split; [exact A5|]. split; [exact A6|exact A7].
Qed.

Theorem json_parallel :
  forall tasks wake_rank calc_rank continue_ always proc fuel nprocs sched selection ti fv,
  let run := run_parallel tasks wake_rank calc_rank continue_ always proc fuel nprocs sched selection in
  let tr := events_of (fst run) in
  let st := report ti proc RJson fv tr in
  exists doc,
    w_stdout (snd st) = [ODoc doc] /\
    (w_stderr (snd st) = [] \/ In (snd run) [3; 4]) /\
    rp_crashed (fst st) = false /\
    NoDup (map fst (d_tasks doc)) /\
    (forall k e, In e tr -> is_final_ev k e = true ->
       exists v, In (k, v) (d_tasks doc) /\ tr_result v = res_of e /\ tr_started v = mem k (execs tr) /\
                 tr_error v = err_of e) /\
    (forall k v, In (k, v) (d_tasks doc) -> In (EGetStatus k) tr) /\
    (forall k v, In (k, v) (d_tasks doc) -> tr_result v = None -> ~ finished_in tr k).
Proof.
  intros tasks wake_rank calc_rank continue_ always proc fuel nprocs sched selection ti fv run tr st.
  destruct (parallel_run_events tasks wake_rank calc_rank continue_ always proc fuel nprocs sched selection) as (body & tds & mk & HR & Hc).
  destruct (json_of_run_simple ti proc fv _ body tds mk HR) as (doc & A1 & A2 & A3 & A4 & A5 & A6 & A7 & _).
  exists doc. split; [exact A1|]. split; [destruct Hc as [Hc|Hc]; [left; apply A2; exact Hc|right; exact Hc]|].
  split; [exact A3|]. split; [exact A4|]. split; [exact A5|]. split; [exact A6|exact A7].
Qed.


(* ================================================================== Part D *)
(* the `report` attribute of a failure (tattr.ta_report): read by the console-family reporters, never by
   JsonReporter; never by the runners (the exit code is computed without any task attribute) *)

(* two attribute tables that differ at most in the report flags *)
Definition strip_report (a : tattr) : tattr :=
  Build_tattr (ta_actions a) (ta_private a) (ta_verb a) (ta_out a) (ta_err a) (ta_td_out a) (ta_td_err a) (ta_td_fail a) true.
Definition same_but_report (ti ti' : name -> tattr) : Prop := forall k, strip_report (ti k) = strip_report (ti' k).

Section Flag.
Variables ti ti' : name -> tattr.
Hypothesis Hsame : same_but_report ti ti'.

Lemma same_fields k :
  ta_actions (ti k) = ta_actions (ti' k) /\ ta_private (ti k) = ta_private (ti' k) /\ ta_verb (ti k) = ta_verb (ti' k) /\
  ta_out (ti k) = ta_out (ti' k) /\ ta_err (ti k) = ta_err (ti' k) /\ ta_td_out (ti k) = ta_td_out (ti' k) /\
  ta_td_err (ti k) = ta_td_err (ti' k) /\ ta_td_fail (ti k) = ta_td_fail (ti' k).
Proof. pose proof (Hsame k) as E. unfold strip_report in E. injection E. intros. repeat split; assumption. Qed.

Lemma cb_same proc e : cb ti proc e = cb ti' proc e.
Proof.
  destruct e; try reflexivity; simpl; unfold td_calls;
    destruct (same_fields k) as (E1 & E2 & E3 & E4 & E5 & E6 & E7 & E8); rewrite ?E3, ?E4, ?E5, ?E6, ?E7, ?E8; reflexivity.
Qed.
Lemma finish_calls_same proc rest : finish_calls ti proc rest = finish_calls ti' proc rest.
Proof.
  induction rest as [|e rest IH]; [reflexivity|].
  assert (Hc : CCompleteRun :: flat_map (cb ti proc) (e :: rest) = CCompleteRun :: flat_map (cb ti' proc) (e :: rest)).
  { f_equal. clear IH. induction (e :: rest) as [|x l IHl]; [reflexivity|]. simpl. rewrite IHl, cb_same. reflexivity. }
  destruct e; try exact Hc.
  change (finish_calls ti proc (ETeardown k :: rest)) with (cb ti proc (ETeardown k) ++ finish_calls ti proc rest).
  change (finish_calls ti' proc (ETeardown k :: rest)) with (cb ti' proc (ETeardown k) ++ finish_calls ti' proc rest).
  rewrite IH, cb_same. reflexivity.
Qed.
Lemma calls_of_same proc tr : calls_of ti proc tr = calls_of ti' proc tr.
Proof.
  induction tr as [|e tr IH]; [reflexivity|].
  destruct e; try (change (calls_of ti proc (?e0 :: tr)) with (cb ti proc e0 ++ calls_of ti proc tr);
                   change (calls_of ti' proc (?e0 :: tr)) with (cb ti' proc e0 ++ calls_of ti' proc tr);
                   rewrite IH, cb_same; reflexivity).
  apply finish_calls_same.
Qed.

Lemma json_step_same st c : rp_kind (fst st) = RJson -> step ti st c = step ti' st c.
Proof.
  destruct st as [r w]. cbn [fst]. intros K. rewrite !step_json by exact K.
  destruct c; try reflexivity; simpl; unfold set_result;
    destruct (same_fields k) as (E1 & E2 & E3 & E4 & E5 & E6 & E7 & E8); rewrite ?E4, ?E5; reflexivity.
Qed.
Lemma json_run_same cs : forall st, rp_kind (fst st) = RJson -> run ti st cs = run ti' st cs.
Proof.
  induction cs as [|c cs IH]; intros st K; [reflexivity|]. rewrite !run_cons.
  rewrite <- json_step_same by exact K. apply IH. rewrite step_kind. exact K.
Qed.

(* `--reporter json`: everything the reporter does (its state, the real stdout / stderr, the document) is the
   same whatever the report flags of the failures are *)
Theorem json_ignores_report_flag proc fv tr : report ti proc RJson fv tr = report ti' proc RJson fv tr.
Proof. unfold report. rewrite calls_of_same. apply json_run_same. reflexivity. Qed.
End Flag.

(* a task that failed is listed as `fail` with its error, for every attribute table (hence every report flag) *)
Theorem json_failed_is_fail ti proc fv tr body tds mk k kd :
  run_events tr body tds mk -> In (EFailure k kd) (body ++ EClose :: map ETeardown tds) ->
  exists doc v, w_stdout (snd (report ti proc RJson fv tr)) = [ODoc doc] /\ In (k, v) (d_tasks doc) /\
                tr_result v = Some JFail /\ tr_error v = Some kd /\
                forall v', In (k, v') (d_tasks doc) -> v' = v.
Proof.
  intros Hr Hin. destruct (json_of_run ti proc fv tr body tds mk Hr) as (A & _ & _ & N1 & _ & F & _).
  apply in_split in Hin. destruct Hin as (pre & post & E).
  eexists. eexists. split; [exact A|]. split; [apply (F k pre (EFailure k kd) post E); simpl; apply N.eqb_refl|].
  split; [reflexivity|]. split; [reflexivity|].
  intros v' Hv'. apply (d_get_In ti) in Hv'; [|exact N1].
  pose proof (F k pre (EFailure k kd) post E (N.eqb_refl k)) as Hv. apply (d_get_In ti) in Hv; [|exact N1]. congruence.
Qed.

(* ---- console family: nothing about a failure whose report flag is False ---- *)
Section Silent.
Variable ti : name -> tattr.
Variable k : name.

(* every line of ConsoleReporter / ErrorOnlyReporter that is about a failure of k: the failure entry, and the
   three lines of the final summary (complete_run 100-108) *)
Definition about_failure (l : cline) : bool :=
  match l with LFail k' _ | LEFail k' _ | LSumFail k' _ | LSumErr k' | LSumOut k' => N.eqb k k' | _ => false end.
Definition clines (l : list chunk) : list cline := flat_map (fun c => match c with Line l => [l] | _ => [] end) l.
Lemma lines_of_chunks l : lines_of (map OChunk l) = clines l.
Proof. induction l as [|c l IH]; [reflexivity|]. destruct c; simpl; rewrite IH; reflexivity. Qed.
Lemma clines_app a b : clines (a ++ b) = clines a ++ clines b. Proof. apply flat_map_app. Qed.
Lemma clines_raw l : clines (map Raw l) = [].
Proof. induction l; simpl; auto. Qed.

Lemma summary_silent r w : (forall kd, ~ In (k, kd) (rp_failures r)) ->
  filter about_failure (clines (summary ti r w)) = [].
Proof.
  intros Hn. unfold summary. rewrite clines_app, filter_app.
  assert (H2 : filter about_failure (clines (if is_nil (rp_rt r) then [] else
                 Line LSep :: Line LAborted :: map (fun m => Line (LRuntime m)) (rp_rt r))) = []).
  { destruct (is_nil (rp_rt r)); [reflexivity|]. simpl. induction (rp_rt r); simpl; auto. }
  rewrite H2, app_nil_r. clear H2.
  induction (rp_failures r) as [|[k' kd] l IH]; [reflexivity|].
  simpl. rewrite clines_app, filter_app, IH, app_nil_r by (intros kd' H; apply (Hn kd'); right; exact H).
  assert (Hne : N.eqb k k' = false).
  { apply N.eqb_neq. intros ->. apply (Hn kd). left; reflexivity. }
  destruct (negb (mem k' (w_executed w))); [reflexivity|].
  rewrite !clines_app, !filter_app.
  destruct ((ta_verb (ti k') <? 1) || (0 <? rp_fv r)), ((ta_verb (ti k') <? 2) || (rp_fv r =? 2));
    simpl; rewrite ?clines_raw, ?Hne; reflexivity.
Qed.

Definition QI (st : rep * world) : Prop :=
  (forall kd, ~ In (k, kd) (rp_failures (fst st))) /\ filter about_failure (lines_of (w_stdout (snd st))) = [].

Lemma lines_of_sys_err p c w : lines_of (w_stdout (sys_write SErr p c w)) = lines_of (w_stdout w).
Proof. rewrite stdout_sys_err. reflexivity. Qed.
Lemma lines_of_sys_raw s p t w : lines_of (w_stdout (sys_write s p (Raw t) w)) = lines_of (w_stdout w).
Proof.
  unfold sys_write. destruct (w_swapped w); [destruct p; destruct s; reflexivity|].
  destruct s; simpl; [rewrite lines_of_app; simpl; rewrite app_nil_r|]; reflexivity.
Qed.

Lemma silent_step st c : rp_kind (fst st) <> RJson ->
  (forall kd, c = CFailure k kd -> fail_report ti k kd = false) -> QI st -> QI (step ti st c).
Proof.
  destruct st as [r w]. unfold QI. cbn [fst snd]. intros K Hc [Hf Hl].
  unfold Report.step, rep_step, console_step, zero_step, out_write.
  destruct (rp_kind r) eqn:Ek; try congruence; destruct c; cbn [fst snd];
    rewrite ?stdout_mark, ?lines_of_sys_raw, ?lines_of_sys_err; auto.
  all: repeat match goal with |- context [if ?b then _ else _] => destruct b eqn:? end; cbn [fst snd];
    rewrite ?stdout_mark, ?stdout_real_out, ?lines_of_app, ?lines_of_chunks, ?filter_app, ?Hl; auto.
  all: try (split; [exact Hf|]; simpl; rewrite ?summary_silent by exact Hf; reflexivity).
  all: assert (Hne : N.eqb k k0 = false)
    by (apply N.eqb_neq; intros <-; rewrite (Hc kind eq_refl) in *; discriminate).
  all: split; [|simpl; rewrite Hne; reflexivity]; auto.
  all: intros kd; simpl; rewrite in_app_iff; intros [H|[H|[]]]; [exact (Hf kd H)|].
  all: injection H; intros _ <-; rewrite N.eqb_refl in Hne; discriminate.
Qed.

Lemma silent_run cs : forall st, rp_kind (fst st) <> RJson ->
  (forall kd, In (CFailure k kd) cs -> fail_report ti k kd = false) -> QI st -> QI (run ti st cs).
Proof.
  induction cs as [|c cs IH]; intros st K Hc Hq; [exact Hq|]. rewrite run_cons. apply IH.
  - rewrite step_kind. exact K.
  - intros kd H. apply Hc. right; exact H.
  - apply silent_step; auto. intros kd ->. apply Hc. left; reflexivity.
Qed.

(* a failure callback is made only for a failure event of the runner *)
Lemma finish_calls_failure proc rest kd :
  In (CFailure k kd) (finish_calls ti proc rest) -> In (EFailure k kd) rest.
Proof.
  assert (Hcb : forall e, In (CFailure k kd) (cb ti proc e) -> e = EFailure k kd).
  { intros e H. apply cb_cases in H. destruct H as [(s & p & t & H)|H]; [discriminate|].
    destruct e; try contradiction; try discriminate; try congruence. destruct H; discriminate. }
  assert (Hfm : forall l, In (CFailure k kd) (flat_map (cb ti proc) l) -> In (EFailure k kd) l).
  { intros l H. apply in_flat_map in H. destruct H as (e & Hin & H). apply Hcb in H. subst. exact Hin. }
  induction rest as [|e rest IH].
  - intros [H|[]]; discriminate.
  - destruct e; try (change (finish_calls ti proc (?e0 :: rest)) with (CCompleteRun :: flat_map (cb ti proc) (e0 :: rest));
                     intros [H|H]; [discriminate|apply Hfm; exact H]).
    change (finish_calls ti proc (ETeardown k0 :: rest)) with (cb ti proc (ETeardown k0) ++ finish_calls ti proc rest).
    rewrite in_app_iff. intros [H|H]; [apply Hcb in H; discriminate|right; apply IH; exact H].
Qed.
Lemma calls_of_failure proc tr kd : In (CFailure k kd) (calls_of ti proc tr) -> In (EFailure k kd) tr.
Proof.
  assert (Hcb : forall e, In (CFailure k kd) (cb ti proc e) -> e = EFailure k kd).
  { intros e H. apply cb_cases in H. destruct H as [(s & p & t & H)|H]; [discriminate|].
    destruct e; try contradiction; try discriminate; try congruence. destruct H; discriminate. }
  induction tr as [|e tr IH]; [intros []|].
  destruct e; try (change (calls_of ti proc (?e0 :: tr)) with (cb ti proc e0 ++ calls_of ti proc tr);
                   rewrite in_app_iff; intros [H|H]; [left; apply Hcb; exact H|right; apply IH; exact H]).
  change (calls_of ti proc (EClose :: tr)) with (finish_calls ti proc tr). intros H. right. eapply finish_calls_failure; eauto.
Qed.

(* console / executed-only / zero / error-only, EVERY event list: when every failure reported for task k
   carries report=False, no line about a failure of k reaches the real stdout -- neither the failure entry
   nor an entry of the final summary *)
Theorem console_unreported_silent proc kind fv tr : kind <> RJson ->
  (forall kd, In (EFailure k kd) tr -> fail_report ti k kd = false) ->
  filter about_failure (lines_of (w_stdout (snd (report ti proc kind fv tr)))) = [].
Proof.
  intros K Hf. unfold report.
  apply (silent_run (CInitialize :: calls_of ti proc tr) (init kind fv)); [exact K| |split; [intros kd []|reflexivity]].
  intros kd [H|H]; [discriminate|]. apply Hf. eapply calls_of_failure; eauto.
Qed.
End Silent.

(* in the terms of the task attribute: the task's own failures (TaskFailed / TaskError returned by its actions) *)
Theorem console_unreported_silent_attr ti proc kind fv tr k : kind <> RJson ->
  ta_report (ti k) = false -> (forall kd, In (EFailure k kd) tr -> kd = 0 \/ kd = 1) ->
  filter (about_failure k) (lines_of (w_stdout (snd (report ti proc kind fv tr)))) = [].
Proof.
  intros K Hr Hk. apply console_unreported_silent; [exact K|].
  intros kd Hin. unfold fail_report. rewrite Hr. destruct (Hk kd Hin) as [-> | ->]; reflexivity.
Qed.

(* the exit code is computed by the runner alone: no task attribute, no reporter class enters it *)
Theorem exit_code_ignores_reporter_serial tasks wake_rank calc_rank continue_ always fuel sel ti kind fv :
  snd (report_serial tasks wake_rank calc_rank continue_ always fuel sel ti kind fv) =
  snd (run_serial tasks wake_rank calc_rank continue_ always fuel sel).
Proof. reflexivity. Qed.
Theorem exit_code_ignores_reporter_parallel tasks wake_rank calc_rank continue_ always proc fuel nprocs sched sel ti kind fv :
  snd (report_parallel tasks wake_rank calc_rank continue_ always proc fuel nprocs sched sel ti kind fv) =
  snd (run_parallel tasks wake_rank calc_rank continue_ always proc fuel nprocs sched sel).
Proof. reflexivity. Qed.

(* composed with the runner models: a task the runner reported as failed is listed once, as `fail`, with its error
   -- for EVERY attribute table, so whatever the report flag of the failure says *)
Theorem json_failed_serial :
  forall tasks wake_rank calc_rank continue_ always fuel selection ti fv k kd,
  let run := run_serial tasks wake_rank calc_rank continue_ always fuel selection in
  snd run <> 99 -> In (EFailure k kd) (fst run) ->
  exists doc v,
    w_stdout (snd (report ti false RJson fv (fst run))) = [ODoc doc] /\ NoDup (map fst (d_tasks doc)) /\
    In (k, v) (d_tasks doc) /\ tr_result v = Some JFail /\ tr_started v = mem k (execs (fst run)) /\ tr_error v = Some kd.
Proof.
  intros tasks wake_rank calc_rank continue_ always fuel selection ti fv k kd run Hf Hin.
  destruct (json_serial tasks wake_rank calc_rank continue_ always fuel selection ti fv Hf) as (doc & A1 & _ & _ & A4 & A5 & _).
  destruct (A5 k (EFailure k kd) Hin (N.eqb_refl k)) as (v & B1 & B2 & B3 & B4).
  exists doc, v. auto 10.
Qed.
Theorem json_failed_parallel :
  forall tasks wake_rank calc_rank continue_ always proc fuel nprocs sched selection ti fv k kd,
  let run := run_parallel tasks wake_rank calc_rank continue_ always proc fuel nprocs sched selection in
  let tr := events_of (fst run) in
  In (EFailure k kd) tr ->
  exists doc v,
    w_stdout (snd (report ti proc RJson fv tr)) = [ODoc doc] /\ NoDup (map fst (d_tasks doc)) /\
    In (k, v) (d_tasks doc) /\ tr_result v = Some JFail /\ tr_started v = mem k (execs tr) /\ tr_error v = Some kd.
Proof.
  intros tasks wake_rank calc_rank continue_ always proc fuel nprocs sched selection ti fv k kd run tr Hin.
  destruct (json_parallel tasks wake_rank calc_rank continue_ always proc fuel nprocs sched selection ti fv) as (doc & A1 & _ & _ & A4 & A5 & _).
  destruct (A5 k (EFailure k kd) Hin (N.eqb_refl k)) as (v & B1 & B2 & B3 & B4).
  exists doc, v. auto 10.
Qed.
