(* LoaderP.v -- proofs about Model/Loader.v *)
From Coq Require Import ZifyBool.
From DoitV Require Import Base Loader.
Open Scope Z_scope.

(* ------------------------------------------------------------------ the result monad *)
Lemma bind_ok {A B} (x : res A) (f : A -> res B) b :
  bind x f = Ok b -> exists a, x = Ok a /\ f a = Ok b.
Proof. destruct x; simpl; intros H; try discriminate. eauto. Qed.

Lemma bind_crash {A B} (x : res A) (f : A -> res B) c :
  bind x f = Crash c -> x = Crash c \/ exists a, x = Ok a /\ f a = Crash c.
Proof. destruct x; simpl; intros H; try discriminate; [right; eauto | left; congruence]. Qed.

Lemma unless_ok {A} b (k : res A) a : invalid_unless b k = Ok a -> b = true /\ k = Ok a.
Proof. destruct b; simpl; intros H; try discriminate; auto. Qed.

Lemma unless_crash {A} b (k : res A) c : invalid_unless b k = Crash c -> b = true /\ k = Crash c.
Proof. destruct b; simpl; intros H; try discriminate; auto. Qed.

Lemma each_ok {A} (f : A -> res unit) l u : each f l = Ok u -> Forall (fun x => f x = Ok tt) l.
Proof.
  induction l as [|x r IH]; simpl; intros H; constructor.
  - apply bind_ok in H. destruct H as [[] [H1 _]]. exact H1.
  - apply bind_ok in H. destruct H as [[] [_ H2]]. auto.
Qed.

Lemma each_crash {A} (f : A -> res unit) l c : each f l = Crash c -> exists x, In x l /\ f x = Crash c.
Proof.
  induction l as [|x r IH]; simpl; intros H; try discriminate.
  apply bind_crash in H. destruct H as [H|[a [_ H]]].
  - exists x; auto.
  - destruct (IH H) as [y [Hy1 Hy2]]. exists y; auto.
Qed.

Lemma mapM_ok {A B} (f : A -> res B) l ys : mapM f l = Ok ys -> Forall2 (fun x y => f x = Ok y) l ys.
Proof.
  revert ys; induction l as [|x r IH]; simpl; intros ys H.
  - inversion H. constructor.
  - apply bind_ok in H. destruct H as [y [H1 H]]. apply bind_ok in H. destruct H as [ys' [H2 H]].
    inversion H; subst. constructor; auto.
Qed.

Lemma mapM_crash {A B} (f : A -> res B) l c : mapM f l = Crash c -> exists x, In x l /\ f x = Crash c.
Proof.
  induction l as [|x r IH]; simpl; intros H; try discriminate.
  apply bind_crash in H. destruct H as [H|[a [_ H]]].
  - exists x; auto.
  - apply bind_crash in H. destruct H as [H|[ys [_ H]]]; try discriminate.
    destruct (IH H) as [y [Hy1 Hy2]]. exists y; auto.
Qed.

(* an invariant of the state carried through foldM *)
Lemma foldM_inv {A S} (f : S -> A -> res S) (P : S -> Prop) l :
  (forall s x s', In x l -> P s -> f s x = Ok s' -> P s') ->
  forall s s', P s -> foldM f l s = Ok s' -> P s'.
Proof.
  induction l as [|x r IH]; simpl; intros Hstep s s' Hs H.
  - inversion H; subst; auto.
  - apply bind_ok in H. destruct H as [s1 [H1 H2]].
    apply (IH (fun s x s' Hin => Hstep s x s' (or_intror Hin)) s1 s'); auto.
    apply (Hstep s x s1); auto.
Qed.

Lemma foldM_crash {A S} (f : S -> A -> res S) (P : S -> Prop) l c :
  (forall s x s', In x l -> P s -> f s x = Ok s' -> P s') ->
  forall s, P s -> foldM f l s = Crash c -> exists s0 x, In x l /\ P s0 /\ f s0 x = Crash c.
Proof.
  induction l as [|x r IH]; simpl; intros Hstep s Hs H; try discriminate.
  apply bind_crash in H. destruct H as [H|[s1 [H1 H2]]].
  - exists s, x; auto.
  - destruct (IH (fun s x s' Hin => Hstep s x s' (or_intror Hin)) s1) as [s0 [y [Hy [Hp Hc]]]]; auto.
    + apply (Hstep s x s1); auto.
    + exists s0, y; auto.
Qed.

(* every step of a successful foldM succeeded, from some state satisfying the invariant *)
Lemma foldM_steps {A S} (f : S -> A -> res S) (P : S -> Prop) l :
  (forall s x s', In x l -> P s -> f s x = Ok s' -> P s') ->
  forall s s', P s -> foldM f l s = Ok s' ->
  forall x, In x l -> exists s0 s1, P s0 /\ f s0 x = Ok s1.
Proof.
  induction l as [|y r IH]; simpl; intros Hstep s s' Hs H x Hin; [tauto|].
  apply bind_ok in H. destruct H as [s1 [H1 H2]].
  destruct Hin as [<-|Hin].
  - exists s, s1; auto.
  - apply (IH (fun s x s' Hin => Hstep s x s' (or_intror Hin)) s1 s'); auto.
    apply (Hstep s y s1); auto.
Qed.

Lemma F2_in_r0 {A B} (R : A -> B -> Prop) l l' y : Forall2 R l l' -> In y l' -> exists x, In x l /\ R x y.
Proof. induction 1; simpl; [tauto|]. intros [<-|H1]; eauto. destruct (IHForall2 H1) as [z [Hz1 Hz2]]. eauto. Qed.

(* ------------------------------------------------------------------ strings, small facts *)
Lemma mem_str_In s l : mem_str s l = true <-> In s l.
Proof.
  unfold mem_str. rewrite existsb_exists. split.
  - intros [y [H1 H2]]. apply String.eqb_eq in H2. subst; auto.
  - intros H. exists s. split; auto. apply String.eqb_refl.
Qed.

Lemma mem_str_false s l : mem_str s l = false <-> ~ In s l.
Proof.
  split; intros H.
  - intros Hin. apply mem_str_In in Hin. congruence.
  - destruct (mem_str s l) eqn:E; auto. apply mem_str_In in E. contradiction.
Qed.

Lemma first_dup_false seen l :
  first_dup seen l = false -> NoDup l /\ forall x, In x l -> ~ In x seen.
Proof.
  revert seen; induction l as [|x r IH]; simpl; intros seen H.
  - split; [constructor | tauto].
  - apply orb_false_iff in H. destruct H as [H1 H2].
    apply mem_str_false in H1. destruct (IH _ H2) as [Hnd Hdis]. split.
    + constructor; auto. intros Hin. apply (Hdis x Hin). left; auto.
    + intros y [<-|Hy]; auto. intros Hs. apply (Hdis y Hy). right; auto.
Qed.

(* ------------------------------------------------------------------ TaskControl *)
Lemma set_task_dep_fields t l :
  t_name (set_task_dep t l) = t_name t /\ t_setup (set_task_dep t l) = t_setup t /\
  t_calc (set_task_dep t l) = t_calc t /\ t_targets (set_task_dep t l) = t_targets t /\
  t_has_subtask (set_task_dep t l) = t_has_subtask t /\ t_subtask_of (set_task_dep t l) = t_subtask_of t /\
  t_task_dep (set_task_dep t l) = l /\ t_file_dep (set_task_dep t l) = t_file_dep t /\ t_wild (set_task_dep t l) = t_wild t.
Proof. repeat split. Qed.

Definition same_but_deps (t t' : task) : Prop :=
  t_name t' = t_name t /\ t_setup t' = t_setup t /\ t_calc t' = t_calc t /\ t_targets t' = t_targets t /\
  t_has_subtask t' = t_has_subtask t /\ t_subtask_of t' = t_subtask_of t /\ t_file_dep t' = t_file_dep t /\
  exists extra, t_task_dep t' = t_task_dep t ++ extra.

Lemma expand_wild_ok fn names t t' :
  expand_wild fn names t = Ok t' ->
  same_but_deps t t' /\
  forall d, In d (t_task_dep t') -> In d (t_task_dep t) \/ exists s, d = VStr s /\ In s names.
Proof.
  unfold expand_wild. intros H. apply bind_ok in H. destruct H as [add [H1 H2]]. inversion H2; subst; clear H2.
  split.
  - unfold same_but_deps; simpl. repeat split. eauto.
  - simpl. intros d Hd. apply in_app_or in Hd. destruct Hd as [Hd|Hd]; auto. right.
    apply in_concat in Hd. destruct Hd as [l [Hl Hd]].
    apply mapM_ok in H1.
    assert (Hx : exists p, In p (t_wild t) /\ wild_tasks fn names p = Ok l).
    { destruct (F2_in_r0 _ _ _ _ H1 Hl) as [p [Hp1 Hp2]]. eauto. }
    destruct Hx as [p [_ Hp]]. unfold wild_tasks in Hp.
    destruct p; try (destruct (is_nil names); [inversion Hp; subst; simpl in Hd; tauto | discriminate]).
    inversion Hp; subst. apply in_map_iff in Hd. destruct Hd as [s0 [<- Hs]].
    apply filter_In in Hs. exists s0. tauto.
Qed.

Lemma dep_exists_ok names d u : dep_exists names d = Ok u -> exists s, d = VStr s /\ In s names.
Proof.
  unfold dep_exists. destruct d; try (destruct (hashable _); discriminate).
  destruct (mem_str s names) eqn:E; try discriminate. intros _. exists s. split; auto. apply mem_str_In; auto.
Qed.

Definition refs_in (names : list string) (l : list val) : Prop :=
  forall d, In d l -> exists s, d = VStr s /\ In s names.

Lemma each_dep_exists names l u : each (dep_exists names) l = Ok u -> refs_in names l.
Proof.
  intros H d Hd. apply each_ok in H. rewrite Forall_forall in H. apply (dep_exists_ok names d tt); auto.
Qed.

Lemma check_dep_names_ok lv names t u :
  check_dep_names lv names t = Ok u ->
  refs_in names (t_task_dep t) /\ refs_in names (t_setup t) /\ (attr_strict lv = true -> refs_in names (t_calc t)).
Proof.
  unfold check_dep_names. intros H.
  apply bind_ok in H. destruct H as [[] [H1 H]]. apply bind_ok in H. destruct H as [[] [H2 H]].
  split; [|split].
  - eapply each_dep_exists; eauto.
  - eapply each_dep_exists; eauto.
  - intros E. rewrite E in H. eapply each_dep_exists; eauto.
Qed.

Lemma target_owner_name ts f o : target_owner ts f = Some o -> In o (map t_name ts).
Proof.
  induction ts as [|t r IH]; simpl; try discriminate.
  destruct (mem_str f (t_targets t)); intros H.
  - inversion H; auto.
  - right; auto.
Qed.

Definition imp_step (ts : list task) (deps : list val) (f : string) : list val :=
  match target_owner ts f with
  | Some o => if existsb (veq (VStr o)) deps then deps else deps ++ [VStr o]
  | None => deps end.

Lemma imp_step_spec ts deps f :
  (exists extra, imp_step ts deps f = deps ++ extra) /\
  forall d, In d (imp_step ts deps f) -> In d deps \/ exists s, d = VStr s /\ In s (map t_name ts).
Proof.
  unfold imp_step. destruct (target_owner ts f) as [o|] eqn:Eo.
  - destruct (existsb (veq (VStr o)) deps).
    + split; [exists []; rewrite app_nil_r; auto | auto].
    + split; [eauto|]. intros d Hd. apply in_app_or in Hd. destruct Hd as [Hd|[<-|[]]]; auto.
      right. exists o. split; auto. eapply target_owner_name; eauto.
  - split; [exists []; rewrite app_nil_r; auto | auto].
Qed.

Lemma imp_fold_spec ts fs : forall deps,
  (exists extra, fold_left (imp_step ts) fs deps = deps ++ extra) /\
  forall d, In d (fold_left (imp_step ts) fs deps) -> In d deps \/ exists s, d = VStr s /\ In s (map t_name ts).
Proof.
  induction fs as [|f fs IH]; intros deps; simpl.
  - split; [exists []; rewrite app_nil_r; auto | auto].
  - destruct (IH (imp_step ts deps f)) as [[e2 He2] Hin2].
    destruct (imp_step_spec ts deps f) as [[e1 He1] Hin1]. split.
    + exists (e1 ++ e2). rewrite He2, He1, app_assoc. reflexivity.
    + intros d Hd. destruct (Hin2 d Hd) as [H|H]; auto.
Qed.

Lemma implicit_deps_ok ts t :
  same_but_deps t (implicit_deps ts t) /\
  forall d, In d (t_task_dep (implicit_deps ts t)) -> In d (t_task_dep t) \/ exists s, d = VStr s /\ In s (map t_name ts).
Proof.
  destruct (imp_fold_spec ts (t_file_dep t) (t_task_dep t)) as [[extra He] Hin].
  split.
  - unfold same_but_deps, implicit_deps; simpl. repeat split. exists extra. exact He.
  - exact Hin.
Qed.

Lemma F2_impl {A B} (R Q : A -> B -> Prop) l l' : (forall a b, R a b -> Q a b) -> Forall2 R l l' -> Forall2 Q l l'.
Proof. intros H F. induction F; constructor; auto. Qed.

Lemma Forall2_map_eq {A B C} (f : A -> C) (g : B -> C) l l' (R : A -> B -> Prop) :
  (forall x y, R x y -> g y = f x) -> Forall2 R l l' -> map g l' = map f l.
Proof. intros H F. induction F; simpl; auto. rewrite IHF, (H _ _ H0). reflexivity. Qed.

Lemma same_but_deps_trans a b c : same_but_deps a b -> same_but_deps b c -> same_but_deps a c.
Proof.
  intros (H1 & H2 & H3 & H4 & H5 & H6 & H7 & [e1 He1]) (G1 & G2 & G3 & G4 & G5 & G6 & G7 & [e2 He2]).
  unfold same_but_deps. repeat split; try congruence.
  exists (e1 ++ e2). rewrite He2, He1, app_assoc. reflexivity.
Qed.

(* what a successful TaskControl guarantees about its tasks *)
Record control_post (lv : level) (ts ts' : list task) : Prop := {
  cp_names : map t_name ts' = map t_name ts;
  cp_nodup : NoDup (map t_name ts');
  cp_targets : NoDup (flat_map t_targets ts');
  cp_same : Forall2 same_but_deps ts ts';
  cp_refs : forall t, In t ts' -> refs_in (map t_name ts') (t_task_dep t) /\ refs_in (map t_name ts') (t_setup t) /\
                                  (attr_strict lv = true -> refs_in (map t_name ts') (t_calc t))
}.

Lemma Forall2_map_r {A B C} (R : A -> B -> Prop) (g : B -> C) l l' :
  Forall2 R l l' -> Forall2 (fun a c => exists b, R a b /\ c = g b) l (map g l').
Proof. induction 1; simpl; constructor; eauto. Qed.

Lemma control_ok fn lv ts ts' : control fn lv ts = Ok ts' -> control_post lv ts ts'.
Proof.
  unfold control. destruct (first_dup [] (map t_name ts)) eqn:Ed; try discriminate.
  intros H. apply bind_ok in H. destruct H as [ts1 [H1 H]]. apply bind_ok in H. destruct H as [[] [H2 H]].
  destruct (first_dup [] (flat_map t_targets ts1)) eqn:Et; try discriminate.
  inversion H; subst; clear H.
  apply mapM_ok in H1.
  assert (F1 : Forall2 (fun t t1 => same_but_deps t t1 /\
                forall d, In d (t_task_dep t1) -> In d (t_task_dep t) \/ exists s, d = VStr s /\ In s (map t_name ts)) ts ts1).
  { eapply F2_impl; [|exact H1]. intros a b Hab. simpl in Hab. apply expand_wild_ok in Hab. exact Hab. }
  assert (N1 : map t_name ts1 = map t_name ts).
  { eapply Forall2_map_eq; [|exact F1]. intros x y [[Hn _] _]. exact Hn. }
  assert (N2 : map t_name (map (implicit_deps ts1) ts1) = map t_name ts1).
  { rewrite map_map. apply map_ext. intros t. destruct (implicit_deps_ok ts1 t) as [[Hn _] _]. exact Hn. }
  apply first_dup_false in Ed. destruct Ed as [Hnd _].
  apply first_dup_false in Et. destruct Et as [Htg _].
  constructor.
  - rewrite N2, N1. reflexivity.
  - rewrite N2, N1. exact Hnd.
  - assert (E : flat_map t_targets (map (implicit_deps ts1) ts1) = flat_map t_targets ts1).
    { rewrite flat_map_concat_map, map_map, <- flat_map_concat_map. apply flat_map_ext.
      intros t. destruct (implicit_deps_ok ts1 t) as [[_ [_ [_ [Ht _]]]] _]. exact Ht. }
    rewrite E. exact Htg.
  - eapply F2_impl; [|apply (Forall2_map_r _ (implicit_deps ts1) _ _ F1)].
    intros a c [b [[Hab _] ->]]. eapply same_but_deps_trans; [exact Hab|].
    apply implicit_deps_ok.
  - intros t' Hin. apply in_map_iff in Hin. destruct Hin as [t1 [<- Hin1]].
    rewrite N2, N1.
    apply each_ok in H2. rewrite Forall_forall in H2. specialize (H2 t1 Hin1).
    apply check_dep_names_ok in H2. destruct H2 as [R1 [R2 R3]].
    destruct (implicit_deps_ok ts1 t1) as [[_ [Hs [Hc _]]] Hd].
    split; [|split].
    + intros d Hdin. destruct (Hd d Hdin) as [H|H]; auto. rewrite N1 in H. exact H.
    + rewrite Hs. exact R2.
    + rewrite Hc. exact R3.
Qed.

(* ------------------------------------------------------------------ Task.__init__ (current code, level L2) *)
Definition targ (get : attr -> option val) (a : attr) : val := match get a with Some v => v | None => dflt a end.
Definition tgetargs (get : attr -> option val) : val :=
  match targ get AGetargs with VNone => VDict [] | v => v end.
Definition tvalue (get : attr -> option val) (a : attr) : val :=
  match a with AGetargs => tgetargs get | _ => targ get a end.
Definition ldep_part (ldep : option string) : list val :=
  match ldep with Some e => if String.eqb e EmptyString then [] else [VStr e] | None => [] end.
Definition getargs_step (get : attr -> option val) : res (list val) :=
  if truthy (tgetargs get) then init_getargs L2 (tgetargs get) (elems (tvalue get ASetup)) else Ok [].

Lemma task_init_eq nm get ldep hs :
  task_init L2 nm get ldep hs =
  invalid_unless (is_str nm) (
  do _ <- each (fun a => check_attr L2 a (tvalue get a)) attr_order ;;
  match nm with
  | VStr name =>
    invalid_unless (negb (contains ch_eq name)) (
    do _ <- each name_item (elems (tvalue get ASetup)) ;;
    do file_dep <- mapM path_item (elems (tvalue get AFileDep)) ;;
    do _ <- each name_item (elems (tvalue get ATaskDep)) ;;
    do tw <- expand_task_dep (elems (tvalue get ATaskDep)) ;;
    do _ <- each name_item (elems (tvalue get ACalcDep)) ;;
    do _ <- each calc_item (elems (tvalue get ACalcDep)) ;;
    do extra <- getargs_step get ;;
    do _ <- each (uptodate_item L2) (elems (tvalue get AUptodate)) ;;
    do targets <- mapM path_item (elems (tvalue get ATargets)) ;;
    do _ <- clean_step (tvalue get AClean) ;;
    do _ <- each create_action (elems (tvalue get ATeardown)) ;;
    Ok {| t_name := name; t_task_dep := fst tw ++ ldep_part ldep; t_wild := snd tw;
          t_setup := elems (tvalue get ASetup) ++ extra;
          t_calc := elems (tvalue get ACalcDep); t_file_dep := file_dep; t_targets := targets;
          t_has_subtask := hs; t_subtask_of := None; t_implicit := false |})
  | _ => Invalid InvalidTask
  end).
Proof. reflexivity. Qed.

(* the documented table of accepted types/values (doc/tasks.rst, Task.valid_attr); None is the
   default of getargs *)
Definition is_true (v : val) : bool := match v with VTrue => true | _ => false end.
Definition type_ok (a : attr) (v : val) : bool :=
  match a with
  | AActions => is_listtuple v || is_none v
  | AClean => is_listtuple v || is_true v
  | ADoc | APosArg => is_str v || is_none v
  | AVerbosity => match v with VNone => true | VInt n => (n =? 0) || (n =? 1) || (n =? 2) | _ => false end
  | AIo | AMeta | AGetargs => is_dict v || is_none v
  | ATitle => is_callable v || is_none v
  | _ => is_listtuple v
  end.

Definition chk_ok (a : attr) (v : val) : bool := type_ok a v && negb (attr_eqb a AGetargs && is_none v).

Lemma check_attr_chk a v : check_attr L2 a v = if chk_ok a v then Ok tt else Invalid InvalidTask.
Proof.
  unfold check_attr, chk_ok. destruct a; destruct v; simpl; try reflexivity.
  destruct n as [|[[p|p|]|[p|p|]|]|p]; reflexivity.
Qed.

Lemma check_attr_type_ok a v : check_attr L2 a v = Ok tt <-> (type_ok a v = true /\ (a = AGetargs -> v <> VNone)).
Proof.
  rewrite check_attr_chk. unfold chk_ok. split.
  - destruct (type_ok a v) eqn:T; simpl; try discriminate.
    destruct (attr_eqb a AGetargs && is_none v) eqn:E; simpl; try discriminate.
    intros _. split; auto. intros -> ->. simpl in E. discriminate.
  - intros [-> G]. simpl. destruct (attr_eqb a AGetargs && is_none v) eqn:E; simpl; auto.
    apply andb_true_iff in E. destruct E as [E1 E2]. exfalso. apply G.
    + destruct a; simpl in E1; try discriminate. reflexivity.
    + destruct v; simpl in E2; try discriminate. reflexivity.
Qed.

Lemma check_attr_nocrash lv a v c : check_attr lv a v <> Crash c.
Proof. unfold check_attr. destruct (_ || _); discriminate. Qed.

Lemma attr_order_all a : In a attr_order.
Proof. destruct a; simpl; tauto. Qed.

Lemma path_item_nocrash v c : path_item v <> Crash c.
Proof. destruct v; simpl; discriminate. Qed.

Lemma name_item_nocrash v c : name_item v <> Crash c.
Proof. unfold name_item. destruct (is_str v); discriminate. Qed.

Lemma create_action_nocrash v c : create_action v <> Crash c.
Proof.
  destruct v; simpl; try discriminate.
  destruct (3 <? length l)%nat; try discriminate.
  unfold invalid_unless. destruct (py_action_ok _ _ _); discriminate.
Qed.

Lemma each_nocrash {A} (f : A -> res unit) l c : (forall x, In x l -> f x <> Crash c) -> each f l <> Crash c.
Proof. intros H Hc. apply each_crash in Hc. destruct Hc as [x [Hx Hc]]. apply (H x Hx Hc). Qed.

Lemma mapM_nocrash {A B} (f : A -> res B) l c : (forall x, In x l -> f x <> Crash c) -> mapM f l <> Crash c.
Proof. intros H Hc. apply mapM_crash in Hc. destruct Hc as [x [Hx Hc]]. apply (H x Hx Hc). Qed.

Lemma clean_step_nocrash v c : type_ok AClean v = true -> clean_step v <> Crash c.
Proof.
  destruct v; simpl; try discriminate; intros _; apply each_nocrash; intros; apply create_action_nocrash.
Qed.

Lemma each_name_str l u : each name_item l = Ok u -> forallb is_str l = true.
Proof.
  intros H. apply each_ok in H. rewrite Forall_forall in H. rewrite forallb_forall. intros x Hx.
  specialize (H x Hx). unfold name_item in H. destruct (is_str x); auto. discriminate.
Qed.

(* _expand_task_dep *)
Lemma expand_task_dep_sub l tw :
  expand_task_dep l = Ok tw -> forall d, In d (fst tw ++ snd tw) -> In d l.
Proof.
  unfold expand_task_dep.
  apply (foldM_inv _ (fun acc : list val * list val => forall d, In d (fst acc ++ snd acc) -> In d l)).
  - intros [a b] x [a' b'] Hx Hs Hf. apply bind_ok in Hf. destruct Hf as [w [_ Hf]].
    simpl in *. intros d Hd. destruct w; inversion Hf; subst; clear Hf;
      repeat (apply in_app_or in Hd; destruct Hd as [Hd|Hd]); simpl in *;
      try (apply Hs; apply in_or_app; tauto); destruct Hd as [<-|[]]; auto.
  - simpl. tauto.
Qed.

Lemma expand_task_dep_nowild l tw :
  expand_task_dep l = Ok tw -> forall d, In d l -> star_in d = Ok false -> In d (fst tw).
Proof.
  unfold expand_task_dep. revert tw.
  assert (G : forall l acc tw, foldM (fun acc dep => do w <- star_in dep ;;
                 Ok (if w then (fst acc, snd acc ++ [dep]) else (fst acc ++ [dep], snd acc))) l acc = Ok tw ->
              (forall d, In d (fst acc) -> In d (fst tw)) /\ forall d, In d l -> star_in d = Ok false -> In d (fst tw)).
  { induction l0 as [|x r IH]; simpl; intros acc tw H.
    - inversion H; subst. split; auto. tauto.
    - apply bind_ok in H. destruct H as [acc1 [H1 H2]]. apply bind_ok in H1. destruct H1 as [w [Hw H1]].
      destruct (IH _ _ H2) as [Ha Hb]. inversion H1; subst; clear H1. split.
      + intros d Hd. apply Ha. destruct w; simpl; auto. apply in_or_app; auto.
      + intros d [<-|Hd] Hs; auto. rewrite Hs in Hw. inversion Hw; subst. apply Ha. simpl. apply in_or_app; simpl; auto. }
  intros tw H. apply (G l ([], []) tw H).
Qed.

Lemma star_in_str v : is_str v = true -> exists b, star_in v = Ok b.
Proof. destruct v; simpl; try discriminate. eauto. Qed.

Lemma expand_task_dep_nocrash l c : forallb is_str l = true -> expand_task_dep l <> Crash c.
Proof.
  intros Hs Hc. unfold expand_task_dep in Hc.
  apply (foldM_crash _ (fun _ => True)) in Hc; auto.
  destruct Hc as [s0 [x [Hx [_ Hc]]]]. rewrite forallb_forall in Hs. destruct (star_in_str x (Hs x Hx)) as [b Hb].
  rewrite Hb in Hc. simpl in Hc. discriminate.
Qed.

Lemma is_str_hashable v : is_str v = true -> hashable v = true.
Proof. destruct v; simpl; try discriminate; auto. Qed.

(* _init_getargs *)
Lemma getargs_item_nocrash setup acc desc c : getargs_item L2 setup acc desc <> Crash c.
Proof.
  unfold getargs_item. simpl.
  destruct desc as [| |[|p0 [|q [|r l]]]|[|p0 [|q [|r l]]]| | | | | | | | | |]; try discriminate;
    destruct (is_str p0); discriminate.
Qed.

(* the task id named by an accepted getargs value is a str and ends up among the setup tasks *)
Lemma getargs_item_ok setup acc desc acc' :
  getargs_item L2 setup acc desc = Ok acc' ->
  (forall x, In x acc -> In x acc') /\
  (forallb is_str acc = true -> forallb is_str acc' = true) /\
  exists p0, py_item0 desc = Ok p0 /\ is_str p0 = true /\ (existsb (veq p0) setup = true \/ In p0 acc').
Proof.
  unfold getargs_item. simpl.
  destruct desc as [| |[|p0 [|q [|r l]]]|[|p0 [|q [|r l]]]| | | | | | | | | |]; try discriminate;
    destruct (is_str p0) eqn:Es; try discriminate; intros H; inversion H; subst; clear H;
    (destruct (existsb (veq p0) setup) eqn:Ex;
     [ split; [auto | split; [auto | exists p0; simpl; auto]]
     | split; [intros x Hx; apply in_or_app; auto
              | split; [intros Ha; rewrite forallb_app, Ha; simpl; rewrite Es; reflexivity
                       | exists p0; simpl; split; [reflexivity | split; [exact Es | right; apply in_or_app; simpl; auto]]]]]).
Qed.

Lemma init_getargs_nocrash g setup c : init_getargs L2 g setup <> Crash c.
Proof.
  destruct g; simpl; try discriminate. intros Hc.
  apply (foldM_crash _ (fun _ => True)) in Hc; auto.
  destruct Hc as [s0 [x [Hx [_ Hc]]]]. apply (getargs_item_nocrash setup s0 x c Hc).
Qed.

Lemma init_getargs_str g setup extra : init_getargs L2 g setup = Ok extra -> forallb is_str extra = true.
Proof.
  destruct g; simpl; try (intros H; inversion H; reflexivity).
  apply (foldM_inv _ (fun acc => forallb is_str acc = true)); auto.
  intros s x s' _ Hs Hf. apply getargs_item_ok in Hf. apply Hf; auto.
Qed.

Lemma init_getargs_ids kv setup extra :
  init_getargs L2 (VDict kv) setup = Ok extra ->
  forall desc, In desc (map snd kv) ->
  exists p0, py_item0 desc = Ok p0 /\ is_str p0 = true /\ (existsb (veq p0) setup = true \/ In p0 extra).
Proof.
  simpl. generalize (map snd kv) as l. intros l. generalize (@nil val) as acc. revert extra.
  assert (Mono : forall l a e, foldM (getargs_item L2 setup) l a = Ok e -> forall y, In y a -> In y e).
  { induction l0 as [|x r IH]; simpl; intros a e H y Hy.
    - inversion H; subst; auto.
    - apply bind_ok in H. destruct H as [a1 [H1 H2]]. apply (IH _ _ H2). apply getargs_item_ok in H1. apply H1; auto. }
  induction l as [|x r IH]; simpl; intros extra acc H desc Hin; [tauto|].
  apply bind_ok in H. destruct H as [acc1 [H1 H2]].
  destruct Hin as [<-|Hin].
  - apply getargs_item_ok in H1. destruct H1 as [_ [_ [p0 [Hp [Hs [Hi|Hi]]]]]]; exists p0; repeat split; auto.
    right. eapply Mono; eauto.
  - eapply IH; eauto.
Qed.

(* _init_uptodate *)
Lemma uptodate_item_nocrash v c : uptodate_item L2 v <> Crash c.
Proof.
  destruct v; simpl; try discriminate.
  destruct l as [|x [|a r]]; simpl; try discriminate. destruct (iterable a); discriminate.
Qed.

Lemma getargs_step_nocrash get c : getargs_step get <> Crash c.
Proof. unfold getargs_step. destruct (truthy _); [apply init_getargs_nocrash | discriminate]. Qed.

Lemma getargs_step_str get extra : getargs_step get = Ok extra -> forallb is_str extra = true.
Proof.
  unfold getargs_step. destruct (truthy (tgetargs get)); [|intros H; inversion H; reflexivity].
  apply init_getargs_str.
Qed.

(* no input makes Task.__init__ raise anything but InvalidTask *)
Lemma task_init_nocrash nm get ldep hs c : task_init L2 nm get ldep hs <> Crash c.
Proof.
  intros Hc. rewrite task_init_eq in Hc.
  apply unless_crash in Hc. destruct Hc as [_ Hc].
  apply bind_crash in Hc. destruct Hc as [Hc|[[] [Hchk Hc]]].
  { apply each_crash in Hc. destruct Hc as [a [_ Hc]]. revert Hc. apply check_attr_nocrash. }
  destruct nm; try discriminate.
  apply unless_crash in Hc. destruct Hc as [_ Hc].
  apply bind_crash in Hc. destruct Hc as [Hc|[[] [Hsetup Hc]]].
  { revert Hc. apply each_nocrash. intros; apply name_item_nocrash. }
  apply bind_crash in Hc. destruct Hc as [Hc|[fd [_ Hc]]].
  { revert Hc. apply mapM_nocrash. intros; apply path_item_nocrash. }
  apply bind_crash in Hc. destruct Hc as [Hc|[[] [Hdeps Hc]]].
  { revert Hc. apply each_nocrash. intros; apply name_item_nocrash. }
  apply bind_crash in Hc. destruct Hc as [Hc|[tw [_ Hc]]].
  { revert Hc. apply expand_task_dep_nocrash. eapply each_name_str; eauto. }
  apply bind_crash in Hc. destruct Hc as [Hc|[[] [Hcalc Hc]]].
  { revert Hc. apply each_nocrash. intros; apply name_item_nocrash. }
  apply bind_crash in Hc. destruct Hc as [Hc|[[] [_ Hc]]].
  { revert Hc. apply each_nocrash. intros x Hx. unfold calc_item.
    apply each_name_str in Hcalc. rewrite forallb_forall in Hcalc. rewrite (is_str_hashable x (Hcalc x Hx)). discriminate. }
  apply bind_crash in Hc. destruct Hc as [Hc|[extra [_ Hc]]].
  { revert Hc. apply getargs_step_nocrash. }
  apply bind_crash in Hc. destruct Hc as [Hc|[[] [_ Hc]]].
  { revert Hc. apply each_nocrash. intros; apply uptodate_item_nocrash. }
  apply bind_crash in Hc. destruct Hc as [Hc|[tg [_ Hc]]].
  { revert Hc. apply mapM_nocrash. intros; apply path_item_nocrash. }
  apply bind_crash in Hc. destruct Hc as [Hc|[[] [_ Hc]]].
  { revert Hc. apply clean_step_nocrash.
    apply each_ok in Hchk. rewrite Forall_forall in Hchk. specialize (Hchk AClean (attr_order_all _)).
    apply check_attr_type_ok in Hchk. apply Hchk. }
  apply bind_crash in Hc. destruct Hc as [Hc|[[] [_ Hc]]]; try discriminate.
  revert Hc. apply each_nocrash. intros; apply create_action_nocrash.
Qed.

(* what a successful Task.__init__ established *)
Record init_post (get : attr -> option val) (ldep : option string) (hs : bool) (nm : val) (t : task) : Prop := {
  ip_name : nm = VStr (t_name t);
  ip_noeq : contains ch_eq (t_name t) = false;
  ip_types : forall a, type_ok a (tvalue get a) = true;
  ip_hs : t_has_subtask t = hs;
  ip_sub : t_subtask_of t = None;
  ip_implicit : t_implicit t = false;
  ip_names_str : forallb is_str (elems (tvalue get ATaskDep)) = true /\ forallb is_str (elems (tvalue get ASetup)) = true /\
                 forallb is_str (elems (tvalue get ACalcDep)) = true;
  ip_deps : exists tw, expand_task_dep (elems (tvalue get ATaskDep)) = Ok tw /\
                       t_task_dep t = fst tw ++ ldep_part ldep /\ t_wild t = snd tw;
  ip_setup : exists extra, getargs_step get = Ok extra /\ t_setup t = elems (tvalue get ASetup) ++ extra;
  ip_calc : t_calc t = elems (tvalue get ACalcDep);
  ip_targets : mapM path_item (elems (tvalue get ATargets)) = Ok (t_targets t);
  ip_file_dep : mapM path_item (elems (tvalue get AFileDep)) = Ok (t_file_dep t)
}.

Lemma task_init_ok nm get ldep hs t :
  task_init L2 nm get ldep hs = Ok t -> init_post get ldep hs nm t.
Proof.
  intros H. rewrite task_init_eq in H.
  apply unless_ok in H. destruct H as [_ H].
  apply bind_ok in H. destruct H as [[] [Hchk H]].
  destruct nm; try discriminate.
  apply unless_ok in H. destruct H as [Heq H].
  apply bind_ok in H. destruct H as [[] [Hsetup H]].
  apply bind_ok in H. destruct H as [fd [Hfd H]].
  apply bind_ok in H. destruct H as [[] [Hdeps H]].
  apply bind_ok in H. destruct H as [tw [Htw H]].
  apply bind_ok in H. destruct H as [[] [Hcalc H]].
  apply bind_ok in H. destruct H as [[] [_ H]].
  apply bind_ok in H. destruct H as [extra [Hex H]].
  apply bind_ok in H. destruct H as [[] [_ H]].
  apply bind_ok in H. destruct H as [tg [Htg H]].
  apply bind_ok in H. destruct H as [[] [_ H]].
  apply bind_ok in H. destruct H as [[] [_ H]].
  inversion H; subst; clear H. constructor; simpl; auto.
  - apply negb_true_iff in Heq. exact Heq.
  - intros a. apply each_ok in Hchk. rewrite Forall_forall in Hchk. specialize (Hchk a (attr_order_all a)).
    apply check_attr_type_ok in Hchk. apply Hchk.
  - split; [|split]; eapply each_name_str; eauto.
  - exists tw. auto.
  - exists extra. auto.
Qed.

Lemma forallb_sub {A} (p : A -> bool) l l' : (forall x, In x l' -> In x l) -> forallb p l = true -> forallb p l' = true.
Proof. intros H F. rewrite forallb_forall in *. auto. Qed.

Lemma forallb_impl {A} (p q : A -> bool) l : (forall x, p x = true -> q x = true) -> forallb p l = true -> forallb q l = true.
Proof. intros H F. rewrite forallb_forall in *. auto. Qed.

Lemma ldep_part_str ldep : forallb is_str (ldep_part ldep) = true.
Proof. destruct ldep as [e|]; simpl; auto. destruct (String.eqb e EmptyString); reflexivity. Qed.

(* every reference a Task object holds is a str *)
Definition task_safe (t : task) : bool :=
  forallb is_str (t_task_dep t) && forallb is_str (t_wild t) && forallb is_str (t_setup t) && forallb is_str (t_calc t).

Lemma task_safe_inv t : task_safe t = true ->
  forallb is_str (t_task_dep t) = true /\ forallb is_str (t_wild t) = true /\
  forallb is_str (t_setup t) = true /\ forallb is_str (t_calc t) = true.
Proof.
  unfold task_safe. intros H.
  apply andb_true_iff in H. destruct H as [H S4]. apply andb_true_iff in H. destruct H as [H S3].
  apply andb_true_iff in H. destruct H as [S1 S2]. auto.
Qed.

Lemma task_init_safe nm get ldep hs t : task_init L2 nm get ldep hs = Ok t -> task_safe t = true.
Proof.
  intros H. apply task_init_ok in H. destruct H.
  destruct ip_names_str0 as (S1 & S2 & S3).
  destruct ip_deps0 as [tw [Htw [Hd Hw]]]. destruct ip_setup0 as [extra [Hex Hse]].
  pose proof (expand_task_dep_sub _ _ Htw) as Hsub.
  unfold task_safe. rewrite Hd, Hw, Hse, ip_calc0, !forallb_app.
  rewrite (forallb_sub is_str _ (fst tw) (fun x Hx => Hsub x (in_or_app _ _ _ (or_introl Hx))) S1).
  rewrite (forallb_sub is_str _ (snd tw) (fun x Hx => Hsub x (in_or_app _ _ _ (or_intror Hx))) S1).
  rewrite ldep_part_str, S2, S3, (getargs_step_str _ _ Hex). reflexivity.
Qed.

(* ------------------------------------------------------------------ dicts, items, the OrderedDict *)
Definition dict_get (d : tdict) (force : bool) : attr -> option val :=
  fun a => if force && attr_eqb a AActions then Some VNone else dget d (KAttr a).
Definition obj_get (attrs : list (attr * val)) : attr -> option val :=
  fun a => match aget attrs a with Some v => Some v | None => if attr_eqb a AActions then Some VNone else None end.

Lemma dict_to_task_nocrash nm d force c : dict_to_task L2 nm d force <> Crash c.
Proof.
  intros Hc. unfold dict_to_task in Hc.
  apply unless_crash in Hc. destruct Hc as [_ Hc]. apply unless_crash in Hc. destruct Hc as [_ Hc].
  revert Hc. apply task_init_nocrash.
Qed.

Lemma dict_to_task_ok nm d force t :
  dict_to_task L2 nm d force = Ok t ->
  (force = true \/ dhas d (KAttr AActions) = true) /\ existsb (fun kv => is_unknown (fst kv)) d = false /\
  init_post (dict_get d force) None false nm t.
Proof.
  unfold dict_to_task. intros H.
  apply unless_ok in H. destruct H as [H1 H]. apply unless_ok in H. destruct H as [H2 H].
  apply task_init_ok in H. split; [|split]; auto.
  - apply orb_true_iff in H1. exact H1.
  - apply negb_true_iff in H2. exact H2.
Qed.

Lemma dict_to_task_safe nm d force t : dict_to_task L2 nm d force = Ok t -> task_safe t = true.
Proof.
  unfold dict_to_task. intros H.
  apply unless_ok in H. destruct H as [_ H]. apply unless_ok in H. destruct H as [_ H].
  eapply task_init_safe; eauto.
Qed.

Lemma od_get_set o k t k' : od_get (od_set o k t) k' = if String.eqb k k' then Some t else od_get o k'.
Proof.
  induction o as [|[k0 t0] r IH]; simpl.
  - reflexivity.
  - destruct (String.eqb k0 k) eqn:E0; simpl.
    + apply String.eqb_eq in E0. subst. destruct (String.eqb k k'); reflexivity.
    + rewrite IH. destruct (String.eqb k0 k') eqn:E1; auto.
      apply String.eqb_eq in E1. subst. rewrite String.eqb_sym in E0. rewrite E0. reflexivity.
Qed.

Lemma od_set_In o k t p : In p (od_set o k t) -> p = (k, t) \/ In p o.
Proof.
  induction o as [|[k0 t0] r IH]; simpl.
  - intros [<-|[]]; auto.
  - destruct (String.eqb k0 k) eqn:E0; simpl.
    + apply String.eqb_eq in E0. subst. intros [<-|H]; auto.
    + intros [<-|H]; auto. destruct (IH H); auto.
Qed.

Lemma od_get_In o k t : od_get o k = Some t -> In (k, t) o.
Proof.
  induction o as [|[k0 t0] r IH]; simpl; try discriminate.
  destruct (String.eqb k0 k) eqn:E0.
  - apply String.eqb_eq in E0. subst. intros H; inversion H; auto.
  - auto.
Qed.

Definition od_safe (o : od) : bool := forallb (fun kt => task_safe (snd kt)) o.

Lemma od_set_safe o k t : od_safe o = true -> task_safe t = true -> od_safe (od_set o k t) = true.
Proof.
  unfold od_safe. intros Ho Ht. rewrite forallb_forall in *. intros p Hp.
  apply od_set_In in Hp. destruct Hp as [->|Hp]; auto.
Qed.

Lemma od_get_safe o k t : od_safe o = true -> od_get o k = Some t -> task_safe t = true.
Proof.
  unfold od_safe. intros Ho Hg. rewrite forallb_forall in Ho. apply od_get_In in Hg. apply (Ho _ Hg).
Qed.

Lemma task_safe_add_dep t s : task_safe t = true -> task_safe (set_task_dep t (t_task_dep t ++ [VStr s])) = true.
Proof.
  intros H. destruct (task_safe_inv _ H) as (S1 & S2 & S3 & S4).
  unfold task_safe. simpl. rewrite forallb_app. simpl. rewrite S1, S2, S3, S4. reflexivity.
Qed.

Lemma task_safe_set_group t : task_safe (set_group t) = task_safe t.
Proof. reflexivity. Qed.
Lemma task_safe_set_subtask_of t b : task_safe (set_subtask_of t b) = task_safe t.
Proof. reflexivity. Qed.
Lemma task_safe_regroup g prev : task_safe g = true -> task_safe prev = true -> task_safe (regroup g prev) = true.
Proof.
  intros Hg Hp. destruct (task_safe_inv _ Hg) as (S1 & S2 & S3 & S4). destruct (task_safe_inv _ Hp) as (P1 & _).
  unfold task_safe. simpl. rewrite forallb_app, S1, P1, S2, S3, S4. reflexivity.
Qed.

Lemma od_lookup_str o s : od_lookup o (VStr s) = Ok (od_get o s).
Proof. reflexivity. Qed.

Lemma od_lookup_some o v t : od_lookup o v = Ok (Some t) -> exists s, v = VStr s /\ od_get o s = Some t.
Proof.
  destruct v; simpl; try (destruct (forallb hashable _)); try discriminate.
  intros H. inversion H. eauto.
Qed.

Lemma od_lookup_none o s : od_lookup o (VStr s) = Ok None -> od_get o s = None.
Proof. simpl. intros H. inversion H; auto. Qed.

(* L2: the basename of a yielded dict is a str or not given *)
Definition basename_ok (d : tdict) : bool := is_none (raw_basename d) || is_str (raw_basename d).

Lemma fy_base_str func d : basename_ok d = true -> exists b, fy_base func d = VStr b.
Proof.
  unfold basename_ok, fy_base. destruct (raw_basename d); simpl; try discriminate; intros _; eauto.
  destruct (negb (String.eqb s EmptyString)); eauto.
Qed.

Lemma raw_basename_str d : basename_ok d = true -> truthy (raw_basename d) = true -> exists b, raw_basename d = VStr b.
Proof. unfold basename_ok. destruct (raw_basename d); simpl; try discriminate; eauto. Qed.

Lemma from_yield_dict fmt func o d :
  from_yield fmt L2 func o (IDict d) =
  invalid_unless (basename_ok d) (
  match dget d KName with
  | Some nm => if is_none nm then fy_group L2 func o d else fy_sub fmt L2 func o d nm
  | None => fy_plain L2 o d
  end).
Proof. reflexivity. Qed.

Lemma group_task_nocrash nm c : group_task L2 nm <> Crash c.
Proof. unfold group_task. apply task_init_nocrash. Qed.
Lemma group_task_safe nm t : group_task L2 nm = Ok t -> task_safe t = true.
Proof. unfold group_task. apply task_init_safe. Qed.
Lemma task_obj_nocrash nm attrs c : task_obj L2 nm attrs <> Crash c.
Proof. unfold task_obj. apply task_init_nocrash. Qed.
Lemma task_obj_safe nm attrs t : task_obj L2 nm attrs = Ok t -> task_safe t = true.
Proof. unfold task_obj. apply task_init_safe. Qed.

Lemma from_yield_safe fmt func o it :
  od_safe o = true ->
  (forall c, from_yield fmt L2 func o it <> Crash c) /\
  (forall o', from_yield fmt L2 func o it = Ok o' -> od_safe o' = true).
Proof.
  intros Ho. destruct it as [d|nm attrs|l| |]; try (split; [intros c; simpl; discriminate | intros o'; simpl; discriminate]).
  - (* dict *)
    rewrite from_yield_dict. destruct (basename_ok d) eqn:Hb; [|split; [intros; discriminate | intros; discriminate]].
    simpl invalid_unless. destruct (dget d KName) as [nm|].
    + destruct (is_none nm).
      * (* group definition *)
        unfold fy_group. simpl repaired. cbv iota. split.
        -- intros c Hc. apply bind_crash in Hc. destruct Hc as [Hc|[g [_ Hc]]].
           { revert Hc. apply dict_to_task_nocrash. }
           destruct (od_get o (t_name g)) as [prev|]; try discriminate.
           apply unless_crash in Hc. destruct Hc as [_ Hc]. discriminate.
        -- intros o' H. apply bind_ok in H. destruct H as [g [Hg H]].
           pose proof (dict_to_task_safe _ _ _ _ Hg) as Sg.
           destruct (od_get o (t_name g)) as [prev|] eqn:Ep.
           ++ apply unless_ok in H. destruct H as [_ H]. inversion H; subst.
              apply od_set_safe; auto. apply task_safe_regroup; auto. eapply od_get_safe; eauto.
           ++ inversion H; subst. apply od_set_safe; auto.
      * (* sub-task *)
        unfold fy_sub. simpl repaired. simpl negb. simpl orb.
        destruct (fy_base_str func d Hb) as [b Eb]. rewrite Eb. rewrite od_lookup_str. split.
        -- intros c Hc. apply unless_crash in Hc. destruct Hc as [_ Hc]. apply unless_crash in Hc. destruct Hc as [_ Hc].
           apply bind_crash in Hc. destruct Hc as [Hc|[sub [_ Hc]]].
           { revert Hc. apply dict_to_task_nocrash. }
           simpl in Hc. destruct (od_get o b) as [grp|].
           ++ apply unless_crash in Hc. destruct Hc as [_ Hc]. discriminate.
           ++ apply bind_crash in Hc. destruct Hc as [Hc|[grp [_ Hc]]]; try discriminate.
              revert Hc. apply group_task_nocrash.
        -- intros o' H. apply unless_ok in H. destruct H as [_ H]. apply unless_ok in H. destruct H as [_ H].
           apply bind_ok in H. destruct H as [sub [Hsub H]].
           assert (Ssub : task_safe sub = true) by (eapply dict_to_task_safe; eauto).
           simpl in H. destruct (od_get o b) as [grp|] eqn:Eg.
           ++ apply unless_ok in H. destruct H as [_ H].
              inversion H; subst. apply od_set_safe; [apply od_set_safe; auto|].
              ** apply task_safe_add_dep. eapply od_get_safe; eauto.
              ** rewrite task_safe_set_subtask_of. exact Ssub.
           ++ apply bind_ok in H. destruct H as [grp [Hgrp H]]. inversion H; subst.
              apply od_set_safe; [apply od_set_safe; auto|].
              ** apply (task_safe_add_dep (set_implicit grp)). change (task_safe grp = true). eapply group_task_safe; eauto.
              ** rewrite task_safe_set_subtask_of. exact Ssub.
    + (* plain task *)
      unfold fy_plain. split.
      * intros c Hc. apply unless_crash in Hc. destruct Hc as [Ht Hc].
        destruct (raw_basename_str d Hb Ht) as [b Eb]. rewrite Eb in Hc. rewrite od_lookup_str in Hc. simpl in Hc.
        destruct (od_get o b); try discriminate.
        apply bind_crash in Hc. destruct Hc as [Hc|[t [_ Hc]]]; try discriminate.
        revert Hc. apply dict_to_task_nocrash.
      * intros o' H. apply unless_ok in H. destruct H as [_ H].
        apply bind_ok in H. destruct H as [g [_ H]]. destruct g; try discriminate.
        apply bind_ok in H. destruct H as [t [Ht H]]. inversion H; subst.
        apply od_set_safe; auto. eapply dict_to_task_safe; eauto.
  - (* Task object *)
    simpl. split.
    + intros c Hc. apply bind_crash in Hc. destruct Hc as [Hc|[t [_ Hc]]].
      { revert Hc. apply task_obj_nocrash. }
      destruct (od_has o (t_name t)); discriminate.
    + intros o' H. apply bind_ok in H. destruct H as [t [Ht H]].
      destruct (od_has o (t_name t)); try discriminate. inversion H; subst.
      apply od_set_safe; auto. eapply task_obj_safe; eauto.
Qed.

(* ------------------------------------------------------------------ generate_tasks, load_tasks, load never crash *)
Definition tasks_safe (ts : list task) : bool := forallb task_safe ts.

Lemma foldM_from_yield_safe fmt func items :
  forall o, od_safe o = true ->
  (forall c, foldM (from_yield fmt L2 func) items o <> Crash c) /\
  (forall o', foldM (from_yield fmt L2 func) items o = Ok o' -> od_safe o' = true).
Proof.
  intros o Ho. split.
  - intros c Hc. apply (foldM_crash _ (fun o => od_safe o = true)) in Hc; auto.
    + destruct Hc as [s0 [x [Hx [Hs Hc]]]]. destruct (from_yield_safe fmt func s0 x Hs) as [Hn _]. apply (Hn c Hc).
    + intros s x s' Hx Hs Hf. destruct (from_yield_safe fmt func s x Hs) as [_ Hk]. auto.
  - intros o'. apply (foldM_inv _ (fun o => od_safe o = true)); auto.
    intros s x s' Hx Hs Hf. destruct (from_yield_safe fmt func s x Hs) as [_ Hk]. auto.
Qed.

Lemma from_return_safe func d :
  (forall c, from_return L2 func d <> Crash c) /\ (forall t, from_return L2 func d = Ok t -> task_safe t = true).
Proof.
  unfold from_return. split.
  - intros c Hc. apply unless_crash in Hc. destruct Hc as [_ Hc]. revert Hc. apply dict_to_task_nocrash.
  - intros t H. apply unless_ok in H. destruct H as [_ H]. eapply dict_to_task_safe; eauto.
Qed.

Lemma generate_tasks_safe fmt func r :
  (forall c, generate_tasks fmt L2 func r <> Crash c) /\
  (forall ts, generate_tasks fmt L2 func r = Ok ts -> tasks_safe ts = true).
Proof.
  destruct r as [d|nm attrs|l| |]; simpl in *.
  - destruct (from_return_safe func d) as [Hn Hk]. split.
    + intros c Hc. apply bind_crash in Hc. destruct Hc as [Hc|[t [_ Hc]]]; try discriminate. apply (Hn c Hc).
    + intros ts H. apply bind_ok in H. destruct H as [t [Ht H]]. inversion H; subst. simpl. rewrite (Hk t Ht). reflexivity.
  - split.
    + intros c Hc. apply bind_crash in Hc. destruct Hc as [Hc|[t [_ Hc]]]; try discriminate.
      revert Hc. apply task_obj_nocrash.
    + intros ts H. apply bind_ok in H. destruct H as [t [Ht H]]. inversion H; subst. simpl.
      rewrite (task_obj_safe _ _ _ Ht). reflexivity.
  - destruct (foldM_from_yield_safe fmt func (flat_map flat l) [] eq_refl) as [Hn Hk]. split.
    + intros c Hc. apply bind_crash in Hc. destruct Hc as [Hc|[o [_ Hc]]]; [apply (Hn c Hc)|].
      destruct (is_nil o); try discriminate.
      apply bind_crash in Hc. destruct Hc as [Hc|[g [_ Hc]]]; try discriminate. revert Hc. apply group_task_nocrash.
    + intros ts H. apply bind_ok in H. destruct H as [o [Ho H]]. destruct (is_nil o).
      * apply bind_ok in H. destruct H as [g [Hg H]]. inversion H; subst. simpl. rewrite (group_task_safe _ _ Hg). reflexivity.
      * inversion H; subst. specialize (Hk o Ho). unfold od_safe in Hk. unfold tasks_safe. rewrite forallb_forall in *.
        intros t Ht. apply in_map_iff in Ht. destruct Ht as [[k t'] [<- Hin]]. apply (Hk _ Hin).
  - split; [discriminate | intros ts H; inversion H; reflexivity].
  - split; discriminate.
Qed.

Lemma delayed_task_safe n e :
  (forall c, delayed_task L2 n e <> Crash c) /\ (forall t, delayed_task L2 n e = Ok t -> task_safe t = true).
Proof.
  unfold delayed_task. split.
  - intros c. apply task_init_nocrash.
  - intros t H. eapply task_init_safe; eauto.
Qed.

Lemma mapM_safe {A} (f : A -> res task) l :
  (forall x, In x l -> (forall c, f x <> Crash c) /\ (forall t, f x = Ok t -> task_safe t = true)) ->
  (forall c, mapM f l <> Crash c) /\ (forall ts, mapM f l = Ok ts -> tasks_safe ts = true).
Proof.
  intros H. split.
  - intros c. apply mapM_nocrash. intros x Hx. apply (H x Hx).
  - intros ts Hts. apply mapM_ok in Hts. unfold tasks_safe. rewrite forallb_forall. intros t Ht.
    destruct (F2_in_r0 _ _ _ _ Hts Ht) as [x [Hx Hf]]. apply (H x Hx). exact Hf.
Qed.

Lemma load_creator_safe fmt allow c :
  (forall e, load_creator fmt L2 allow c <> Crash e) /\
  (forall ts, load_creator fmt L2 allow c = Ok ts -> tasks_safe ts = true).
Proof.
  unfold load_creator. destruct (c_delayed c) as [[ex cr]|].
  - destruct (negb (is_nil cr)).
    + apply mapM_safe. intros x _. apply delayed_task_safe.
    + destruct allow.
      * destruct (delayed_task_safe (c_name c) ex) as [Hn Hk]. split.
        -- intros e He. apply bind_crash in He. destruct He as [He|[t [_ He]]]; try discriminate. apply (Hn e He).
        -- intros ts H. apply bind_ok in H. destruct H as [t [Ht H]]. inversion H; subst. simpl. rewrite (Hk t Ht). reflexivity.
      * apply generate_tasks_safe.
  - apply generate_tasks_safe.
Qed.

Lemma load_tasks_safe fmt cmds allow cs :
  (forall e, load_tasks fmt L2 cmds allow cs <> Crash e) /\
  (forall ts, load_tasks fmt L2 cmds allow cs = Ok ts -> tasks_safe ts = true).
Proof.
  unfold load_tasks.
  destruct (existsb _ cs); [split; discriminate|]. split.
  - intros e He. apply bind_crash in He. destruct He as [He|[tss [_ He]]]; try discriminate.
    apply mapM_crash in He. destruct He as [c [Hc He]]. apply (proj1 (load_creator_safe fmt allow c) e He).
  - intros ts H. apply bind_ok in H. destruct H as [tss [Htss H]]. inversion H; subst.
    apply mapM_ok in Htss. unfold tasks_safe. rewrite forallb_forall. intros t Ht.
    apply in_concat in Ht. destruct Ht as [l [Hl Ht]].
    destruct (F2_in_r0 _ _ _ _ Htss Hl) as [c [Hc Hl']].
    pose proof (proj2 (load_creator_safe fmt allow c) l Hl') as Hk.
    unfold tasks_safe in Hk. rewrite forallb_forall in Hk. auto.
Qed.

Lemma wild_tasks_str fn names p : is_str p = true -> exists l, wild_tasks fn names p = Ok l /\ forallb is_str l = true.
Proof.
  destruct p; simpl; try discriminate. intros _. eexists. split; eauto.
  rewrite forallb_forall. intros x Hx. apply in_map_iff in Hx. destruct Hx as [s0 [<- _]]. reflexivity.
Qed.

Lemma dep_exists_nocrash names d c : hashable d = true -> dep_exists names d <> Crash c.
Proof. destruct d; simpl; try discriminate; try (destruct (mem_str s names); discriminate). intros ->. discriminate. Qed.

Lemma control_nocrash fn lv ts c : tasks_safe ts = true -> control fn lv ts <> Crash c.
Proof.
  intros Hs Hc. unfold tasks_safe in Hs. rewrite forallb_forall in Hs. unfold control in Hc.
  destruct (first_dup [] (map t_name ts)); try discriminate.
  apply bind_crash in Hc. destruct Hc as [Hc|[ts1 [H1 Hc]]].
  { apply mapM_crash in Hc. destruct Hc as [t [Ht Hc]]. unfold expand_wild in Hc.
    apply bind_crash in Hc. destruct Hc as [Hc|[add [_ Hc]]]; try discriminate.
    apply mapM_crash in Hc. destruct Hc as [p [Hp Hc]].
    destruct (task_safe_inv _ (Hs t Ht)) as (S1 & S2 & S3 & S4).
    rewrite forallb_forall in S2. destruct (wild_tasks_str fn (map t_name ts) p (S2 p Hp)) as [l [Hl _]]. congruence. }
  apply bind_crash in Hc. destruct Hc as [Hc|[[] [_ Hc]]].
  2:{ destruct (first_dup [] (flat_map t_targets ts1)); discriminate. }
  apply each_crash in Hc. destruct Hc as [t1 [Ht1 Hc]].
  apply mapM_ok in H1.
  destruct (F2_in_r0 _ _ _ _ H1 Ht1) as [t [Ht Hex]]. destruct (task_safe_inv _ (Hs t Ht)) as (S1 & S2 & S3 & S4).
  destruct (expand_wild_ok _ _ _ _ Hex) as [[_ [Hse [Hca _]]] Hdeps].
  unfold check_dep_names in Hc.
  apply bind_crash in Hc. destruct Hc as [Hc|[[] [_ Hc]]].
  { apply each_crash in Hc. destruct Hc as [d [Hd Hc]]. revert Hc. apply dep_exists_nocrash.
    destruct (Hdeps d Hd) as [Hin|[s [-> _]]]; [|reflexivity].
    rewrite forallb_forall in S1. apply is_str_hashable. auto. }
  apply bind_crash in Hc. destruct Hc as [Hc|[[] [_ Hc]]].
  { apply each_crash in Hc. destruct Hc as [d [Hd Hc]]. revert Hc. apply dep_exists_nocrash.
    rewrite Hse in Hd. rewrite forallb_forall in S3. apply is_str_hashable. auto. }
  destruct (attr_strict lv); try discriminate.
  apply each_crash in Hc. destruct Hc as [d [Hd Hc]]. revert Hc. apply dep_exists_nocrash.
  rewrite Hca in Hd. rewrite forallb_forall in S4. apply is_str_hashable. auto.
Qed.

Theorem load_total fmt fn cmds allow cs c : load fmt fn L2 cmds allow cs <> Crash c.
Proof.
  intros Hc. unfold load in Hc. destruct (load_tasks_safe fmt cmds allow cs) as [Hn Hk].
  apply bind_crash in Hc. destruct Hc as [Hc|[ts [Hts Hc]]]; [apply (Hn c Hc)|].
  revert Hc. apply control_nocrash. auto.
Qed.
(* ------------------------------------------------------------------ group structure *)
Definition sub_name (b k : string) : Prop := exists r, k = append b (append colon r).

Lemma length_append a b : String.length (append a b) = (String.length a + String.length b)%nat.
Proof. induction a as [|c a IH]; simpl; auto. Qed.

Lemma sub_name_neq b k : sub_name b k -> k <> b.
Proof.
  intros [r ->] H. apply (f_equal String.length) in H. rewrite !length_append in H. simpl in H. lia.
Qed.

Definition od_inv (o : od) : Prop :=
  (forall k t, In (k, t) o -> t_name t = k) /\
  (forall k t b, In (k, t) o -> t_subtask_of t = Some b ->
     exists g, od_get o b = Some g /\ t_has_subtask g = true /\ In (VStr k) (t_task_dep g) /\ sub_name b k) /\
  (forall k t, In (k, t) o -> t_implicit t = true -> t_has_subtask t = true /\ t_subtask_of t = None).

Lemma od_inv_nil : od_inv [].
Proof. split; [|split]; simpl; intros; tauto. Qed.

Lemma eqb_neq_str a b : a <> b -> String.eqb a b = false.
Proof. intros H. apply String.eqb_neq. exact H. Qed.

Lemma inv_set_fresh o k t :
  od_inv o -> od_get o k = None -> t_name t = k ->
  (forall b, t_subtask_of t = Some b ->
     exists g, od_get o b = Some g /\ t_has_subtask g = true /\ In (VStr k) (t_task_dep g) /\ sub_name b k) ->
  (t_implicit t = true -> t_has_subtask t = true /\ t_subtask_of t = None) ->
  od_inv (od_set o k t).
Proof.
  intros [K [G I]] Hfresh Hn Hnew Hi. split; [|split].
  - intros k0 t0 Hin. apply od_set_In in Hin. destruct Hin as [E|Hin]; [inversion E; subst; auto | auto].
  - intros k0 t0 b Hin Hsub.
    assert (Hold : (exists g, od_get o b = Some g /\ t_has_subtask g = true /\ In (VStr k0) (t_task_dep g) /\ sub_name b k0)).
    { apply od_set_In in Hin. destruct Hin as [E|Hin]; [inversion E; subst; auto | eauto]. }
    destruct Hold as [g [Hg Hrest]]. exists g. split; auto.
    rewrite od_get_set. rewrite eqb_neq_str; auto. intros ->. congruence.
  - intros k0 t0 Hin Himp. apply od_set_In in Hin. destruct Hin as [E|Hin]; [inversion E; subst; auto | apply (I k0 t0); auto].
Qed.

Lemma inv_set_grow o k g t :
  od_inv o -> od_get o k = Some g ->
  t_name t = t_name g -> t_has_subtask t = t_has_subtask g -> t_subtask_of t = t_subtask_of g ->
  (forall d, In d (t_task_dep g) -> In d (t_task_dep t)) ->
  (t_implicit t = true -> t_has_subtask t = true /\ t_subtask_of t = None) ->
  od_inv (od_set o k t).
Proof.
  intros [K [G I]] Hg Hn Hh Hs Hd Hi. pose proof (od_get_In _ _ _ Hg) as Hgin. split; [|split].
  - intros k0 t0 Hin. apply od_set_In in Hin. destruct Hin as [E|Hin]; [inversion E; subst | auto].
    rewrite Hn. auto.
  - intros k0 t0 b Hin Hsub.
    assert (Hold : (exists g0, od_get o b = Some g0 /\ t_has_subtask g0 = true /\ In (VStr k0) (t_task_dep g0) /\ sub_name b k0)).
    { apply od_set_In in Hin. destruct Hin as [E|Hin]; [inversion E; subst | eauto].
      rewrite Hs in Hsub. eauto. }
    destruct Hold as [g0 [Hg0 [Hh0 [Hd0 Hsn]]]]. rewrite od_get_set.
    destruct (String.eqb k b) eqn:E.
    + apply String.eqb_eq in E. subst. rewrite Hg in Hg0. inversion Hg0; subst.
      exists t. repeat split; auto. congruence.
    + exists g0. auto.
  - intros k0 t0 Hin Himp. apply od_set_In in Hin. destruct Hin as [E|Hin]; [inversion E; subst; auto | apply (I k0 t0); auto].
Qed.

(* ------------------------------------------------------------------ a group lists its sub-tasks in yield order *)
Definition sub_of (b : string) (t : task) : bool :=
  match t_subtask_of t with Some b' => String.eqb b' b | None => false end.
Definition subs (b : string) (o : od) : list string := map fst (filter (fun kt => sub_of b (snd kt)) o).
Definition subs_l (b : string) (ts : list task) : list string := map t_name (filter (sub_of b) ts).

Definition od_order (o : od) : Prop :=
  forall b g, od_get o b = Some g -> t_has_subtask g = true -> exists pre, t_task_dep g = pre ++ map VStr (subs b o).

Lemma od_set_fresh_app o k t : od_get o k = None -> od_set o k t = o ++ [(k, t)].
Proof.
  induction o as [|[k0 t0] r IH]; simpl; auto.
  destruct (String.eqb k0 k); try discriminate. intros H. rewrite IH; auto.
Qed.

Lemma od_set_idem o k t t' : od_set (od_set o k t) k t' = od_set o k t'.
Proof.
  induction o as [|[k0 t0] r IH]; simpl.
  - rewrite String.eqb_refl. reflexivity.
  - destruct (String.eqb k0 k) eqn:E; simpl; rewrite E; [reflexivity | rewrite IH; reflexivity].
Qed.

Lemma subs_set_fresh b o k t : od_get o k = None ->
  subs b (od_set o k t) = subs b o ++ (if sub_of b t then [k] else []).
Proof.
  intros H. rewrite od_set_fresh_app; auto. unfold subs. rewrite filter_app, map_app. simpl.
  destruct (sub_of b t); reflexivity.
Qed.

Lemma subs_set_same b o k g t : od_get o k = Some g -> t_subtask_of t = t_subtask_of g ->
  subs b (od_set o k t) = subs b o.
Proof.
  unfold subs. induction o as [|[k0 t0] r IH]; simpl; try discriminate.
  destruct (String.eqb k0 k) eqn:E; intros Hg Hs.
  - inversion Hg; subst. simpl. unfold sub_of. rewrite Hs.
    destruct (t_subtask_of g) as [b'|]; [destruct (String.eqb b' b)|]; reflexivity.
  - simpl. destruct (sub_of b t0); simpl; rewrite IH; auto.
Qed.

Lemma subs_nil b o : (forall k t, In (k, t) o -> t_subtask_of t <> Some b) -> subs b o = [].
Proof.
  unfold subs. induction o as [|[k0 t0] r IH]; simpl; auto. intros H.
  assert (E : sub_of b t0 = false).
  { unfold sub_of. destruct (t_subtask_of t0) as [b'|] eqn:Es; auto.
    destruct (String.eqb b' b) eqn:Eb; auto. apply String.eqb_eq in Eb. subst. exfalso. apply (H k0 t0); auto. }
  rewrite E. apply IH. intros k t Hin. apply (H k t). right; auto.
Qed.

Lemma subs_nil_fresh b o : od_inv o -> od_get o b = None -> subs b o = [].
Proof.
  intros [_ [G _]] Hn. apply subs_nil. intros k t Hin Hs. destruct (G k t b Hin Hs) as [g [Hg _]]. congruence.
Qed.

Lemma order_set_fresh_nosub o k t :
  od_inv o -> od_order o -> od_get o k = None -> t_subtask_of t = None -> od_order (od_set o k t).
Proof.
  intros Hinv Hord Hn Hs b g Hg Hh.
  rewrite subs_set_fresh; auto. unfold sub_of at 1. rewrite Hs, app_nil_r.
  rewrite od_get_set in Hg. destruct (String.eqb k b) eqn:E.
  - apply String.eqb_eq in E. subst. inversion Hg; subst. exists (t_task_dep g).
    rewrite subs_nil_fresh; auto. rewrite app_nil_r. reflexivity.
  - apply Hord; auto.
Qed.

Lemma order_add_sub o b grp full sub :
  od_order o -> od_get o b = Some grp -> t_has_subtask grp = true -> od_get o full = None -> full <> b ->
  t_has_subtask sub = false ->
  od_order (od_set (od_set o b (set_task_dep grp (t_task_dep grp ++ [VStr full]))) full (set_subtask_of sub b)).
Proof.
  intros Hord Hgrp Hh Hfull Hne Hsub x g Hg Hhg.
  set (grp' := set_task_dep grp (t_task_dep grp ++ [VStr full])) in *.
  assert (F1 : od_get (od_set o b grp') full = None).
  { rewrite od_get_set. rewrite eqb_neq_str; auto. }
  rewrite subs_set_fresh; auto. rewrite (subs_set_same x o b grp grp'); auto.
  unfold sub_of at 1. simpl t_subtask_of.
  rewrite od_get_set in Hg. destruct (String.eqb full x) eqn:E1.
  { inversion Hg; subst g. simpl in Hhg. congruence. }
  rewrite od_get_set in Hg. destruct (String.eqb b x) eqn:E2.
  - apply String.eqb_eq in E2. subst x. inversion Hg; subst g.
    destruct (Hord b grp Hgrp Hh) as [pre Hpre]. exists pre. simpl. rewrite Hpre, map_app, <- app_assoc. reflexivity.
  - rewrite app_nil_r. apply Hord; auto.
Qed.

Lemma order_set_regroup o k prev t x :
  od_order o -> od_get o k = Some prev -> t_has_subtask prev = true ->
  t_subtask_of t = t_subtask_of prev -> t_task_dep t = x ++ t_task_dep prev ->
  od_order (od_set o k t).
Proof.
  intros Hord Hp Hh Hs Hd b g Hg Hhg.
  rewrite (subs_set_same b o k prev t); auto.
  rewrite od_get_set in Hg. destruct (String.eqb k b) eqn:E.
  - apply String.eqb_eq in E. subst b. inversion Hg; subst g.
    destruct (Hord k prev Hp Hh) as [pre Hpre]. exists (x ++ pre). rewrite Hd, Hpre, app_assoc. reflexivity.
  - apply Hord; auto.
Qed.

Lemma od_has_false o k : od_has o k = false -> od_get o k = None.
Proof. unfold od_has. destruct (od_get o k); [discriminate | reflexivity]. Qed.

(* one yielded item keeps both invariants (current code: no hypothesis on the items) *)
Lemma no_implicit t : t_implicit t = false -> t_implicit t = true -> t_has_subtask t = true /\ t_subtask_of t = None.
Proof. intros H1 H2. congruence. Qed.

Lemma from_yield_inv fmt func o it o' :
  od_inv o -> od_order o -> from_yield fmt L2 func o it = Ok o' -> od_inv o' /\ od_order o'.
Proof.
  intros Hinv Hord H. destruct it as [d|nm attrs|l| |]; try discriminate.
  - rewrite from_yield_dict in H. apply unless_ok in H. destruct H as [Hb H].
    destruct (dget d KName) as [nm|].
    + destruct (is_none nm).
      * (* group definition *)
        unfold fy_group in H. simpl repaired in H. cbv iota in H.
        apply bind_ok in H. destruct H as [g [Hg H]].
        apply dict_to_task_ok in Hg. destruct Hg as [_ [_ Hp]]. destruct Hp.
        destruct (od_get o (t_name g)) as [prev|] eqn:Ep.
        -- apply unless_ok in H. destruct H as [Himp H]. inversion H; subst; clear H.
           pose proof (od_get_In _ _ _ Ep) as Pin.
           destruct Hinv as [K [G I]]. pose proof (K _ _ Pin) as Kp. destruct (I _ _ Pin Himp) as [Hh Hso].
           split.
           ++ assert (P1 : od_inv o) by (split; [|split]; auto).
              assert (P2 : t_name (regroup g prev) = t_name prev) by (simpl; congruence).
              assert (P3 : t_has_subtask (regroup g prev) = t_has_subtask prev) by (simpl; congruence).
              assert (P4 : t_subtask_of (regroup g prev) = t_subtask_of prev) by (simpl; congruence).
              assert (P5 : forall d0, In d0 (t_task_dep prev) -> In d0 (t_task_dep (regroup g prev)))
                by (simpl; intros d0 Hd0; apply in_or_app; auto).
              assert (P6 : t_implicit (regroup g prev) = true -> t_has_subtask (regroup g prev) = true /\ t_subtask_of (regroup g prev) = None)
                by (simpl; intros E; discriminate).
              exact (inv_set_grow o (t_name g) prev (regroup g prev) P1 Ep P2 P3 P4 P5 P6).
           ++ assert (P4 : t_subtask_of (regroup g prev) = t_subtask_of prev) by (simpl; congruence).
              exact (order_set_regroup o (t_name g) prev (regroup g prev) (t_task_dep g) Hord Ep Hh P4 eq_refl).
        -- inversion H; subst; clear H. split.
           ++ apply inv_set_fresh; [auto | auto | reflexivity | simpl; rewrite ip_sub0; discriminate | intros E; simpl in E; congruence].
           ++ apply order_set_fresh_nosub; auto.
      * (* sub-task *)
        unfold fy_sub in H. simpl repaired in H. simpl negb in H. simpl orb in H.
        apply unless_ok in H. destruct H as [Hnm H].
        destruct (fy_base_str func d Hb) as [b Eb]. rewrite Eb in H. cbn [fstr] in H. rewrite od_lookup_str in H.
        destruct nm as [n| | | | | | | | | | | | |]; try discriminate. cbn [fstr] in H.
        apply unless_ok in H. destruct H as [Hnew H].
        apply bind_ok in H. destruct H as [sub [Hsub H]].
        apply dict_to_task_ok in Hsub. destruct Hsub as [_ [_ Psub]].
        apply negb_true_iff in Hnew. apply od_has_false in Hnew.
        match type of Hnew with od_get o ?f = None => set (full := f) in * end.
        assert (Hsn : sub_name b full) by (exists n; reflexivity).
        assert (Hne : full <> b) by (apply sub_name_neq; auto).
        assert (Nsub : t_name sub = full) by (destruct Psub as [Hn0]; inversion Hn0; auto).
        assert (Hsub_h : t_has_subtask sub = false) by (destruct Psub; auto).
        assert (Hsub_i : t_implicit sub = false) by (destruct Psub; auto).
        cbn [bind] in H. destruct (od_get o b) as [grp|] eqn:Eg.
        -- apply unless_ok in H. destruct H as [Hhas H]. inversion H; subst o'; clear H.
           pose proof (od_get_In _ _ _ Eg) as Gin.
           assert (Igrp : t_implicit grp = true -> t_has_subtask grp = true /\ t_subtask_of grp = None).
           { destruct Hinv as [_ [_ I]]. apply (I _ _ Gin). }
           split.
           ++ assert (I1 : od_inv (od_set o b (set_task_dep grp (t_task_dep grp ++ [VStr full])))).
              { apply (inv_set_grow o b grp); [auto | auto | reflexivity | reflexivity | reflexivity
                                              | simpl; intros d0 Hd0; apply in_or_app; auto | exact Igrp]. }
              apply inv_set_fresh; [ auto
                | rewrite od_get_set; rewrite eqb_neq_str; auto
                | simpl; auto
                | simpl; intros b0 E; inversion E; subst b0;
                  exists (set_task_dep grp (t_task_dep grp ++ [VStr full])); rewrite od_get_set, String.eqb_refl;
                  repeat split; auto; simpl; apply in_or_app; simpl; auto
                | intros E; simpl in E; congruence ].
           ++ apply order_add_sub; auto.
        -- apply bind_ok in H. destruct H as [grp0 [Hgrp H]]. inversion H; subst o'; clear H.
           unfold group_task in Hgrp. apply task_init_ok in Hgrp.
           assert (Nb : t_name grp0 = b) by (destruct Hgrp as [Hn0]; inversion Hn0; auto).
           destruct Hgrp. cbn [t_name set_implicit t_task_dep]. rewrite Nb.
           set (grp := set_implicit grp0).
           assert (Hgn : t_name grp = b) by exact Nb.
           assert (Hgs : t_subtask_of grp = None) by exact ip_sub0.
           assert (Hgh : t_has_subtask grp = true) by exact ip_hs0.
           change (t_task_dep grp0) with (t_task_dep grp).
           assert (I0 : od_inv (od_set o b grp)).
           { apply inv_set_fresh; [auto | auto | auto | rewrite Hgs; discriminate | intros _; auto]. }
           assert (O0 : od_order (od_set o b grp)) by (apply order_set_fresh_nosub; auto).
           split.
           ++ assert (I1 : od_inv (od_set o b (set_task_dep grp (t_task_dep grp ++ [VStr full])))).
              { apply inv_set_fresh; [auto | auto | auto | simpl; rewrite ip_sub0; discriminate | intros _; simpl; auto]. }
              apply inv_set_fresh; [ auto
                | rewrite od_get_set; rewrite eqb_neq_str; auto
                | simpl; auto
                | simpl; intros b0 E; inversion E; subst b0;
                  exists (set_task_dep grp (t_task_dep grp ++ [VStr full])); rewrite od_get_set, String.eqb_refl;
                  repeat split; auto; simpl; apply in_or_app; simpl; auto
                | intros E; simpl in E; congruence ].
           ++ rewrite <- (od_set_idem o b grp). apply order_add_sub; auto.
              ** rewrite od_get_set, String.eqb_refl. reflexivity.
              ** rewrite od_get_set. rewrite eqb_neq_str; auto.
    + (* plain *)
      unfold fy_plain in H. apply unless_ok in H. destruct H as [Ht H].
      destruct (raw_basename_str d Hb Ht) as [b Eb]. rewrite Eb in H. rewrite od_lookup_str in H. cbn [bind] in H.
      destruct (od_get o b) eqn:Eg; try discriminate.
      apply bind_ok in H. destruct H as [t [Hdt H]]. inversion H; subst; clear H.
      apply dict_to_task_ok in Hdt. destruct Hdt as [_ [_ Pt]].
      assert (Nb : t_name t = b) by (destruct Pt as [Hn0]; inversion Hn0; auto).
      destruct Pt. rewrite Nb. split.
      * apply inv_set_fresh; [auto | auto | auto | rewrite ip_sub0; discriminate | intros E; simpl in E; congruence].
      * apply order_set_fresh_nosub; auto.
  - (* Task object *)
    simpl in H. apply bind_ok in H. destruct H as [t [Ht H]].
    destruct (od_has o (t_name t)) eqn:Eh; try discriminate. inversion H; subst; clear H.
    apply od_has_false in Eh.
    unfold task_obj in Ht. apply task_init_ok in Ht. destruct Ht. split.
    + apply inv_set_fresh; [auto | auto | auto | rewrite ip_sub0; discriminate | intros E; simpl in E; congruence].
    + apply order_set_fresh_nosub; auto.
Qed.

(* the same structure on a list of tasks *)
Definition groups_ok (ts : list task) : Prop :=
  forall t b, In t ts -> t_subtask_of t = Some b ->
    exists g, In g ts /\ t_name g = b /\ t_has_subtask g = true /\ In (VStr (t_name t)) (t_task_dep g) /\
              sub_name b (t_name t).

Lemma od_inv_groups o : od_inv o -> groups_ok (map snd o).
Proof.
  intros [K [G _]] t b Hin Hsub. apply in_map_iff in Hin. destruct Hin as [[k t'] [E Hin]]. simpl in E. subst t'.
  destruct (G k t b Hin Hsub) as [g [Hg [Hh [Hd Hsn]]]]. pose proof (K _ _ Hin) as Hk.
  apply od_get_In in Hg. exists g. rewrite Hk.
  split; [apply in_map_iff; exists (b, g); auto|]. split; [apply (K _ _ Hg)|]. auto.
Qed.

Lemma groups_ok_single t : t_subtask_of t = None -> groups_ok [t].
Proof. intros H t0 b [<-|[]] Hs. congruence. Qed.

(* on task lists *)
Definition order_ok (ts : list task) : Prop :=
  forall g, In g ts -> t_has_subtask g = true ->
    exists pre post, t_task_dep g = pre ++ map VStr (subs_l (t_name g) ts) ++ post.

Lemma subs_l_od o b : (forall k t, In (k, t) o -> t_name t = k) -> subs_l b (map snd o) = subs b o.
Proof.
  unfold subs_l, subs. induction o as [|[k t] r IH]; simpl; auto. intros K.
  destruct (sub_of b t); simpl; rewrite IH; auto; try (intros; apply K; auto).
  rewrite (K k t); auto.
Qed.

Lemma od_set_nodup o k t : NoDup (map fst o) -> NoDup (map fst (od_set o k t)).
Proof.
  induction o as [|[k0 t0] r IH]; simpl; intros H.
  - constructor; [simpl; tauto | constructor].
  - inversion H; subst. destruct (String.eqb k0 k) eqn:E; simpl.
    + constructor; auto.
    + constructor; auto. intros Hin. apply in_map_iff in Hin. destruct Hin as [[k1 t1] [E1 Hin]]. simpl in E1. subst k1.
      apply od_set_In in Hin. destruct Hin as [Hin|Hin].
      * inversion Hin; subst. rewrite String.eqb_refl in E. discriminate.
      * apply H2. apply in_map_iff. exists (k0, t1). auto.
Qed.

Lemma od_In_get o k t : NoDup (map fst o) -> In (k, t) o -> od_get o k = Some t.
Proof.
  induction o as [|[k0 t0] r IH]; simpl; intros H Hin; [tauto|].
  inversion H; subst. destruct Hin as [E|Hin].
  - inversion E; subst. rewrite String.eqb_refl. reflexivity.
  - destruct (String.eqb k0 k) eqn:E.
    + apply String.eqb_eq in E. subst. exfalso. apply H2. apply in_map_iff. exists (k, t). auto.
    + auto.
Qed.


Lemma od_order_list o : NoDup (map fst o) -> od_inv o -> od_order o -> order_ok (map snd o).
Proof.
  intros Hn [K [G _]] Hord g Hin Hh. apply in_map_iff in Hin. destruct Hin as [[k g'] [E Hin]]. simpl in E. subst g'.
  rewrite subs_l_od; auto. rewrite (K _ _ Hin).
  destruct (Hord k g (od_In_get _ _ _ Hn Hin) Hh) as [pre Hpre]. exists pre, []. rewrite app_nil_r. exact Hpre.
Qed.

Lemma order_ok_single t : t_subtask_of t = None -> order_ok [t].
Proof.
  intros Hs g [<-|[]] Hh. exists (t_task_dep t), []. unfold subs_l. simpl. unfold sub_of. rewrite Hs. simpl.
  rewrite app_nil_r. reflexivity.
Qed.

Lemma subs_l_app b x y : subs_l b (x ++ y) = subs_l b x ++ subs_l b y.
Proof. unfold subs_l. rewrite filter_app, map_app. reflexivity. Qed.

Lemma subs_l_nil b l : (forall t, In t l -> sub_of b t = false) -> subs_l b l = [].
Proof.
  unfold subs_l. induction l as [|t r IH]; simpl; auto. intros H.
  rewrite (H t (or_introl eq_refl)). apply IH. intros; apply H; auto.
Qed.

Lemma nodup_app_disj {A B} (f : A -> B) X Y :
  NoDup (map f (X ++ Y)) -> forall x y, In x X -> In y Y -> f x <> f y.
Proof.
  induction X as [|a X IH]; simpl; intros H x y Hx Hy; [tauto|].
  inversion H; subst. destruct Hx as [<-|Hx]; [|apply IH; auto].
  intros E. apply H2. rewrite E. apply in_map. apply in_or_app; auto.
Qed.

Lemma nodup_app_r {A} (X Y : list A) : NoDup (X ++ Y) -> NoDup Y.
Proof. induction X as [|a X IH]; simpl; auto. intros H. inversion H; auto. Qed.

Lemma sub_of_true b t : sub_of b t = true -> t_subtask_of t = Some b.
Proof.
  unfold sub_of. destruct (t_subtask_of t) as [b'|]; try discriminate. intros H. apply String.eqb_eq in H. congruence.
Qed.

Lemma order_ok_concat tss :
  Forall groups_ok tss -> Forall order_ok tss -> NoDup (map t_name (concat tss)) -> order_ok (concat tss).
Proof.
  intros FG FO Hn g Hin Hh. apply in_concat in Hin. destruct Hin as [l [Hl Hg]].
  destruct (in_split _ _ Hl) as [A [B ->]].
  rewrite concat_app in *. simpl concat in *.
  rewrite Forall_forall in FG, FO.
  destruct (FO l Hl g Hg Hh) as [pre [post Hd]].
  assert (EA : subs_l (t_name g) (concat A) = []).
  { apply subs_l_nil. intros t Ht. destruct (sub_of (t_name g) t) eqn:E; auto. exfalso.
    apply sub_of_true in E. apply in_concat in Ht. destruct Ht as [l' [Hl' Ht]].
    destruct (FG l' (in_or_app _ _ _ (or_introl Hl')) t _ Ht E) as [g' [Hg' [Hn' _]]].
    apply (nodup_app_disj t_name _ _ Hn g' g); auto.
    - apply in_concat. eauto.
    - apply in_or_app; auto. }
  assert (EB : subs_l (t_name g) (concat B) = []).
  { apply subs_l_nil. intros t Ht. destruct (sub_of (t_name g) t) eqn:E; auto. exfalso.
    apply sub_of_true in E. apply in_concat in Ht. destruct Ht as [l' [Hl' Ht]].
    assert (Hl2 : In l' (A ++ l :: B)) by (apply in_or_app; right; right; exact Hl').
    destruct (FG l' Hl2 t _ Ht E) as [g' [Hg' [Hn' _]]].
    rewrite map_app in Hn. apply nodup_app_r in Hn.
    apply (nodup_app_disj t_name _ _ Hn g g'); auto. apply in_concat. eauto. }
  exists pre, post. rewrite !subs_l_app, EA, EB, app_nil_r. simpl. exact Hd.
Qed.

Lemma subs_l_same b ts ts' : Forall2 same_but_deps ts ts' -> subs_l b ts' = subs_l b ts.
Proof.
  unfold subs_l. induction 1 as [|t t' r r' (N & _ & _ & _ & _ & S & _) F IH]; simpl; auto.
  assert (E : sub_of b t' = sub_of b t) by (unfold sub_of; rewrite S; reflexivity).
  rewrite E. destruct (sub_of b t); simpl; rewrite IH; auto. rewrite N. reflexivity.
Qed.

Lemma order_ok_same ts ts' : Forall2 same_but_deps ts ts' -> order_ok ts -> order_ok ts'.
Proof.
  intros F O g' Hin Hh.
  destruct (F2_in_r0 _ _ _ _ F Hin) as [g [Hg (N & _ & _ & _ & H' & _ & _ & [extra E])]].
  rewrite H' in Hh. destruct (O g Hg Hh) as [pre [post Hd]].
  exists pre, (post ++ extra). rewrite (subs_l_same _ _ _ F), N, E, Hd, <- !app_assoc. reflexivity.
Qed.

Lemma groups_ok_concat tss : Forall groups_ok tss -> groups_ok (concat tss).
Proof.
  intros F t b Hin Hs. apply in_concat in Hin. destruct Hin as [l [Hl Hin]].
  rewrite Forall_forall in F. destruct (F l Hl t b Hin Hs) as [g [Hg Hrest]].
  exists g. split; auto. apply in_concat. eauto.
Qed.

Lemma F2_in_l {A B} (R : A -> B -> Prop) l l' x : Forall2 R l l' -> In x l -> exists y, In y l' /\ R x y.
Proof. induction 1; simpl; [tauto|]. intros [<-|H1]; eauto. destruct (IHForall2 H1) as [z [Hz1 Hz2]]. eauto. Qed.
Lemma F2_in_r {A B} (R : A -> B -> Prop) l l' y : Forall2 R l l' -> In y l' -> exists x, In x l /\ R x y.
Proof. induction 1; simpl; [tauto|]. intros [<-|H1]; eauto. destruct (IHForall2 H1) as [z [Hz1 Hz2]]. eauto. Qed.

Lemma groups_ok_same ts ts' : Forall2 same_but_deps ts ts' -> groups_ok ts -> groups_ok ts'.
Proof.
  intros F G t' b Hin Hs.
  destruct (F2_in_r _ _ _ _ F Hin) as [t [Ht (N & _ & _ & _ & _ & S & _ & _)]].
  rewrite S in Hs. destruct (G t b Ht Hs) as [g [Hg [Hn [Hh [Hd Hsn]]]]].
  destruct (F2_in_l _ _ _ _ F Hg) as [g' [Hg' (N' & _ & _ & _ & H' & _ & _ & [extra E])]].
  exists g'. rewrite N, N', H', E. repeat split; auto. apply in_or_app; auto.
Qed.


Lemma from_yield_nodup fmt func o it o' :
  NoDup (map fst o) -> from_yield fmt L2 func o it = Ok o' -> NoDup (map fst o').
Proof.
  intros Hn H. destruct it as [d|nm attrs|l| |]; try discriminate.
  - rewrite from_yield_dict in H. apply unless_ok in H. destruct H as [_ H]. destruct (dget d KName) as [nm|].
    + destruct (is_none nm).
      * unfold fy_group in H. simpl repaired in H. cbv iota in H. apply bind_ok in H. destruct H as [g [_ H]].
        destruct (od_get o (t_name g)).
        -- apply unless_ok in H. destruct H as [_ H]. inversion H; subst. apply od_set_nodup; auto.
        -- inversion H; subst. apply od_set_nodup; auto.
      * unfold fy_sub in H. apply unless_ok in H. destruct H as [_ H]. apply unless_ok in H. destruct H as [_ H].
        apply bind_ok in H. destruct H as [sub [_ H]]. apply bind_ok in H. destruct H as [g [_ H]].
        destruct g as [grp|].
        -- apply unless_ok in H. destruct H as [_ H]. destruct (fy_base func d); try discriminate.
           inversion H; subst. repeat apply od_set_nodup; auto.
        -- apply bind_ok in H. destruct H as [grp [_ H]]. inversion H; subst. repeat apply od_set_nodup; auto.
    + unfold fy_plain in H. apply unless_ok in H. destruct H as [_ H].
      apply bind_ok in H. destruct H as [g [_ H]]. destruct g; try discriminate.
      apply bind_ok in H. destruct H as [t [_ H]]. inversion H; subst. apply od_set_nodup; auto.
  - simpl in H. apply bind_ok in H. destruct H as [t [_ H]].
    destruct (od_has o (t_name t)); try discriminate. inversion H; subst. apply od_set_nodup; auto.
Qed.

Lemma foldM_from_yield_inv fmt func items : forall o o',
  od_inv o -> od_order o -> foldM (from_yield fmt L2 func) items o = Ok o' -> od_inv o' /\ od_order o'.
Proof.
  induction items as [|it r IH]; simpl; intros o o' Hinv Hord H.
  - inversion H; subst; auto.
  - apply bind_ok in H. destruct H as [o1 [H1 H2]].
    destruct (from_yield_inv fmt func o it o1 Hinv Hord H1) as [I1 O1]. apply (IH o1 o'); auto.
Qed.

Lemma generate_tasks_struct fmt func r ts :
  generate_tasks fmt L2 func r = Ok ts -> groups_ok ts /\ order_ok ts.
Proof.
  intros H. destruct r as [d|nm attrs|l| |]; simpl in H.
  - apply bind_ok in H. destruct H as [t [Ht H]]. inversion H; subst.
    unfold from_return in Ht. apply unless_ok in Ht. destruct Ht as [_ Ht].
    apply dict_to_task_ok in Ht. destruct Ht as [_ [_ []]].
    split; [apply groups_ok_single | apply order_ok_single]; auto.
  - apply bind_ok in H. destruct H as [t [Ht H]]. inversion H; subst.
    unfold task_obj in Ht. apply task_init_ok in Ht. destruct Ht.
    split; [apply groups_ok_single | apply order_ok_single]; auto.
  - apply bind_ok in H. destruct H as [o [Ho H]]. destruct (is_nil o).
    + apply bind_ok in H. destruct H as [g [Hg H]]. inversion H; subst.
      unfold group_task in Hg. apply task_init_ok in Hg. destruct Hg.
      split; [apply groups_ok_single | apply order_ok_single]; auto.
    + inversion H; subst.
      assert (Hn : NoDup (map fst o)).
      { revert Ho. apply (foldM_inv _ (fun o => NoDup (map fst o))); [|constructor].
        intros s x s' _ Hs Hx. eapply from_yield_nodup; eauto. }
      assert (O0 : od_order []) by (intros b g Hg; discriminate).
      destruct (foldM_from_yield_inv fmt func (flat_map flat l) [] o od_inv_nil O0 Ho) as [Hi Hor].
      split; [apply od_inv_groups | apply od_order_list]; auto.
  - inversion H; subst. split; [intros t b [] | intros g []].
  - discriminate.
Qed.

Lemma load_creator_struct fmt allow c ts :
  load_creator fmt L2 allow c = Ok ts -> groups_ok ts /\ order_ok ts.
Proof.
  unfold load_creator. intros H.
  assert (D : forall n e t, delayed_task L2 n e = Ok t -> t_subtask_of t = None /\ t_has_subtask t = false).
  { intros n e t Ht. unfold delayed_task in Ht. apply task_init_ok in Ht. destruct Ht. auto. }
  destruct (c_delayed c) as [[ex cr]|].
  - destruct (negb (is_nil cr)).
    + apply mapM_ok in H. split.
      * intros t b Hin Hs. exfalso. destruct (F2_in_r0 _ _ _ _ H Hin) as [n [_ Hn]]. destruct (D _ _ _ Hn). congruence.
      * intros t Hin Hs. exfalso. destruct (F2_in_r0 _ _ _ _ H Hin) as [n [_ Hn]]. destruct (D _ _ _ Hn). congruence.
    + destruct allow.
      * apply bind_ok in H. destruct H as [t [Ht H]]. inversion H; subst. destruct (D _ _ _ Ht).
        split; [apply groups_ok_single | apply order_ok_single]; auto.
      * eapply generate_tasks_struct; eauto.
  - eapply generate_tasks_struct; eauto.
Qed.

(* ------------------------------------------------------------------ what was accepted had the documented shape *)
Lemma types_accepts get a v :
  (forall a, type_ok a (tvalue get a) = true) -> get a = Some v -> type_ok a v = true.
Proof.
  intros H Hg. specialize (H a). unfold tvalue, tgetargs, targ in H.
  destruct a; rewrite Hg in H; simpl; auto.
  destruct v; simpl in *; auto.
Qed.

Definition no_unknown (d : tdict) : Prop := forall n, dget d (KUnknown n) = None.

Lemma existsb_unknown d : existsb (fun kv => is_unknown (fst kv)) d = false -> no_unknown d.
Proof.
  induction d as [|[k v] r IH]; simpl; intros H n; auto.
  apply orb_false_iff in H. destruct H as [H1 H2]. destruct k; simpl in *; try discriminate; apply IH; auto.
Qed.

(* [force] = the dict is a group definition, whose `actions` is overwritten *)
Definition dict_accepted (force : bool) (d : tdict) : Prop :=
  no_unknown d /\ (force = true \/ dhas d (KAttr AActions) = true) /\
  forall a v, dget d (KAttr a) = Some v -> (force = true -> a <> AActions) -> type_ok a v = true.

Lemma dict_to_task_accepted nm d force t :
  dict_to_task L2 nm d force = Ok t -> dict_accepted force d /\ nm = VStr (t_name t) /\ contains ch_eq (t_name t) = false.
Proof.
  intros H. apply dict_to_task_ok in H. destruct H as [Ha [Hu P]]. destruct P. split; [|auto].
  split; [apply existsb_unknown; auto|]. split; auto.
  intros a v Hg Hf. apply (types_accepts (dict_get d force)); auto.
  unfold dict_get. destruct force; simpl; auto.
  destruct (attr_eqb a AActions) eqn:E; auto. exfalso. apply Hf; auto. destruct a; simpl in E; try discriminate. reflexivity.
Qed.

Definition obj_accepted (nm : val) (attrs : list (attr * val)) : Prop :=
  is_str nm = true /\ forall a v, aget attrs a = Some v -> type_ok a v = true.

Lemma task_obj_accepted nm attrs t : task_obj L2 nm attrs = Ok t -> obj_accepted nm attrs.
Proof.
  unfold task_obj. intros H. apply task_init_ok in H. destruct H. split.
  - rewrite ip_name0. reflexivity.
  - intros a v Hg. apply (types_accepts _ a v ip_types0). rewrite Hg. reflexivity.
Qed.

Definition yield_accepted (it : item) : Prop :=
  match it with
  | IDict d =>
      basename_ok d = true /\
      match dget d KName with
      | Some nm => if is_none nm then dict_accepted true d else is_str nm = true /\ dict_accepted false d
      | None => dict_accepted false d /\ exists s, dget d KBasename = Some (VStr s) /\ s <> EmptyString
      end
  | ITaskObj nm attrs => obj_accepted nm attrs
  | _ => False
  end.

Lemma from_yield_accepted fmt func o it o' : from_yield fmt L2 func o it = Ok o' -> yield_accepted it.
Proof.
  intros H. destruct it as [d|nm attrs|l| |]; try discriminate.
  - rewrite from_yield_dict in H. apply unless_ok in H. destruct H as [Hb H]. simpl. split; auto.
    destruct (dget d KName) as [nm|].
    + destruct (is_none nm).
      * unfold fy_group in H. apply bind_ok in H. destruct H as [g [Hg _]].
        apply dict_to_task_accepted in Hg. apply Hg.
      * unfold fy_sub in H. simpl repaired in H. simpl negb in H. simpl orb in H.
        apply unless_ok in H. destruct H as [Hnm H]. apply unless_ok in H. destruct H as [_ H].
        apply bind_ok in H. destruct H as [sub [Hsub _]].
        apply dict_to_task_accepted in Hsub. split; auto. apply Hsub.
    + unfold fy_plain in H. apply unless_ok in H. destruct H as [Ht H].
      apply bind_ok in H. destruct H as [g [_ H]]. destruct g; try discriminate.
      apply bind_ok in H. destruct H as [t [Hdt _]].
      apply dict_to_task_accepted in Hdt. destruct Hdt as [Hd [Hn _]]. split; auto.
      unfold raw_basename in *. destruct (dget d KBasename) as [v|]; [|discriminate]. subst v. exists (t_name t). split; auto.
      intros E. rewrite E in Ht. discriminate.
  - simpl in *. apply bind_ok in H. destruct H as [t [Ht _]]. eapply task_obj_accepted; eauto.
Qed.

Definition result_accepted (r : item) : Prop :=
  match r with
  | IDict d => dhas d KName = false /\ dict_accepted false d /\ (forall v, dget d KBasename = Some v -> is_str v = true)
  | ITaskObj nm attrs => obj_accepted nm attrs
  | IGen l => Forall yield_accepted (flat_map flat l)
  | INone => True
  | IOther => False
  end.

Lemma generate_tasks_accepted fmt func r ts : generate_tasks fmt L2 func r = Ok ts -> result_accepted r.
Proof.
  intros H. destruct r as [d|nm attrs|l| |]; simpl in *; auto; try discriminate.
  - apply bind_ok in H. destruct H as [t [Ht _]]. unfold from_return in Ht.
    apply unless_ok in Ht. destruct Ht as [Hn Ht]. apply negb_true_iff in Hn.
    apply dict_to_task_accepted in Ht. destruct Ht as [Hd [Hnm _]]. split; [|split]; auto.
    intros v Hv. rewrite Hv in Hnm. subst v. reflexivity.
  - apply bind_ok in H. destruct H as [t [Ht _]]. eapply task_obj_accepted; eauto.
  - apply bind_ok in H. destruct H as [o [Ho _]]. rewrite Forall_forall. intros x Hx.
    destruct (foldM_steps _ (fun _ => True) _ (fun _ _ _ _ _ _ => I) _ _ I Ho x Hx) as [s0 [s1 [_ Hs]]].
    eapply from_yield_accepted; eauto.
Qed.

(* the creator function is called at load time *)
Definition runs (allow : bool) (c : creator) : bool :=
  match c_delayed c with None => true | Some (_, cr) => is_nil cr && negb allow end.

Lemma F2_in_l0 {A B} (R : A -> B -> Prop) l l' x : Forall2 R l l' -> In x l -> exists y, In y l' /\ R x y.
Proof. induction 1; simpl; [tauto|]. intros [<-|H1]; eauto. destruct (IHForall2 H1) as [z [Hz1 Hz2]]. eauto. Qed.

Lemma load_tasks_parts fmt lv cmds allow cs ts :
  load_tasks fmt lv cmds allow cs = Ok ts ->
  (forall c, In c cs -> ~ In (c_name c) cmds) /\
  exists tss, Forall2 (fun c l => load_creator fmt lv allow c = Ok l) cs tss /\ ts = concat tss.
Proof.
  unfold load_tasks. destruct (existsb _ cs) eqn:E; try discriminate. intros H.
  apply bind_ok in H. destruct H as [tss [Htss H]]. inversion H; subst. split.
  - intros c Hc Hin. assert (X : existsb (fun c => mem_str (c_name c) cmds) cs = true); [|congruence].
    apply existsb_exists. exists c. split; auto. apply mem_str_In; auto.
  - exists tss. split; auto. apply mapM_ok; auto.
Qed.

Lemma load_creator_runs fmt lv allow c : runs allow c = true ->
  load_creator fmt lv allow c = generate_tasks fmt lv (c_name c) (c_result c).
Proof.
  unfold runs, load_creator. destruct (c_delayed c) as [[ex cr]|]; auto.
  intros H. apply andb_true_iff in H. destruct H as [H1 H2]. rewrite H1. simpl.
  apply negb_true_iff in H2. rewrite H2. reflexivity.
Qed.

Theorem load_accepted fmt fn cmds allow cs ts :
  load fmt fn L2 cmds allow cs = Ok ts ->
  (forall c, In c cs -> ~ In (c_name c) cmds) /\
  forall c, In c cs -> runs allow c = true -> result_accepted (c_result c).
Proof.
  unfold load. intros H. apply bind_ok in H. destruct H as [ts0 [H0 _]].
  apply load_tasks_parts in H0. destruct H0 as [Hcmd [tss [F _]]]. split; auto.
  intros c Hc Hr. destruct (F2_in_l0 _ _ _ _ F Hc) as [l [_ Hl]]. rewrite load_creator_runs in Hl; auto.
  eapply generate_tasks_accepted; eauto.
Qed.

Lemma cmd_clash_rejected fmt fn lv cmds allow cs c :
  In c cs -> In (c_name c) cmds -> load fmt fn lv cmds allow cs = Invalid InvalidDodo.
Proof.
  intros Hc Hin. unfold load, load_tasks.
  assert (X : existsb (fun c => mem_str (c_name c) cmds) cs = true).
  { apply existsb_exists. exists c. split; auto. apply mem_str_In; auto. }
  rewrite X. reflexivity.
Qed.

(* ------------------------------------------------------------------ group structure and yield order of a loaded set *)
Theorem load_struct fmt fn cmds allow cs ts :
  load fmt fn L2 cmds allow cs = Ok ts -> groups_ok ts /\ order_ok ts.
Proof.
  unfold load. intros H. apply bind_ok in H. destruct H as [ts0 [H0 H]].
  apply control_ok in H.
  pose proof (cp_nodup _ _ _ H) as Hn. rewrite (cp_names _ _ _ H) in Hn.
  apply load_tasks_parts in H0. destruct H0 as [_ [tss [F ->]]].
  assert (FG : Forall groups_ok tss /\ Forall order_ok tss).
  { clear -F. induction F; split; constructor; try apply IHF; eapply load_creator_struct; eauto. }
  destruct FG as [FG FO]. split.
  - eapply groups_ok_same; [apply (cp_same _ _ _ H)|]. apply groups_ok_concat; auto.
  - eapply order_ok_same; [apply (cp_same _ _ _ H)|]. apply order_ok_concat; auto.
Qed.
(* ------------------------------------------------------------------ names: definition / yield order, first occurrence *)
Fixpoint addkey (l : list string) (k : string) : list string :=
  match l with [] => [k] | k0 :: r => if String.eqb k0 k then l else k0 :: addkey r k end.

Lemma od_set_keys o k t : map fst (od_set o k t) = addkey (map fst o) k.
Proof.
  induction o as [|[k0 t0] r IH]; simpl; auto.
  destruct (String.eqb k0 k); simpl; [reflexivity | rewrite IH; reflexivity].
Qed.

Lemma addkey_In l k x : In x (addkey l k) <-> x = k \/ In x l.
Proof.
  induction l as [|k0 r IH]; simpl.
  - split; intros [H|H]; auto; tauto.
  - destruct (String.eqb k0 k) eqn:E; simpl.
    + apply String.eqb_eq in E. subst. split; intros H; [auto|]. destruct H as [->|H]; auto.
    + rewrite IH. tauto.
Qed.

Lemma od_get_none_keys o k : od_get o k = None -> ~ In k (map fst o).
Proof.
  induction o as [|[k0 t0] r IH]; simpl; auto.
  destruct (String.eqb k0 k) eqn:E; try discriminate. intros H [H1|H1].
  - subst. rewrite String.eqb_refl in E. discriminate.
  - apply IH; auto.
Qed.

(* the str a value is (names are str in an accepted item) *)
Definition sv (v : val) : string := match v with VStr s => s | _ => EmptyString end.

(* the names an item produces, in the order it produces them (the group before its sub-task) *)
Definition item_keys (func : string) (it : item) : list string :=
  match it with
  | IDict d =>
      match dget d KName with
      | Some nm => if is_none nm then [sv (fy_base func d)]
                   else [sv (fy_base func d); append (sv (fy_base func d)) (append colon (sv nm))]
      | None => [sv (raw_basename d)]
      end
  | ITaskObj nm _ => [sv nm]
  | _ => []
  end.

Definition od_keyed (o : od) : Prop := forall k t, In (k, t) o -> t_name t = k.

Lemma from_yield_keys fmt func o it o' :
  od_keyed o -> from_yield fmt L2 func o it = Ok o' ->
  od_keyed o' /\ map fst o' = fold_left addkey (item_keys func it) (map fst o).
Proof.
  intros K H. destruct it as [d|nm attrs|l| |]; try discriminate.
  - rewrite from_yield_dict in H. apply unless_ok in H. destruct H as [Hb H]. simpl.
    destruct (dget d KName) as [nm|].
    + destruct (is_none nm).
      * unfold fy_group in H. simpl repaired in H. cbv iota in H. apply bind_ok in H. destruct H as [g [Hg H]].
        apply dict_to_task_ok in Hg. destruct Hg as [_ [_ []]]. rewrite ip_name0. simpl.
        destruct (od_get o (t_name g)).
        -- apply unless_ok in H. destruct H as [_ H]. inversion H; subst; clear H. rewrite od_set_keys. split; auto.
           intros k t0 Hin. apply od_set_In in Hin. destruct Hin as [E|Hin]; auto. inversion E; subst. reflexivity.
        -- inversion H; subst; clear H. rewrite od_set_keys. split; auto.
           intros k t0 Hin. apply od_set_In in Hin. destruct Hin as [E|Hin]; auto. inversion E; subst. reflexivity.
      * unfold fy_sub in H. simpl repaired in H. simpl negb in H. simpl orb in H.
        apply unless_ok in H. destruct H as [Hnm H].
        destruct (fy_base_str func d Hb) as [b Eb]. rewrite Eb in *. simpl fstr in H at 1. rewrite od_lookup_str in H.
        destruct nm as [n| | | | | | | | | | | | |]; try discriminate. simpl fstr in H. simpl sv.
        apply unless_ok in H. destruct H as [_ H].
        apply bind_ok in H. destruct H as [sub [Hsub H]].
        apply dict_to_task_ok in Hsub. destruct Hsub as [_ [_ Psub]].
        assert (Nsub : t_name sub = append b (append colon n)) by (destruct Psub; inversion ip_name0; auto).
        simpl in H. destruct (od_get o b) as [grp|] eqn:Eg.
        -- apply unless_ok in H. destruct H as [_ H]. inversion H; subst; clear H. rewrite !od_set_keys. split; auto.
           intros k t Hin. apply od_set_In in Hin. destruct Hin as [E|Hin]; [inversion E; subst; simpl; auto|].
           apply od_set_In in Hin. destruct Hin as [E|Hin]; auto. inversion E; subst. simpl.
           apply K. apply od_get_In; auto.
        -- apply bind_ok in H. destruct H as [grp [Hgrp H]]. inversion H; subst; clear H.
           unfold group_task in Hgrp. apply task_init_ok in Hgrp. destruct Hgrp.
           inversion ip_name0 as [Nb]. rewrite <- Nb. rewrite !od_set_keys. split; auto.
           intros k t Hin. apply od_set_In in Hin. destruct Hin as [E|Hin]; [inversion E; subst; simpl; auto|].
           apply od_set_In in Hin. destruct Hin as [E|Hin]; auto. inversion E; subst. reflexivity.
    + unfold fy_plain in H. apply unless_ok in H. destruct H as [_ H].
      apply bind_ok in H. destruct H as [g [_ H]]. destruct g; try discriminate.
      apply bind_ok in H. destruct H as [t [Ht H]]. inversion H; subst; clear H.
      apply dict_to_task_ok in Ht. destruct Ht as [_ [_ []]]. rewrite ip_name0.
      simpl. rewrite od_set_keys. split; auto.
      intros k t0 Hin. apply od_set_In in Hin. destruct Hin as [E|Hin]; auto. inversion E; subst. reflexivity.
  - simpl in H. apply bind_ok in H. destruct H as [t [Ht H]].
    destruct (od_has o (t_name t)); try discriminate. inversion H; subst; clear H.
    unfold task_obj in Ht. apply task_init_ok in Ht. destruct Ht. rewrite ip_name0. simpl. rewrite od_set_keys. split; auto.
    intros k t0 Hin. apply od_set_In in Hin. destruct Hin as [E|Hin]; auto. inversion E; subst. reflexivity.
Qed.

Definition gen_keys (func : string) (items : list item) (ks : list string) : list string :=
  fold_left (fun ks it => fold_left addkey (item_keys func it) ks) items ks.

Lemma foldM_from_yield_keys fmt func items : forall o o',
  od_keyed o -> foldM (from_yield fmt L2 func) items o = Ok o' ->
  od_keyed o' /\ map fst o' = gen_keys func items (map fst o).
Proof.
  unfold gen_keys. induction items as [|it r IH]; simpl; intros o o' K H.
  - inversion H; subst; auto.
  - apply bind_ok in H. destruct H as [o1 [H1 H2]].
    destruct (from_yield_keys fmt func o it o1 K H1) as [K1 E1]. rewrite <- E1. apply IH; auto.
Qed.

Definition result_keys (func : string) (r : item) : list string :=
  match r with
  | IDict d => [sv (match dget d KBasename with Some v => v | None => VStr func end)]
  | ITaskObj nm _ => [sv nm]
  | IGen l => let ks := gen_keys func (flat_map flat l) [] in if is_nil ks then [func] else ks
  | _ => []
  end.

Lemma keyed_names o : od_keyed o -> map t_name (map snd o) = map fst o.
Proof.
  induction o as [|[k t] r IH]; simpl; auto. intros K. rewrite (K k t) by (left; reflexivity).
  rewrite IH; [reflexivity|]. intros k0 t0 Hin. apply K. right; auto.
Qed.

Lemma generate_tasks_names fmt func r ts :
  generate_tasks fmt L2 func r = Ok ts -> map t_name ts = result_keys func r.
Proof.
  intros H. destruct r as [d|nm attrs|l| |]; simpl in *; try discriminate.
  - apply bind_ok in H. destruct H as [t [Ht H]]. inversion H; subst. simpl.
    unfold from_return in Ht. apply unless_ok in Ht. destruct Ht as [_ Ht].
    apply dict_to_task_ok in Ht. destruct Ht as [_ [_ []]]. rewrite ip_name0. reflexivity.
  - apply bind_ok in H. destruct H as [t [Ht H]]. inversion H; subst. simpl.
    unfold task_obj in Ht. apply task_init_ok in Ht. destruct Ht. rewrite ip_name0. reflexivity.
  - apply bind_ok in H. destruct H as [o [Ho H]].
    assert (K0 : od_keyed []) by (intros k t []).
    destruct (foldM_from_yield_keys fmt func _ _ _ K0 Ho) as [K E]. simpl in E. rewrite <- E.
    destruct o as [|p o]; simpl in *.
    + apply bind_ok in H. destruct H as [g [Hg H]]. inversion H; subst. simpl.
      unfold group_task in Hg. apply task_init_ok in Hg. destruct Hg. inversion ip_name0. reflexivity.
    + inversion H; subst. simpl. destruct p as [k t]. simpl. rewrite (K k t); [|left; auto].
      f_equal. apply keyed_names. intros k0 t0 Hin. apply K. right; auto.
  - inversion H; reflexivity.
Qed.

Definition creator_keys (allow : bool) (c : creator) : list string :=
  match c_delayed c with
  | None => result_keys (c_name c) (c_result c)
  | Some (_, cr) => if negb (is_nil cr) then cr else if allow then [c_name c] else result_keys (c_name c) (c_result c)
  end.

Lemma delayed_task_name n e t : delayed_task L2 n e = Ok t -> t_name t = n.
Proof. unfold delayed_task. intros H. apply task_init_ok in H. destruct H. inversion ip_name0. reflexivity. Qed.

Lemma load_creator_names fmt allow c ts :
  load_creator fmt L2 allow c = Ok ts -> map t_name ts = creator_keys allow c.
Proof.
  unfold load_creator, creator_keys. destruct (c_delayed c) as [[ex cr]|].
  - destruct (negb (is_nil cr)).
    + intros H. apply mapM_ok in H. induction H; simpl; auto. rewrite IHForall2. f_equal. eapply delayed_task_name; eauto.
    + destruct allow.
      * intros H. apply bind_ok in H. destruct H as [t [Ht H]]. inversion H; subst. simpl. f_equal. eapply delayed_task_name; eauto.
      * apply generate_tasks_names.
  - apply generate_tasks_names.
Qed.

Theorem load_names fmt fn cmds allow cs ts :
  load fmt fn L2 cmds allow cs = Ok ts -> map t_name ts = flat_map (creator_keys allow) cs.
Proof.
  unfold load. intros H. apply bind_ok in H. destruct H as [ts0 [H0 H]].
  apply control_ok in H. rewrite (cp_names _ _ _ H).
  apply load_tasks_parts in H0. destruct H0 as [_ [tss [F ->]]].
  clear H. induction F; simpl; auto. rewrite map_app, IHF. f_equal. eapply load_creator_names; eauto.
Qed.

(* a plain task, a sub-task or a Task object yielded under a name the generator already produced is rejected *)
Definition own_key (func : string) (it : item) : list string :=
  match it with
  | IDict d =>
      match dget d KName with
      | Some nm => if is_none nm then [] else [append (sv (fy_base func d)) (append colon (sv nm))]
      | None => [sv (raw_basename d)]
      end
  | ITaskObj nm _ => [sv nm]
  | _ => []
  end.

Lemma fold_addkey_In ks l x : In x (fold_left addkey ks l) <-> In x ks \/ In x l.
Proof.
  revert l. induction ks as [|k r IH]; simpl; intros l; [tauto|].
  rewrite IH, addkey_In. split; intros H; intuition auto.
Qed.

Lemma from_yield_own fmt func o it o' :
  od_keyed o -> from_yield fmt L2 func o it = Ok o' ->
  (forall x, In x (map fst o) -> In x (map fst o')) /\
  forall k, In k (own_key func it) -> ~ In k (map fst o) /\ In k (map fst o').
Proof.
  intros K H. destruct (from_yield_keys fmt func o it o' K H) as [_ E]. split.
  - intros x Hx. rewrite E. apply fold_addkey_In. auto.
  - intros k Hk. split.
    2:{ rewrite E. apply fold_addkey_In. left. destruct it as [d| | | |]; simpl in *; try tauto.
        destruct (dget d KName) as [nm|]; [destruct (is_none nm)|]; simpl in *; tauto. }
    destruct it as [d|nm attrs| | |]; simpl in Hk; try tauto.
    + rewrite from_yield_dict in H. apply unless_ok in H. destruct H as [Hb H]. destruct (dget d KName) as [nm|].
      * destruct (is_none nm); simpl in Hk; [tauto|]. destruct Hk as [<-|[]].
        unfold fy_sub in H. simpl repaired in H. simpl negb in H. simpl orb in H.
        apply unless_ok in H. destruct H as [Hnm H].
        destruct (fy_base_str func d Hb) as [b Eb]. rewrite Eb in *.
        destruct nm as [n| | | | | | | | | | | | |]; try discriminate. simpl fstr in H. simpl sv.
        apply unless_ok in H. destruct H as [Hnew _]. apply negb_true_iff in Hnew.
        apply od_get_none_keys. apply od_has_false; auto.
      * simpl in Hk. destruct Hk as [<-|[]].
        unfold fy_plain in H. apply unless_ok in H. destruct H as [Ht H].
        destruct (raw_basename_str d Hb Ht) as [b Eb]. rewrite Eb in *. rewrite od_lookup_str in H. simpl in H. simpl sv.
        apply od_get_none_keys. destruct (od_get o b); [discriminate | reflexivity].
    + destruct Hk as [<-|[]]. simpl in H. apply bind_ok in H. destruct H as [t [Ht H]].
      destruct (od_has o (t_name t)) eqn:Eh; try discriminate.
      unfold task_obj in Ht. apply task_init_ok in Ht. destruct Ht. rewrite ip_name0. simpl.
      apply od_get_none_keys. apply od_has_false; auto.
Qed.

Lemma foldM_own_nodup fmt func items : forall o o',
  od_keyed o -> foldM (from_yield fmt L2 func) items o = Ok o' ->
  NoDup (flat_map (own_key func) items) /\
  forall k, In k (flat_map (own_key func) items) -> ~ In k (map fst o).
Proof.
  induction items as [|it r IH]; simpl; intros o o' K H.
  - split; [constructor | tauto].
  - apply bind_ok in H. destruct H as [o1 [H1 H2]].
    destruct (from_yield_keys fmt func o it o1 K H1) as [K1 _].
    destruct (from_yield_own fmt func o it o1 K H1) as [Mono Own].
    destruct (IH o1 o' K1 H2) as [Nd Dis]. split.
    + assert (L : (length (own_key func it) <= 1)%nat).
      { destruct it as [d| | | |]; simpl; auto. destruct (dget d KName) as [nm|]; [destruct (is_none nm)|]; simpl; auto. }
      destruct (own_key func it) as [|k [|k2 rest]] eqn:Ek; simpl in *; auto.
      * constructor; auto. intros Hin. apply (Dis k Hin). apply (Own k); auto.
      * exfalso. lia.
    + intros k Hk. apply in_app_or in Hk. destruct Hk as [Hk|Hk].
      * apply (Own k Hk).
      * intros Hin. apply (Dis k Hk). apply Mono; auto.
Qed.

Theorem load_own_keys_nodup fmt fn cmds allow cs ts c l :
  load fmt fn L2 cmds allow cs = Ok ts -> In c cs -> runs allow c = true -> c_result c = IGen l ->
  NoDup (flat_map (own_key (c_name c)) (flat_map flat l)).
Proof.
  intros H Hc Hr Hl. unfold load in H. apply bind_ok in H. destruct H as [ts0 [H0 _]].
  apply load_tasks_parts in H0. destruct H0 as [_ [tss [F _]]].
  destruct (F2_in_l0 _ _ _ _ F Hc) as [lt [_ Hgen]]. rewrite load_creator_runs in Hgen; auto.
  rewrite Hl in Hgen. simpl in Hgen. apply bind_ok in Hgen. destruct Hgen as [o [Ho _]].
  assert (K0 : od_keyed []) by (intros k t []).
  apply (foldM_own_nodup fmt (c_name c) _ _ _ K0 Ho).
Qed.

(* ------------------------------------------------------------------ references given by the user are kept, so they are checked *)
Lemma veq_str_r p s : veq p (VStr s) = true -> p = VStr s.
Proof. destruct p; simpl; try discriminate. intros H. apply String.eqb_eq in H. congruence. Qed.

Record refs_kept (get : attr -> option val) (t : task) : Prop := {
  rk_task_dep : forall x, In x (elems (tvalue get ATaskDep)) -> star_in x = Ok false -> In x (t_task_dep t);
  rk_setup : forall x, In x (elems (tvalue get ASetup)) -> In x (t_setup t);
  rk_calc : forall x, In x (elems (tvalue get ACalcDep)) -> In x (t_calc t);
  rk_getargs : forall kv desc, tvalue get AGetargs = VDict kv -> In desc (map snd kv) ->
               exists p0, py_item0 desc = Ok p0 /\
                          (existsb (veq p0) (elems (tvalue get ASetup)) = true \/ In p0 (t_setup t))
}.

Lemma init_refs_kept get ldep hs nm t : init_post get ldep hs nm t -> refs_kept get t.
Proof.
  intros []. destruct ip_deps0 as [tw [Htw [Hd _]]]. destruct ip_setup0 as [extra [Hex Hse]].
  constructor.
  - intros x Hx Hs. rewrite Hd. apply in_or_app. left. eapply expand_task_dep_nowild; eauto.
  - intros x Hx. rewrite Hse. apply in_or_app; auto.
  - intros x Hx. rewrite ip_calc0. exact Hx.
  - intros kv desc Hg Hin. unfold getargs_step in Hex. simpl tvalue in Hg. rewrite Hg in Hex.
    destruct kv as [|p kv']; [simpl in Hin; tauto|]. simpl truthy in Hex. cbv iota in Hex.
    destruct (init_getargs_ids _ _ _ Hex desc Hin) as [p0 [Hp [_ [H|H]]]]; exists p0; split; auto.
    right. rewrite Hse. apply in_or_app; auto.
Qed.

Lemma refs_kept_same get t t' :
  refs_kept get t -> (forall x, In x (t_task_dep t) -> In x (t_task_dep t')) -> t_setup t' = t_setup t -> t_calc t' = t_calc t ->
  refs_kept get t'.
Proof.
  intros [] Hd Hs Hc. constructor; auto.
  - intros x Hx. rewrite Hs. auto.
  - intros x Hx. rewrite Hc. auto.
  - intros kv desc Hg Hin. destruct (rk_getargs0 kv desc Hg Hin) as [p0 [Hp Hor]]. exists p0. rewrite Hs. auto.
Qed.

(* what a yielded item asks Task.__init__ for (group definitions aside) *)
Definition item_get (it : item) : option (attr -> option val) :=
  match it with
  | IDict d => match dget d KName with Some nm => if is_none nm then None else Some (dict_get d false) | None => Some (dict_get d false) end
  | ITaskObj _ attrs => Some (obj_get attrs)
  | _ => None
  end.
Definition kept (get : attr -> option val) (o : od) : Prop :=
  exists k t, od_get o k = Some t /\ t_has_subtask t = false /\ t_implicit t = false /\ refs_kept get t.

(* an entry that is not a group task is never touched again *)
Lemma from_yield_frozen fmt func o it o' k t :
  od_get o k = Some t -> t_has_subtask t = false -> t_implicit t = false ->
  from_yield fmt L2 func o it = Ok o' -> od_get o' k = Some t.
Proof.
  intros Hk Hh Hi H.
  assert (Fresh : forall k' t', od_get o k' = None -> od_get (od_set o k' t') k = Some t).
  { intros k' t' Hn. rewrite od_get_set. rewrite eqb_neq_str; auto. intros ->. congruence. }
  assert (Grp : forall k' g t', od_get o k' = Some g -> t_has_subtask g = true \/ t_implicit g = true ->
                od_get (od_set o k' t') k = Some t).
  { intros k' g t' Hg Hgh. rewrite od_get_set. rewrite eqb_neq_str; auto. intros ->.
    rewrite Hk in Hg. inversion Hg; subst. destruct Hgh; congruence. }
  destruct it as [d|nm attrs|l| |]; try discriminate.
  - rewrite from_yield_dict in H. apply unless_ok in H. destruct H as [Hb H].
    destruct (dget d KName) as [nm|].
    + destruct (is_none nm).
      * unfold fy_group in H. simpl repaired in H. cbv iota in H. apply bind_ok in H. destruct H as [g [_ H]].
        destruct (od_get o (t_name g)) as [prev|] eqn:Ep.
        -- apply unless_ok in H. destruct H as [Hph H]. inversion H; subst. apply (Grp _ prev); auto.
        -- inversion H; subst. apply Fresh; auto.
      * unfold fy_sub in H. simpl repaired in H. simpl negb in H. simpl orb in H.
        apply unless_ok in H. destruct H as [Hnm H].
        destruct (fy_base_str func d Hb) as [b Eb]. rewrite Eb in H. cbn [fstr] in H. rewrite od_lookup_str in H.
        apply unless_ok in H. destruct H as [Hnew H]. apply negb_true_iff in Hnew. apply od_has_false in Hnew.
        apply bind_ok in H. destruct H as [sub [_ H]]. cbn [bind] in H.
        match type of Hnew with od_get o ?f = None => set (full := f) in * end.
        assert (Kf : k <> full) by (intros ->; congruence).
        destruct (od_get o b) as [grp|] eqn:Eg.
        -- apply unless_ok in H. destruct H as [Hgh H]. inversion H; subst o'.
           rewrite od_get_set. rewrite eqb_neq_str; [|intros E; apply Kf; symmetry; exact E]. apply (Grp _ grp); auto.
        -- apply bind_ok in H. destruct H as [grp [Hgrp H]]. inversion H; subst o'.
           unfold group_task in Hgrp. apply task_init_ok in Hgrp.
           assert (Nb : t_name grp = b) by (destruct Hgrp as [Hn]; inversion Hn; auto).
           cbn [t_name set_implicit]. rewrite Nb. rewrite od_get_set. rewrite eqb_neq_str; [|intros E; apply Kf; symmetry; exact E].
           apply Fresh; auto.
    + unfold fy_plain in H. apply unless_ok in H. destruct H as [Ht H].
      destruct (raw_basename_str d Hb Ht) as [b Eb]. rewrite Eb in H. rewrite od_lookup_str in H. simpl in H.
      destruct (od_get o b) eqn:Eg; try discriminate.
      apply bind_ok in H. destruct H as [t0 [Hdt H]]. inversion H; subst.
      apply dict_to_task_ok in Hdt. destruct Hdt as [_ [_ []]]. inversion ip_name0 as [Nb]. rewrite <- Nb. apply Fresh; auto.
  - simpl in H. apply bind_ok in H. destruct H as [t0 [Ht H]].
    destruct (od_has o (t_name t0)) eqn:Eh; try discriminate. inversion H; subst. apply Fresh. apply od_has_false; auto.
Qed.

(* the task made from a yielded item is in the OrderedDict, with the references of the item *)
Lemma from_yield_kept fmt func o it o' get :
  from_yield fmt L2 func o it = Ok o' -> item_get it = Some get -> kept get o'.
Proof.
  intros H Hg. destruct it as [d|nm attrs|l| |]; try discriminate.
  - rewrite from_yield_dict in H. apply unless_ok in H. destruct H as [Hb H]. simpl in Hg.
    destruct (dget d KName) as [nm|].
    + destruct (is_none nm); [discriminate|]. inversion Hg; subst get; clear Hg.
      unfold fy_sub in H. simpl repaired in H. simpl negb in H. simpl orb in H.
      apply unless_ok in H. destruct H as [Hnm H].
      destruct (fy_base_str func d Hb) as [b Eb]. rewrite Eb in H. cbn [fstr] in H. rewrite od_lookup_str in H.
      apply unless_ok in H. destruct H as [_ H].
      apply bind_ok in H. destruct H as [sub [Hsub H]]. cbn [bind] in H.
      apply dict_to_task_ok in Hsub. destruct Hsub as [_ [_ Psub]].
      pose proof (init_refs_kept _ _ _ _ _ Psub) as Rk. destruct Psub.
      set (full := append b (append colon (fstr fmt nm))) in *.
      destruct (od_get o b) as [grp|].
      * apply unless_ok in H. destruct H as [_ H]. inversion H; subst o'.
        exists full, (set_subtask_of sub b). rewrite od_get_set, String.eqb_refl. split; auto. split; auto. split; auto.
        eapply refs_kept_same; eauto.
      * apply bind_ok in H. destruct H as [grp [_ H]]. inversion H; subst o'.
        eexists full, _. rewrite od_get_set, String.eqb_refl. split; [reflexivity|]. split; auto. split; auto.
        eapply refs_kept_same; eauto.
    + inversion Hg; subst get; clear Hg.
      unfold fy_plain in H. apply unless_ok in H. destruct H as [_ H].
      apply bind_ok in H. destruct H as [g [_ H]]. destruct g; try discriminate.
      apply bind_ok in H. destruct H as [t [Hdt H]]. inversion H; subst.
      apply dict_to_task_ok in Hdt. destruct Hdt as [_ [_ P]]. pose proof (init_refs_kept _ _ _ _ _ P) as Rk. destruct P.
      exists (t_name t), t. rewrite od_get_set, String.eqb_refl. auto.
  - simpl in Hg. inversion Hg; subst get; clear Hg.
    simpl in H. apply bind_ok in H. destruct H as [t [Ht H]].
    destruct (od_has o (t_name t)); try discriminate. inversion H; subst.
    unfold task_obj in Ht. apply task_init_ok in Ht. pose proof (init_refs_kept _ _ _ _ _ Ht) as Rk. destruct Ht.
    exists (t_name t), t. rewrite od_get_set, String.eqb_refl. auto.
Qed.

Lemma foldM_kept fmt func items : forall o o',
  foldM (from_yield fmt L2 func) items o = Ok o' ->
  (forall get, kept get o -> kept get o') /\
  forall it get, In it items -> item_get it = Some get -> kept get o'.
Proof.
  induction items as [|it r IH]; simpl; intros o o' H.
  - inversion H; subst. split; auto. tauto.
  - apply bind_ok in H. destruct H as [o1 [H1 H2]]. destruct (IH o1 o' H2) as [P Q].
    assert (Step : forall get, kept get o -> kept get o1).
    { intros get [k [t [Hk [Hh [Hi Hr]]]]]. exists k, t. split; auto. eapply from_yield_frozen; eauto. }
    split.
    + intros get Hk. apply P. apply Step. exact Hk.
    + intros it0 get [<-|Hin] Hg.
      * apply P. eapply from_yield_kept; eauto.
      * eapply Q; eauto.
Qed.

Definition ref_exists (names : list string) (x : val) : Prop := exists s, x = VStr s /\ In s names.

(* every task reference of an item names a task of the set *)
Definition refs_checked (names : list string) (get : attr -> option val) : Prop :=
  (forall x, In x (elems (tvalue get ATaskDep)) -> star_in x = Ok false -> ref_exists names x) /\
  (forall x, In x (elems (tvalue get ASetup)) -> ref_exists names x) /\
  (forall x, In x (elems (tvalue get ACalcDep)) -> ref_exists names x) /\
  (forall kv desc, tvalue get AGetargs = VDict kv -> In desc (map snd kv) ->
                   exists p0, py_item0 desc = Ok p0 /\ ref_exists names p0).

Lemma refs_kept_checked names get t t' :
  refs_kept get t -> same_but_deps t t' ->
  refs_in names (t_task_dep t') -> refs_in names (t_setup t') -> refs_in names (t_calc t') ->
  refs_checked names get.
Proof.
  intros [] (_ & S & C & _ & _ & _ & _ & [extra E]) R1 R2 R3. split; [|split; [|split]].
  - intros x Hx Hs. apply R1. rewrite E. apply in_or_app. left. auto.
  - intros x Hx. apply R2. rewrite S. auto.
  - intros x Hx. apply R3. rewrite C. auto.
  - intros kv desc Hg Hin. destruct (rk_getargs0 kv desc Hg Hin) as [p0 [Hp [Hs|Hs]]]; exists p0; split; auto.
    + apply existsb_exists in Hs. destruct Hs as [e [He Hv]].
      assert (Re : ref_exists names e) by (apply R2; rewrite S; auto).
      destruct Re as [s [-> Hs]]. apply veq_str_r in Hv. subst. exists s; auto.
    + apply R2. rewrite S. exact Hs.
Qed.

Definition yields (c : creator) (it : item) : Prop :=
  match c_result c with IGen l => In it (flat_map flat l) | _ => False end.
(* the creator returns this item, or yields it at any nesting depth *)
Definition produces (c : creator) (it : item) : Prop := c_result c = it \/ yields c it.

Lemma generate_tasks_kept fmt func r ts it get :
  generate_tasks fmt L2 func r = Ok ts ->
  (r = it \/ match r with IGen l => In it (flat_map flat l) | _ => False end) ->
  item_get it = Some get -> exists t, In t ts /\ refs_kept get t.
Proof.
  intros H Hp Hg. destruct r as [d|nm attrs|l| |]; simpl in H; try discriminate.
  - destruct Hp as [<-|[]]. apply bind_ok in H. destruct H as [t [Ht H]]. inversion H; subst.
    unfold from_return in Ht. apply unless_ok in Ht. destruct Ht as [Hn Ht]. apply negb_true_iff in Hn.
    simpl in Hg. unfold dhas in Hn. destruct (dget d KName); try discriminate. inversion Hg; subst.
    apply dict_to_task_ok in Ht. destruct Ht as [_ [_ P]]. exists t. split; [left; auto|]. eapply init_refs_kept; eauto.
  - destruct Hp as [<-|[]]. apply bind_ok in H. destruct H as [t [Ht H]]. inversion H; subst.
    simpl in Hg. inversion Hg; subst. unfold task_obj in Ht. apply task_init_ok in Ht.
    exists t. split; [left; auto|]. eapply init_refs_kept; eauto.
  - destruct Hp as [<-|Hin]; [discriminate|].
    apply bind_ok in H. destruct H as [o [Ho H]].
    destruct (foldM_kept fmt func _ _ _ Ho) as [_ Q]. destruct (Q it get Hin Hg) as [k [t [Hk [_ [_ Hr]]]]].
    destruct (is_nil o) eqn:En.
    + destruct o; [discriminate | discriminate].
    + inversion H; subst. exists t. split; auto. apply in_map_iff. exists (k, t). split; auto. apply od_get_In; auto.
  - destruct Hp as [<-|[]]. discriminate.
Qed.

Theorem load_refs_checked fmt fn cmds allow cs ts c it get :
  load fmt fn L2 cmds allow cs = Ok ts -> In c cs -> runs allow c = true -> produces c it ->
  item_get it = Some get -> refs_checked (map t_name ts) get.
Proof.
  intros H Hc Hr Hp Hg. unfold load in H. apply bind_ok in H. destruct H as [ts0 [H0 H]].
  apply control_ok in H.
  apply load_tasks_parts in H0. destruct H0 as [_ [tss [F ->]]].
  destruct (F2_in_l0 _ _ _ _ F Hc) as [l [Hl Hgen]]. rewrite load_creator_runs in Hgen; auto.
  destruct (generate_tasks_kept fmt (c_name c) (c_result c) l it get Hgen Hp Hg) as [t [Ht Hk]].
  assert (Hin : In t (concat tss)) by (apply in_concat; eauto).
  destruct (F2_in_l0 _ _ _ _ (cp_same _ _ _ H) Hin) as [t' [Ht' Hsame]].
  destruct (cp_refs _ _ _ H t' Ht') as [R1 [R2 R3]].
  eapply refs_kept_checked; eauto.
Qed.

(* ------------------------------------------------------------------ summary statements used by Properties/C18.v *)
Theorem load_post fmt fn cmds allow cs ts :
  load fmt fn L2 cmds allow cs = Ok ts ->
  NoDup (map t_name ts) /\ NoDup (flat_map t_targets ts) /\
  forall t, In t ts -> refs_in (map t_name ts) (t_task_dep t) /\ refs_in (map t_name ts) (t_setup t) /\
                       refs_in (map t_name ts) (t_calc t).
Proof.
  unfold load. intros H. apply bind_ok in H. destruct H as [ts0 [_ H]]. apply control_ok in H.
  split; [apply (cp_nodup _ _ _ H)|]. split; [apply (cp_targets _ _ _ H)|].
  intros t Ht. destruct (cp_refs _ _ _ H t Ht) as [R1 [R2 R3]]. auto.
Qed.

(* the creator returns this dict, or yields it at any nesting depth *)
Definition gives (c : creator) (d : tdict) : Prop := produces c (IDict d).
Definition group_definition (d : tdict) : Prop := dget d KName = Some VNone.

Lemma is_none_eq v : is_none v = true <-> v = VNone.
Proof. destruct v; simpl; split; intros H; try discriminate; auto. Qed.

Theorem load_dict_accepted fmt fn cmds allow cs ts c d :
  load fmt fn L2 cmds allow cs = Ok ts -> In c cs -> runs allow c = true -> gives c d ->
  (forall n, dget d (KUnknown n) = None) /\
  (forall a v, dget d (KAttr a) = Some v -> (a = AActions -> ~ group_definition d) -> type_ok a v = true) /\
  (~ group_definition d -> dhas d (KAttr AActions) = true) /\
  (c_result c = IDict d -> dhas d KName = false /\ forall v, dget d KBasename = Some v -> is_str v = true) /\
  (yields c (IDict d) ->
     (forall v, dget d KBasename = Some v -> is_str v = true \/ v = VNone) /\
     (forall v, dget d KName = Some v -> is_str v = true \/ v = VNone) /\
     (dget d KName = None -> exists s, dget d KBasename = Some (VStr s) /\ s <> EmptyString)).
Proof.
  intros H Hc Hr [Hg|Hg].
  - destruct (load_accepted _ _ _ _ _ _ H) as [_ A]. specialize (A c Hc Hr). rewrite Hg in A. simpl in A.
    destruct A as [A1 [[U [Ac T]] A3]].
    split; [exact U|]. split; [|split; [|split]].
    + intros a v Hv _. apply T; auto. discriminate.
    + intros _. destruct Ac; auto. discriminate.
    + intros _. split; auto.
    + intros Hy. unfold yields in Hy. rewrite Hg in Hy. tauto.
  - assert (A : yield_accepted (IDict d)).
    { destruct (load_accepted _ _ _ _ _ _ H) as [_ A]. specialize (A c Hc Hr).
      unfold yields in Hg. destruct (c_result c); try tauto. simpl in A. rewrite Forall_forall in A. auto. }
    simpl in A. destruct A as [Hb A]. unfold group_definition.
    assert (NR : c_result c <> IDict d).
    { intros E. unfold yields in Hg. rewrite E in Hg. tauto. }
    assert (B : forall v, dget d KBasename = Some v -> is_str v = true \/ v = VNone).
    { intros v Hv. unfold basename_ok, raw_basename in Hb. rewrite Hv in Hb. apply orb_true_iff in Hb.
      destruct Hb as [Hb|Hb]; auto. right. apply is_none_eq; auto. }
    destruct (dget d KName) as [nm|] eqn:En.
    + destruct (is_none nm) eqn:Enn.
      * destruct A as [U [Ac T]]. apply is_none_eq in Enn. subst nm.
        split; [exact U|]. split; [|split; [|split]].
        -- intros a v Hv Hnot. apply T; auto. intros _ Ea. apply (Hnot Ea). reflexivity.
        -- intros Hnot. exfalso. apply Hnot. reflexivity.
        -- intros E. contradiction.
        -- intros _. split; [exact B|]. split; [|discriminate]. intros v Hv. inversion Hv. auto.
      * destruct A as [Hs [U [Ac T]]].
        split; [exact U|]. split; [|split; [|split]].
        -- intros a v Hv _. apply T; auto. discriminate.
        -- intros _. destruct Ac; auto. discriminate.
        -- intros E. contradiction.
        -- intros _. split; [exact B|]. split; [|discriminate]. intros v Hv. inversion Hv; subst. auto.
    + destruct A as [[U [Ac T]] Bn].
      split; [exact U|]. split; [|split; [|split]].
      * intros a v Hv _. apply T; auto. discriminate.
      * intros _. destruct Ac; auto. discriminate.
      * intros E. contradiction.
      * intros _. split; [exact B|]. split; [discriminate|]. intros _. exact Bn.
Qed.

(* dangling references, for a dict: every non-wild-card task_dep, every setup, every calc_dep and
   the task id of every getargs value names a task of the accepted set *)
Theorem load_dict_refs fmt fn cmds allow cs ts c d :
  load fmt fn L2 cmds allow cs = Ok ts -> In c cs -> runs allow c = true -> gives c d -> ~ group_definition d ->
  let names := map t_name ts in
  (forall v x, dget d (KAttr ATaskDep) = Some v -> In x (elems v) -> star_in x = Ok false -> ref_exists names x) /\
  (forall v x, dget d (KAttr ASetup) = Some v -> In x (elems v) -> ref_exists names x) /\
  (forall v x, dget d (KAttr ACalcDep) = Some v -> In x (elems v) -> ref_exists names x) /\
  (forall kv desc, dget d (KAttr AGetargs) = Some (VDict kv) -> In desc (map snd kv) ->
                   exists p0, py_item0 desc = Ok p0 /\ ref_exists names p0).
Proof.
  intros H Hc Hr Hg Hn names.
  assert (G : item_get (IDict d) = Some (dict_get d false)).
  { simpl. unfold group_definition in Hn. destruct (dget d KName) as [nm|]; auto.
    destruct (is_none nm) eqn:E; auto. apply is_none_eq in E. subst. exfalso. apply Hn. reflexivity. }
  destruct (load_refs_checked _ _ _ _ _ _ _ _ _ H Hc Hr Hg G) as [R1 [R2 [R3 R4]]].
  assert (V : forall a v, a <> AGetargs -> dget d (KAttr a) = Some v -> tvalue (dict_get d false) a = v).
  { intros a v Ha Hv. unfold tvalue, targ, dict_get. simpl. rewrite Hv. destruct a; auto. congruence. }
  split; [|split; [|split]].
  - intros v x Hv Hx Hs. apply R1; auto. rewrite (V ATaskDep v); auto. discriminate.
  - intros v x Hv Hx. apply R2. rewrite (V ASetup v); auto. discriminate.
  - intros v x Hv Hx. apply R3. rewrite (V ACalcDep v); auto. discriminate.
  - intros kv desc Hv Hin. apply (R4 kv desc); auto.
    unfold tvalue, tgetargs, targ, dict_get. simpl. rewrite Hv. reflexivity.
Qed.

(* ------------------------------------------------------------------ definition order:
   _get_task_creators + funcs.sort(key=line) ([sort_by_line] is the stable sort by line) *)
From Coq Require Import Sorting.Permutation Sorting.Sorted.

Definition line_le (a b : Z * creator) : Prop := fst a <= fst b.
Definition on_line (k : Z) (x : Z * creator) : bool := fst x =? k.

Lemma ins_by_line_perm x l : Permutation (ins_by_line x l) (x :: l).
Proof.
  induction l as [|y r IH]; simpl; [apply Permutation_refl|].
  destruct (fst x <=? fst y); [apply Permutation_refl|].
  eapply Permutation_trans; [apply perm_skip; exact IH | apply perm_swap].
Qed.

Theorem sort_by_line_perm l : Permutation (sort_by_line l) l.
Proof.
  induction l as [|x r IH]; simpl; [constructor|].
  eapply Permutation_trans; [apply ins_by_line_perm | apply perm_skip; exact IH].
Qed.

Lemma ins_by_line_In x l y : In y (ins_by_line x l) -> y = x \/ In y l.
Proof.
  intros H. apply (Permutation_in _ (ins_by_line_perm x l)) in H. destruct H; auto.
Qed.

Lemma ins_by_line_sorted x l : StronglySorted line_le l -> StronglySorted line_le (ins_by_line x l).
Proof.
  induction l as [|y r IH]; simpl; intros H.
  - constructor; constructor.
  - inversion H as [|? ? Hr Hy]; subst.
    destruct (fst x <=? fst y) eqn:E.
    + constructor; [exact H|]. constructor; [unfold line_le; lia|].
      rewrite Forall_forall in *. intros z Hz. specialize (Hy z Hz). unfold line_le in *. lia.
    + constructor; [apply IH; exact Hr|].
      rewrite Forall_forall in *. intros z Hz. apply ins_by_line_In in Hz. destruct Hz as [->|Hz].
      * unfold line_le. lia.
      * apply Hy; exact Hz.
Qed.

Theorem sort_by_line_sorted l : StronglySorted line_le (sort_by_line l).
Proof. induction l as [|x r IH]; simpl; [constructor | apply ins_by_line_sorted; exact IH]. Qed.

(* stability: the creators of one line stay in the order of the namespace *)
Lemma ins_by_line_filter k x l :
  filter (on_line k) (ins_by_line x l) = filter (on_line k) (x :: l).
Proof.
  induction l as [|y r IH]; simpl; [reflexivity|].
  destruct (fst x <=? fst y) eqn:E; [reflexivity|].
  simpl. rewrite IH. simpl. unfold on_line.
  destruct (fst x =? k) eqn:Ex; destruct (fst y =? k) eqn:Ey; try reflexivity. lia.
Qed.

Theorem sort_by_line_stable k l : filter (on_line k) (sort_by_line l) = filter (on_line k) l.
Proof.
  induction l as [|x r IH]; simpl; [reflexivity|].
  rewrite ins_by_line_filter. simpl. rewrite IH. reflexivity.
Qed.

Lemma sorted_app_order (l p q r : list (Z * creator)) a b :
  StronglySorted line_le l -> l = (p ++ a :: q ++ b :: r)%list -> fst a <= fst b.
Proof.
  intros H ->. induction p as [|x p IH]; simpl in H.
  - inversion H as [|? ? _ Ha]; subst. rewrite Forall_forall in Ha. apply (Ha b).
    apply in_or_app. right. left. reflexivity.
  - inversion H; subst. auto.
Qed.

(* whatever their names, a creator placed before another one has a smaller or equal line *)
Theorem sort_by_line_order l p q r a b :
  sort_by_line l = (p ++ a :: q ++ b :: r)%list -> fst a <= fst b.
Proof. intros H. exact (sorted_app_order _ p q r a b (sort_by_line_sorted l) H). Qed.

(* the same, read the other way: of two creators of the namespace the one defined on the smaller line
   is loaded first; on the same line, the one that comes first in the namespace *)
Lemma filter_app_order {A} (f : A -> bool) (l : list A) p q r a b :
  l = (p ++ a :: q ++ b :: r)%list -> f a = true -> f b = true ->
  exists p' q' r', filter f l = (p' ++ a :: q' ++ b :: r')%list.
Proof.
  intros -> Ha Hb. rewrite filter_app. simpl. rewrite Ha. rewrite filter_app. simpl. rewrite Hb.
  eexists. eexists. eexists. reflexivity.
Qed.

Lemma app_order_in_filter {A} (f : A -> bool) (l : list A) p q r a b :
  filter f l = (p ++ a :: q ++ b :: r)%list ->
  exists p' q' r', l = (p' ++ a :: q' ++ b :: r')%list.
Proof.
  revert p. induction l as [|x l IH]; simpl; intros p H.
  - destruct p; discriminate.
  - destruct (f x) eqn:E.
    + destruct p as [|y p]; simpl in H.
      * inversion H as [[Hx Hr]].
        assert (Hb : In b (filter f l)) by (rewrite Hr; apply in_or_app; right; left; reflexivity).
        apply filter_In in Hb. destruct Hb as [Hb _]. apply in_split in Hb. destruct Hb as [l1 [l2 Hl]].
        exists [], l1, l2. rewrite Hl. reflexivity.
      * inversion H as [[Hx Hr]]. destruct (IH p Hr) as [p' [q' [r' Hl]]].
        exists (y :: p'), q', r'. rewrite Hl. reflexivity.
    + destruct (IH p H) as [p' [q' [r' Hl]]]. exists (x :: p'), q', r'. rewrite Hl. reflexivity.
Qed.

Theorem sort_by_line_same_line l p q r a b :
  l = (p ++ a :: q ++ b :: r)%list -> fst a = fst b ->
  exists p' q' r', sort_by_line l = (p' ++ a :: q' ++ b :: r')%list.
Proof.
  intros Hl Hab.
  destruct (filter_app_order (on_line (fst a)) l p q r a b Hl) as [p1 [q1 [r1 H1]]].
  - unfold on_line. lia.
  - unfold on_line. lia.
  - rewrite <- sort_by_line_stable in H1. exact (app_order_in_filter _ _ _ _ _ _ _ H1).
Qed.

(* loading a namespace: the task names are those of the creators taken in the order of their
   definition lines *)
Theorem load_namespace_names fmt fn cmds allow ns ts :
  load_namespace fmt fn L2 cmds allow ns = Ok ts ->
  map t_name ts = flat_map (creator_keys allow) (ordered_creators ns).
Proof. unfold load_namespace. apply load_names. Qed.

Theorem load_namespace_total fmt fn cmds allow ns c : load_namespace fmt fn L2 cmds allow ns <> Crash c.
Proof. unfold load_namespace. apply load_total. Qed.

(* ------------------------------------------------------------------ the value a creator gives, before the isinstance tests
   ([pyres], [classify]): nothing that is not a task definition is accepted, whatever its truth value *)
Open Scope string_scope.

(* `s in d` / d.get(s) on a dict given with arbitrary keys *)
Definition has_key (kv : list (val * val)) (s : string) : bool := existsb (fun p => veq (fst p) (VStr s)) kv.
Definition vget (kv : list (val * val)) (s : string) : option val :=
  match find (fun p => veq (fst p) (VStr s)) kv with Some p => Some (snd p) | None => None end.

Definition key_name (k : key) : option string :=
  match k with KName => Some "name" | KBasename => Some "basename" | KAttr a => Some (attr_name a) | KUnknown _ => None end.

Lemma attr_of_string_name a : attr_of_string (attr_name a) = Some a.
Proof. destruct a; reflexivity. Qed.

Lemma attr_of_string_some s a : attr_of_string s = Some a -> s = attr_name a.
Proof.
  unfold attr_of_string. intros H. apply find_some in H. destruct H as [_ H].
  apply String.eqb_eq in H. auto.
Qed.

Lemma attr_eqb_names a b : attr_eqb a b = String.eqb (attr_name a) (attr_name b).
Proof. destruct a, b; reflexivity. Qed.

Lemma veq_nonstr v s : is_str v = false -> veq v (VStr s) = false.
Proof. destruct v; simpl; try discriminate; try reflexivity; intros _; destruct l; reflexivity || destruct kv; reflexivity. Qed.

Lemma key_of_val_eqb v k s : key_name k = Some s -> key_eqb (key_of_val v) k = veq v (VStr s).
Proof.
  intros Hk. destruct (is_str v) eqn:Es.
  2:{ rewrite veq_nonstr; auto. destruct v; try discriminate; destruct k; try discriminate; reflexivity. }
  destruct v as [s0| | | | | | | | | | | | |]; try discriminate. simpl veq. unfold key_of_val.
  destruct (String.eqb s0 "name") eqn:E1.
  { apply String.eqb_eq in E1. subst s0. destruct k as [| |a|n]; simpl in Hk; inversion Hk; subst; try reflexivity.
    destruct a; reflexivity. }
  destruct (String.eqb s0 "basename") eqn:E2.
  { apply String.eqb_eq in E2. subst s0. destruct k as [| |a|n]; simpl in Hk; inversion Hk; subst; try reflexivity.
    destruct a; reflexivity. }
  destruct (attr_of_string s0) as [a'|] eqn:E3.
  { apply attr_of_string_some in E3. subst s0.
    destruct k as [| |a|n]; simpl in Hk; inversion Hk; subst; simpl; auto.
    apply attr_eqb_names. }
  destruct k as [| |a|n]; simpl in Hk; inversion Hk; subst; simpl; auto.
  destruct (String.eqb s0 (attr_name a)) eqn:E4; auto.
  apply String.eqb_eq in E4. subst s0. rewrite attr_of_string_name in E3. discriminate.
Qed.

Lemma dget_tdict_of kv k s : key_name k = Some s -> dget (tdict_of kv) k = vget kv s.
Proof.
  intros Hk. unfold vget. induction kv as [|[k0 v0] r IH]; simpl; auto.
  rewrite (key_of_val_eqb k0 k s Hk). destruct (veq k0 (VStr s)); auto.
Qed.

Lemma dhas_tdict_of kv k s : key_name k = Some s -> dhas (tdict_of kv) k = has_key kv s.
Proof.
  intros Hk. unfold dhas. rewrite (dget_tdict_of kv k s Hk). unfold vget, has_key.
  induction kv as [|[k0 v0] r IH]; simpl; auto. destruct (veq k0 (VStr s)); auto.
Qed.

(* induction over the nested type *)
Fixpoint pyres_rect' (P : pyres -> Type) (Q : list pyres -> Type)
  (hv : forall v, P (PVal v)) (ht : forall nm attrs, P (PTaskObj nm attrs))
  (hg : forall l, Q l -> P (PGen l)) (hn : Q []) (hc : forall r l, P r -> Q l -> Q (r :: l))
  (r : pyres) {struct r} : P r :=
  match r with
  | PVal v => hv v
  | PTaskObj nm attrs => ht nm attrs
  | PGen l => hg l ((fix go (l : list pyres) : Q l :=
                       match l with [] => hn | x :: l' => hc x l' (pyres_rect' P Q hv ht hg hn hc x) (go l') end) l)
  end.

Lemma flat_classify r : flat (classify r) = map classify (pflat r).
Proof.
  apply (pyres_rect' (fun r => flat (classify r) = map classify (pflat r))
                     (fun l => flat_map flat (map classify l) = map classify (flat_map pflat l))).
  - intros v. destruct v; try reflexivity.
  - reflexivity.
  - intros l H. simpl. exact H.
  - reflexivity.
  - intros x l Hx Hl. simpl. rewrite Hx, Hl, map_app. reflexivity.
Qed.

Lemma flat_map_classify l : flat_map flat (map classify l) = map classify (flat_map pflat l).
Proof. induction l as [|x l IH]; simpl; auto. rewrite flat_classify, IH, map_app. reflexivity. Qed.

(* every non-None, non-dict, non-generator, non-Task result is rejected -- the falsy ones [] () '' 0 0.0 False
   exactly like 42 or object() *)
Theorem generate_tasks_py_value_rejected fmt lv func v :
  v <> VNone -> is_dict v = false -> generate_tasks_py fmt lv func (PVal v) = Invalid InvalidTask.
Proof. intros Hn Hd. destruct v; try discriminate; try reflexivity. congruence. Qed.

(* ... only None means "no task"; and a generator that yields nothing gives the (empty) group task *)
Lemma generate_tasks_py_none fmt lv func : generate_tasks_py fmt lv func (PVal VNone) = Ok [].
Proof. reflexivity. Qed.

(* every returned dict without `actions` is rejected: {} included; so is every returned dict with `name` *)
Theorem generate_tasks_py_dict_rejected fmt lv func kv :
  has_key kv "actions" = false \/ has_key kv "name" = true ->
  generate_tasks_py fmt lv func (PVal (VDict kv)) = Invalid InvalidTask.
Proof.
  intros H. unfold generate_tasks_py. simpl. unfold from_return.
  rewrite (dhas_tdict_of kv KName "name" eq_refl).
  destruct (has_key kv "name") eqn:En; [reflexivity|]. simpl.
  destruct H as [H|H]; [|discriminate].
  unfold dict_to_task. rewrite (dhas_tdict_of kv (KAttr AActions) "actions" eq_refl). rewrite H. reflexivity.
Qed.

Lemma has_key_find (kv : list (val * val)) s : existsb (fun p => veq (fst p) (VStr s)) kv = true <-> find (fun p => veq (fst p) (VStr s)) kv <> None.
Proof.
  induction kv as [|[k0 v0] r IH]; simpl.
  - split; intros H; [discriminate | congruence].
  - destruct (veq k0 (VStr s)); simpl; [|exact IH]. split; intros _; [discriminate | reflexivity].
Qed.

(* what an accepted creator result looks like, stated on the Python values themselves *)
Definition yielded_ok (r : pyres) : Prop :=
  match r with
  | PVal (VDict kv) =>
      (has_key kv "actions" = true \/ vget kv "name" = Some VNone) /\        (* actions, unless it is a group definition *)
      (has_key kv "name" = true \/ exists s, vget kv "basename" = Some (VStr s) /\ s <> EmptyString)
  | PVal _ => False                 (* None included: "must yield dictionaries" *)
  | PTaskObj nm _ => is_str nm = true
  | PGen _ => True                  (* flattened: never an element of [pflat] *)
  end.
Definition returned_ok (r : pyres) : Prop :=
  match r with
  | PVal VNone => True
  | PVal (VDict kv) => has_key kv "actions" = true /\ has_key kv "name" = false
  | PVal _ => False
  | PTaskObj nm _ => is_str nm = true
  | PGen l => forall x, In x (flat_map pflat l) -> yielded_ok x
  end.

Lemma yield_accepted_py r : yield_accepted (classify r) -> yielded_ok r.
Proof.
  destruct r as [v|nm attrs|l]; simpl.
  - destruct v; simpl; try tauto.
    intros [_ H]. rewrite (dget_tdict_of kv KName "name" eq_refl) in H.
    unfold has_key at 2. unfold vget in *.
    pose proof (has_key_find kv) as HK.
    destruct (find (fun p => veq (fst p) (VStr "name")) kv) as [p|] eqn:Ef.
    + assert (Hn : existsb (fun p => veq (fst p) (VStr "name")) kv = true) by (apply HK; rewrite Ef; discriminate).
      split; [|left; exact Hn].
      destruct (is_none (snd p)) eqn:En.
      * right. destruct (snd p); try discriminate. reflexivity.
      * left. destruct H as [_ [_ [[F|Ha] _]]]; [discriminate|].
        rewrite (dhas_tdict_of kv (KAttr AActions) "actions" eq_refl) in Ha. exact Ha.
    + destruct H as [[_ [[F|Ha] _]] [s [Hb Hs]]]; [discriminate|].
      rewrite (dhas_tdict_of kv (KAttr AActions) "actions" eq_refl) in Ha.
      rewrite (dget_tdict_of kv KBasename "basename" eq_refl) in Hb. unfold vget in Hb.
      split; [left; exact Ha|]. right. exists s. split; auto.
  - intros [H _]. exact H.
  - tauto.
Qed.

Lemma result_accepted_py r : result_accepted (classify r) -> returned_ok r.
Proof.
  destruct r as [v|nm attrs|l]; simpl.
  - destruct v; simpl; try tauto.
    intros [Hn [[_ [[F|Ha] _]] _]]; [discriminate|].
    rewrite (dhas_tdict_of kv (KAttr AActions) "actions" eq_refl) in Ha.
    rewrite (dhas_tdict_of kv KName "name" eq_refl) in Hn. auto.
  - intros [H _]. exact H.
  - rewrite flat_map_classify. intros H x Hx. rewrite Forall_forall in H.
    apply yield_accepted_py. apply H. apply in_map. exact Hx.
Qed.

(* if generate_tasks accepts what the creator gave, it had that shape (at load time and, for a create_after
   creator, when TaskDispatcher calls it at run time) *)
Theorem generate_tasks_py_accepted fmt func r ts :
  generate_tasks_py fmt L2 func r = Ok ts -> returned_ok r.
Proof. unfold generate_tasks_py. intros H. apply result_accepted_py. eapply generate_tasks_accepted; eauto. Qed.

(* read the other way for what a generator yields: one yielded value -- at any nesting depth, whatever comes before
   or after it -- that is not a dict, a Task or a generator (None, [], 0, '' ...) and the generator is not accepted *)
Theorem generate_tasks_py_yield_rejected fmt func l v ts :
  In (PVal v) (flat_map pflat l) -> is_dict v = false -> generate_tasks_py fmt L2 func (PGen l) <> Ok ts.
Proof.
  intros Hin Hd H. apply generate_tasks_py_accepted in H. simpl in H. specialize (H _ Hin).
  destruct v; simpl in *; try contradiction; discriminate.
Qed.

(* ... and a yielded dict without `actions` (unless it is the group definition `name: None`), or with neither `name`
   nor a non-empty str `basename` *)
Theorem generate_tasks_py_yield_dict_rejected fmt func l kv ts :
  In (PVal (VDict kv)) (flat_map pflat l) ->
  (has_key kv "actions" = false /\ vget kv "name" <> Some VNone) \/
  (has_key kv "name" = false /\ forall s, vget kv "basename" = Some (VStr s) -> s = EmptyString) ->
  generate_tasks_py fmt L2 func (PGen l) <> Ok ts.
Proof.
  intros Hin Hbad H. apply generate_tasks_py_accepted in H. simpl in H. specialize (H _ Hin). simpl in H.
  destruct H as [[Ha|Hn] [Hm|[s [Hb Hs]]]]; destruct Hbad as [[B1 B2]|[B1 B2]]; try congruence.
  all: apply Hs; apply B2; exact Hb.
Qed.

(* the same for a whole namespace: every creator that is called at load time *)
Theorem load_py_accepted fmt fn cmds allow cs ts :
  load_py fmt fn L2 cmds allow cs = Ok ts ->
  forall c, In c cs -> runs allow (creator_of c) = true -> returned_ok (pc_result c).
Proof.
  unfold load_py. intros H c Hc Hr. apply load_accepted in H. destruct H as [_ H].
  apply result_accepted_py. apply (H (creator_of c)); auto. apply in_map. exact Hc.
Qed.

Theorem load_py_total fmt fn cmds allow cs c : load_py fmt fn L2 cmds allow cs <> Crash c.
Proof. unfold load_py. apply load_total. Qed.
