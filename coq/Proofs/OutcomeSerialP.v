(* OutcomeSerialP.v -- SOUNDNESS of the outcome specification (OutcomeSpec.fin) for the runner:
   whenever Runner.select_task / process_task_result give a task its final status and report it,
   the report is the one the specification derives from the task table.  The lemmas about
   select_task and process_result are shared by the serial runner (here: serial_outcome_sound) and
   the parallel runners (OutcomeParP.v). *)
From DoitV Require Import Base Dispatch Runner DispatchP DispatchInv RunnerTr RunnerP AncP OutcomeSpec OutcomeInvP.
Open Scope N_scope.

Section S.
Variable tasks : name -> option task.
Variable wake_rank : name -> name -> N.
Variable calc_rank : name -> N.
Variable continue_ always : bool.

Notation node_of := (node_of tasks).
Notation st_of := (st_of tasks).
Notation get_task := (get_task tasks).
Notation set_status := (set_status tasks).
Notation select_task := (select_task tasks continue_ always).
Notation handle_error := (handle_error tasks continue_).
Notation handle_error_gen := (handle_error_gen tasks continue_).
Notation start_task := (start_task tasks).
Notation process_result := (process_result tasks continue_).
Notation serial := (serial tasks wake_rank calc_rank continue_ always).
Notation RI := (RI tasks).
Notation Pre := (Pre tasks).
Notation final := (final tasks).
Notation handed := (handed tasks).
Notation AInv := (AInv tasks).
Notation OInv := (OInv tasks).
Notation vcalc := (vcalc tasks).
Notation vdep := (vdep tasks).
Notation fin := (fin tasks always).
Notation first := (first tasks always).
Notation second := (second tasks).

(* the link between the run and the specification: [a] = the outcomes of the finished tasks *)
Definition SIa (a : name -> fres) (d : dstate) (tr : list event) : Prop :=
  (forall x, final d x -> fin x (a x) /\ st_of d x = fres_status (a x)) /\
  (forall x e, In e tr -> is_final_ev x e = true -> e = ev_of x (a x)) /\
  (forall x, st_of d x = SRun -> (forall y, vdep (sta a) x y -> final d y) /\ first (sta a) x PRun).
Definition SI (d : dstate) (tr : list event) : Prop := exists a, SIa a d tr.

Lemma SI_init sel : SI (disp_init sel) [].
Proof.
  exists (fun _ => FIgnore). split; [|split].
  - intros x Hx. unfold DispatchInv.final in Hx. simpl in Hx. discriminate.
  - intros x e [].
  - intros x Hx. simpl in Hx. discriminate.
Qed.

Lemma SIa_same a d d' tr : (forall x, st_of d' x = st_of d x) -> SIa a d tr -> SIa a d' tr.
Proof.
  intros E (S1 & S2 & S3). unfold SIa, DispatchInv.final in *. split; [|split]; auto.
  - intros x. rewrite E. apply S1.
  - intros x. rewrite E. intros Hx. destruct (S3 x Hx) as [A B]. split; auto. intros y Hy. rewrite E. auto.
Qed.
Lemma SI_same d d' tr : (forall x, st_of d' x = st_of d x) -> SI d tr -> SI d' tr.
Proof. intros E [a H]. exists a. eapply SIa_same; eauto. Qed.

Lemma SIa_emit a d tr evs : SIa a d tr -> (forall e x, In e evs -> is_final_ev x e = false) -> SIa a d (tr ++ evs).
Proof.
  intros (S1 & S2 & S3) Hn. split; [|split]; auto.
  intros x e Hin Hf. apply in_app_iff in Hin. destruct Hin as [Hin|Hin]; auto. rewrite (Hn e x Hin) in Hf. discriminate.
Qed.
Lemma SI_emit d tr evs : SI d tr -> (forall e x, In e evs -> is_final_ev x e = false) -> SI d (tr ++ evs).
Proof. intros [a H] Hn. exists a. apply SIa_emit; auto. Qed.

(* the effective dependencies only depend on the statuses of the effective dependencies *)
Lemma vdep_same st1 st2 k :
  (forall y, vdep st1 k y -> st2 y = st1 y) ->
  (forall y, vdep st1 k y -> vdep st2 k y) /\ (forall y, vdep st2 k y -> vdep st1 k y).
Proof.
  intros E. split.
  - apply vdep_agree. intros c H1 _. symmetry. apply E. apply vd_calc. exact H1.
  - apply vdep_agree. intros c _ H1. apply E. apply vd_calc. exact H1.
Qed.

Lemma first_same st1 st2 k p :
  (forall y, vdep st1 k y -> st2 y = st1 y) -> first st1 k p -> first st2 k p.
Proof.
  intros E H. destruct (vdep_same st1 st2 k E) as [A B].
  eapply first_ext; [exact A|exact B| |exact H]. intros x Hx. symmetry. apply E. exact Hx.
Qed.

Lemma first_run_good st k : first st k PRun -> forall x, vdep st k x -> is_goodst (st x) = true.
Proof. intros H. inversion H; subst. assumption. Qed.

Lemma sta_upd a k r y : y <> k -> sta (upd a k r) y = sta a y.
Proof. intros H. unfold sta. rewrite upd_other by auto. reflexivity. Qed.

(* task k gets its final status and report *)
Lemma SIa_final a d tr d' k r evs :
  SIa a d tr -> (forall x, finished_in tr x -> final d x) -> unfinished (st_of d k) = true ->
  fin k r -> st_of d' k = fres_status r -> (forall z, z <> k -> st_of d' z = st_of d z) ->
  (forall e x, In e evs -> is_final_ev x e = true -> x = k /\ e = ev_of k r) ->
  SIa (upd a k r) d' (tr ++ evs).
Proof.
  intros (S1 & S2 & S3) L Hu Hf Hk Ho Hev.
  assert (Hne : forall x, final d x -> x <> k) by (intros x Hx ->; unfold DispatchInv.final in Hx; congruence).
  split; [|split].
  - intros x Hx. destruct (N.eqb_spec x k) as [->|Hn].
    + rewrite upd_same. split; auto.
    + rewrite upd_other by auto. unfold DispatchInv.final in *. rewrite Ho in * by auto. apply S1. exact Hx.
  - intros x e Hin He. apply in_app_iff in Hin. destruct Hin as [Hin|Hin].
    + assert (Hx : x <> k) by (apply Hne; apply L; apply finished_in_In; eauto).
      rewrite upd_other by auto. apply S2; auto.
    + destruct (Hev e x Hin He) as [-> ->]. rewrite upd_same. reflexivity.
  - intros x Hx. assert (Hxk : x <> k).
    { intros ->. rewrite Hk in Hx. pose proof (fres_status_final r) as F. rewrite Hx in F. discriminate. }
    rewrite Ho in Hx by auto. destruct (S3 x Hx) as [A B].
    assert (E : forall y, vdep (sta a) x y -> sta (upd a k r) y = sta a y).
    { intros y Hy. apply sta_upd. apply Hne. apply A. exact Hy. }
    destruct (vdep_same _ _ x E) as [V1 V2]. split.
    + intros y Hy. pose proof (A y (V2 y Hy)) as Fy. unfold DispatchInv.final in *. rewrite Ho; auto.
    + eapply first_same; eauto.
Qed.

(* task k is given run_status 'run' *)
Lemma SIa_run a d tr d' k evs :
  SIa a d tr -> unfinished (st_of d k) = true -> st_of d' k = SRun -> (forall z, z <> k -> st_of d' z = st_of d z) ->
  (forall y, vdep (sta a) k y -> final d y) -> first (sta a) k PRun ->
  (forall e x, In e evs -> is_final_ev x e = false) ->
  SIa a d' (tr ++ evs).
Proof.
  intros (S1 & S2 & S3) Hu Hk Ho Hd Hf Hn.
  assert (Hne : forall x, final d x -> x <> k) by (intros x Hx ->; unfold DispatchInv.final in Hx; congruence).
  assert (Hfin : forall y, final d y -> final d' y).
  { intros y Hy. unfold DispatchInv.final in *. rewrite Ho; auto. }
  split; [|split].
  - intros x Hx. assert (Hxk : x <> k) by (intros ->; unfold DispatchInv.final in Hx; rewrite Hk in Hx; discriminate).
    unfold DispatchInv.final in *. rewrite Ho in * by auto. apply S1. exact Hx.
  - intros x e Hin He. apply in_app_iff in Hin. destruct Hin as [Hin|Hin]; auto. rewrite (Hn e x Hin) in He. discriminate.
  - intros x Hx. destruct (N.eqb_spec x k) as [->|Hxk].
    + split; auto.
    + rewrite Ho in Hx by auto. destruct (S3 x Hx) as [A B]. split; auto.
Qed.

(* ---------- what the node of a handed-over task says about its effective dependencies ---------- *)
Lemma final_good s : unfinished s = false -> s <> SIgnore -> is_failst s = false -> is_goodst s = true.
Proof. destruct s; simpl; intros A B C; auto; try discriminate; congruence. Qed.

Section Handed.
Variable d : dstate.
Variable tr : list event.
Variable k : name.
Hypothesis HR : RI d tr.
Hypothesis HK : handed d k.
Hypothesis HO : OInv d.

Let nd := node_of d k.
Let S := st_of d.

Lemma h_vcalc_in c : vcalc S k c -> In c (n_all_calc nd).
Proof.
  intros Hc. induction Hc as [c Hc|c c' Hc IH V Hc'].
  - destruct (ri_static _ _ _ HR k) as [_ B]. apply B. exact Hc.
  - destruct (h_mrg _ _ _ HK c IH) as (_ & M). destruct (M V) as (_ & _ & M3). apply M3. exact Hc'.
Qed.

Lemma h_vdep_in y : vdep S k y -> In y (n_all_task nd ++ n_all_calc nd).
Proof.
  intros [H|H|c H V Hin]; apply in_app_iff.
  - left. destruct (ri_static _ _ _ HR k) as [A _]. apply A. exact H.
  - right. apply h_vcalc_in. exact H.
  - left. destruct (h_mrg _ _ _ HK c (h_vcalc_in c H)) as (_ & M). destruct (M V) as (M1 & M2 & _).
    unfold OutcomeSpec.new_tasks in Hin. apply in_app_iff in Hin. destruct Hin as [Hin|Hin]; [apply M1|apply M2]; exact Hin.
Qed.

Lemma h_in_vdep y : In y (n_all_task nd ++ n_all_calc nd) -> vdep S k y.
Proof.
  intros Hy. pose proof (onode_of tasks d k HO) as [_ _ C D]. apply in_app_iff in Hy. destruct Hy as [Hy|Hy].
  - destruct (D y Hy) as [H|(c & H & V & Hin)]; [apply vd_task; exact H|eapply vd_dyn; eauto].
  - apply vd_calc. apply C. exact Hy.
Qed.

Lemma h_vdep_final y : vdep S k y -> final d y.
Proof. intros Hy. apply (h_deps _ _ _ HK). apply h_vdep_in. exact Hy. Qed.

Lemma h_vdep_recd y : vdep S k y -> recd tasks d nd y.
Proof. intros Hy. apply (h_rec _ _ _ HK). apply h_vdep_in. exact Hy. Qed.

(* the outcome assignment of the invariant agrees with the statuses on the effective dependencies *)
Variable a : name -> fres.
Hypothesis HS : SIa a d tr.

Lemma h_sta_final y : final d y -> sta a y = S y.
Proof. intros Hy. destruct HS as (S1 & _). destruct (S1 y Hy) as [_ E]. unfold sta, S. rewrite E. reflexivity. Qed.

Lemma h_sta_vdep : (forall y, vdep S k y -> vdep (sta a) k y) /\ (forall y, vdep (sta a) k y -> vdep S k y).
Proof. apply vdep_same. intros y Hy. apply h_sta_final. apply h_vdep_final. exact Hy. Qed.

Lemma h_deps_fin : forall x, vdep (sta a) k x -> fin x (a x).
Proof. intros x Hx. destruct HS as (S1 & _). apply S1. apply h_vdep_final. apply (proj2 h_sta_vdep). exact Hx. Qed.

Lemma hh_first p : first S k p -> first (sta a) k p.
Proof. apply first_same. intros y Hy. apply h_sta_final. apply h_vdep_final. exact Hy. Qed.

(* first selection: the generator has not reached the setup phase *)
Hypothesis Hpc : n_pc nd = PAfterSelf.

Lemma h_isdep_in x : isdep tasks nd k x -> In x (n_all_task nd ++ n_all_calc nd).
Proof.
  intros [H|[H|[_ H]]]; [apply in_app_iff; auto|apply in_app_iff; auto|]. rewrite Hpc in H. discriminate.
Qed.

Lemma h_ign_iff : n_ign nd <> [] <-> exists x, vdep S k x /\ S x = SIgnore.
Proof.
  pose proof (onode_of tasks d k HO) as [_ B _ _]. split.
  - intros Hn. destruct (n_ign nd) as [|x l] eqn:E; [contradiction|].
    destruct (B x) as [Hs Hd]; [fold nd; rewrite E; left; reflexivity|].
    exists x. split; auto. apply h_in_vdep. apply h_isdep_in. exact Hd.
  - intros (x & Hx & Hs) E. destruct (h_vdep_recd x Hx) as (_ & _ & I). specialize (I Hs). rewrite E in I. destruct I.
Qed.

Lemma h_bad_iff : n_bad nd <> [] <-> exists x, vdep S k x /\ is_failst (S x) = true.
Proof.
  pose proof (onode_of tasks d k HO) as [A _ _ _]. split.
  - intros Hn. destruct (n_bad nd) as [|x l] eqn:E; [contradiction|].
    destruct (A x) as [Hs Hd]; [fold nd; rewrite E; left; reflexivity|].
    exists x. split; auto. apply h_in_vdep. apply h_isdep_in. exact Hd.
  - intros (x & Hx & Hs) E. destruct (h_vdep_recd x Hx) as (_ & I & _). specialize (I Hs). rewrite E in I. destruct I.
Qed.

Lemma h_all_good : n_ign nd = [] -> n_bad nd = [] -> forall x, vdep S k x -> is_goodst (S x) = true.
Proof.
  intros Ei Eb x Hx. apply final_good.
  - apply (h_vdep_final x Hx).
  - intros Hs. apply (proj2 h_ign_iff); [exists x; auto|exact Ei].
  - destruct (is_failst (S x)) eqn:F; auto. exfalso. apply (proj2 h_bad_iff); [exists x; auto|exact Eb].
Qed.
End Handed.

(* second selection of a task with setup-tasks *)
Section Second.
Variable d : dstate.
Variable tr : list event.
Variable k : name.
Hypothesis HR : RI d tr.
Hypothesis HK : handed d k.
Hypothesis HO : OInv d.
Hypothesis Hpc : n_pc (node_of d k) = PDone.
Variable a : name -> fres.
Hypothesis HS : SIa a d tr.

Let nd := node_of d k.
Let S := st_of d.

Lemma s_run : st_of d k = SRun.
Proof. apply (h_srun _ _ _ HK Hpc). Qed.

Lemma s_setup_final x : In x (t_setup (get_task k)) -> final d x.
Proof. apply (h_setup _ _ _ HK Hpc). Qed.

Lemma s_setup_sta x : In x (t_setup (get_task k)) -> sta a x = S x.
Proof. intros Hx. eapply h_sta_final; eauto. apply s_setup_final. exact Hx. Qed.

(* a recorded dependency that is not good is a setup-task: the others were all good at the first selection *)
Lemma s_isdep_setup x : isdep tasks nd k x -> is_goodst (S x) = false -> In x (t_setup (get_task k)).
Proof.
  intros Hd Hb. destruct HS as (S1 & S2 & S3). destruct (S3 k s_run) as [A B].
  destruct Hd as [H|[H|[H _]]]; auto; exfalso.
  - assert (V : vdep S k x) by (apply (h_in_vdep d k HO); apply in_app_iff; auto).
    assert (Fx : final d x) by (apply (h_deps _ _ _ HK); apply in_app_iff; auto).
    assert (V' : vdep (sta a) k x).
    { destruct (vdep_same (sta a) S k) as [_ V2]; [|apply V2; exact V].
      intros y Hy. symmetry. eapply h_sta_final; eauto. }
    pose proof (first_run_good _ _ B x V') as G. rewrite (h_sta_final d tr a HS x Fx) in G. fold S in G. congruence.
  - assert (V : vdep S k x) by (apply (h_in_vdep d k HO); apply in_app_iff; auto).
    assert (Fx : final d x) by (apply (h_deps _ _ _ HK); apply in_app_iff; auto).
    assert (V' : vdep (sta a) k x).
    { destruct (vdep_same (sta a) S k) as [_ V2]; [|apply V2; exact V].
      intros y Hy. symmetry. eapply h_sta_final; eauto. }
    pose proof (first_run_good _ _ B x V') as G. rewrite (h_sta_final d tr a HS x Fx) in G. fold S in G. congruence.
Qed.

Lemma s_ign_iff : n_ign nd <> [] <-> exists x, In x (t_setup (get_task k)) /\ sta a x = SIgnore.
Proof.
  pose proof (onode_of tasks d k HO) as [_ B _ _]. split.
  - intros Hn. destruct (n_ign nd) as [|x l] eqn:E; [contradiction|].
    destruct (B x) as [Hs Hd]; [fold nd; rewrite E; left; reflexivity|].
    assert (Hx : In x (t_setup (get_task k))) by (apply s_isdep_setup; auto; fold S in Hs; rewrite Hs; reflexivity).
    exists x. split; auto. rewrite (s_setup_sta x Hx). exact Hs.
  - intros (x & Hx & Hs) E. rewrite (s_setup_sta x Hx) in Hs.
    destruct (h_srec _ _ _ HK Hpc x Hx) as (_ & _ & I). specialize (I Hs). fold nd in I. rewrite E in I. destruct I.
Qed.

Lemma s_bad_iff : n_bad nd <> [] <-> exists x, In x (t_setup (get_task k)) /\ is_failst (sta a x) = true.
Proof.
  pose proof (onode_of tasks d k HO) as [A _ _ _]. split.
  - intros Hn. destruct (n_bad nd) as [|x l] eqn:E; [contradiction|].
    destruct (A x) as [Hs Hd]; [fold nd; rewrite E; left; reflexivity|].
    assert (Hx : In x (t_setup (get_task k))).
    { apply s_isdep_setup; auto. fold S in Hs. destruct (S x); simpl in *; auto; discriminate. }
    exists x. split; auto. rewrite (s_setup_sta x Hx). exact Hs.
  - intros (x & Hx & Hs) E. rewrite (s_setup_sta x Hx) in Hs.
    destruct (h_srec _ _ _ HK Hpc x Hx) as (_ & I & _). specialize (I Hs). fold nd in I. rewrite E in I. destruct I.
Qed.

Lemma s_all_good : n_ign nd = [] -> n_bad nd = [] -> forall x, In x (t_setup (get_task k)) -> is_goodst (sta a x) = true.
Proof.
  intros Ei Eb x Hx. apply final_good.
  - rewrite (s_setup_sta x Hx). apply (s_setup_final x Hx).
  - intros Hs. apply (proj2 s_ign_iff); [exists x; auto|exact Ei].
  - destruct (is_failst (sta a x)) eqn:F; auto. exfalso. apply (proj2 s_bad_iff); [exists x; auto|exact Eb].
Qed.

Lemma s_deps_fin : (forall x, vdep (sta a) k x -> fin x (a x)) /\ first (sta a) k PRun /\
                   (forall x, In x (t_setup (get_task k)) -> fin x (a x)).
Proof.
  destruct HS as (S1 & S2 & S3). destruct (S3 k s_run) as [A B]. split; [|split; auto].
  - intros x Hx. apply S1. apply A. exact Hx.
  - intros x Hx. apply S1. apply s_setup_final. exact Hx.
Qed.
End Second.


(* ---------- Runner.select_task ---------- *)
Lemma ev_of_final_inv x k r : is_final_ev x (ev_of k r) = true -> x = k.
Proof. destruct r; simpl; intros H; apply N.eqb_eq in H; exact H. Qed.

Lemma is_nil_false' {A} (l : list A) : is_nil l = false -> l <> [].
Proof. destruct l; simpl; [discriminate|intros _ H; discriminate]. Qed.

Ltac evs_tac :=
  let e := fresh "e" in let x := fresh "x" in let Hin := fresh "Hin" in let Hf := fresh "Hf" in
  intros e x Hin Hf; simpl in Hin;
  repeat (destruct Hin as [<-|Hin]; [simpl in Hf; try discriminate; apply N.eqb_eq in Hf; subst; split; reflexivity|]);
  destruct Hin.
Ltac st_k := rewrite ?set_status_st, ?N.eqb_refl; reflexivity.
Ltac st_other :=
  let z := fresh "z" in let Hz := fresh "Hz" in
  intros z Hz; apply N.eqb_neq in Hz; rewrite ?set_status_st, ?Hz; reflexivity.

Lemma select_task_SI r k b r1 :
  RI (r_d r) (r_tr r) -> handed (r_d r) k -> OInv (r_d r) -> SI (r_d r) (r_tr r) ->
  select_task r k = (b, r1) ->
  SI (r_d r1) (r_tr r1) /\ (b = true -> t_argerr (get_task k) = false).
Proof.
  intros HR HK HO [a HS] Hs. unfold Runner.select_task in Hs.
  set (d := r_d r) in *. set (nd := node_of d k) in *. set (S := st_of d).
  pose proof (handed_unfinished _ _ _ HK) as Hun.
  assert (L : forall x, finished_in (r_tr r) x -> final d x) by (apply (ri_link2 _ _ _ HR)).
  (* k ends with outcome res *)
  assert (Hfinal : forall res d' tr' evs, fin k res -> st_of d' k = fres_status res ->
            (forall z, z <> k -> st_of d' z = st_of d z) -> tr' = r_tr r ++ evs ->
            (forall e x, In e evs -> is_final_ev x e = true -> x = k /\ e = ev_of k res) -> SI d' tr').
  { intros res d' tr' evs Hf Hk Ho -> Hev. exists (upd a k res). eapply SIa_final; eauto. }
  (* k is given status `run` *)
  assert (Hrunning : forall d' tr' evs, (forall y, vdep (sta a) k y -> final d y) -> first (sta a) k PRun ->
            st_of d' k = SRun -> (forall z, z <> k -> st_of d' z = st_of d z) -> tr' = r_tr r ++ evs ->
            (forall e x, In e evs -> is_final_ev x e = false) -> SI d' tr').
  { intros d' tr' evs Hd Hf Hk Ho -> Hev. exists a. eapply SIa_run; eauto. }
  (* ---- second selection of a task with setup-tasks ---- *)
  assert (Hlater : n_st nd <> SNone ->
     (if negb (is_nil (n_ign nd))
      then (false, emit (with_d r (set_status (r_d r) k SIgnore)) [ESkipIgnore k])
      else if negb (is_nil (n_bad nd)) then (false, handle_error r k kind_unmet)
      else get_args tasks continue_ r k) = (b, r1) ->
     SI (r_d r1) (r_tr r1) /\ (b = true -> t_argerr (get_task k) = false)).
  { intros Hst Hq.
    assert (Hpc : n_pc nd = PDone).
    { destruct (h_pc _ _ _ HK) as [E|E]; auto. exfalso. apply Hst. apply (h_first _ _ _ HK E). }
    destruct (s_deps_fin d (r_tr r) k HK Hpc a HS) as (Hdeps & Hfirst & Hsetup).
    pose proof (s_ign_iff d (r_tr r) k HK HO Hpc a HS) as Hign.
    pose proof (s_bad_iff d (r_tr r) k HK HO Hpc a HS) as Hbad.
    destruct (is_nil (n_ign nd)) eqn:Ei; cbn [negb] in Hq.
    2:{ inversion Hq; subst. split; [|discriminate]. simpl.
        apply (Hfinal FIgnore _ _ [ESkipIgnore k]); [| st_k | st_other | reflexivity | evs_tac].
        eapply fin_exec; [exact Hdeps|exact Hfirst|exact Hsetup|]. apply s_ignore.
        apply (proj1 Hign). apply is_nil_false'. exact Ei. }
    apply is_nil_true in Ei.
    assert (Hnoign : forall x, In x (t_setup (get_task k)) -> sta a x <> SIgnore).
    { intros x Hx Hsx. apply (proj2 Hign); [exists x; auto|exact Ei]. }
    destruct (is_nil (n_bad nd)) eqn:Eb; cbn [negb] in Hq.
    2:{ inversion Hq; subst. split; [|discriminate]. unfold Runner.handle_error, Runner.handle_error_gen. simpl.
        apply (Hfinal (FFail false kind_unmet) _ _ [ERemove k; EFailure k kind_unmet]); [| st_k | st_other | reflexivity | evs_tac].
        eapply fin_exec; [exact Hdeps|exact Hfirst|exact Hsetup|]. apply s_unmet; auto.
        apply (proj1 Hbad). apply is_nil_false'. exact Eb. }
    apply is_nil_true in Eb.
    pose proof (s_all_good d (r_tr r) k HK HO Hpc a HS Ei Eb) as Hgood.
    unfold Runner.get_args in Hq. destruct (t_argerr (get_task k)) eqn:Earg.
    - inversion Hq; subst. split; [|discriminate]. unfold Runner.handle_error, Runner.handle_error_gen. simpl.
      apply (Hfinal (FFail false kind_dep) _ _ [ERemove k; EFailure k kind_dep]); [| st_k | st_other | reflexivity | evs_tac].
      eapply fin_exec; [exact Hdeps|exact Hfirst|exact Hsetup|]. apply s_exec; auto.
      unfold exec_res. rewrite Earg. reflexivity.
    - inversion Hq; subst. split; [|reflexivity]. exists a. exact HS. }
  destruct (n_st nd) eqn:Est.
  - (* ---- first selection ---- *)
    assert (Hpc : n_pc nd = PAfterSelf).
    { destruct (h_pc _ _ _ HK) as [E|E]; auto. pose proof (h_srun _ _ _ HK E) as E'. unfold Dispatch.st_of in E'.
      fold d nd in E'. congruence. }
    assert (Hdeps : forall x, vdep (sta a) k x -> fin x (a x)) by (eapply h_deps_fin; eauto).
    assert (Hskip : forall p res, first S k p -> skip_res p = Some res -> fin k res).
    { intros p res Hp Hres. eapply fin_skip; [exact Hdeps| |exact Hres]. eapply hh_first; eauto. }
    destruct (is_nil (n_ign nd)) eqn:Ei; cbn [negb orb] in Hs.
    2:{ inversion Hs; subst. split; [|discriminate]. simpl.
        apply (Hfinal FIgnore _ _ [EGetStatus k; ESkipIgnore k]); [| st_k | st_other | rewrite <- app_assoc; reflexivity | evs_tac].
        apply (Hskip PIgnore); [|reflexivity]. apply f_ignore. left.
        apply (proj1 (h_ign_iff d (r_tr r) k HR HK HO Hpc)). apply is_nil_false'. exact Ei. }
    apply is_nil_true in Ei.
    assert (Hnoign : forall x, vdep S k x -> S x <> SIgnore).
    { intros x Hx Hsx. apply (proj2 (h_ign_iff d (r_tr r) k HR HK HO Hpc)); [exists x; auto|exact Ei]. }
    destruct (t_dbignore (get_task k)) eqn:Edb.
    { inversion Hs; subst. split; [|discriminate]. simpl.
      apply (Hfinal FIgnore _ _ [EGetStatus k; ESkipIgnore k]); [| st_k | st_other | rewrite <- app_assoc; reflexivity | evs_tac].
      apply (Hskip PIgnore); [|reflexivity]. apply f_ignore. right. exact Edb. }
    destruct (is_nil (n_bad nd)) eqn:Eb; cbn [negb] in Hs.
    2:{ inversion Hs; subst. split; [|discriminate]. unfold Runner.handle_error, Runner.handle_error_gen. simpl.
        apply (Hfinal (FFail false kind_unmet) _ _ [EGetStatus k; ERemove k; EFailure k kind_unmet]);
          [| st_k | st_other | rewrite <- app_assoc; reflexivity | evs_tac].
        apply (Hskip PUnmet); [|reflexivity]. apply f_unmet; auto.
        apply (proj1 (h_bad_iff d (r_tr r) k HR HK HO Hpc)). apply is_nil_false'. exact Eb. }
    apply is_nil_true in Eb.
    assert (Hgood : forall x, vdep S k x -> is_goodst (S x) = true) by (eapply h_all_good; eauto).
    assert (Hdfin : forall y, vdep (sta a) k y -> final d y).
    { intros y Hy. eapply h_vdep_final; eauto. apply (proj2 (h_sta_vdep d (r_tr r) k HR HK a HS)). exact Hy. }
    (* the `run` branch *)
    assert (Hrun : t_check (get_task k) = CkRun \/ (t_check (get_task k) = CkUpToDate /\ always = true) ->
       (if is_nil (t_setup (get_task k))
        then get_args tasks continue_ (with_d (emit r [EGetStatus k]) (set_status (r_d (emit r [EGetStatus k])) k SRun)) k
        else (false, with_d (emit r [EGetStatus k]) (set_status (r_d (emit r [EGetStatus k])) k SRun))) = (b, r1) ->
       SI (r_d r1) (r_tr r1) /\ (b = true -> t_argerr (get_task k) = false)).
    { intros Hck Hq.
      assert (Hfirst : first (sta a) k PRun) by (eapply hh_first; eauto; apply f_run; auto).
      destruct (is_nil (t_setup (get_task k))) eqn:Esetup.
      - apply is_nil_true in Esetup. unfold Runner.get_args in Hq. destruct (t_argerr (get_task k)) eqn:Earg.
        + inversion Hq; subst. split; [|discriminate]. unfold Runner.handle_error, Runner.handle_error_gen. simpl.
          apply (Hfinal (FFail false kind_dep) _ _ [EGetStatus k; ERemove k; EFailure k kind_dep]);
            [| st_k | st_other | rewrite <- app_assoc; reflexivity | evs_tac].
          eapply fin_exec; [exact Hdeps|exact Hfirst| |].
          * rewrite Esetup. intros x [].
          * apply s_exec; [rewrite Esetup; intros x []|]. unfold exec_res. rewrite Earg. reflexivity.
        + inversion Hq; subst. split; [|reflexivity]. simpl.
          apply (Hrunning _ _ [EGetStatus k]); auto; [st_k|st_other|]. intros e x [<-|[]]. reflexivity.
      - inversion Hq; subst. split; [|discriminate]. simpl.
        apply (Hrunning _ _ [EGetStatus k]); auto; [st_k|st_other|]. intros e x [<-|[]]. reflexivity. }
    destruct (t_check (get_task k)) eqn:Eck.
    + destruct always; apply Hrun; auto.
    + destruct always eqn:Eal; [apply Hrun; auto|]. cbv beta iota zeta in Hs. inversion Hs; subst. split; [|discriminate]. simpl.
      apply (Hfinal FUpToDate _ _ [EGetStatus k; ESkipUpToDate k]); [| st_k | st_other | rewrite <- app_assoc; reflexivity | evs_tac].
      apply (Hskip PUpToDate); [|reflexivity]. apply f_uptodate; auto.
    + inversion Hs; subst. split; [|discriminate]. unfold Runner.handle_error, Runner.handle_error_gen. simpl.
      apply (Hfinal (FFail false kind_dep) _ _ [EGetStatus k; ERemove k; EFailure k kind_dep]);
        [| st_k | st_other | rewrite <- app_assoc; reflexivity | evs_tac].
      apply (Hskip PCkErr); [|reflexivity]. apply f_ckerr; auto.
  - apply Hlater; [discriminate|exact Hs].
  - apply Hlater; [discriminate|exact Hs].
  - apply Hlater; [discriminate|exact Hs].
  - apply Hlater; [discriminate|exact Hs].
  - apply Hlater; [discriminate|exact Hs].
  - apply Hlater; [discriminate|exact Hs].
Qed.


(* select_task only changes the status field of the node of k *)
Lemma node_st_eta nd : nd_st nd (n_st nd) = nd.
Proof. destruct nd; reflexivity. Qed.

Lemma select_task_nodes r k b r1 :
  select_task r k = (b, r1) ->
  forall z, node_of (r_d r1) z = if N.eqb z k then nd_st (node_of (r_d r) k) (st_of (r_d r1) k) else node_of (r_d r) z.
Proof.
  intros E.
  apply (select_task_pres tasks continue_ always
           (fun r0 => forall z, node_of (r_d r0) z = if N.eqb z k then nd_st (node_of (r_d r) k) (st_of (r_d r0) k) else node_of (r_d r) z) k)
    with (r := r) (b := b); auto.
  - intros r0 s H z. simpl. unfold Runner.set_status. destruct (N.eqb_spec z k) as [->|Hne].
    + rewrite node_of_set_same. unfold Dispatch.st_of. rewrite node_of_set_same. simpl.
      rewrite (H k), N.eqb_refl. reflexivity.
    + rewrite node_of_set_other by auto. rewrite (H z). apply N.eqb_neq in Hne. rewrite Hne. reflexivity.
  - intros r0 kd H z. unfold Runner.handle_error, Runner.handle_error_gen. simpl. unfold Runner.set_status.
    destruct (N.eqb_spec z k) as [->|Hne].
    + rewrite node_of_set_same. unfold Dispatch.st_of. rewrite node_of_set_same. simpl.
      rewrite (H k), N.eqb_refl. reflexivity.
    + rewrite node_of_set_other by auto. rewrite (H z). apply N.eqb_neq in Hne. rewrite Hne. reflexivity.
  - intros z. destruct (N.eqb_spec z k) as [->|Hne]; auto. unfold Dispatch.st_of. rewrite node_st_eta. reflexivity.
Qed.

Lemma select_task_O r k b r1 :
  OInv (r_d r) -> unfinished (st_of (r_d r) k) = true -> select_task r k = (b, r1) -> OInv (r_d r1).
Proof. intros H Hu E. eapply OInv_status_gen; eauto. apply (select_task_nodes r k b r1 E). Qed.

Lemma process_result_O r k :
  OInv (r_d r) -> unfinished (st_of (r_d r) k) = true -> OInv (r_d (process_result r k)).
Proof.
  intros H Hu. unfold Runner.process_result, Runner.handle_error, Runner.handle_error_gen.
  destruct (t_outcome (get_task k)); simpl; auto; apply OInv_status; auto.
Qed.

(* ---------- Runner.process_task_result ---------- *)
Lemma good_in_status d tr x : RI d tr -> good_in tr x -> final d x /\ is_goodst (st_of d x) = true.
Proof.
  intros HR (e & Hin & Hf & Hg). split.
  - apply (ri_link2 _ _ _ HR). apply finished_in_In. eauto.
  - pose proof (ri_match _ _ _ HR x e Hin Hf) as M.
    destruct e; simpl in Hg; try discriminate; destruct (st_of d x); simpl in *; auto; discriminate.
Qed.

Lemma process_result_SI r k :
  RI (r_d r) (r_tr r) -> SI (r_d r) (r_tr r) -> st_of (r_d r) k = SRun -> t_argerr (get_task k) = false ->
  (forall x, In x (t_setup (get_task k)) -> final (r_d r) x /\ is_goodst (st_of (r_d r) x) = true) ->
  SI (r_d (process_result r k)) (r_tr (process_result r k)).
Proof.
  intros HR [a HS] Hst Harg Hset. set (d := r_d r) in *.
  pose proof HS as (S1 & S2 & S3). destruct (S3 k Hst) as [A B].
  assert (Hun : unfinished (st_of d k) = true) by (rewrite Hst; reflexivity).
  assert (L : forall x, finished_in (r_tr r) x -> final d x) by (apply (ri_link2 _ _ _ HR)).
  assert (Hfin : forall res, exec_res (get_task k) = Some res -> fin k res).
  { intros res Hres. eapply fin_exec; [| exact B | |].
    - intros x Hx. apply S1. apply A. exact Hx.
    - intros x Hx. apply S1. apply (Hset x Hx).
    - apply s_exec; auto. intros x Hx. destruct (Hset x Hx) as [F G]. rewrite (h_sta_final d (r_tr r) a HS x F). exact G. }
  assert (Hfinal : forall res d' tr' evs, fin k res -> st_of d' k = fres_status res ->
            (forall z, z <> k -> st_of d' z = st_of d z) -> tr' = r_tr r ++ evs ->
            (forall e x, In e evs -> is_final_ev x e = true -> x = k /\ e = ev_of k res) -> SI d' tr').
  { intros res d' tr' evs Hf Hk Ho -> Hev. exists (upd a k res). eapply SIa_final; eauto. }
  unfold Runner.process_result, Runner.handle_error, Runner.handle_error_gen, exec_res in *. rewrite Harg in Hfin.
  destruct (t_outcome (get_task k)); simpl.
  - apply (Hfinal FSuccess _ _ [ESave k; ESuccess k]); [apply Hfin; reflexivity| st_k | st_other | reflexivity | evs_tac].
  - apply (Hfinal (FFail false kind_failed) _ _ [ERemove k; EFailure k kind_failed]); [apply Hfin; reflexivity| st_k | st_other | reflexivity | evs_tac].
  - apply (Hfinal (FFail false kind_error) _ _ [ERemove k; EFailure k kind_error]); [apply Hfin; reflexivity| st_k | st_other | reflexivity | evs_tac].
  - apply (Hfinal (FFail true kind_dep) _ _ [ERemove k; EFailure k kind_dep]); [apply Hfin; reflexivity| st_k | st_other | reflexivity | evs_tac].
  - exists a. exact HS.
  - apply (Hfinal (FFail true kind_failed) _ _ [ERemove k; EFailure k kind_failed]); [apply Hfin; reflexivity| st_k | st_other | reflexivity | evs_tac].
Qed.

Lemma SI_finish r : SI (r_d r) (r_tr r) -> SI (r_d (finish r)) (r_tr (finish r)).
Proof.
  intros H. unfold finish, emit. simpl. apply SI_emit; auto.
  intros e x [<-|Hin]; [reflexivity|]. apply in_map_iff in Hin. destruct Hin as (z & <- & _). reflexivity.
Qed.

(* ---------- the serial loop ---------- *)
Lemma serial_SI fuel : forall r last r' s,
  RI (r_d r) (r_tr r) -> Pre (r_d r) -> (forall k, last = Some k -> st_of (r_d r) k <> SNone) ->
  AInv (r_d r) -> OInv (r_d r) -> SI (r_d r) (r_tr r) ->
  serial fuel r last = (r', s) -> RI (r_d r') (r_tr r') /\ SI (r_d r') (r_tr r').
Proof.
  induction fuel as [|fuel IH]; intros r last r' s HR HP Hl HA HO HS E; cbn [Runner.serial] in E.
  { inversion E; subst. split; [exact HR|exact HS]. }
  destruct (r_stop r). { inversion E; subst. split; [apply finish_RI; exact HR|apply SI_finish; exact HS]. }
  destruct (disp_send tasks wake_rank calc_rank (S fuel) (r_d r) last) as [y d] eqn:Ed.
  pose proof (disp_send_spec tasks wake_rank calc_rank _ _ _ _ _ (ri_inv _ _ _ HR) HP (ri_res _ _ _ HR) (ri_q _ _ _ HR) Hl Ed) as Hpost.
  pose proof (RI_disp _ _ _ _ _ HR Hpost) as HR'.
  destruct (disp_send_A tasks wake_rank calc_rank _ _ _ _ _ HA Ed) as [HA' _].
  pose proof (disp_send_O tasks wake_rank calc_rank _ _ _ _ _ HA HO Ed) as HO'.
  assert (Hst : forall x, st_of d x = st_of (r_d r) x) by (destruct Hpost as (_ & _ & _ & St & _); exact St).
  assert (HS' : SI d (r_tr r)) by (eapply SI_same; eauto).
  destruct y as [k| | |path|].
  - destruct (handed_of_post _ _ _ _ Hpost) as (HK & Hcur & Hns).
    destruct (select_task (with_d r d) k) as [b r1] eqn:Es.
    pose proof (select_task_post tasks continue_ always (with_d r d) k b r1 HR' HK Es) as (R1 & P1 & S1 & Pc1 & C1 & D1 & T1 & O1).
    destruct (select_task_SI (with_d r d) k b r1 HR' HK HO' HS' Es) as [SI1 Harg].
    assert (A1 : AInv (r_d r1)) by (eapply select_task_A; [|exact Es]; exact HA').
    assert (Oi1 : OInv (r_d r1)).
    { eapply select_task_O; [| |exact Es]; [exact HO'|]. apply (handed_unfinished _ _ _ HK). }
    destruct b.
    + assert (R2 : RI (r_d (start_task r1 k)) (r_tr (start_task r1 k))) by (apply start_task_RI; auto).
      assert (SI2 : SI (r_d (start_task r1 k)) (r_tr (start_task r1 k))).
      { unfold Runner.start_task. simpl. apply SI_emit; auto. intros e x [<-|[]]. reflexivity. }
      destruct (is_interrupt tasks k) eqn:Ei.
      * inversion E; subst. split; [apply finish_RI; exact R2|apply SI_finish; exact SI2].
      * assert (He2 : early (n_pc (node_of (r_d (start_task r1 k)) k)) = false).
        { unfold Runner.start_task. simpl. rewrite Pc1. apply (handed_early _ _ _ HK). }
        assert (HPx2 : PreX tasks (r_d (start_task r1 k)) k).
        { unfold Runner.start_task. simpl. intros z Hz Hpc. apply P1. exact Hpc. }
        assert (Hns2 : in_setup (n_pc (node_of (r_d (start_task r1 k)) k)) = false).
        { unfold Runner.start_task. simpl. rewrite Pc1. apply (handed_in_setup _ _ _ HK). }
        assert (Hst2 : st_of (r_d (start_task r1 k)) k = SRun) by (unfold Runner.start_task; simpl; apply (T1 eq_refl)).
        assert (Hsetup : forall x, In x (t_setup (get_task k)) ->
                  final (r_d (start_task r1 k)) x /\ is_goodst (st_of (r_d (start_task r1 k)) x) = true).
        { intros x Hx. unfold Runner.start_task. simpl. apply (good_in_status _ (r_tr r1)); auto.
          apply (select_true_good tasks continue_ always (with_d r d) k r1 HR' HK Es).
          apply ed_static. unfold static_deps. rewrite !in_app_iff. auto. }
        destruct (process_result_post tasks continue_ (start_task r1 k) k R2 He2 HPx2 Hns2 Hst2) as [(R3 & P3 & S3)|Hint].
        -- eapply IH; [exact R3|exact P3| | | | |exact E].
           ++ intros k' Ek. inversion Ek; subst. exact S3.
           ++ apply process_result_A. exact A1.
           ++ apply process_result_O; [exact Oi1|]. rewrite Hst2. reflexivity.
           ++ apply process_result_SI; auto.
        -- unfold Runner.is_interrupt in Ei. rewrite Hint in Ei. discriminate.
    + eapply IH; [exact R1|exact P1| |exact A1|exact Oi1|exact SI1|exact E].
      intros k' Ek. inversion Ek; subst. exact S1.
  - inversion E; subst. split; [apply (finish_RI tasks (with_d r d)); exact HR'|apply (SI_finish (with_d r d)); exact HS'].
  - inversion E; subst. split; [apply (finish_RI tasks (with_d r d)); exact HR'|apply (SI_finish (with_d r d)); exact HS'].
  - inversion E; subst. split; [apply (finish_RI tasks (with_d r d)); exact HR'|apply (SI_finish (with_d r d)); exact HS'].
  - inversion E; subst. split; [exact HR'|exact HS'].
Qed.

(* SOUNDNESS, serial runner: every final report of a serial run -- whatever the selection, the
   set-iteration oracles, --continue, the fuel -- is the report of the outcome the specification
   derives for that task from the task table *)
Theorem serial_outcome_sound fuel sel k e :
  In e (fst (run_serial tasks wake_rank calc_rank continue_ always fuel sel)) -> is_final_ev k e = true ->
  exists r, fin k r /\ e = ev_of k r.
Proof.
  unfold run_serial.
  destruct (serial fuel (r_init sel) None) as [r' s] eqn:E. simpl. intros Hin Hf.
  assert (HS : RI (r_d r') (r_tr r') /\ SI (r_d r') (r_tr r')).
  { eapply (serial_SI fuel (r_init sel) None); [| | | | | |exact E]; simpl.
    - apply RI_init.
    - intros z Hz. simpl in Hz. discriminate.
    - intros k0 Ek. discriminate.
    - apply AInv_init.
    - apply OInv_init.
    - apply SI_init. }
  destruct HS as (HR & a & S1 & S2 & S3).
  apply in_app_iff in Hin. destruct Hin as [Hin|Hin].
  - exists (a k). split; [|apply S2; auto].
    apply S1. apply (ri_link2 _ _ _ HR). apply finished_in_In. eauto.
  - destruct s; simpl in Hin; try contradiction; destruct Hin as [<-|[]]; discriminate.
Qed.

End S.

Print Assumptions serial_outcome_sound.
