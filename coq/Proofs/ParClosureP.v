(* ParClosureP.v -- nothing outside the closure of the selection, PARALLEL runners (the counterpart of
   OrderP.serial_closure_events): every event of the merged log of run_parallel that names a task k -- a
   reporter / dep_manager event PE e about k, PStart / PEnd / PTdRun of k in a worker, the marker of the
   KeyboardInterrupt that ended the run -- has  needed tasks selection k : k is selected or reachable from a
   selected task through effective dependencies.  Any table (cyclic or not), any fuel (hence any prefix of
   the run), --continue or not, threads or processes, any worker count, any schedule.

   Method: (a) NS, threaded through worker_step / main_get / join_all / next_job_loop / hand_out / start_procs /
   main_loop / drain / finish: every task named in the runner trace, the merged log, the teardown lists (main
   and per worker), the job queue, the busy workers and the result queue has a run_status (was handed to
   select_task) -- a status is never taken back; (b) a task with a status has a node; (c) every node is
   W-justified (LazyP.LW, threaded through the parallel runner in WholeOutcomeP.PA) and the W edges are
   effective dependencies (AncP.AInv). *)
From DoitV Require Import Base Dispatch Runner Parallel DispatchP DispatchInv RunnerTr RunnerP AncP ParallelP
  OutcomeSpec OutcomeInvP OutcomeSerialP OutcomeParP LazyP OrderP WholeOutcomeP.
Open Scope N_scope.

Definition msg_task (m : msg) : name := match m with MResult k | MReport k | MTeardown k | MExit k => k end.
(* the task an event of the merged log is about *)
Definition pev_task (pe : pevent) : option name :=
  match pe with PE e => ev_task e | PStart k _ | PEnd k _ | PTdRun k _ => Some k | PTerminate | PHang => None end.

Lemma In_set_nth {A} (l : list A) : forall i v x, In x (set_nth l i v) -> x = v \/ In x l.
Proof.
  induction l as [|y l IH]; intros i v x H; simpl in H; [destruct H|].
  destruct i as [|i]; simpl in H.
  - destruct H as [<-|H]; auto. right. right. exact H.
  - destruct H as [<-|H]; [right; left; reflexivity|]. destruct (IH i v x H); auto. right. right. assumption.
Qed.

Lemma In_skipn {A} (l : list A) n x : In x (skipn n l) -> In x l.
Proof. intros H. rewrite <- (firstn_skipn n l). apply in_or_app. auto. Qed.

Section C.
Variable tasks : name -> option task.
Variable wake_rank : name -> name -> N.
Variable calc_rank : name -> N.
Variable continue_ always proc : bool.

Notation st_of := (st_of tasks).
Notation get_task := (get_task tasks).
Notation worker_step := (worker_step tasks proc).
Notation main_get := (main_get tasks proc).
Notation join_all := (join_all tasks proc).
Notation next_job_loop := (next_job_loop tasks wake_rank calc_rank continue_ always).
Notation get_next_job := (get_next_job tasks wake_rank calc_rank continue_ always).
Notation start_procs := (start_procs tasks wake_rank calc_rank continue_ always proc).
Notation hand_out := (hand_out tasks wake_rank calc_rank continue_ always).
Notation main_loop := (main_loop tasks wake_rank calc_rank continue_ always proc).
Notation terminate := (terminate proc).
Notation process_result := (process_result tasks continue_).
Notation select_task := (select_task tasks continue_ always).

Definition known (d : dstate) (k : name) : Prop := st_of d k <> SNone.
Definition kn (p : pstate) (k : name) : Prop := known (r_d (p_r p)) k.

Record NS (p : pstate) : Prop := {
  ns_tr : forall e k, In e (r_tr (p_r p)) -> ev_task e = Some k -> kn p k;
  ns_td : forall k, In k (r_td (p_r p)) -> kn p k;
  ns_log : forall pe k, In pe (p_log p) -> pev_task pe = Some k -> kn p k;
  ns_wtd : forall l k, In l (p_wtd p) -> In k l -> kn p k;
  ns_msg : forall m, In m (p_results p) -> kn p (msg_task m);
  ns_job : forall k, In k (job_tasks (p_jobs p)) -> kn p k;
  ns_busy : forall k, In k (busy_tasks (p_workers p)) -> kn p k
}.

(* ---------- the primitive updates ---------- *)
Lemma NS_plog p evs : NS p -> (forall pe k, In pe evs -> pev_task pe = Some k -> kn p k) -> NS (plog p evs).
Proof.
  intros [A B C D E F G] H. split; auto.
  intros pe k Hin Hk. cbn [p_log plog sync] in Hin. rewrite !in_app_iff in Hin. destruct Hin as [[Hin|Hin]|Hin].
  - eapply C; eauto.
  - apply in_map_iff in Hin. destruct Hin as (e & <- & He). simpl in Hk. apply (A e k); auto. eapply In_skipn; eauto.
  - eapply H; eauto.
Qed.

Lemma NS_sync p : NS p -> NS (sync p).
Proof.
  intros [A B C D E F G]. split; auto.
  intros pe k Hin Hk. cbn [p_log sync] in Hin. rewrite in_app_iff in Hin. destruct Hin as [Hin|Hin].
  - eapply C; eauto.
  - apply in_map_iff in Hin. destruct Hin as (e & <- & He). simpl in Hk. apply (A e k); auto. eapply In_skipn; eauto.
Qed.

Lemma NS_with_results p rs : NS p -> (forall m, In m rs -> In m (p_results p) \/ kn p (msg_task m)) -> NS (with_results p rs).
Proof. intros [A B C D E F G] H. split; auto. intros m Hm. destruct (H m Hm) as [X|X]; [exact (E m X)|exact X]. Qed.

Lemma NS_with_workers p ws td : NS p ->
  (forall k, In k (busy_tasks ws) -> In k (busy_tasks (p_workers p)) \/ kn p k) ->
  (forall l, In l td -> In l (p_wtd p) \/ forall k, In k l -> kn p k) -> NS (with_workers p ws td).
Proof.
  intros [A B C D E F G] H1 H2. split; auto.
  - intros l k Hl Hk. cbn [p_wtd with_workers] in Hl. destruct (H2 l Hl) as [X|X]; [exact (D l k X Hk)|exact (X k Hk)].
  - intros k Hk. cbn [p_workers with_workers] in Hk. destruct (H1 k Hk) as [X|X]; [exact (G k X)|exact X].
Qed.

Lemma NS_with_jobs p js : NS p -> (forall k, In k (job_tasks js) -> In k (job_tasks (p_jobs p)) \/ kn p k) -> NS (with_jobs p js).
Proof. intros [A B C D E F G] H. split; auto. intros k Hk. cbn [p_jobs with_jobs] in Hk. destruct (H k Hk) as [X|X]; [exact (F k X)|exact X]. Qed.

Lemma NS_with_counts p a b : NS p -> NS (with_counts p a b).
Proof. intros [A B C D E F G]. split; auto. Qed.
Lemma NS_with_sched p s : NS p -> NS (with_sched p s).
Proof. intros [A B C D E F G]. split; auto. Qed.

Lemma NS_with_r p r' : NS p ->
  (forall k, kn p k -> known (r_d r') k) ->
  (forall e, In e (r_tr r') -> In e (r_tr (p_r p)) \/ forall k, ev_task e = Some k -> known (r_d r') k) ->
  (forall k, In k (r_td r') -> In k (r_td (p_r p)) \/ known (r_d r') k) -> NS (with_r p r').
Proof.
  intros [A B C D E F G] M H1 H2. split; unfold kn; cbn [p_r with_r p_log p_wtd p_results p_jobs p_workers].
  - intros e k He Hk. destruct (H1 e He) as [X|X]; [apply M; eapply A; eauto|apply X; exact Hk].
  - intros k Hk. destruct (H2 k Hk) as [X|X]; [apply M; apply B; exact X|exact X].
  - intros pe k Hin Hk. apply M. eapply C; eauto.
  - intros l k Hl Hk. apply M. eapply D; eauto.
  - intros m Hm. apply M. apply E. exact Hm.
  - intros k Hk. apply M. apply F. exact Hk.
  - intros k Hk. apply M. apply G. exact Hk.
Qed.

(* the runner appends events about known tasks; the dispatcher state is untouched *)
Lemma NS_emit p evs : NS p -> (forall e k, In e evs -> ev_task e = Some k -> kn p k) -> NS (with_r p (emit (p_r p) evs)).
Proof.
  intros H He. apply NS_with_r; auto.
  - intros e Hin. cbn [r_tr emit] in Hin. apply in_app_iff in Hin. destruct Hin as [Hin|Hin]; auto.
    right. intros k Hk. exact (He e k Hin Hk).
Qed.

(* ---------- workers ---------- *)
Lemma nth_wtd_known p w k : NS p -> In k (nth w (p_wtd p) []) -> kn p k.
Proof.
  intros H Hk. destruct (nth_in_or_default w (p_wtd p) []) as [Hin|E].
  - eapply (ns_wtd _ H); eauto.
  - rewrite E in Hk. destruct Hk.
Qed.

Lemma worker_step_NS p w : NS p -> NS (worker_step p w).
Proof.
  intros H. unfold Parallel.worker_step.
  destruct (nth w (p_workers p) WExited) as [|k|] eqn:Ew; [| |exact H].
  - destruct (p_jobs p) as [|j js] eqn:Ej; [exact H|].
    destruct j as [k| |].
    + (* a task *)
      assert (Hk : kn p k) by (apply (ns_job _ H); rewrite Ej; simpl; auto).
      assert (H1 : NS (with_jobs p js)).
      { apply NS_with_jobs; auto. intros x Hx. left. rewrite Ej. simpl. auto. }
      set (p1 := with_jobs p js) in *.
      assert (H2 : NS (if proc
                       then with_results (with_workers p1 (p_workers p1)
                              (if t_teardown (get_task k) then set_nth (p_wtd p1) w (nth w (p_wtd p1) [] ++ [k]) else p_wtd p1))
                              (p_results p1 ++ [MReport k])
                       else with_r p1 (start_task tasks (p_r p1) k))).
      { destruct proc.
        - apply NS_with_results.
          + apply NS_with_workers; auto. intros l Hl. destruct (t_teardown (get_task k)); auto.
            apply In_set_nth in Hl. destruct Hl as [->|Hl]; auto. right. intros x Hx.
            apply in_app_iff in Hx. destruct Hx as [Hx|[<-|[]]]; [eapply nth_wtd_known; eauto|exact Hk].
          + intros m Hm. cbn [p_results with_workers] in *. apply in_app_iff in Hm. destruct Hm as [Hm|[<-|[]]]; auto.
        - apply NS_with_r; auto.
          + intros e He. cbn [r_tr start_task] in He. apply in_app_iff in He. destruct He as [He|[<-|[]]]; auto.
            right. intros x Hx. simpl in Hx. inversion Hx; subst. exact Hk.
          + intros x Hx. cbn [r_td start_task] in Hx. destruct (t_teardown (get_task k)); auto.
            apply in_app_iff in Hx. destruct Hx as [Hx|[<-|[]]]; auto. }
      set (p2 := if proc then _ else _) in *.
      assert (Hk2 : kn p2 k) by (unfold p2; destruct proc; exact Hk).
      apply NS_plog.
      * apply NS_with_workers; auto. intros x Hx. destruct (busy_tasks_set_nth _ _ _ _ Hx) as [X|X]; auto.
        inversion X; subst. auto.
      * intros pe x [<-|[]] Hx. simpl in Hx. inversion Hx; subst. exact Hk2.
    + (* hold *)
      apply NS_with_jobs; auto. intros x Hx. left. rewrite Ej. simpl. exact Hx.
    + (* no more jobs *)
      assert (H1 : NS (with_jobs p js)).
      { apply NS_with_jobs; auto. intros x Hx. left. rewrite Ej. simpl. exact Hx. }
      set (p1 := with_jobs p js) in *.
      assert (Hm : forall x, In x (rev (nth w (p_wtd p1) [])) -> kn p1 x).
      { intros x Hx. apply in_rev in Hx. eapply nth_wtd_known; eauto. }
      assert (H2 : NS (if proc then with_results (plog p1 (map (fun k => PTdRun k w) (rev (nth w (p_wtd p1) []))))
                                     (p_results p1 ++ map MTeardown (rev (nth w (p_wtd p1) [])))
                       else p1)).
      { destruct proc; auto. apply NS_with_results.
        - apply NS_plog; auto. intros pe x Hin Hx. apply in_map_iff in Hin. destruct Hin as (y & <- & Hy).
          simpl in Hx. inversion Hx; subst. apply Hm. exact Hy.
        - intros m Hin. apply in_app_iff in Hin. destruct Hin as [Hin|Hin]; auto.
          apply in_map_iff in Hin. destruct Hin as (y & <- & Hy). right. apply Hm. exact Hy. }
      set (p2 := if proc then _ else _) in *.
      apply NS_with_workers; auto. intros x Hx. destruct (busy_tasks_set_nth _ _ _ _ Hx) as [X|X]; auto. discriminate.
  - (* a busy worker finishes *)
    assert (Hk : kn p k) by (apply (ns_busy _ H); eapply busy_tasks_nth; eauto).
    assert (H1 : NS (plog p [PEnd k w])).
    { apply NS_plog; auto. intros pe x [<-|[]] Hx. simpl in Hx. inversion Hx; subst. exact Hk. }
    set (p1 := plog p [PEnd k w]) in *.
    destruct (is_interrupt tasks k).
    + apply NS_with_results.
      * apply NS_with_workers; auto. intros x Hx. destruct (busy_tasks_set_nth _ _ _ _ Hx) as [X|X]; auto. discriminate.
      * intros m Hm. cbn [p_results with_workers] in Hm. apply in_app_iff in Hm. destruct Hm as [Hm|[<-|[]]]; auto.
    + apply NS_with_results.
      * apply NS_with_workers; auto. intros x Hx. destruct (busy_tasks_set_nth _ _ _ _ Hx) as [X|X]; auto. discriminate.
      * intros m Hm. cbn [p_results with_workers] in Hm. apply in_app_iff in Hm. destruct Hm as [Hm|[<-|[]]]; auto.
Qed.

Lemma main_get_NS fuel : forall p m p', NS p -> main_get fuel p = (m, p') ->
  NS p' /\ (forall msg, m = Some msg -> kn p' (msg_task msg)).
Proof.
  induction fuel as [|fuel IH]; intros p m p' HP E; cbn [Parallel.main_get] in E.
  { inversion E; subst. split; auto. intros msg H; discriminate. }
  set (ws := enabled_workers p (length (p_workers p)) 0) in *.
  destruct ((if negb (is_nil (p_results p)) then 1 else 0) + length ws)%nat eqn:En.
  { inversion E; subst. split; [|intros msg H; discriminate]. apply NS_plog; auto. intros pe k [<-|[]] Hk. discriminate. }
  destruct (choose (S n) (p_sched p)) as [c s].
  assert (Hs : NS (with_sched p s)) by (apply NS_with_sched; exact HP).
  destruct (negb (is_nil (p_results p)) && Nat.eqb c 0).
  - simpl in E. destruct (p_results p) as [|m0 rs] eqn:Er.
    + inversion E; subst. split; auto. intros msg H; discriminate.
    + inversion E; subst. split.
      * apply NS_with_results; auto. intros x Hx. left. cbn [p_results with_sched]. rewrite Er. right. exact Hx.
      * intros msg Hm. inversion Hm; subst. apply (ns_msg _ HP). rewrite Er. left. reflexivity.
  - eapply IH; [|exact E]. apply worker_step_NS. exact Hs.
Qed.

Lemma join_all_NS fuel : forall p, NS p -> NS (join_all fuel p).
Proof.
  induction fuel as [|fuel IH]; intros p HP; cbn [Parallel.join_all]; auto.
  destruct (enabled_workers p (length (p_workers p)) 0) as [|w ws] eqn:Ew; auto.
  destruct (choose (length (w :: ws)) (p_sched p)) as [c s].
  apply IH. apply worker_step_NS. apply NS_with_sched. exact HP.
Qed.

(* ---------- select_task / process_task_result: pure facts ---------- *)
Lemma select_task_known r k b r1 : select_task r k = (b, r1) -> known (r_d r1) k.
Proof.
  unfold known, Runner.select_task, get_args, handle_error, handle_error_gen, emit.
  destruct (n_st (node_of tasks (r_d r) k)) eqn:Est;
    repeat match goal with
    | |- context [if ?c then _ else _] => destruct c eqn:?
    | |- context [match t_check ?t with _ => _ end] => destruct (t_check t) eqn:?
    end;
    intros E; inversion E; subst; clear E; cbn [r_d with_d];
    rewrite ?set_status_st, ?N.eqb_refl; try discriminate;
    unfold Dispatch.st_of; rewrite Est; discriminate.
Qed.

Lemma select_task_only r k b r1 : select_task r k = (b, r1) ->
  (exists evs, r_tr r1 = r_tr r ++ evs /\ only k evs) /\ r_td r1 = r_td r.
Proof.
  intros E.
  apply (select_task_pres tasks continue_ always
           (fun r0 => (exists evs, r_tr r0 = r_tr r ++ evs /\ only k evs) /\ r_td r0 = r_td r) k) with (r := r) (b := b); auto.
  - intros r0 e [(e0 & A1 & A2) B] Hin. split; [|exact B]. exists (e0 ++ [e]). unfold emit. cbn [r_tr]. rewrite A1, app_assoc.
    split; [reflexivity|]. apply only_app; auto. apply only_one. destruct Hin as [<-|[<-|[<-|[]]]]; reflexivity.
  - intros r0 kd [(e0 & A1 & A2) B]. split; [|exact B]. exists (e0 ++ [ERemove k; EFailure k kd]).
    unfold handle_error, handle_error_gen. cbn [r_tr]. rewrite A1, app_assoc. split; [reflexivity|].
    apply only_app; auto. apply only_two; reflexivity.
  - split; [|reflexivity]. exists []. rewrite app_nil_r. split; [reflexivity|]. intros e k' [].
Qed.

Lemma process_result_only r k :
  (exists evs, r_tr (process_result r k) = r_tr r ++ evs /\ only k evs) /\ r_td (process_result r k) = r_td r /\
  (forall z, known (r_d r) z -> known (r_d (process_result r k)) z).
Proof.
  unfold known, Runner.process_result, handle_error, handle_error_gen.
  destruct (t_outcome (get_task k)); cbn [r_tr r_td r_d emit with_d];
    (split; [first [ eexists; split; [reflexivity|apply only_two; reflexivity]
                   | exists []; rewrite app_nil_r; split; [reflexivity|intros e k' []] ]|]);
    (split; [reflexivity|]); intros z Hz; auto;
    rewrite set_status_st; destruct (z =? k); auto; discriminate.
Qed.

(* ---------- get_next_job ---------- *)
Lemma next_job_loop_NS fuel : forall p completed g p', NS p -> next_job_loop fuel p completed = (g, p') ->
  NS p' /\ (forall k, g = GJob (JTask k) -> kn p' k).
Proof.
  induction fuel as [|fuel IH]; intros p completed g p' HP E; cbn [Parallel.next_job_loop] in E.
  { inversion E; subst. split; auto. intros k H; discriminate. }
  pose proof (disp_send_st tasks wake_rank calc_rank (S fuel) (r_d (p_r p)) completed) as Hst.
  destruct (disp_send tasks wake_rank calc_rank (S fuel) (r_d (p_r p)) completed) as [y d] eqn:Ed. cbn [snd] in Hst.
  assert (Hd : NS (with_r p (with_d (p_r p) d))).
  { apply NS_with_r; auto. intros k Hk. unfold known. cbn [r_d with_d]. rewrite Hst. exact Hk. }
  destruct y as [k| | |path|].
  - destruct (select_task (with_d (p_r p) d) k) as [b r1] eqn:Es.
    destruct (select_task_only _ _ _ _ Es) as [(evs & A1 & A2) B].
    destruct (select_task_ext tasks continue_ always _ _ _ _ Es) as [_ Ho].
    pose proof (select_task_known _ _ _ _ Es) as Hk.
    assert (H1 : NS (with_r p r1)).
    { apply NS_with_r; auto.
      - intros z Hz. destruct (N.eqb_spec z k) as [->|Hne]; [exact Hk|].
        unfold known. rewrite (Ho z Hne). cbn [r_d with_d]. rewrite Hst. exact Hz.
      - intros e He. rewrite A1 in He. cbn [r_tr with_d] in He. apply in_app_iff in He. destruct He as [He|He]; auto.
        right. intros x Hx. rewrite (A2 e x He Hx). exact Hk.
      - intros x Hx. rewrite B in Hx. auto. }
    destruct b.
    + inversion E; subst. split; auto. intros k0 Ek. inversion Ek; subst. exact Hk.
    + eapply IH; eauto.
  - inversion E; subst. split; [apply NS_with_counts; exact Hd|intros k H; discriminate].
  - inversion E; subst. split; [exact Hd|intros k H; discriminate].
  - inversion E; subst. split; [exact Hd|intros k H; discriminate].
  - inversion E; subst. split; auto. intros k H; discriminate.
Qed.

Lemma get_next_job_NS fuel p completed g p' : NS p -> get_next_job fuel p completed = (g, p') ->
  NS p' /\ (forall k, g = GJob (JTask k) -> kn p' k).
Proof.
  intros HP E. unfold Parallel.get_next_job in E. destruct (r_stop (p_r p)).
  - inversion E; subst. split; auto. intros k H; discriminate.
  - eapply next_job_loop_NS; eauto.
Qed.

Lemma put_job_NS p j : NS p -> (forall k, j = JTask k -> kn p k) -> NS (put_job p j).
Proof.
  intros H Hj. apply NS_with_jobs; auto. intros k Hk. rewrite job_tasks_app in Hk. apply in_app_iff in Hk.
  destruct Hk as [Hk|Hk]; auto. destruct j; simpl in Hk; try contradiction. destruct Hk as [<-|[]]. right. apply Hj. reflexivity.
Qed.

Lemma start_worker_NS p : NS p -> NS (start_worker p).
Proof.
  intros H. apply NS_with_workers; auto.
  - intros k Hk. rewrite busy_tasks_app in Hk. simpl in Hk. rewrite app_nil_r in Hk. auto.
  - intros l Hl. apply in_app_iff in Hl. destruct Hl as [Hl|[<-|[]]]; auto. right. intros k [].
Qed.

Lemma terminate_NS p : NS p -> NS (terminate p).
Proof.
  intros H. unfold Parallel.terminate. destruct (proc && negb (is_nil (p_workers p))); auto.
  apply NS_plog.
  - apply NS_with_workers; auto. intros k Hk. rewrite busy_tasks_map_exited in Hk. destruct Hk.
  - intros pe k [<-|[]] Hk. discriminate.
Qed.

Lemma start_procs_NS fuel n : forall p e p', NS p -> start_procs fuel n p = (e, p') -> NS p'.
Proof.
  induction n as [|n IH]; intros p e p' HP E; cbn [Parallel.start_procs] in E.
  { inversion E; subst. exact HP. }
  destruct (get_next_job fuel p None) as [g p1] eqn:Eg.
  destruct (get_next_job_NS _ _ _ _ _ HP Eg) as [H1 Hk].
  destruct g as [j| |path|].
  - eapply IH; [|exact E]. apply start_worker_NS. apply put_job_NS; auto. intros k ->. apply Hk. reflexivity.
  - inversion E; subst. exact H1.
  - inversion E; subst. apply terminate_NS. exact H1.
  - inversion E; subst. exact H1.
Qed.

Lemma hand_out_NS fuel n : forall p completed e p', NS p -> hand_out fuel n p completed = (e, p') -> NS p'.
Proof.
  induction n as [|n IH]; intros p completed e p' HP E; cbn [Parallel.hand_out] in E.
  { inversion E; subst. exact HP. }
  destruct (get_next_job fuel p completed) as [g p1] eqn:Eg.
  destruct (get_next_job_NS _ _ _ _ _ HP Eg) as [H1 Hk].
  destruct g as [j| |path|].
  - eapply IH; [|exact E]. apply put_job_NS; auto. intros k ->. apply Hk. reflexivity.
  - eapply IH; [|exact E]. apply put_job_NS; [apply NS_with_counts; exact H1|intros k H; discriminate].
  - inversion E; subst. exact H1.
  - inversion E; subst. exact H1.
Qed.

(* ---------- the main loop ---------- *)
Definition pend_task (e : pend) : option name := match e with PInterrupt k => Some k | _ => None end.

Lemma main_loop_NS fuel : forall p e p', NS p -> main_loop fuel p = (e, p') ->
  NS p' /\ (forall k, pend_task e = Some k -> kn p' k).
Proof.
  induction fuel as [|fuel IH]; intros p e p' HP E; cbn [Parallel.main_loop] in E.
  { inversion E; subst. split; auto. intros k H; discriminate. }
  destruct (p_count p). { inversion E; subst. split; auto. intros k H; discriminate. }
  destruct (main_get (S fuel * 4) p) as [m p1] eqn:Em.
  destruct (main_get_NS _ _ _ _ HP Em) as (H1 & Hm).
  assert (Hterm : forall q k, kn q k -> kn (terminate q) k).
  { intros q k Hk. unfold Parallel.terminate. destruct (proc && negb (is_nil (p_workers q))); exact Hk. }
  destruct m as [[k|k|k|k]|].
  - (* a result *)
    pose proof (Hm _ eq_refl) as Hk. simpl in Hk.
    destruct (process_result_only (p_r p1) k) as ((evs & A1 & A2) & B & M).
    assert (H2 : NS (with_r p1 (process_result (p_r p1) k))).
    { apply NS_with_r; auto.
      - intros e0 He. rewrite A1 in He. apply in_app_iff in He. destruct He as [He|He]; auto.
        right. intros x Hx. rewrite (A2 e0 x He Hx). apply M. exact Hk.
      - intros x Hx. rewrite B in Hx. auto. }
    set (p2 := with_r p1 (process_result (p_r p1) k)) in *.
    destruct (hand_out (S fuel) (S (p_free p2)) (with_counts p2 0 (p_count p2)) (Some k)) as [e2 p3] eqn:Eh.
    assert (H3 : NS p3) by (eapply hand_out_NS; [|exact Eh]; apply NS_with_counts; exact H2).
    assert (Hne : forall x, pend_task e2 = Some x -> False).
    { (* hand_out never ends with an interrupt *)
      clear -Eh. revert Eh. generalize (with_counts p2 0 (p_count p2)) (Some k) (S (p_free p2)).
      intros q c n. revert q c. induction n as [|n IHn]; intros q c Eh x Hx; cbn [Parallel.hand_out] in Eh.
      - inversion Eh; subst. discriminate.
      - destruct (get_next_job (S fuel) q c) as [g q1]. destruct g as [j| |path|]; try (inversion Eh; subst; discriminate); eauto. }
    destruct e2; try (inversion E; subst; split; [apply terminate_NS; exact H3|intros x Hx; try discriminate; exfalso; eapply Hne; eauto]).
    destruct (deadlocked p3).
    + inversion E; subst. split; [apply terminate_NS; exact H3|intros x Hx; discriminate].
    + eapply IH; eauto.
  - (* execute report forwarded by a worker process *)
    pose proof (Hm _ eq_refl) as Hk. simpl in Hk.
    eapply IH; [|exact E]. apply NS_emit; auto. intros e0 x [<-|[]] Hx. simpl in Hx. inversion Hx; subst. exact Hk.
  - (* teardown report *)
    pose proof (Hm _ eq_refl) as Hk. simpl in Hk.
    eapply IH; [|exact E]. apply NS_emit; auto. intros e0 x [<-|[]] Hx. simpl in Hx. inversion Hx; subst. exact Hk.
  - (* a worker was interrupted *)
    pose proof (Hm _ eq_refl) as Hk. simpl in Hk.
    inversion E; subst. split; [apply terminate_NS; exact H1|]. intros x Hx. simpl in Hx. inversion Hx; subst. apply Hterm. exact Hk.
  - inversion E; subst. split; [apply terminate_NS; exact H1|intros x Hx; discriminate].
Qed.

Lemma drain_NS p : NS p -> NS (drain p).
Proof.
  intros H. unfold drain. apply NS_with_results; [|intros m []].
  apply NS_emit; auto. intros e k He Hk. apply in_flat_map in He. destruct He as (m & Hm & He).
  pose proof (ns_msg _ H m Hm) as X.
  destruct m; simpl in He; try contradiction; destruct He as [<-|[]]; simpl in Hk; inversion Hk; subst; exact X.
Qed.

Lemma finish_NS p : NS p -> NS (sync (with_r p (finish (p_r p)))).
Proof.
  intros H. apply NS_sync. apply NS_emit; auto. intros e k [<-|He] Hk; [discriminate|].
  apply in_map_iff in He. destruct He as (x & <- & Hx). simpl in Hk. inversion Hk; subst.
  apply (ns_td _ H). apply in_rev. exact Hx.
Qed.

Lemma NS_init sched sel : NS (p_init sched sel).
Proof. split; simpl; intros; contradiction. Qed.

End C.

(* ================================================================== the theorem *)
Section Closure.
Variable tasks : name -> option task.
Variable wake_rank : name -> name -> N.
Variable calc_rank : name -> N.
Variable continue_ always proc : bool.
Variable sel : list name.

(* every node is needed *)
Lemma W_needed Rn d x : AInv tasks d -> W tasks sel Rn d x -> needed tasks sel x.
Proof.
  intros HA. induction 1 as [x Hx|p x _ IH Hx|r x _ IH Hx _].
  - apply needed_root. exact Hx.
  - apply (needed_closed tasks sel p x IH). pose proof (anode_of_ok tasks d p HA) as [Ac At _ _ _ _ _ _].
    unfold lists in Hx. apply in_app_iff in Hx. destruct Hx as [Hx|Hx]; [apply At; exact Hx|].
    apply eff_calc_dep. apply Ac. exact Hx.
  - apply (needed_closed tasks sel r x IH). apply ed_static. unfold static_deps. rewrite !in_app_iff. auto.
Qed.

Lemma known_needed p k : PA tasks always sel p -> kn tasks p k -> needed tasks sel k.
Proof.
  intros (_ & HPO & [HW _]) Hk. apply (W_needed (Rn tasks always) (r_d (p_r p))); [apply (po_a _ _ _ HPO)|].
  apply (lw_j _ _ _ _ HW). apply (st_exn tasks). exact Hk.
Qed.

(* the state the run ends in *)
Lemma parallel_final_PN fuel nprocs sched :
  exists p3 mk, PA tasks always sel p3 /\ NS tasks p3 /\ (forall pe k, In pe mk -> pev_task pe = Some k -> kn tasks p3 k) /\
    fst (run_parallel tasks wake_rank calc_rank continue_ always proc fuel nprocs sched sel) = p_log p3 ++ mk.
Proof.
  unfold run_parallel.
  destruct (Parallel.start_procs tasks wake_rank calc_rank continue_ always proc fuel nprocs (p_init sched sel)) as [e1 p1] eqn:E1.
  pose proof (start_procs_PA tasks wake_rank calc_rank continue_ always proc sel fuel nprocs _ _ _ (PA_init tasks always sel sched) E1) as A1.
  pose proof (start_procs_NS tasks wake_rank calc_rank continue_ always proc fuel nprocs _ _ _ (NS_init tasks sched sel) E1) as N1.
  assert (Hfin : forall p2 mk, PA tasks always sel p2 -> NS tasks p2 ->
     (forall pe k, In pe mk -> pev_task pe = Some k -> kn tasks p2 k) ->
     exists p3 mk', PA tasks always sel p3 /\ NS tasks p3 /\ (forall pe k, In pe mk' -> pev_task pe = Some k -> kn tasks p3 k) /\
       p_log (sync (with_r p2 (finish (p_r p2)))) ++ mk = p_log p3 ++ mk').
  { intros p2 mk (H2 & O2 & J2) N2 Hm. exists (sync (with_r p2 (finish (p_r p2)))), mk.
    split; [split; [apply finish_PI; exact H2|split; [apply finish_PO; exact O2|exact J2]]|].
    split; [apply finish_NS; exact N2|]. split; [exact Hm|reflexivity]. }
  assert (M0 : forall q pe k, In pe (@nil pevent) -> pev_task pe = Some k -> kn tasks q k) by (intros q pe k []).
  assert (M1 : forall q e, ev_task e = None -> forall pe k, In pe [PE e] -> pev_task pe = Some k -> kn tasks q k).
  { intros q e He pe k [<-|[]] Hk. simpl in Hk. congruence. }
  destruct e1; try (cbv beta iota zeta delta [fst snd]; apply Hfin; [exact A1|exact N1|first [apply M0|apply M1; reflexivity]]).
  2:{ (* start_procs never ends with an interrupt *)
      exfalso. clear -E1. revert E1. generalize (p_init sched sel). generalize nprocs as n.
      induction n as [|n IHn]; intros q E1; cbn [Parallel.start_procs] in E1; [inversion E1|].
      destruct (Parallel.get_next_job tasks wake_rank calc_rank continue_ always fuel q None) as [g q1].
      destruct g as [j| |path|]; try (inversion E1; fail). eauto. }
  set (p1' := with_counts p1 (p_free p1) (length (p_workers p1))).
  assert (A1' : PA tasks always sel p1').
  { destruct A1 as (A & B & C). split; [apply with_counts_PI; exact A|]. split; [apply with_counts_PO; exact B|exact C]. }
  assert (N1' : NS tasks p1') by (apply NS_with_counts; exact N1).
  destruct (deadlocked p1').
  { cbv beta iota zeta delta [fst snd]. apply Hfin; [| |apply M1; reflexivity].
    - destruct A1' as (A & B & C). split; [apply terminate_PI; exact A|]. split; [apply terminate_PO; exact B|apply terminate_J; exact C].
    - apply terminate_NS. exact N1'. }
  destruct (Parallel.main_loop tasks wake_rank calc_rank continue_ always proc fuel p1') as [e2 p2] eqn:E2.
  pose proof (main_loop_PA tasks wake_rank calc_rank continue_ always proc sel fuel _ _ _ A1' E2) as A2.
  destruct (main_loop_NS tasks wake_rank calc_rank continue_ always proc fuel _ _ _ N1' E2) as [N2 Hk2].
  destruct e2; cbv beta iota zeta delta [fst snd]; apply Hfin; auto; try (apply M0); try (apply M1; reflexivity).
  - destruct A2 as (A & B & C). split; [apply drain_PI; apply join_all_PI; exact A|].
    split; [apply drain_PO; apply join_all_PO; exact B|]. unfold PJ, drain. cbn [p_r with_results with_r emit r_d].
    apply join_all_J. exact C.
  - apply drain_NS. apply join_all_NS. exact N2.
  - intros pe x [<-|[]] Hx. simpl in Hx. inversion Hx; subst. apply Hk2. reflexivity.
Qed.

(* NOTHING OUTSIDE THE CLOSURE, parallel runners *)
Theorem parallel_closure_events fuel nprocs sched pe k :
  In pe (fst (run_parallel tasks wake_rank calc_rank continue_ always proc fuel nprocs sched sel)) ->
  pev_task pe = Some k -> needed tasks sel k.
Proof.
  destruct (parallel_final_PN fuel nprocs sched) as (p3 & mk & HA & HN & Hm & ->).
  intros Hin Hk. apply (known_needed p3 k HA). apply in_app_iff in Hin. destruct Hin as [Hin|Hin].
  - eapply (ns_log _ _ HN); eauto.
  - eapply Hm; eauto.
Qed.

Corollary parallel_closure_reports fuel nprocs sched e k :
  In (PE e) (fst (run_parallel tasks wake_rank calc_rank continue_ always proc fuel nprocs sched sel)) ->
  ev_task e = Some k -> needed tasks sel k.
Proof. intros Hin Hk. exact (parallel_closure_events fuel nprocs sched (PE e) k Hin Hk). Qed.

Corollary parallel_closure_starts fuel nprocs sched k w :
  In (PStart k w) (fst (run_parallel tasks wake_rank calc_rank continue_ always proc fuel nprocs sched sel)) ->
  needed tasks sel k.
Proof. intros Hin. exact (parallel_closure_events fuel nprocs sched (PStart k w) k Hin eq_refl). Qed.

End Closure.

Print Assumptions parallel_closure_events.
