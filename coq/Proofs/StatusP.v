(* StatusP.v -- lemmas about Model/Status.v: the checkers' rule, the loop over file_dep,
   the exact characterisation of an `up-to-date` verdict of get_status(get_log=False), the frame of
   get_status on the DB, and what save_success leaves in a record. *)
From Coq Require Import ZifyBool.
From DoitV Require Import Base Status.
Open Scope Z_scope.

(* ---------- small facts ---------- *)
Lemma ck_eqb_eq a b : ck_eqb a b = true <-> a = b.
Proof. destruct a, b; simpl; split; congruence. Qed.
Lemma ck_eqb_refl a : ck_eqb a a = true.
Proof. destruct a; reflexivity. Qed.
Lemma ck_eqb_neq a b : ck_eqb a b = false <-> a <> b.
Proof. destruct a, b; simpl; split; congruence. Qed.

Definition same_set (a b : list file) : Prop := forall x, In x a <-> In x b.
Lemma set_eqb_same a b : set_eqb a b = true <-> same_set a b.
Proof.
  unfold set_eqb, same_set. rewrite andb_true_iff, !forallb_forall. split.
  - intros [H1 H2] x; split; intro H; [apply H1 in H | apply H2 in H]; apply mem_In in H; auto.
  - intros H; split; intros x Hx; apply mem_In; apply H; auto.
Qed.
Lemma same_set_refl a : same_set a a.
Proof. intro x; tauto. Qed.
Lemma same_set_sym a b : same_set a b -> same_set b a.
Proof. intros H x; split; apply H. Qed.
Lemma same_set_nil a : same_set [] a -> a = [].
Proof. destruct a as [|x a]; auto. intros H. destruct (proj2 (H x)); simpl; auto. Qed.

Lemma is_nil_false {A} (l : list A) : is_nil l = false <-> l <> [].
Proof. destruct l; simpl; split; congruence. Qed.

Lemma rev_nil_iff {A} (l : list A) : rev l = [] <-> l = [].
Proof.
  split; intros H; [|subst; reflexivity].
  destruct l as [|a l]; auto. simpl in H. destruct (rev l); discriminate.
Qed.

Lemma getrec_some d t r : d t = Some r -> getrec d t = r.
Proof. unfold getrec. intros ->. reflexivity. Qed.
Lemma getrec_none d t : d t = None -> getrec d t = empty_rec.
Proof. unfold getrec. intros ->. reflexivity. Qed.
Lemma remove_same d t : remove d t t = None.
Proof. unfold remove. apply upd_same. Qed.
Lemma remove_other d t x : x <> t -> remove d t x = d x.
Proof. unfold remove. apply upd_other. Qed.

(* the type of a saved state *)
Definition typed (c : ck) (e : fstate) : bool :=
  match c, e with MD5, MD5state _ _ _ | TS, TSstate _ => true | _, _ => false end.

(* ---------- uptodate items ---------- *)
Lemma false_positions_nil l : forall i, false_positions l i = [] <-> ~ In (Some false) l.
Proof.
  induction l as [|x l IH]; intros i; simpl.
  - tauto.
  - destruct x as [[|]|].
    + rewrite IH. split; [intros H [H1|H1]; [discriminate|auto] | tauto].
    + split; [discriminate | intros H; exfalso; apply H; auto].
    + rewrite IH. split; [intros H [H1|H1]; [discriminate|auto] | tauto].
Qed.
Lemma evaluated_nil l : evaluated l = [] <-> forall b, ~ In (Some b) l.
Proof.
  induction l as [|x l IH]; simpl.
  - split; auto.
  - destruct x as [b|]; simpl.
    + split; [discriminate | intros H; exfalso; apply (H b); auto].
    + rewrite IH. split; intros H b; [intros [H1|H1]; [discriminate | apply (H b); auto] | intros H1; apply (H b); auto].
Qed.

(* ---------- the status after the loop over file_dep ([final_status]; fixL = the first reason decides) ---------- *)
Lemma final_status_uptodate v db bl ch ms : (db = true -> bl = Run) ->
  (final_status v db bl ch ms = UpToDate <-> ch = [] /\ ms = [] /\ bl = UpToDate).
Proof.
  intros H. unfold final_status.
  destruct (fixL v), db; try (rewrite H by reflexivity); destruct ch, ms; simpl;
    split; try discriminate; try (intros (H1 & H2 & H3); discriminate); tauto.
Qed.
(* nothing decided before the loop and no missing file (always so with get_log=False): the same in both versions *)
Lemma final_status_nomissing v bl ch : final_status v false bl ch [] = if negb (is_nil ch) then Run else bl.
Proof. unfold final_status. destruct (fixL v); reflexivity. Qed.
Lemma final_status_decided_nomissing v ch : final_status v true Run ch [] = Run.
Proof. unfold final_status. destruct (fixL v), ch; reflexivity. Qed.
Lemma final_status_not_crash v db bl ch ms : bl <> Crash -> final_status v db bl ch ms <> Crash.
Proof. intros H. unfold final_status. destruct (fixL v), db, ch, ms; simpl; auto; discriminate. Qed.
Lemma final_status_error v db bl ch ms : bl <> Error -> final_status v db bl ch ms = Error -> ms <> [].
Proof. intros H. unfold final_status. destruct (fixL v), db, ch, ms; simpl; auto; discriminate. Qed.
(* the repaired rule, as the order of the calls *)
Lemma final_status_fixL v db bl ch ms : fixL v = true ->
  final_status v db bl ch ms =
  if db then Run else if negb (is_nil ms) then Error else if negb (is_nil ch) then Run else bl.
Proof. intros E. unfold final_status. rewrite E. reflexivity. Qed.
Lemma final_status_legacy v db bl ch ms : fixL v = false ->
  final_status v db bl ch ms =
  if negb (is_nil ch) then Run else if negb (is_nil ms) then Error else bl.
Proof. intros E. unfold final_status. rewrite E. reflexivity. Qed.

Section StatusP.
Variable md5 : N -> N.

(* the documented rule of each checker, between what was seen then and what is there now *)
Definition unmodified (c : ck) (then_ now : meta) : Prop :=
  match c with
  | TS => mtime now = mtime then_
  | MD5 => mtime now = mtime then_ \/ (size now = size then_ /\ md5 (content now) = md5 (content then_))
  end.

Lemma unmodified_refl c st : unmodified c st st.
Proof. destruct c; simpl; auto. Qed.

Lemma check_modified_state_of c then_ now :
  check_modified md5 c now (state_of md5 c then_) = Some false <-> unmodified c then_ now.
Proof.
  destruct c; simpl.
  - destruct (Z.eqb_spec (mtime now) (mtime then_)) as [E|E].
    + split; auto.
    + destruct (Z.eqb_spec (size now) (size then_)) as [E2|E2]; simpl.
      * destruct (N.eqb_spec (md5 (content then_)) (md5 (content now))) as [E3|E3]; simpl.
        -- split; auto.
        -- split; [discriminate|]. intros [H|[_ H]]; [contradiction | congruence].
      * split; [discriminate|]. intros [H|[H _]]; contradiction.
  - destruct (Z.eqb_spec (mtime now) (mtime then_)) as [E|E]; simpl; split; congruence.
Qed.

Lemma typed_state_of c st : typed c (state_of md5 c st) = true.
Proof. destruct c; reflexivity. Qed.
Lemma typed_check_modified c st e : typed c e = true -> check_modified md5 c st e <> None.
Proof. destruct c, e; simpl; congruence. Qed.

(* ---------- one file dependency in the loop: the saved state against the file system [file_verdict],
   and, since fixC, membership in the saved 'deps:' list ---------- *)
Lemma outside_saved_deps_iff r f :
  outside_saved_deps r f = true <-> exists p, r_deps r = Some p /\ ~ In f p.
Proof.
  unfold outside_saved_deps. destruct (r_deps r) as [p|].
  - rewrite negb_true_iff. split.
    + intros E. exists p. split; auto. intros H. apply mem_In in H. congruence.
    + intros (p' & E & H). inversion E; subst. destruct (mem f p') eqn:Em; auto. apply mem_In in Em. contradiction.
  - split; [discriminate | intros (p & E & _); discriminate].
Qed.
Lemma dep_verdict_spec v c fs r f :
  dep_verdict md5 v c fs r f =
  if fixC v && outside_saved_deps r f
  then match file_verdict md5 c fs r f with FMissing => FMissing | _ => FChanged end
  else file_verdict md5 c fs r f.
Proof.
  unfold dep_verdict, file_verdict. destruct (fs f) as [st|]; [|destruct (fixC v && outside_saved_deps r f); reflexivity].
  destruct (r_saved r f) as [e|]; [|destruct (fixC v && outside_saved_deps r f); reflexivity].
  destruct (fixC v && outside_saved_deps r f); [|reflexivity].
  destruct (check_modified md5 c st e) as [[|]|]; reflexivity.
Qed.
Lemma dep_verdict_legacy v c fs r f : fixC v = false -> dep_verdict md5 v c fs r f = file_verdict md5 c fs r f.
Proof. intros E. rewrite dep_verdict_spec, E. reflexivity. Qed.
Lemma dep_verdict_inside v c fs r f :
  outside_saved_deps r f = false -> dep_verdict md5 v c fs r f = file_verdict md5 c fs r f.
Proof. intros E. rewrite dep_verdict_spec, E, andb_false_r. reflexivity. Qed.
Lemma dep_verdict_outside v c fs r f :
  fixC v = true -> outside_saved_deps r f = true -> fs f <> None -> dep_verdict md5 v c fs r f = FChanged.
Proof.
  intros E1 E2 Hf. rewrite dep_verdict_spec, E1, E2. simpl.
  unfold file_verdict. destruct (fs f) as [st|]; [|congruence].
  destruct (r_saved r f) as [e|]; [destruct (check_modified md5 c st e) as [[|]|]|]; reflexivity.
Qed.
Lemma dep_verdict_same v c fs r f :
  dep_verdict md5 v c fs r f = FSame <->
  file_verdict md5 c fs r f = FSame /\ fixC v && outside_saved_deps r f = false.
Proof.
  rewrite dep_verdict_spec. destruct (fixC v && outside_saved_deps r f).
  - split; [destruct (file_verdict md5 c fs r f); discriminate | intros [_ H]; discriminate].
  - tauto.
Qed.
Lemma dep_verdict_missing v c fs r f : dep_verdict md5 v c fs r f = FMissing <-> fs f = None.
Proof.
  unfold dep_verdict. destruct (fs f) as [st|]; [|tauto].
  destruct (r_saved r f) as [e|]; [destruct (fixC v && outside_saved_deps r f); [|destruct (check_modified md5 c st e) as [[|]|]]|];
    split; discriminate.
Qed.
(* what the loop lists: an existing dependency with no saved state, or outside the saved 'deps:' list
   (fixC), or modified according to the checker *)
Lemma dep_verdict_changed v c fs r f :
  dep_verdict md5 v c fs r f = FChanged <->
  exists st, fs f = Some st /\
    (r_saved r f = None \/
     (r_saved r f <> None /\ fixC v = true /\ outside_saved_deps r f = true) \/
     (fixC v && outside_saved_deps r f = false /\ exists e, r_saved r f = Some e /\ check_modified md5 c st e = Some true)).
Proof.
  unfold dep_verdict. destruct (fs f) as [st|].
  2: { split; [discriminate | intros (st & E & _); discriminate]. }
  destruct (r_saved r f) as [e|].
  2: { split; [intros _; exists st; auto | reflexivity]. }
  destruct (fixC v && outside_saved_deps r f) eqn:Eo.
  - split; [|reflexivity]. intros _. exists st. split; auto. right. left.
    apply andb_true_iff in Eo. destruct Eo. split; [discriminate|]. auto.
  - split.
    + intros H. exists st. split; auto. right. right. split; auto. exists e. split; auto.
      destruct (check_modified md5 c st e) as [[|]|]; auto; discriminate.
    + intros (st' & E & [H|[(_ & H1 & H2)|(_ & e' & H1 & H2)]]).
      * discriminate.
      * rewrite H1, H2 in Eo. discriminate.
      * inversion E; inversion H1; subst. rewrite H2. reflexivity.
Qed.

(* ---------- the loop over file_dep ---------- *)
Lemma check_files_done_nil_gen v c fs r gl deps : forall ch ms,
  check_files md5 v c fs r gl deps ch ms = FLDone [] [] <->
  ch = [] /\ ms = [] /\ Forall (fun f => dep_verdict md5 v c fs r f = FSame) deps.
Proof.
  induction deps as [|f deps IH]; intros ch ms; simpl.
  - split.
    + intros H. injection H as H1 H2. rewrite rev_nil_iff in H1, H2. subst. auto.
    + intros (-> & -> & _). reflexivity.
  - destruct (dep_verdict md5 v c fs r f) eqn:E.
    + destruct gl.
      * rewrite IH. split; [intros (_ & H & _); discriminate|]. intros (_ & _ & H). inversion H; congruence.
      * split; [discriminate|]. intros (_ & _ & H). inversion H; congruence.
    + rewrite IH. split; [intros (H & _); discriminate|]. intros (_ & _ & H). inversion H; congruence.
    + rewrite IH. split; intros (H1 & H2 & H3); repeat split; auto. inversion H3; auto.
    + split; [discriminate|]. intros (_ & _ & H). inversion H; congruence.
Qed.
Lemma check_files_done_nil v c fs r deps : forall ch ms,
  check_files md5 v c fs r false deps ch ms = FLDone [] [] <->
  ch = [] /\ ms = [] /\ Forall (fun f => dep_verdict md5 v c fs r f = FSame) deps.
Proof. apply check_files_done_nil_gen. Qed.

Lemma check_files_no_crash v c fs r gl deps :
  (forall f, In f deps -> dep_verdict md5 v c fs r f <> FCrash) ->
  forall ch ms, check_files md5 v c fs r gl deps ch ms <> FLCrash.
Proof.
  induction deps as [|f deps IH]; intros H ch ms; simpl; try discriminate.
  destruct (dep_verdict md5 v c fs r f) eqn:E.
  - destruct gl; [apply IH; intros; apply H; simpl; auto | discriminate].
  - apply IH; intros; apply H; simpl; auto.
  - apply IH; intros; apply H; simpl; auto.
  - exfalso. apply (H f); simpl; auto.
Qed.

Lemma check_files_no_error v c fs r gl deps :
  (forall f, In f deps -> dep_verdict md5 v c fs r f <> FMissing) ->
  forall ch ms, match check_files md5 v c fs r gl deps ch ms with
                | FLError _ => False | FLDone _ ms' => ms' = rev ms | FLCrash => True end.
Proof.
  induction deps as [|f deps IH]; intros H ch ms; simpl; auto.
  destruct (dep_verdict md5 v c fs r f) eqn:E; auto.
  - exfalso. apply (H f); simpl; auto.
  - apply IH; intros; apply H; simpl; auto.
  - apply IH; intros; apply H; simpl; auto.
Qed.

Lemma check_files_ext v c fs fs' r r' gl deps :
  (forall f, In f deps -> dep_verdict md5 v c fs r f = dep_verdict md5 v c fs' r' f) ->
  forall ch ms, check_files md5 v c fs r gl deps ch ms = check_files md5 v c fs' r' gl deps ch ms.
Proof.
  induction deps as [|f deps IH]; intros H ch ms; simpl; auto.
  rewrite <- (H f) by (simpl; auto).
  destruct (dep_verdict md5 v c fs r f); auto; try (apply IH; intros; apply H; simpl; auto).
  destruct gl; auto. apply IH; intros; apply H; simpl; auto.
Qed.

(* ---------- get_status ---------- *)
Definition items_ok (d : db) (t : name) (df : tdef) : Prop :=
  forall u, In u (uptodate df) -> eval_utd d t u <> Some false.
Definition some_dep (d : db) (t : name) (df : tdef) : Prop :=
  file_dep df <> [] \/ exists u b, In u (uptodate df) /\ eval_utd d t u = Some b.
Definition targets_ok (fs : fsys) (df : tdef) : Prop := forall x, In x (targets df) -> exists_ fs x = true.

Lemma items_ok_b d t df :
  is_nil (false_positions (map (eval_utd d t) (uptodate df)) 0) = true <-> items_ok d t df.
Proof.
  rewrite is_nil_true, false_positions_nil. unfold items_ok. rewrite in_map_iff. split.
  - intros H u Hu E. apply H. exists u; auto.
  - intros H [u [E Hu]]. apply (H u); auto.
Qed.
Lemma some_dep_b d t df :
  is_nil (file_dep df) && is_nil (evaluated (map (eval_utd d t) (uptodate df))) = false <-> some_dep d t df.
Proof.
  unfold some_dep. rewrite andb_false_iff, !is_nil_false. split.
  - intros [H|H]; auto. right.
    destruct (evaluated (map (eval_utd d t) (uptodate df))) eqn:E; [congruence|].
    assert (Hn : ~ (forall b, ~ In (Some b) (map (eval_utd d t) (uptodate df)))).
    { intros Hall. apply evaluated_nil in Hall. congruence. }
    clear -Hn. induction (uptodate df) as [|u us IH]; simpl in *.
    + exfalso. apply Hn. intros b [].
    + destruct (eval_utd d t u) as [b|] eqn:Eu.
      * exists u, b. auto.
      * destruct IH as [u' [b' [H1 H2]]].
        -- intros Hall. apply Hn. intros b [H|H]; [discriminate | apply (Hall b H)].
        -- exists u', b'. auto.
  - intros [H|[u [b [Hu E]]]]; auto. right. intros Hnil.
    apply (proj1 (evaluated_nil _) Hnil b). apply in_map_iff. exists u; auto.
Qed.
Lemma targets_ok_b fs df :
  is_nil (filter (fun x => negb (exists_ fs x)) (targets df)) = true <-> targets_ok fs df.
Proof.
  rewrite is_nil_true. unfold targets_ok. split.
  - intros H x Hx. destruct (exists_ fs x) eqn:E; auto.
    assert (Hin : In x (filter (fun x => negb (exists_ fs x)) (targets df))) by (apply filter_In; rewrite E; auto).
    rewrite H in Hin. destruct Hin.
  - intros H. induction (targets df) as [|x l IH]; simpl; auto.
    rewrite (H x) by (simpl; auto). simpl. apply IH. intros; apply H; simpl; auto.
Qed.

Definition ck_changed (c : ck) (r : rec) : bool :=
  match r_checker r with Some p => negb (ck_eqb p c) | None => false end.
Definition deps_changed (v : ver) (r : rec) (df : tdef) : bool :=
  match r_deps r with
  | None => false
  | Some [] => fixA v && negb (set_eqb [] (file_dep df))
  | Some p => negb (set_eqb p (file_dep df))
  end.

(* the DB after get_status: untouched, or without the task when another checker wrote its record *)
Lemma get_status_db v c fs d t df gl :
  g_db (get_status md5 v c fs d t df gl) = d \/
  (ck_changed c (getrec d t) = true /\ g_db (get_status md5 v c fs d t df gl) = remove d t).
Proof.
  unfold get_status, ck_changed.
  repeat match goal with
         | |- context [if ?b then _ else _] => destruct b eqn:?; simpl; auto
         | |- context [match check_files ?a ?v0 ?b ?c' ?d' ?e ?f ?g ?h with _ => _ end] => destruct (check_files a v0 b c' d' e f g h); simpl; auto
         | |- context [match r_checker ?r with _ => _ end] => destruct (r_checker r); simpl; auto
         end.
Qed.

(* exactly when get_status(get_log=False) answers up-to-date *)
Lemma get_status_uptodate_iff v c fs d t df :
  g_status (get_status md5 v c fs d t df false) = UpToDate <->
    items_ok d t df /\ some_dep d t df /\ targets_ok fs df /\
    ck_changed c (getrec d t) = false /\ deps_changed v (getrec d t) df = false /\
    Forall (fun f => dep_verdict md5 v c fs (getrec d t) f = FSame) (file_dep df).
Proof.
  rewrite <- items_ok_b, <- some_dep_b, <- targets_ok_b.
  unfold get_status. cbv zeta. fold (ck_changed c (getrec d t)).
  destruct (is_nil (false_positions (map (eval_utd d t) (uptodate df)) 0)) eqn:E1; simpl.
  2: { split; [discriminate | intros (H & _); discriminate]. }
  destruct (is_nil (file_dep df) && is_nil (evaluated (map (eval_utd d t) (uptodate df)))) eqn:E2; simpl.
  { split; [discriminate | intros (_ & H & _); discriminate]. }
  destruct (is_nil (filter (fun x => negb (exists_ fs x)) (targets df))) eqn:E3; simpl.
  2: { split; [discriminate | intros (_ & _ & H & _); discriminate]. }
  destruct (ck_changed c (getrec d t)) eqn:E4; simpl.
  { split; [discriminate | intros (_ & _ & _ & H & _); discriminate]. }
  fold (deps_changed v (getrec d t) df).
  destruct (check_files md5 v c fs (getrec d t) false (file_dep df) [] []) as [ch ms| |] eqn:E5; simpl.
  - rewrite final_status_uptodate by discriminate.
    destruct ch as [|x ch]; simpl.
    + destruct ms as [|y ms]; simpl.
      * apply check_files_done_nil in E5. destruct E5 as (_ & _ & E5).
        destruct (deps_changed v (getrec d t) df); simpl; split; try tauto.
        -- intros (_ & _ & H); discriminate.
        -- intros (_ & _ & _ & _ & H & _); discriminate.
      * split; [intros (_ & H & _); discriminate|]. intros (_ & _ & _ & _ & _ & H).
        assert (E6 : check_files md5 v c fs (getrec d t) false (file_dep df) [] [] = FLDone [] [])
          by (apply check_files_done_nil; auto). congruence.
    + split; [intros (H & _); discriminate|]. intros (_ & _ & _ & _ & _ & H).
      assert (E6 : check_files md5 v c fs (getrec d t) false (file_dep df) [] [] = FLDone [] [])
        by (apply check_files_done_nil; auto). congruence.
  - split; [discriminate|]. intros (_ & _ & _ & _ & _ & H).
    assert (E6 : check_files md5 v c fs (getrec d t) false (file_dep df) [] [] = FLDone [] [])
      by (apply check_files_done_nil; auto). congruence.
  - split; [discriminate|]. intros (_ & _ & _ & _ & _ & H).
    assert (E6 : check_files md5 v c fs (getrec d t) false (file_dep df) [] [] = FLDone [] [])
      by (apply check_files_done_nil; auto). congruence.
Qed.

(* the accumulate-all mode (get_log=True, what `info` and `list --status` use) answers up-to-date in
   exactly the same situations *)
Lemma get_status_log_uptodate_iff v c fs d t df :
  g_status (get_status md5 v c fs d t df true) = UpToDate <->
    items_ok d t df /\ some_dep d t df /\ targets_ok fs df /\
    ck_changed c (getrec d t) = false /\ deps_changed v (getrec d t) df = false /\
    Forall (fun f => dep_verdict md5 v c fs (getrec d t) f = FSame) (file_dep df).
Proof.
  rewrite <- items_ok_b, <- some_dep_b, <- targets_ok_b.
  unfold get_status. cbv zeta. fold (ck_changed c (getrec d t)). simpl.
  destruct (ck_changed c (getrec d t)) eqn:E4.
  { match goal with |- context [check_files ?a ?v0 ?b ?c' ?d' ?e ?f ?g ?h] => destruct (check_files a v0 b c' d' e f g h) as [ch ms| |] end; simpl.
    - rewrite final_status_uptodate by (intros _; rewrite ?orb_true_r; reflexivity).
      rewrite ?orb_true_r. simpl. split; [intros (_ & _ & H); discriminate | intros (_ & _ & _ & H & _); discriminate].
    - split; [discriminate|]. intros (_ & _ & _ & H & _); discriminate.
    - split; [discriminate|]. intros (_ & _ & _ & H & _); discriminate. }
  fold (deps_changed v (getrec d t) df).
  destruct (check_files md5 v c fs (getrec d t) true (file_dep df) [] []) as [ch ms| |] eqn:E5; simpl.
  - rewrite final_status_uptodate.
    2:{ destruct (is_nil (false_positions (map (eval_utd d t) (uptodate df)) 0)); simpl; auto;
        destruct (is_nil (file_dep df) && is_nil (evaluated (map (eval_utd d t) (uptodate df)))); simpl; auto;
        destruct (is_nil (filter (fun x => negb (exists_ fs x)) (targets df))); simpl; auto; discriminate. }
    destruct ch as [|x ch]; simpl.
    + destruct ms as [|y ms]; simpl.
      * apply check_files_done_nil_gen in E5. destruct E5 as (_ & _ & E5).
        destruct (is_nil (false_positions (map (eval_utd d t) (uptodate df)) 0)); simpl;
        destruct (is_nil (file_dep df) && is_nil (evaluated (map (eval_utd d t) (uptodate df)))); simpl;
        destruct (is_nil (filter (fun x => negb (exists_ fs x)) (targets df))); simpl;
        destruct (deps_changed v (getrec d t) df); simpl; split; try tauto;
          try (intros (_ & _ & H); discriminate); intros (H1 & H2 & H3 & _ & H5 & _); discriminate.
      * split; [intros (_ & H & _); discriminate|]. intros (_ & _ & _ & _ & _ & H).
        assert (E6 : check_files md5 v c fs (getrec d t) true (file_dep df) [] [] = FLDone [] [])
          by (apply check_files_done_nil_gen; auto). congruence.
    + split; [intros (H & _); discriminate|]. intros (_ & _ & _ & _ & _ & H).
      assert (E6 : check_files md5 v c fs (getrec d t) true (file_dep df) [] [] = FLDone [] [])
        by (apply check_files_done_nil_gen; auto). congruence.
  - split; [discriminate|]. intros (_ & _ & _ & _ & _ & H).
    assert (E6 : check_files md5 v c fs (getrec d t) true (file_dep df) [] [] = FLDone [] [])
      by (apply check_files_done_nil_gen; auto). congruence.
  - split; [discriminate|]. intros (_ & _ & _ & _ & _ & H).
    assert (E6 : check_files md5 v c fs (getrec d t) true (file_dep df) [] [] = FLDone [] [])
      by (apply check_files_done_nil_gen; auto). congruence.
Qed.

Lemma get_status_modes_agree_uptodate v c fs d t df :
  g_status (get_status md5 v c fs d t df true) = UpToDate <-> g_status (get_status md5 v c fs d t df false) = UpToDate.
Proof. rewrite get_status_log_uptodate_iff, get_status_uptodate_iff. tauto. Qed.

(* an uptodate item that is false, or nothing to depend on: `run`, whatever the DB says about files *)
Lemma get_status_never v c fs d t df :
  ~ (items_ok d t df /\ some_dep d t df) -> g_status (get_status md5 v c fs d t df false) = Run.
Proof.
  rewrite <- items_ok_b, <- some_dep_b. intros H.
  unfold get_status. cbv zeta.
  destruct (is_nil (false_positions (map (eval_utd d t) (uptodate df)) 0)) eqn:E1; simpl; auto.
  destruct (is_nil (file_dep df) && is_nil (evaluated (map (eval_utd d t) (uptodate df)))) eqn:E2; simpl; auto.
  exfalso. apply H. auto.
Qed.

(* the verdict looks at the DB only through the task's own record and the items' evaluation *)
Lemma get_status_uptodate_frame v c fs d d' t df :
  getrec d' t = getrec d t -> (forall u, In u (uptodate df) -> eval_utd d' t u = eval_utd d t u) ->
  (g_status (get_status md5 v c fs d' t df false) = UpToDate <-> g_status (get_status md5 v c fs d t df false) = UpToDate).
Proof.
  intros Hr Hu. rewrite !get_status_uptodate_iff, Hr.
  assert (H1 : items_ok d' t df <-> items_ok d t df).
  { unfold items_ok. split; intros H u Hin; [rewrite <- Hu | rewrite Hu]; auto. }
  assert (H2 : some_dep d' t df <-> some_dep d t df).
  { unfold some_dep. split; (intros [H|[u [b [Hin E]]]]; [auto | right; exists u, b; split; auto]);
      [rewrite <- Hu | rewrite Hu]; auto. }
  tauto.
Qed.

(* ---------- what save_success leaves in the record ---------- *)
(* [sn] : every version (mtime -> size, content) each file ever had (the ghost s_seen of History.v);
   the file system only shows versions that are in it *)
Definition seen_t := file -> Z -> option (Z * N).
Definition fs_seen (fs : fsys) (sn : seen_t) : Prop :=
  forall f st, fs f = Some st -> sn f (mtime st) = Some (size st, content st).
(* every md5 entry is the true (size, digest) of the version of its file that carried the recorded mtime *)
Definition rec_truthful (sn : seen_t) (r : rec) : Prop :=
  forall f m sz dg, r_saved r f = Some (MD5state m sz dg) -> exists c, sn f m = Some (sz, c) /\ md5 c = dg.
Lemma truthful_now fs sn r f m sz dg st :
  fs_seen fs sn -> rec_truthful sn r -> r_saved r f = Some (MD5state m sz dg) -> fs f = Some st -> mtime st = m ->
  size st = sz /\ md5 (content st) = dg.
Proof.
  intros Hb Ht He Hf Hm. destruct (Ht f m sz dg He) as (c & H1 & H2).
  apply Hb in Hf. rewrite Hm in Hf. rewrite Hf in H1. inversion H1; subst. auto.
Qed.
Definition entries_typed (c : ck) (r : rec) : Prop := forall f e, r_saved r f = Some e -> typed c e = true.
Definition rec_typed (r : rec) : Prop :=
  match r_checker r with Some c => entries_typed c r | None => forall f, r_saved r f = None end.
(* the entry of f is the state of f as it is in fs *)
Definition good (c : ck) (fs : fsys) (r : rec) (f : file) : Prop :=
  exists st, fs f = Some st /\ r_saved r f = Some (state_of md5 c st).

Lemma get_state_cases c st e :
  match e with Some x => typed c x = true | None => True end ->
  get_state md5 c st e = GSNew (state_of md5 c st) \/
  (get_state md5 c st e = GSKeep /\ exists sz dg, c = MD5 /\ e = Some (MD5state (mtime st) sz dg)).
Proof.
  destruct c; simpl; auto.
  destruct e as [[m sz dg|m]|]; simpl; auto; try discriminate.
  intros _. destruct (Z.eqb_spec m (mtime st)) as [->|E]; auto.
  right. split; auto. exists sz, dg. auto.
Qed.

Lemma save_files_spec c fs sn deps : forall r r' o,
  fs_seen fs sn -> rec_truthful sn r -> entries_typed c r ->
  save_files md5 c fs r deps = (r', o) ->
  (r_deps r' = r_deps r /\ r_checker r' = r_checker r /\ r_values r' = r_values r /\
   r_result r' = r_result r /\ r_ignore r' = r_ignore r) /\
  rec_truthful sn r' /\ entries_typed c r' /\
  (forall f, good c fs r f -> good c fs r' f) /\
  match o with
  | SaveDone => forall f, In f deps -> good c fs r' f
  | SaveMissing f => In f deps /\ fs f = None
  | SaveCrash => False
  end.
Proof.
  induction deps as [|f deps IH]; intros r r' o Hb Ht Hty H; simpl in H.
  - inversion H; subst. split; [repeat split; reflexivity|]. split; [exact Ht|]. split; [exact Hty|]. split; [auto|]. intros g [].
  - destruct (fs f) as [st|] eqn:Ef.
    2: { inversion H; subst. split; [repeat split; reflexivity|]. split; [exact Ht|]. split; [exact Hty|]. split; [auto|]. split; simpl; auto. }
    destruct (get_state_cases c st (r_saved r f)) as [E|[E [sz [dg [-> Ee]]]]].
    { destruct (r_saved r f) eqn:E'; auto. apply (Hty f); auto. }
    + rewrite E in H.
      set (r1 := set_saved r f (Some (state_of md5 c st))) in *.
      assert (Hs1 : forall g, r_saved r1 g = if N.eqb g f then Some (state_of md5 c st) else r_saved r g) by reflexivity.
      assert (Ht1 : rec_truthful sn r1).
      { intros g m sz dg Hg. rewrite Hs1 in Hg. destruct (N.eqb_spec g f) as [->|Hne]; [|apply (Ht g); auto].
        destruct c; simpl in Hg; [|discriminate]. inversion Hg; subst. exists (content st). split; [apply (Hb f); auto | reflexivity]. }
      assert (Hty1 : entries_typed c r1).
      { intros g e Hg. rewrite Hs1 in Hg. destruct (N.eqb_spec g f) as [->|Hne]; [|apply (Hty g); auto].
        inversion Hg; subst. apply typed_state_of. }
      assert (Hg1 : forall g, good c fs r g -> good c fs r1 g).
      { intros g [st' [H1 H2]]. exists st'. split; auto. rewrite Hs1. destruct (N.eqb_spec g f) as [->|Hne]; auto.
        rewrite Ef in H1. inversion H1; subst; auto. }
      assert (Hgf : good c fs r1 f).
      { exists st. split; auto. rewrite Hs1, N.eqb_refl. reflexivity. }
      destruct (IH r1 r' o Hb Ht1 Hty1 H) as (Hfr & Ht' & Hty' & Hmono & Ho).
      split; [exact Hfr|]. split; auto. split; auto. split; [intros g Hg; apply Hmono, Hg1, Hg|].
      destruct o; auto.
      * intros g [<-|Hin]; auto.
      * destruct Ho; split; simpl; auto.
    + rewrite E in H.
      assert (Hgf : good MD5 fs r f).
      { exists st. split; auto. rewrite Ee. simpl.
        destruct (truthful_now fs sn r f _ _ _ st Hb Ht Ee Ef eq_refl) as [-> ->]. reflexivity. }
      destruct (IH r r' o Hb Ht Hty H) as (Hfr & Ht' & Hty' & Hmono & Ho).
      split; [exact Hfr|]. split; auto. split; auto. split; auto.
      destruct o; auto.
      * intros g [<-|Hin]; auto.
      * destruct Ho; split; simpl; auto.
Qed.

Lemma save_success_rec_spec v c fs sn r0 deps vals res r' o :
  fixB v = true -> fs_seen fs sn -> rec_truthful sn r0 -> rec_typed r0 ->
  save_success_rec md5 v c fs r0 deps vals res = (r', o) ->
  rec_truthful sn r' /\ r_checker r' = Some c /\ entries_typed c r' /\
  match o with
  | SaveDone => r_deps r' = Some deps /\ r_values r' = vals /\ forall f, In f deps -> good c fs r' f
  | SaveMissing f => In f deps /\ fs f = None
  | SaveCrash => False
  end.
Proof.
  intros HB Hb Ht Hty H. unfold save_success_rec in H.
  set (r0' := wipe_if_other_checker v c r0) in *.
  assert (Hw : rec_truthful sn r0' /\ entries_typed c r0').
  { unfold r0', wipe_if_other_checker. unfold rec_typed in Hty. rewrite HB.
    destruct (r_checker r0) as [p|] eqn:Ep.
    - destruct (ck_eqb p c) eqn:Epc; simpl.
      + apply ck_eqb_eq in Epc. subst. auto.
      + split; intros f; intros; discriminate.
    - split; auto. intros f e He. rewrite Hty in He. discriminate. }
  destruct Hw as [Ht0 Hty0].
  match type of H with context [save_files md5 c fs ?r deps] => set (r3 := r) in * end.
  destruct (save_files md5 c fs r3 deps) as [r4 o4] eqn:E4.
  assert (Ht3 : rec_truthful sn r3) by (unfold r3; destruct res; exact Ht0).
  assert (Hty3 : entries_typed c r3) by (unfold r3; destruct res; exact Hty0).
  destruct (save_files_spec c fs sn deps r3 r4 o4 Hb Ht3 Hty3 E4) as ((F1 & F2 & F3 & _) & Ht4 & Hty4 & _ & Ho).
  assert (Hc3 : r_checker r3 = Some c) by (unfold r3; destruct res; reflexivity).
  assert (Hv3 : r_values r3 = vals) by (unfold r3; destruct res; reflexivity).
  clearbody r3.
  destruct o4; inversion H; subst; simpl.
  - split; [exact Ht4|]. split; [congruence|]. split; [exact Hty4|]. split; [reflexivity|]. split; [congruence|]. exact Ho.
  - split; [exact Ht4|]. split; [congruence|]. split; [exact Hty4|]. exact Ho.
  - destruct Ho.
Qed.

(* typing alone (no assumption on the file system): save_success keeps a record well-typed and does not crash *)
Lemma save_files_typed c fs deps : forall r r' o,
  entries_typed c r -> save_files md5 c fs r deps = (r', o) ->
  entries_typed c r' /\ r_checker r' = r_checker r /\
  match o with SaveDone => True | SaveMissing f => In f deps /\ fs f = None | SaveCrash => False end.
Proof.
  induction deps as [|f deps IH]; intros r r' o Hty H; simpl in H.
  - inversion H; subst. repeat split; auto.
  - destruct (fs f) as [st|] eqn:Ef.
    2: { inversion H; subst. repeat split; simpl; auto. }
    destruct (get_state_cases c st (r_saved r f)) as [E|[E _]].
    { destruct (r_saved r f) eqn:E'; auto. apply (Hty f); auto. }
    + rewrite E in H. apply IH in H.
      * destruct H as (H1 & H2 & H3). repeat split; auto. destruct o; auto. destruct H3; split; simpl; auto.
      * intros g e Hg. simpl in Hg. unfold upd in Hg. destruct (N.eqb g f); [|apply (Hty g); auto].
        inversion Hg; subst. apply typed_state_of.
    + rewrite E in H. apply IH in H; auto.
      destruct H as (H1 & H2 & H3). repeat split; auto. destruct o; auto. destruct H3; split; simpl; auto.
Qed.

Lemma save_success_rec_typed v c fs r0 deps vals res r' o :
  fixB v = true -> rec_typed r0 -> save_success_rec md5 v c fs r0 deps vals res = (r', o) ->
  rec_typed r' /\
  match o with SaveDone => True | SaveMissing f => In f deps /\ fs f = None | SaveCrash => False end.
Proof.
  intros HB Hty H. unfold save_success_rec in H.
  set (r0' := wipe_if_other_checker v c r0) in *.
  assert (Hty0 : entries_typed c r0').
  { unfold r0', wipe_if_other_checker. unfold rec_typed in Hty. rewrite HB.
    destruct (r_checker r0) as [p|] eqn:Ep.
    - destruct (ck_eqb p c) eqn:Epc; simpl.
      + apply ck_eqb_eq in Epc. subst. auto.
      + intros f; intros; discriminate.
    - intros f e He. rewrite Hty in He. discriminate. }
  match type of H with context [save_files md5 c fs ?r deps] => set (r3 := r) in * end.
  destruct (save_files md5 c fs r3 deps) as [r4 o4] eqn:E4.
  assert (Hty3 : entries_typed c r3) by (unfold r3; destruct res; exact Hty0).
  assert (Hc3 : r_checker r3 = Some c) by (unfold r3; destruct res; reflexivity).
  destruct (save_files_typed c fs deps r3 r4 o4 Hty3 E4) as (T1 & T2 & T3).
  clearbody r3.
  assert (Hr4 : rec_typed r4) by (unfold rec_typed; rewrite T2, Hc3; exact T1).
  destruct o4; inversion H; subst; split; auto.
Qed.

(* ---------- no TypeError on well-typed records ---------- *)
Lemma dep_verdict_typed v c fs r f :
  (forall e, r_saved r f = Some e -> typed c e = true) -> dep_verdict md5 v c fs r f <> FCrash.
Proof.
  intros H. unfold dep_verdict. destruct (fs f); [|discriminate].
  destruct (r_saved r f) as [e|] eqn:E; [|discriminate].
  destruct (fixC v && outside_saved_deps r f); [discriminate|].
  destruct (check_modified md5 c m e) as [[|]|] eqn:E2; try discriminate.
  exfalso. apply (typed_check_modified c m e); auto.
Qed.

Lemma get_status_crash v c fs d t df gl :
  g_status (get_status md5 v c fs d t df gl) = Crash ->
  check_files md5 v c fs (getrec (if ck_changed c (getrec d t) then remove d t else d) t) gl (file_dep df) [] [] = FLCrash.
Proof.
  intros H.
  destruct (check_files md5 v c fs (getrec (if ck_changed c (getrec d t) then remove d t else d) t) gl (file_dep df) [] []) eqn:E; auto;
    exfalso; revert H; unfold get_status; cbv zeta; fold (ck_changed c (getrec d t)); rewrite E;
    repeat (match goal with |- context [if ?b then _ else _] => destruct b end; simpl);
    first [discriminate | apply final_status_not_crash; discriminate].
Qed.

Lemma getrec_remove d t : getrec (remove d t) t = empty_rec.
Proof. unfold getrec. rewrite remove_same. reflexivity. Qed.

Lemma get_status_no_crash v c fs d t df gl :
  rec_typed (getrec d t) -> g_status (get_status md5 v c fs d t df gl) <> Crash.
Proof.
  intros Hty H. apply get_status_crash in H. revert H. apply check_files_no_crash.
  intros f _. apply dep_verdict_typed. intros e He.
  unfold ck_changed in He. unfold rec_typed in Hty.
  destruct (r_checker (getrec d t)) as [p|] eqn:Ep.
  - destruct (ck_eqb p c) eqn:Epc; simpl in He.
    + apply ck_eqb_eq in Epc. subst. apply (Hty f); auto.
    + rewrite getrec_remove in He. discriminate.
  - rewrite Hty in He. discriminate.
Qed.

(* ---------- the verdict depends on the file system only through existence and the per-file verdicts ---------- *)
Lemma get_status_fs_ext v c fs fs' d t df gl :
  (forall x, In x (targets df) -> exists_ fs' x = exists_ fs x) ->
  (forall f, In f (file_dep df) ->
     dep_verdict md5 v c fs' (getrec (if ck_changed c (getrec d t) then remove d t else d) t) f =
     dep_verdict md5 v c fs (getrec (if ck_changed c (getrec d t) then remove d t else d) t) f) ->
  get_status md5 v c fs' d t df gl = get_status md5 v c fs d t df gl.
Proof.
  intros Ht Hf. unfold get_status. cbv zeta. fold (ck_changed c (getrec d t)).
  assert (E1 : filter (fun x => negb (exists_ fs' x)) (targets df) = filter (fun x => negb (exists_ fs x)) (targets df)).
  { clear Hf. induction (targets df) as [|x l IH]; simpl; auto.
    rewrite (Ht x) by (simpl; auto). rewrite IH; auto. intros; apply Ht; simpl; auto. }
  rewrite E1.
  rewrite (check_files_ext v c fs' fs _ _ gl (file_dep df) Hf). reflexivity.
Qed.

(* ---------- `error` means a missing file dependency ---------- *)
Lemma check_files_nolog v c fs r deps : forall ch ms,
  match check_files md5 v c fs r false deps ch ms with
  | FLError f => In f deps /\ fs f = None
  | FLDone _ ms' => ms' = rev ms
  | FLCrash => True
  end.
Proof.
  induction deps as [|f deps IH]; intros ch ms; simpl; auto.
  destruct (dep_verdict md5 v c fs r f) eqn:E; auto.
  - split; auto. unfold dep_verdict in E. destruct (fs f); auto.
    destruct (r_saved r f); [destruct (fixC v && outside_saved_deps r f); [|destruct (check_modified md5 c m f0) as [[|]|]]|]; discriminate.
  - specialize (IH (f :: ch) ms). destruct (check_files md5 v c fs r false deps (f :: ch) ms); auto. tauto.
  - specialize (IH ch ms). destruct (check_files md5 v c fs r false deps ch ms); auto. tauto.
Qed.

Lemma get_status_error v c fs d t df :
  g_status (get_status md5 v c fs d t df false) = Error -> exists f, In f (file_dep df) /\ fs f = None.
Proof.
  intros H.
  pose proof (check_files_nolog v c fs (getrec (if ck_changed c (getrec d t) then remove d t else d) t) (file_dep df) [] []) as Hc.
  destruct (check_files md5 v c fs (getrec (if ck_changed c (getrec d t) then remove d t else d) t) false (file_dep df) [] []) as [ch ms|f|] eqn:E.
  - exfalso. simpl in Hc. subst ms. revert H. unfold get_status; cbv zeta; fold (ck_changed c (getrec d t)); rewrite E.
    repeat (match goal with |- context [if ?b then _ else _] => destruct b end; simpl);
    first [discriminate | intros H; apply final_status_error in H; [apply H; reflexivity | discriminate]].
  - exists f. exact Hc.
  - exfalso. revert H. unfold get_status; cbv zeta; fold (ck_changed c (getrec d t)); rewrite E.
    repeat (match goal with |- context [if ?b then _ else _] => destruct b end; simpl); discriminate.
Qed.

(* an up-to-date verdict never comes with a removal *)
Lemma get_status_uptodate_db v c fs d t df :
  g_status (get_status md5 v c fs d t df false) = UpToDate -> g_db (get_status md5 v c fs d t df false) = d.
Proof.
  intros H. destruct (get_status_db v c fs d t df false) as [E|[E _]]; auto.
  apply get_status_uptodate_iff in H. destruct H as (_ & _ & _ & H & _). congruence.
Qed.

(* ---------- an unchanged dep set: the loop's verdicts are the state comparisons [file_verdict] ---------- *)
Lemma deps_unchanged_inside v r df :
  fixA v = true -> deps_changed v r df = false ->
  forall f, In f (file_dep df) -> outside_saved_deps r f = false.
Proof.
  intros HA H f Hf. unfold deps_changed in H. unfold outside_saved_deps.
  destruct (r_deps r) as [p|]; auto.
  assert (E : set_eqb p (file_dep df) = true).
  { destruct p; [rewrite HA in H; simpl in H|]; apply negb_false_iff in H; exact H. }
  apply set_eqb_same in E. apply negb_false_iff. apply mem_In. apply E. exact Hf.
Qed.
Lemma saved_deps_inside r df :
  r_deps r = Some (file_dep df) -> forall f, In f (file_dep df) -> outside_saved_deps r f = false.
Proof.
  intros E f Hf. unfold outside_saved_deps. rewrite E. apply negb_false_iff. apply mem_In. exact Hf.
Qed.
Lemma no_saved_deps_inside r f : r_deps r = None -> outside_saved_deps r f = false.
Proof. intros E. unfold outside_saved_deps. rewrite E. reflexivity. Qed.
Lemma Forall_verdicts_inside v c fs r (deps : list file) :
  (forall f, In f deps -> outside_saved_deps r f = false) ->
  (Forall (fun f => dep_verdict md5 v c fs r f = FSame) deps <-> Forall (fun f => file_verdict md5 c fs r f = FSame) deps).
Proof.
  intros H. rewrite !Forall_forall. split; intros H1 f Hf.
  - rewrite <- (dep_verdict_inside v); auto.
  - rewrite dep_verdict_inside; auto.
Qed.
Lemma uptodate_verdicts v c fs r df :
  fixA v = true -> deps_changed v r df = false ->
  (Forall (fun f => dep_verdict md5 v c fs r f = FSame) (file_dep df) <->
   Forall (fun f => file_verdict md5 c fs r f = FSame) (file_dep df)).
Proof. intros HA H. apply Forall_verdicts_inside. apply (deps_unchanged_inside v); auto. Qed.

Lemma get_status_uptodate_iff_fv v c fs d t df :
  fixA v = true ->
  (g_status (get_status md5 v c fs d t df false) = UpToDate <->
    items_ok d t df /\ some_dep d t df /\ targets_ok fs df /\
    ck_changed c (getrec d t) = false /\ deps_changed v (getrec d t) df = false /\
    Forall (fun f => file_verdict md5 c fs (getrec d t) f = FSame) (file_dep df)).
Proof.
  intros HA. rewrite get_status_uptodate_iff.
  split; intros (H1 & H2 & H3 & H4 & H5 & H6); repeat split; auto; apply (uptodate_verdicts v c fs _ df HA H5); auto.
Qed.
Lemma get_status_log_uptodate_iff_fv v c fs d t df :
  fixA v = true ->
  (g_status (get_status md5 v c fs d t df true) = UpToDate <->
    items_ok d t df /\ some_dep d t df /\ targets_ok fs df /\
    ck_changed c (getrec d t) = false /\ deps_changed v (getrec d t) df = false /\
    Forall (fun f => file_verdict md5 c fs (getrec d t) f = FSame) (file_dep df)).
Proof.
  intros HA. rewrite get_status_log_uptodate_iff.
  split; intros (H1 & H2 & H3 & H4 & H5 & H6); repeat split; auto; apply (uptodate_verdicts v c fs _ df HA H5); auto.
Qed.

(* ---------- the two modes of get_status (get_log=True: `info`; get_log=False: `run`, `list --status`) ---------- *)
Definition changed_b (v : ver) (c : ck) (fs : fsys) (r : rec) (f : file) : bool :=
  match dep_verdict md5 v c fs r f with FChanged => true | _ => false end.
Definition missing_b (v : ver) (c : ck) (fs : fsys) (r : rec) (f : file) : bool :=
  match dep_verdict md5 v c fs r f with FMissing => true | _ => false end.

(* get_log=True never stops in the loop: TypeError, or every changed and every missing dependency *)
Lemma check_files_log_form v c fs r deps : forall ch ms,
  check_files md5 v c fs r true deps ch ms = FLCrash \/
  check_files md5 v c fs r true deps ch ms =
    FLDone (rev ch ++ filter (changed_b v c fs r) deps) (rev ms ++ filter (missing_b v c fs r) deps).
Proof.
  induction deps as [|f deps IH]; intros ch ms; simpl.
  - right. rewrite !app_nil_r. reflexivity.
  - unfold changed_b, missing_b. destruct (dep_verdict md5 v c fs r f) eqn:E; auto.
    + destruct (IH ch (f :: ms)) as [H|H]; [left; auto|right]. rewrite H. simpl. rewrite <- !app_assoc. reflexivity.
    + destruct (IH (f :: ch) ms) as [H|H]; [left; auto|right]. rewrite H. simpl. rewrite <- !app_assoc. reflexivity.
Qed.
(* get_log=False on the same input, when get_log=True does not meet a TypeError: it stops at the first missing
   dependency, and otherwise lists the same changed ones *)
Lemma check_files_nolog_form v c fs r deps : forall ch ms,
  check_files md5 v c fs r true deps ch ms <> FLCrash ->
  check_files md5 v c fs r false deps ch ms =
    match filter (missing_b v c fs r) deps with
    | [] => FLDone (rev ch ++ filter (changed_b v c fs r) deps) (rev ms)
    | f :: _ => FLError f
    end.
Proof.
  induction deps as [|f deps IH]; intros ch ms; simpl.
  - intros _. rewrite app_nil_r. reflexivity.
  - unfold changed_b, missing_b. destruct (dep_verdict md5 v c fs r f) eqn:E; intros H.
    + reflexivity.
    + rewrite (IH (f :: ch) ms H). fold (missing_b v c fs r). fold (changed_b v c fs r).
      destruct (filter (missing_b v c fs r) deps); [|reflexivity]. simpl. rewrite <- app_assoc. reflexivity.
    + apply (IH ch ms H).
    + congruence.
Qed.
(* a TypeError with get_log=False is one with get_log=True as well (the converse fails: get_log=True goes on
   where get_log=False has stopped) *)
Lemma check_files_crash_modes v c fs r deps ch ms :
  check_files md5 v c fs r false deps ch ms = FLCrash -> check_files md5 v c fs r true deps ch ms = FLCrash.
Proof.
  intros H. destruct (check_files md5 v c fs r true deps ch ms) eqn:E; auto; exfalso;
    rewrite check_files_nolog_form in H by congruence;
    destruct (filter (missing_b v c fs r) deps); discriminate.
Qed.

Lemma get_status_crash_iff v c fs d t df :
  g_status (get_status md5 v c fs d t df true) = Crash <->
  check_files md5 v c fs (getrec (if ck_changed c (getrec d t) then remove d t else d) t) true (file_dep df) [] [] = FLCrash.
Proof.
  split; [apply get_status_crash|]. intros E.
  unfold get_status; cbv zeta; fold (ck_changed c (getrec d t)). simpl. rewrite E. reflexivity.
Qed.

Lemma get_status_crash_modes v c fs d t df :
  g_status (get_status md5 v c fs d t df false) = Crash -> g_status (get_status md5 v c fs d t df true) = Crash.
Proof. intros H. apply get_status_crash_iff. apply check_files_crash_modes. apply get_status_crash in H. exact H. Qed.

(* THE REPAIRED RULE (fixL): whenever get_log=True does not end in the TypeError, it answers exactly what
   get_log=False answers -- up-to-date, run or error; no hypothesis on the files *)
Lemma get_status_modes_agree_fixL v c fs d t df :
  fixL v = true ->
  g_status (get_status md5 v c fs d t df true) <> Crash ->
  g_status (get_status md5 v c fs d t df true) = g_status (get_status md5 v c fs d t df false).
Proof.
  intros HL Hnc.
  assert (Hc : check_files md5 v c fs (getrec (if ck_changed c (getrec d t) then remove d t else d) t) true (file_dep df) [] [] <> FLCrash).
  { intros E. apply Hnc. apply get_status_crash_iff. exact E. }
  clear Hnc.
  pose proof (check_files_nolog_form v c fs _ (file_dep df) [] [] Hc) as Hn.
  destruct (check_files_log_form v c fs (getrec (if ck_changed c (getrec d t) then remove d t else d) t) (file_dep df) [] []) as [Hl|Hl]; [congruence|].
  clear Hc. simpl in Hn, Hl.
  unfold get_status. cbv zeta. fold (ck_changed c (getrec d t)). simpl.
  set (d1 := if ck_changed c (getrec d t) then remove d t else d) in *.
  rewrite Hl.
  destruct (is_nil (false_positions (map (eval_utd d t) (uptodate df)) 0)) eqn:E1; simpl;
    [|rewrite final_status_fixL by exact HL; reflexivity].
  destruct (is_nil (file_dep df) && is_nil (evaluated (map (eval_utd d t) (uptodate df)))) eqn:E2; simpl;
    [rewrite final_status_fixL by exact HL; reflexivity|].
  destruct (is_nil (filter (fun x => negb (exists_ fs x)) (targets df))) eqn:E3; simpl;
    [|rewrite final_status_fixL by exact HL; reflexivity].
  destruct (ck_changed c (getrec d t)) eqn:E4; simpl;
    [rewrite final_status_fixL by exact HL; reflexivity|].
  rewrite Hn. rewrite final_status_fixL by exact HL. simpl.
  destruct (filter (missing_b v c fs (getrec d1 t)) (file_dep df)) as [|f ms]; simpl; [|reflexivity].
  rewrite final_status_fixL by exact HL. reflexivity.
Qed.

(* ... in particular on a well-typed record (every state reached by a history, HistoryP), unconditionally *)
Lemma get_status_modes_agree_typed v c fs d t df :
  fixL v = true -> rec_typed (getrec d t) ->
  g_status (get_status md5 v c fs d t df true) = g_status (get_status md5 v c fs d t df false).
Proof. intros HL Hty. apply get_status_modes_agree_fixL; auto. apply get_status_no_crash; auto. Qed.

(* the repair does not reach `run` / `list --status`: with get_log=False the flag is irrelevant *)
Definition with_fixL (v : ver) (b : bool) : ver := {| fixA := fixA v; fixB := fixB v; fixC := fixC v; fixL := b |}.
Lemma check_files_with_fixL v b c fs r gl deps : forall ch ms,
  check_files md5 (with_fixL v b) c fs r gl deps ch ms = check_files md5 v c fs r gl deps ch ms.
Proof.
  induction deps as [|f deps IH]; intros ch ms; [reflexivity|].
  cbn [check_files]. change (dep_verdict md5 (with_fixL v b) c fs r f) with (dep_verdict md5 v c fs r f).
  destruct (dep_verdict md5 v c fs r f); auto; try (destruct gl; auto).
Qed.
Lemma get_status_nolog_fixL_irrelevant v b c fs d t df :
  get_status md5 (with_fixL v b) c fs d t df false = get_status md5 v c fs d t df false.
Proof.
  unfold get_status. cbv zeta. fold (ck_changed c (getrec d t)). simpl.
  destruct (is_nil (false_positions (map (eval_utd d t) (uptodate df)) 0)) eqn:E1; simpl; auto.
  destruct (is_nil (file_dep df) && is_nil (evaluated (map (eval_utd d t) (uptodate df)))) eqn:E2; simpl; auto.
  destruct (is_nil (filter (fun x => negb (exists_ fs x)) (targets df))) eqn:E3; simpl; auto.
  destruct (ck_changed c (getrec d t)) eqn:E4; simpl; auto.
  rewrite check_files_with_fixL.
  pose proof (check_files_nolog v c fs (getrec d t) (file_dep df) [] []) as Hc.
  destruct (check_files md5 v c fs (getrec d t) false (file_dep df) [] []) as [ch ms|f|]; auto.
  simpl in Hc. subst ms. rewrite !final_status_nomissing. reflexivity.
Qed.

End StatusP.
