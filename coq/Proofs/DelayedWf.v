(* The protocol hypothesis [wf_script] of the any-schedule theorems of Properties/C15.v, evaluated on the scripts
   RECORDED from real parallel runs (harness/c15.py): the model's answer to the script followed by the verdict of
   wf_script on it.  Definitions only. *)
From Coq Require Import List ZArith NArith.
From DoitV Require Import Base Dispatch Runner Delayed DelayedRunP.
Import ListNotations.

Definition run_script_wf_cmd v sv creators wake_rank calc_rank cont always base_of is_rx rmatch rx_name auto
                   (fuel : nat) (d : dst) (order : list name) (sel : option (list name)) (ops : list sop) (nmax : nat) : list Z :=
  let names := map N.of_nat (seq 0 (S nmax)) in
  (run_script_cmd v sv creators wake_rank calc_rank cont always base_of is_rx rmatch rx_name auto fuel d order sel ops nmax ++
   match process_sel sv base_of is_rx rmatch rx_name auto d order sel with
   | None => []
   | Some d0 => [-3; zb (wf_script v names creators wake_rank calc_rank cont always fuel ops d0)]
   end)%Z.
