(* DelayedFrameP.v -- frame property of Model/Delayed.v: a selection and a run (serial runner, or any script of runner
   calls) write a DelayedLoader object only if some task refers to it.  Consequence (several runs in one process): the
   object stored on the creator function is never written, so every load_tasks hands out fresh copies. *)
From DoitV Require Import Base Dispatch Runner Delayed DelayedP.
From Coq Require Import ZifyBool.
Open Scope N_scope.

(* no task object -- table entry or the object an ExecNode holds -- refers to loader object A, whose content is L *)
Record fr (A : name) (L : loader) (d : dst) : Prop := {
  f_tab : forall k, dt_loader (tab_get d k) <> Some A;
  f_nl : forall k, nl d k <> Some A;
  f_ld : q_ld d A = L }.
Definition wfr (A : name) (L : loader) (d : dst) : Prop := q_ld d A = L.

Lemma fr_wfr A L d : fr A L d -> wfr A L d.
Proof. intros []. assumption. Qed.

Lemma fr_keepr A L d d' : keepr d d' -> fr A L d -> fr A L d'.
Proof.
  intros [] []. constructor.
  - intro k. rewrite (tab_get_eq d d') by auto. auto.
  - intro k. unfold nl. rewrite r_task. apply f_nl0.
  - rewrite r_ld. assumption.
Qed.
Lemma fr_keep A L d d' : keep d d' -> fr A L d -> fr A L d'.
Proof. intro H. apply fr_keepr, keep_keepr, H. Qed.
Lemma wfr_keepr A L d d' : keepr d d' -> wfr A L d -> wfr A L d'.
Proof. intros [] H. unfold wfr. rewrite r_ld. exact H. Qed.

Lemma referenced_false keys d A : (forall k, dt_loader (tab_get d k) <> Some A) -> referenced keys d A = false.
Proof.
  intro H. unfold referenced. destruct (existsb _ keys) eqn:E; auto.
  apply existsb_exists in E. destruct E as (k & _ & Hk).
  destruct (dt_loader (tab_get d k)) as [T'|] eqn:El; [|discriminate].
  apply N.eqb_eq in Hk. subst. exfalso. eapply H; eauto.
Qed.

Lemma create_part_frame v keys creators d me T d2 A :
  create_part v keys creators d me T = Some d2 -> (forall k, dt_loader (tab_get d k) <> Some A) -> q_ld d2 A = q_ld d A.
Proof.
  unfold create_part. intros H U.
  destruct (loader_read v d me T) as [T'|]; [|inversion H; reflexivity].
  destruct (l_created (q_ld d T')); [inversion H; reflexivity|].
  destruct (add_targets _ _) as [tg'|]; [|discriminate].
  inversion H; subst; clear H.
  match goal with |- context [install ?dd ?nn] => destruct (install_spec nn dd) as (H1 & H2 & H3 & H4 & H5 & H6 & H7); set (dI := install dd nn) in * end.
  assert (UI : forall k, dt_loader (tab_get dI k) <> Some A).
  { intros k Hk. apply (tab_shrinks_loader _ _ _ _ H7) in Hk. exact (U k Hk). }
  assert (HI : q_ld dI A = q_ld d A) by (rewrite H2; reflexivity).
  destruct v; try exact HI;
    (unfold mark_creator; cbn [q_ld set_lds]; rewrite (referenced_false keys dI A UI), andb_false_r; exact HI).
Qed.

Lemma load_branch_ld v keys creators d me T A :
  A <> T -> (forall k, dt_loader (tab_get d k) <> Some A) ->
  match load_branch v keys creators d me T with
  | LReset d' | LInvalidTask d' | LNotFound _ d' | LKeyError d' => q_ld d' A = q_ld d A end.
Proof.
  intros Hne U. unfold load_branch.
  destruct (create_part v keys creators d me T) as [d2|] eqn:Ec; [|reflexivity].
  pose proof (create_part_frame _ _ _ _ _ _ _ A Ec U) as H2.
  assert (Tail : forall d3 fdep deps1, q_ld d3 = q_ld d2 ->
    let d4 := set_ld d3 T (ld_created (q_ld d3 T)) in
    let this' := dt_with (dn_task (node_of d2 me)) deps1 fdep None in
    let d5 := match dt_loader (tab_get d4 me) with Some _ => set_tab d4 me this' | None => d4 end in
    q_ld (set_node d5 me (nd_reset (node_of d5 me) (tab_get d5 me))) A = q_ld d A).
  { intros d3 fdep deps1 L3 d4 this' d5. cbn [q_ld set_node].
    assert (Hq : q_ld d5 = upd (q_ld d3) T (ld_created (q_ld d3 T))).
    { unfold d5. destruct (dt_loader (tab_get d4 me)); reflexivity. }
    rewrite Hq, L3. rewrite upd_other by exact Hne. exact H2. }
  destruct (q_rxg d2 me) as [g|].
  - destruct (q_tg d2 (g_target (q_grp d2 g))).
    + apply (Tail (set_grp d2 g _)). reflexivity.
    + destruct (l_basename (q_ld d2 T)) as [b|]; [|exact H2].
      destruct (mem b (g_tasks (q_grp d2 g))); [|exact H2].
      destruct (is_nil (rem b (g_tasks (q_grp d2 g)))); [exact H2|].
      apply (Tail (set_grp d2 g _)). reflexivity.
  - apply (Tail d2). reflexivity.
Qed.

Section Frame.
Variable v : variant.
Variable keys : list name.
Variable creators : N -> name -> list (name * dtask).
Variable wake_rank : name -> name -> N.
Variable calc_rank : name -> N.
Variable A : name.
Variable L : loader.
Notation gen_step := (gen_step v keys creators calc_rank).
Notation disp_run := (disp_run v keys creators calc_rank).
Notation disp_send := (disp_send v keys creators wake_rank calc_rank).
Notation load_branch := (load_branch v keys creators).
Notation fr := (fr A L).
Notation wfr := (wfr A L).

Lemma fr_reset d me T d' : fr d -> nl d me = Some T -> load_branch d me T = LReset d' -> fr d'.
Proof.
  intros F Hnl H.
  assert (Hne : A <> T) by (intro; subst; exact (f_nl _ _ _ F me Hnl)).
  pose proof (load_branch_ld v keys creators d me T A Hne (f_tab _ _ _ F)) as Hld. rewrite H in Hld.
  destruct (load_branch_reset _ _ _ _ _ _ _ H) as [d5 []].
  constructor.
  - intros k Hk. subst d'. change (tab_get (set_node d5 me _) k) with (tab_get d5 k) in Hk.
    apply (tab_shrinks_loader _ _ _ _ rs_tab) in Hk. exact (f_tab _ _ _ F k Hk).
  - intros k Hk. subst d'. unfold nl in Hk. rewrite node_of_set_node in Hk.
    destruct (N.eqb_spec k me) as [Hkm|Hn].
    + cbn [dn_task nd_reset] in Hk. congruence.
    + apply (nl_after_shrink d d5 k A rs_nodes rs_tab) in Hk. exact (f_nl _ _ _ F k Hk).
  - rewrite Hld. apply (f_ld _ _ _ F).
Qed.

Lemma gen_step_fr fuel : forall d me, fr d ->
  wfr (snd (gen_step fuel d me)) /\ (y_ok (fst (gen_step fuel d me)) = true -> fr (snd (gen_step fuel d me))).
Proof.
  induction fuel as [|fuel IH]; intros d me I; cbn [Delayed.gen_step].
  { simpl. split; auto. apply fr_wfr; auto. }
  assert (K : forall d1, keep d d1 -> fr d1) by (intros d1 H; eapply fr_keep; eauto).
  assert (Stop : forall (y : gyield) d1, fr d1 -> wfr (snd (y, d1)) /\ (y_ok (fst (y, d1)) = true -> fr (snd (y, d1))))
    by (intros y d1 H; simpl; split; auto; apply fr_wfr; auto).
  assert (GN : forall c d1 g, gen_node d (Some (dn_anc (node_of d me))) c = (g, d1) -> keep d d1).
  { intros c d1 g E. change d1 with (snd (g, d1)). rewrite <- E. apply keep_gen_node. }
  destruct (dn_pc (node_of d me)) as [| |rest calcs tks|rest tks| | | |rest| |] eqn:Epc.
  - (* QStart *)
    match goal with |- context [if ?c then _ else _] => destruct c end.
    + apply Stop. apply K. apply keep_set_pc.
    + apply IH. apply K. apply keep_set_pc.
  - (* QLoop *) apply IH. apply K. apply keep_set_node. reflexivity.
  - (* QCalc *)
    destruct rest as [|c r].
    + apply IH. apply K. eapply keep_trans; [apply keep_add_wait_run | apply keep_set_pc].
    + destruct (gen_node d (Some (dn_anc (node_of d me))) c) as [g d1] eqn:Eg.
      pose proof (GN _ _ _ Eg) as Hk.
      destruct g.
      * apply Stop. apply K. eapply keep_trans; [exact Hk | apply keep_set_pc].
      * apply IH. apply K. eapply keep_trans; [exact Hk | apply keep_set_pc].
      * apply Stop. auto.
  - (* QTask *)
    destruct rest as [|c r].
    + set (d1 := add_wait_run d me tks false).
      assert (I1 : fr d1) by (apply K; apply keep_add_wait_run).
      destruct (negb (is_nil (dn_pcl (node_of d1 me))) || negb (is_nil (dn_pt (node_of d1 me)))).
      * apply IH. eapply fr_keep; [apply keep_set_pc | exact I1].
      * destruct (negb (is_nil (dn_wrun (node_of d1 me))) || negb (is_nil (dn_wcalc (node_of d1 me)))).
        -- apply Stop. eapply fr_keep; [apply keep_set_pc | exact I1].
        -- destruct (dt_loader (dn_task (node_of d1 me))) as [T|] eqn:El.
           ++ assert (Hne : A <> T) by (intro; subst; exact (f_nl _ _ _ I1 me El)).
              pose proof (load_branch_ld v keys creators d1 me T A Hne (f_tab _ _ _ I1)) as He.
              destruct (load_branch d1 me T) as [d2|d2|f d2|d2] eqn:Elb.
              ** apply IH. eapply fr_reset; eauto.
              ** simpl. split; [|discriminate]. hnf. rewrite He. apply (f_ld _ _ _ I1).
              ** simpl. split; [|discriminate]. hnf. rewrite He. apply (f_ld _ _ _ I1).
              ** simpl. split; [|discriminate]. hnf. rewrite He. apply (f_ld _ _ _ I1).
           ++ apply IH. eapply fr_keep; [apply keep_set_pc | exact I1].
    + destruct (gen_node d (Some (dn_anc (node_of d me))) c) as [g d1] eqn:Eg.
      pose proof (GN _ _ _ Eg) as Hk.
      destruct g.
      * apply Stop. apply K. eapply keep_trans; [exact Hk | apply keep_set_pc].
      * apply IH. apply K. eapply keep_trans; [exact Hk | apply keep_set_pc].
      * apply Stop. auto.
  - (* QSelf *) apply Stop. apply K. apply keep_set_pc.
  - (* QAfterSelf *)
    destruct (is_nil (t_setup (dt (dn_task (node_of d me))))).
    + apply Stop. apply K. apply keep_set_pc.
    + destruct (dn_st (node_of d me)); try (apply IH; apply K; apply keep_set_pc).
      apply Stop. apply K. apply keep_set_node. reflexivity.
  - (* QAfterSelWait *)
    destruct (dn_st (node_of d me)); try (apply Stop; apply K; apply keep_set_pc).
    apply IH. apply K. apply keep_set_pc.
  - (* QSetup *)
    destruct rest as [|c r].
    + set (d1 := add_wait_run d me _ false).
      assert (I1 : fr d1) by (apply K; apply keep_add_wait_run).
      destruct (is_nil (dn_wrun (node_of d1 me))); apply Stop; (eapply fr_keep; [apply keep_set_pc | exact I1]).
    + destruct (gen_node d (Some (dn_anc (node_of d me))) c) as [g d1] eqn:Eg.
      pose proof (GN _ _ _ Eg) as Hk.
      destruct g.
      * apply Stop. apply K. eapply keep_trans; [exact Hk | apply keep_set_pc].
      * apply IH. apply K. eapply keep_trans; [exact Hk | apply keep_set_pc].
      * apply Stop. auto.
  - (* QSetupWaited *) apply Stop. apply K. apply keep_set_pc.
  - (* QDone *) apply Stop. auto.
Qed.

Lemma disp_run_fr fuel : forall d, fr d ->
  wfr (snd (disp_run fuel d)) /\ (dy_ok (fst (disp_run fuel d)) = true -> fr (snd (disp_run fuel d))).
Proof.
  induction fuel as [|fuel IH]; intros d I; cbn [Delayed.disp_run].
  { simpl. split; auto. apply fr_wfr; auto. }
  assert (K : forall d1, keep d d1 -> fr d1) by (intros d1 H; eapply fr_keep; eauto).
  destruct (q_cur d) as [me|].
  - pose proof (gen_step_fr (S (S fuel)) d me I) as [W G].
    destruct (gen_step (S (S fuel)) d me) as [y d1]. simpl in W, G.
    destruct y; simpl; try (split; [exact W | auto; discriminate]);
      try (apply IH; eapply fr_keep; [|apply G; reflexivity]).
    + apply keep_set_ready.
    + eapply keep_trans; [apply keep_set_waiting | apply keep_set_cur].
    + apply keep_set_cur.
  - destruct (q_ready d) as [|x r].
    + pose proof (keep_next_from_torun (q_torun d) d) as Hk.
      destruct (next_from_torun d (q_torun d)) as [o d1]. simpl in Hk.
      destruct o.
      * apply IH. apply K. eapply keep_trans; [exact Hk | apply keep_set_cur].
      * destruct (is_nil (q_waiting d1)); simpl; (split; [apply fr_wfr|intros _]; apply K; exact Hk).
    + apply IH. apply K. eapply keep_trans; [apply keep_set_ready | apply keep_set_cur].
Qed.

Lemma disp_send_fr fuel d p : fr d ->
  wfr (snd (disp_send fuel d p)) /\ (dy_ok (fst (disp_send fuel d p)) = true -> fr (snd (disp_send fuel d p))).
Proof.
  intro I. unfold Delayed.disp_send. apply disp_run_fr. eapply fr_keep; [apply keep_update_waiting | exact I].
Qed.

Variable continue_ always : bool.
Notation serial := (serial v keys creators wake_rank calc_rank continue_ always).
Notation run_op := (run_op v keys creators wake_rank calc_rank continue_ always).
Notation step_op := (step_op v keys creators wake_rank calc_rank continue_ always).

Lemma serial_wfr fuel : forall r last, fr (r_d r) -> wfr (r_d (fst (serial fuel r last))).
Proof.
  induction fuel as [|fuel IH]; intros r last I; cbn [Delayed.serial].
  { simpl. apply fr_wfr; auto. }
  destruct (r_stop r).
  { simpl. eapply wfr_keepr; [apply keepr_finish | apply fr_wfr; auto]. }
  pose proof (disp_send_fr (S fuel) (r_d r) last I) as [W G].
  destruct (disp_send (S fuel) (r_d r) last) as [y d]. simpl in W, G.
  destruct y; cbn [fst];
    try (eapply wfr_keepr; [apply (keepr_finish (with_d r d)) | exact W]).
  - (* DTask *)
    specialize (G eq_refl).
    pose proof (keepr_select_task continue_ always (with_d r d) k) as Hs.
    destruct (select_task continue_ always (with_d r d) k) as [[|] r1]; simpl in Hs.
    + assert (I1 : fr (r_d r1)) by (eapply fr_keepr; eauto).
      assert (I2 : fr (r_d (start_task r1 k))) by (eapply fr_keepr; [apply keepr_start_task | exact I1]).
      destruct (is_interrupt (start_task r1 k) k); cbn [fst].
      * eapply wfr_keepr; [apply keepr_finish | apply fr_wfr; exact I2].
      * apply IH. eapply fr_keepr; [apply keepr_process_result | exact I2].
    + apply IH. eapply fr_keepr; eauto.
  - (* DInvalidTask *)
    eapply wfr_keepr; [apply (keepr_finish (with_d r (emitd d [ERuntimeError])))|]. exact W.
  - exact W.
Qed.

Lemma run_op_fr fuel r o : fr (r_d r) ->
  wfr (r_d (fst (run_op fuel r o))) /\ (live (snd (run_op fuel r o)) = true -> fr (r_d (fst (run_op fuel r o)))).
Proof.
  intro I.
  assert (Both : forall r1 s1, fr (r_d r1) -> wfr (r_d (fst (r1, s1))) /\ (live (snd (r1, s1)) = true -> fr (r_d (fst (r1, s1)))))
    by (intros r1 s1 H; simpl; split; auto; apply fr_wfr; auto).
  destruct o; cbn [Delayed.run_op].
  - (* OSend *)
    set (r0 := emitr r _).
    assert (I0 : fr (r_d r0)) by (eapply fr_keepr; [apply keepr_emitr, quiet_op | exact I]).
    destruct (sent_ok (r_d r) p).
    + pose proof (disp_send_fr fuel (r_d r0) p I0) as [W G].
      destruct (disp_send fuel (r_d r0) p) as [y d]. simpl in W, G.
      destruct y;
        try (apply Both; eapply fr_keepr; [apply (keepr_emitr (with_d r0 d)), quiet_op | apply G; reflexivity]);
        cbn [fst snd live];
        try (split; [exact W | discriminate]).
    + split; [apply fr_wfr; exact I0 | discriminate].
  - (* OSelect *)
    set (r0 := emitr r _).
    assert (I0 : fr (r_d r0)) by (eapply fr_keepr; [apply keepr_emitr, quiet_op | exact I]).
    pose proof (keepr_select_task continue_ always r0 k) as Hs.
    destruct (select_task continue_ always r0 k) as [b r1]. simpl in Hs.
    apply Both. eapply fr_keepr; [apply keepr_emitr, quiet_op|]. eapply fr_keepr; eauto.
  - (* OExec *) apply Both. eapply fr_keepr; [apply keepr_start_task | exact I].
  - (* OResult *)
    apply Both. eapply fr_keepr; [apply keepr_process_result|].
    eapply fr_keepr; [apply keepr_emitr, quiet_op | exact I].
  - (* OHoldErr *) split; [apply fr_wfr; exact I | discriminate].
  - (* OFinish *)
    apply Both. eapply fr_keepr; [apply keepr_finish|].
    eapply fr_keepr; [apply keepr_emitr, quiet_op | exact I].
Qed.

Definition sF (rs : rstate * option stop) : Prop :=
  wfr (r_d (fst rs)) /\ (live (snd rs) = true -> fr (r_d (fst rs))).

Lemma step_op_sF fuel rs o : sF rs -> sF (step_op fuel rs o).
Proof.
  destruct rs as [r s]. intros [W I]. cbn [fst snd] in W, I. unfold Delayed.step_op.
  destruct (live s) eqn:El.
  - specialize (I eq_refl).
    assert (Run : sF (let '(r1, s1) := run_op fuel r o in (r1, merge_stop s s1))).
    { pose proof (run_op_fr fuel r o I) as [W1 I1].
      destruct (run_op fuel r o) as [r1 s1]. cbn [fst snd] in *. split; cbn [fst snd]; auto.
      intro Hl. apply I1. destruct s1; auto. }
    destruct s as [x|]; [|exact Run].
    destruct o; try exact Run.
    split; cbn [fst snd].
    + eapply wfr_keepr; [apply keepr_emitr; reflexivity | exact W].
    + intros _. eapply fr_keepr; [apply keepr_emitr; reflexivity | exact I].
  - destruct o; split; cbn [fst snd]; try (rewrite El; discriminate); try exact W.
Qed.

Lemma run_ops_sF fuel ops : forall rs, sF rs -> sF (fold_left (step_op fuel) ops rs).
Proof.
  induction ops as [|o ops IH]; intros rs H; simpl; auto. apply IH. apply step_op_sF. exact H.
Qed.
End Frame.

(* ---------------- statements used by Properties/C15.v ---------------- *)
(* no task refers to loader object A (before the run no ExecNode exists: the table is all there is) *)
Definition unref (A : name) (d : dst) : Prop :=
  (forall k, q_nodes d k = None) /\ (forall k, dt_loader (tab_get d k) <> Some A).

Lemma unref_fr A d : unref A d -> fr A (q_ld d A) d.
Proof.
  intros [Hn Ht]. constructor; auto.
  intro k. rewrite (nl_init d k Hn). apply Ht.
Qed.

Theorem run_frame_serial v keys creators wake_rank calc_rank continue_ always fuel d0 A :
  unref A d0 -> heap_after_serial v keys creators wake_rank calc_rank continue_ always fuel d0 A = q_ld d0 A.
Proof.
  intro U. unfold heap_after_serial.
  exact (serial_wfr v keys creators wake_rank calc_rank A (q_ld d0 A) continue_ always fuel (r_init d0) None (unref_fr A d0 U)).
Qed.

Theorem run_frame_script v keys creators wake_rank calc_rank continue_ always fuel ops d0 A :
  unref A d0 -> heap_after_script v keys creators wake_rank calc_rank continue_ always fuel ops d0 A = q_ld d0 A.
Proof.
  intro U. unfold heap_after_script, run_ops.
  assert (H0 : sF A (q_ld d0 A) (r_init d0, None)).
  { split; cbn [fst snd r_init r_d]; [reflexivity | intros _; apply unref_fr; exact U]. }
  exact (proj1 (run_ops_sF v keys creators wake_rank calc_rank A (q_ld d0 A) continue_ always fuel ops _ H0)).
Qed.

(* ---------------- _filter_tasks: loader.basename is written through table entries only ---------------- *)
Section SelectFrame.
Variable sv : selver.
Variable base_of : name -> name.
Variable is_rx : name -> bool.
Variable rmatch : name -> name -> bool.
Variable rx_name : name -> name -> name.
Variable auto : bool.
Variable A : name.
Notation filter_one := (filter_one sv base_of is_rx rmatch rx_name auto).
Notation filter_tasks := (filter_tasks sv base_of is_rx rmatch rx_name auto).
Notation add_rx := (add_rx rx_name).

Definition sfr (L : loader) (d : dst) : Prop := unref A d /\ q_ld d A = L.

Lemma tab_get_set_torun d l x : tab_get (set_torun d l) x = tab_get d x. Proof. reflexivity. Qed.
Lemma tab_get_set_rxg d k g x : tab_get (set_rxg d k g) x = tab_get d x. Proof. reflexivity. Qed.
Lemma tab_get_set_ld d k l x : tab_get (set_ld d k l) x = tab_get d x. Proof. reflexivity. Qed.

Lemma sfr_torun L d l : sfr L d -> sfr L (set_torun d l).
Proof. intros [[Hn Ht] Hl]. split; [split|]; auto. Qed.

Lemma add_rx_sfr L g f s k : sfr L (ss_d s) -> sfr L (ss_d (add_rx g f s k)).
Proof.
  intros [[Hn Ht] Hl]. unfold Delayed.add_rx.
  destruct (dt_loader (tab_get (ss_d s) k)) as [T|] eqn:E; [|split; [split|]; auto].
  assert (Hne : A <> T) by (intro; subst; exact (Ht k E)).
  cbn [ss_d]. split; [split|].
  - intro x. reflexivity || apply Hn.
  - intro x. rewrite tab_get_set_torun, tab_get_set_tab.
    destruct (N.eqb x (rx_name f k)).
    + cbn [placeholder dt_loader]. congruence.
    + rewrite tab_get_set_rxg, tab_get_set_ld. apply Ht.
  - cbn [q_ld set_torun set_tab set_rxg set_ld]. rewrite upd_other by exact Hne. exact Hl.
Qed.

Lemma add_rx_fold_sfr L g f ms : forall s, sfr L (ss_d s) -> sfr L (ss_d (fold_left (add_rx g f) ms s)).
Proof.
  induction ms as [|k r IH]; intros s H; simpl; auto. apply IH. apply add_rx_sfr. exact H.
Qed.

Lemma filter_one_sfr L s f s' : sfr L (ss_d s) -> filter_one s f = Some s' -> sfr L (ss_d s').
Proof.
  intros H E. unfold Delayed.filter_one in E.
  destruct (q_tab (ss_d s) f).
  { inversion E; subst. cbn [ss_d]. apply sfr_torun. exact H. }
  destruct (q_tg (ss_d s) f).
  { inversion E; subst. cbn [ss_d]. apply sfr_torun. exact H. }
  destruct (q_tab (ss_d s) (base_of f)) as [tb|] eqn:Eb.
  - destruct (dt_loader tb) as [T|] eqn:El; [|discriminate].
    inversion E; subst. cbn [ss_d]. apply sfr_torun.
    destruct H as [[Hn Ht] Hl].
    assert (Hne : A <> T).
    { intro; subst. apply (Ht (base_of f)). unfold tab_get. rewrite Eb. exact El. }
    split; [split|].
    + intro x. apply Hn.
    + intro x. rewrite tab_get_set_tab. destruct (N.eqb x f).
      * cbn [placeholder dt_loader]. congruence.
      * rewrite tab_get_set_ld. apply Ht.
    + cbn [q_ld set_tab set_ld]. rewrite upd_other by exact Hne. exact Hl.
  - destruct (is_nil _); [discriminate|]. inversion E; subst.
    apply add_rx_fold_sfr. cbn [ss_d]. destruct H as [[Hn Ht] Hl]. split; [split|]; auto.
Qed.

Lemma filter_tasks_sfr L fs : forall s s', sfr L (ss_d s) -> filter_tasks s fs = Some s' -> sfr L (ss_d s').
Proof.
  induction fs as [|f r IH]; intros s s' H E; cbn [Delayed.filter_tasks] in E.
  - inversion E; subst. exact H.
  - destruct (filter_one s f) as [s1|] eqn:E1; [|discriminate].
    eapply IH; [eapply filter_one_sfr; eauto | exact E].
Qed.
End SelectFrame.

Theorem select_frame sv base_of is_rx rmatch rx_name auto d order sel d0 A :
  unref A d -> process_sel sv base_of is_rx rmatch rx_name auto d order sel = Some d0 ->
  unref A d0 /\ q_ld d0 A = q_ld d A.
Proof.
  intros U E. unfold process_sel in E. destruct sel as [fs|].
  - destruct (filter_tasks _ _ _ _ _ _ _ fs) as [s|] eqn:Ef; [|discriminate]. inversion E; subst.
    eapply (filter_tasks_sfr sv base_of is_rx rmatch rx_name auto A (q_ld d A) fs _ s); [|exact Ef].
    cbn [ss_d]. split; auto.
  - inversion E; subst. destruct U as [Hn Ht]. split; [split|]; auto.
Qed.

(* ---------------- several runs in one process (Delayed.load_state) ---------------- *)
Section ProcessP.
Variable fobj : N -> name.
Variable owner : name -> option N.
Variable shares : name -> bool.
Variable statics : name -> option dtask.
Hypothesis fobj_not_placeholder : forall c, owner (fobj c) = None.
Hypothesis statics_plain : forall k t, statics k = Some t -> dt_loader t = None.

(* after load_tasks (HEAD) no task refers to the object stored on a creator function *)
Lemma load_state_unref heap tg c : unref (fobj c) (load_state fobj owner shares LdCopy heap statics tg).
Proof.
  split; [intro k; reflexivity|].
  intros k Hk. unfold load_state, loaded, tab_get, load_tab in Hk. cbn [q_tab] in Hk.
  destruct (owner k) eqn:Eo.
  - cbn [placeholder dt_loader loader_of] in Hk. inversion Hk; subst. rewrite fobj_not_placeholder in Eo. discriminate.
  - destruct (statics k) as [t|] eqn:Es; [rewrite (statics_plain _ _ Es) in Hk|]; discriminate.
Qed.

Lemma load_heap_fobj heap c : load_heap fobj owner shares LdCopy heap (fobj c) = heap (fobj c).
Proof. unfold load_heap. rewrite fobj_not_placeholder. reflexivity. Qed.

(* whatever is selected and however it is run, the object on the function is what it was ... *)
Theorem function_loader_never_written_serial
    sv base_of is_rx rmatch rx_name auto v keys creators wake_rank calc_rank continue_ always fuel heap tg order sel d0 c :
  process_sel sv base_of is_rx rmatch rx_name auto (load_state fobj owner shares LdCopy heap statics tg) order sel = Some d0 ->
  heap_after_serial v keys creators wake_rank calc_rank continue_ always fuel d0 (fobj c) = heap (fobj c).
Proof.
  intro E. destruct (select_frame _ _ _ _ _ _ _ _ _ _ (fobj c) (load_state_unref heap tg c) E) as [U Hl].
  rewrite run_frame_serial by exact U. rewrite Hl. apply load_heap_fobj.
Qed.

Theorem function_loader_never_written_script
    sv base_of is_rx rmatch rx_name auto v keys creators wake_rank calc_rank continue_ always fuel ops heap tg order sel d0 c :
  process_sel sv base_of is_rx rmatch rx_name auto (load_state fobj owner shares LdCopy heap statics tg) order sel = Some d0 ->
  heap_after_script v keys creators wake_rank calc_rank continue_ always fuel ops d0 (fobj c) = heap (fobj c).
Proof.
  intro E. destruct (select_frame _ _ _ _ _ _ _ _ _ _ (fobj c) (load_state_unref heap tg c) E) as [U Hl].
  rewrite run_frame_script by exact U. rewrite Hl. apply load_heap_fobj.
Qed.

(* ... so the next load_tasks of the process hands out the same loaders and placeholders as this one did *)
Lemma next_load_same heap heap' :
  (forall c, heap' (fobj c) = heap (fobj c)) ->
  forall T c, owner T = Some c ->
    load_heap fobj owner shares LdCopy heap' T = heap (fobj c) /\
    load_tab fobj owner shares LdCopy heap' statics T = load_tab fobj owner shares LdCopy heap statics T.
Proof.
  intros H T c Eo. unfold load_tab, load_heap. cbn [loader_of]. rewrite Eo, N.eqb_refl, H. auto.
Qed.
End ProcessP.

Section ProcessRuns.
Variable fobj : N -> name.
Variable owner : name -> option N.
Variable shares : name -> bool.
Variable statics : name -> option dtask.
Hypothesis fobj_not_placeholder : forall c, owner (fobj c) = None.
Hypothesis statics_plain : forall k t, statics k = Some t -> dt_loader t = None.

(* every load_tasks of a process hands out fresh copies: the loader of a placeholder in the NEXT run is what the function
   object held before this run, the placeholder task is the same as in this run *)
Theorem every_load_fresh_serial
    sv base_of is_rx rmatch rx_name auto v keys creators wake_rank calc_rank continue_ always fuel heap tg order sel d0 :
  process_sel sv base_of is_rx rmatch rx_name auto (load_state fobj owner shares LdCopy heap statics tg) order sel = Some d0 ->
  let heap' := heap_after_serial v keys creators wake_rank calc_rank continue_ always fuel d0 in
  forall T c, owner T = Some c ->
    load_heap fobj owner shares LdCopy heap' T = heap (fobj c) /\
    load_tab fobj owner shares LdCopy heap' statics T = load_tab fobj owner shares LdCopy heap statics T.
Proof.
  intros E heap'. apply next_load_same. intro c.
  exact (function_loader_never_written_serial fobj owner shares statics fobj_not_placeholder statics_plain
           _ _ _ _ _ _ _ _ _ _ _ _ _ _ _ _ _ _ _ c E).
Qed.

Theorem every_load_fresh_script
    sv base_of is_rx rmatch rx_name auto v keys creators wake_rank calc_rank continue_ always fuel ops heap tg order sel d0 :
  process_sel sv base_of is_rx rmatch rx_name auto (load_state fobj owner shares LdCopy heap statics tg) order sel = Some d0 ->
  let heap' := heap_after_script v keys creators wake_rank calc_rank continue_ always fuel ops d0 in
  forall T c, owner T = Some c ->
    load_heap fobj owner shares LdCopy heap' T = heap (fobj c) /\
    load_tab fobj owner shares LdCopy heap' statics T = load_tab fobj owner shares LdCopy heap statics T.
Proof.
  intros E heap'. apply next_load_same. intro c.
  exact (function_loader_never_written_script fobj owner shares statics fobj_not_placeholder statics_plain
           _ _ _ _ _ _ _ _ _ _ _ _ _ _ _ _ _ _ _ _ c E).
Qed.
End ProcessRuns.
