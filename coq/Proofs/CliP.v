(* CliP.v -- the command line in front of the selection (Model/Select.v, Section Cli): which arguments of
   `doit <argv>` reach TaskControl.process as selection elements.  Names are opaque, so everything here holds for
   the empty string, blanks, names differing by case or by trailing characters as for any other name. *)
From DoitV Require Import Base Select SelectP.
Open Scope N_scope.

Definition rflag_eqb (a b : rflag) : bool :=
  match a, b with FSingle, FSingle | FAuto, FAuto => true | _, _ => false end.

Section P.
Variable has_star : name -> bool.
Variable matches : name -> name -> bool.
Variable basename_of : name -> name.
Variable re_match : name -> name -> bool.
Variable regex_name : name -> name -> name.
Variable is_regex_name : name -> bool.
Variable is_opt : name -> bool.
Variable is_var : name -> bool.
Variable is_run : name -> bool.
Variable run_flag : name -> option rflag.

Notation process_args := (process_args is_var).
Notation strip_cmd := (strip_cmd is_run).
Notation run_opts := (run_opts is_opt run_flag).
Notation cli_split := (cli_split is_opt is_var is_run run_flag).
Notation doit_main := (doit_main has_star matches basename_of re_match regex_name is_regex_name is_opt is_var is_run run_flag).
Notation select_core := (select_core has_star matches basename_of re_match regex_name is_regex_name is_opt).
Notation cmd_run_select := (cmd_run_select has_star matches basename_of re_match regex_name is_regex_name is_opt).
Notation init := (init matches).
Notation expand_sel := (expand_sel has_star matches).
Notation plain_sel := (plain_sel has_star is_opt).

(* the token o spells the flag f *)
Definition spells (f : rflag) (o : name) : bool :=
  match run_flag o with Some g => rflag_eqb f g | None => false end.
Definition has_flag (f : rflag) (opts : list name) : bool := existsb (spells f) opts.

(* what cli_split returns, read off the command line: the non-variable arguments are
   [run] ++ options ++ positional, the positional part starts at the first token that is no option *)
Definition split_of (argv : list name) (single auto : bool) (pos : list name) : Prop :=
  exists cmd opts,
    process_args argv = cmd ++ opts ++ pos /\
    ((cmd = [] /\ forall x r, opts ++ pos = x :: r -> is_run x = false) \/ (exists r, cmd = [r] /\ is_run r = true)) /\
    Forall (fun o => is_opt o = true /\ run_flag o <> None) opts /\
    (forall x r, pos = x :: r -> is_opt x = false) /\
    single = has_flag FSingle opts /\ auto = has_flag FAuto opts.

Lemma run_opts_spec l : forall s a s' a' pos,
  run_opts s a l = Some (s', a', pos) ->
  exists opts, l = opts ++ pos /\ Forall (fun o => is_opt o = true /\ run_flag o <> None) opts /\
               (forall x r, pos = x :: r -> is_opt x = false) /\
               s' = s || has_flag FSingle opts /\ a' = a || has_flag FAuto opts.
Proof.
  induction l as [|x l IH]; intros s a s' a' pos H; cbn [Select.run_opts] in H.
  - inversion H; subst. exists []. repeat split; auto; try (intros; discriminate); rewrite orb_false_r; reflexivity.
  - destruct (is_opt x) eqn:Eo.
    + destruct (run_flag x) as [[|]|] eqn:Ef; [| |discriminate].
      * assert (Hs1 : spells FSingle x = true) by (unfold spells; rewrite Ef; reflexivity).
        assert (Hs2 : spells FAuto x = false) by (unfold spells; rewrite Ef; reflexivity).
        destruct (IH _ _ _ _ _ H) as (opts & -> & HF & Hp & -> & ->).
        exists (x :: opts). unfold has_flag. cbn [existsb]. rewrite Hs1, Hs2. repeat split; auto.
        -- constructor; auto. split; auto. congruence.
        -- destruct s; reflexivity.
      * assert (Hs1 : spells FSingle x = false) by (unfold spells; rewrite Ef; reflexivity).
        assert (Hs2 : spells FAuto x = true) by (unfold spells; rewrite Ef; reflexivity).
        destruct (IH _ _ _ _ _ H) as (opts & -> & HF & Hp & -> & ->).
        exists (x :: opts). unfold has_flag. cbn [existsb]. rewrite Hs1, Hs2. repeat split; auto.
        -- constructor; auto. split; auto. congruence.
        -- destruct a; reflexivity.
    + inversion H; subst. exists []. repeat split; auto.
      * intros y r E. inversion E; subst. exact Eo.
      * rewrite orb_false_r; reflexivity.
      * rewrite orb_false_r; reflexivity.
Qed.

Lemma run_opts_None l : forall s a,
  run_opts s a l = None -> exists o, In o l /\ is_opt o = true /\ run_flag o = None.
Proof.
  induction l as [|x l IH]; intros s a H; cbn [Select.run_opts] in H; [discriminate|].
  destruct (is_opt x) eqn:Eo; [|discriminate].
  destruct (run_flag x) as [[|]|] eqn:Ef.
  - destruct (IH _ _ H) as (o & Hi & Ho). exists o. split; [right; exact Hi|exact Ho].
  - destruct (IH _ _ H) as (o & Hi & Ho). exists o. split; [right; exact Hi|exact Ho].
  - exists x. split; [left; reflexivity|auto].
Qed.

Lemma strip_cmd_spec args :
  (exists r, args = r :: strip_cmd args /\ is_run r = true) \/
  (strip_cmd args = args /\ forall x r, args = x :: r -> is_run x = false).
Proof.
  destruct args as [|x r]; cbn [Select.strip_cmd].
  - right. split; auto. intros; discriminate.
  - destruct (is_run x) eqn:E.
    + left. exists x. auto.
    + right. split; auto. intros y r' H. inversion H; subst. exact E.
Qed.

Theorem cli_split_exact argv single auto pos :
  cli_split argv = Some (single, auto, pos) -> split_of argv single auto pos.
Proof.
  unfold Select.cli_split. intros H.
  destruct (run_opts_spec _ _ _ _ _ _ H) as (opts & E & HF & Hp & -> & ->). cbn [orb].
  destruct (strip_cmd_spec (process_args argv)) as [(r & Er & Hr)|(Es & Hn)].
  - exists [r], opts. rewrite Er at 1. rewrite E. repeat split; auto. right. exists r. auto.
  - exists [], opts. rewrite <- Es at 1. rewrite E. repeat split; auto. left. split; auto.
    intros x r Hx. apply (Hn x r). rewrite <- Es, E. exact Hx.
Qed.

Theorem cli_split_None argv :
  cli_split argv = None -> exists o, In o argv /\ is_var o = false /\ is_opt o = true /\ run_flag o = None.
Proof.
  unfold Select.cli_split. intros H. destruct (run_opts_None _ _ _ H) as (o & Hi & Ho & Hf).
  exists o. assert (Hin : In o (process_args argv)).
  { destruct (strip_cmd_spec (process_args argv)) as [(r & Er & _)|(Es & _)].
    - rewrite Er. right. exact Hi.
    - rewrite <- Es. exact Hi. }
  unfold Select.process_args in Hin. apply filter_In in Hin. destruct Hin as [Hin Hv].
  apply negb_true_iff in Hv. auto.
Qed.

(* nothing is invented and no variable becomes a name: the positional arguments are a suffix of the
   non-variable arguments of the command line, in the order given *)
Theorem cli_pos_from_argv argv single auto pos :
  cli_split argv = Some (single, auto, pos) ->
  (exists pre, process_args argv = pre ++ pos) /\ forall x, In x pos -> In x argv /\ is_var x = false.
Proof.
  intros H. destruct (cli_split_exact _ _ _ _ H) as (cmd & opts & E & _).
  split.
  - exists (cmd ++ opts). rewrite <- app_assoc. exact E.
  - intros x Hx. assert (Hin : In x (process_args argv)).
    { rewrite E. apply in_or_app. right. apply in_or_app. right. exact Hx. }
    unfold Select.process_args in Hin. apply filter_In in Hin. destruct Hin as [Hin Hv].
    apply negb_true_iff in Hv. auto.
Qed.

(* no name is dropped: an argument that is no variable, does not start with '-' and is not the word 'run' is an
   element of the selection -- whatever string it is *)
Theorem cli_name_never_dropped argv single auto pos x :
  cli_split argv = Some (single, auto, pos) ->
  In x argv -> is_var x = false -> is_opt x = false -> is_run x = false -> In x pos.
Proof.
  intros H Hin Hv Ho Hr. destruct (cli_split_exact _ _ _ _ H) as (cmd & opts & E & Hc & HF & _).
  assert (Hp : In x (process_args argv)).
  { unfold Select.process_args. apply filter_In. split; auto. rewrite Hv. reflexivity. }
  rewrite E in Hp. apply in_app_or in Hp. destruct Hp as [Hp|Hp].
  - destruct Hc as [[-> _]|(r & -> & Hr')]; [destruct Hp|].
    destruct Hp as [<-|[]]. congruence.
  - apply in_app_or in Hp. destruct Hp as [Hp|Hp]; auto.
    rewrite Forall_forall in HF. destruct (HF x Hp) as [Ho' _]. congruence.
Qed.

(* DOIT_CONFIG['default_tasks'] plays a part only when the command line names nothing *)
Theorem cli_default_only_when_nothing_named argv d tb x :
  In x argv -> is_var x = false -> is_opt x = false -> is_run x = false ->
  doit_main argv d tb = doit_main argv None tb.
Proof.
  intros Hin Hv Ho Hr. unfold Select.doit_main.
  destruct (cli_split argv) as [[[s a] pos]|] eqn:E; auto.
  pose proof (cli_name_never_dropped _ _ _ _ _ E Hin Hv Ho Hr) as Hp.
  assert (Hne : pos <> []) by (intros ->; destruct Hp).
  destruct (default_spec has_star matches basename_of re_match regex_name is_regex_name is_opt a s tb) as [Hd _].
  rewrite (Hd pos d Hne), (Hd pos None Hne). reflexivity.
Qed.

(* a command line that names nothing (variables and options of `run` only) selects the default tasks *)
Theorem cli_nothing_named argv d tb single auto :
  cli_split argv = Some (single, auto, []) ->
  doit_main argv d tb = select_core auto single d tb.
Proof. intros H. unfold Select.doit_main. rewrite H. reflexivity. Qed.

Lemma select_core_ok_any_single auto single sel tb tb' tg' selected :
  select_core auto single (Some sel) tb = ROk tb' tg' selected ->
  exists tb'', select_core auto false (Some sel) tb = ROk tb'' tg' selected.
Proof.
  unfold Select.select_core. destruct (init tb) as [e|c]; [discriminate|].
  destruct (process has_star matches basename_of re_match regex_name is_regex_name is_opt auto c (Some sel)) as [[f|]|[tb1 s1]];
    try discriminate.
  intros H. inversion H; subst. eauto.
Qed.

(* unknown names are rejected before anything runs: if the runner is started at all (ROk), every argument that
   is a name (no variable, no option token, not the word 'run', no pattern) is the name of a task or a declared
   target -- over a task list without delayed creators and a command line on which nothing is a task argument *)
Theorem cli_unknown_rejected argv d tb c single auto pos tb' tg' selected :
  init tb = inr c -> no_loader tb ->
  cli_split argv = Some (single, auto, pos) -> plain_sel (c_tasks c) pos ->
  doit_main argv d tb = ROk tb' tg' selected ->
  forall x, In x argv -> is_var x = false -> is_opt x = false -> is_run x = false -> has_star x = false ->
            known (c_targets c) (c_tasks c) x.
Proof.
  intros Hi Hnl Hs Hpl Hok x Hin Hv Ho Hr Hst.
  pose proof (cli_name_never_dropped _ _ _ _ _ Hs Hin Hv Ho Hr) as Hp.
  assert (Hne : pos <> []) by (intros ->; destruct Hp).
  unfold Select.doit_main in Hok. rewrite Hs in Hok.
  destruct (default_spec has_star matches basename_of re_match regex_name is_regex_name is_opt auto single tb) as [Hd _].
  rewrite (Hd pos d Hne) in Hok.
  destruct (select_core_ok_any_single _ _ _ _ _ _ _ Hok) as (tb'' & Hok').
  destruct (select_exact has_star matches basename_of re_match regex_name is_regex_name is_opt auto tb c pos Hi Hnl Hpl) as [Hex _].
  apply Hex in Hok'. destruct Hok' as (_ & _ & HF).
  apply Forall2_stands_known in HF. rewrite Forall_forall in HF. apply HF.
  apply (expand_sel_In has_star matches). exists x. split; auto. rewrite Hst. reflexivity.
Qed.

End P.
