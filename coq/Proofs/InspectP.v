(* Proofs/InspectP.v -- "until forgotten" over the commands that only look (Model/Inspect.v):
   no `list` / `info` / `clean`, with whatever options, checker, task table and file system, in whatever
   number and order, takes the ignore mark -- or anything else -- out of the record of an ignored task;
   so the runs that follow skip the task and everything that depends on it. *)
From DoitV Require Import Base Status History StatusP HistoryP Commands CommandsP Inspect.
From DoitV Require Introspect IntrospectP.
From DoitV Require Dispatch Runner RunnerP.
Open Scope Z_scope.

Section InspectP.
Variable md5 : N -> N.
Variable v : ver.
Variable name_ltb : name -> name -> bool.

Notation ign_kept := IntrospectP.ign_kept.

Lemma list_step_db b tb o c fs d :
  co_db (list_step md5 v name_ltb b tb o c fs d)
  = Introspect.persisted b d (IntrospectP.lres_db d (list_res md5 v name_ltb tb o c fs d)).
Proof.
  unfold list_step. destruct (list_res md5 v name_ltb tb o c fs d); simpl; try reflexivity; destruct b; reflexivity.
Qed.

Lemma info_step_db b tb pos hide c fs d :
  co_db (info_step md5 v b tb pos hide c fs d)
  = Introspect.persisted b d (IntrospectP.ires_db d (info_res md5 v tb pos hide c fs d)).
Proof.
  unfold info_step. destruct (info_res md5 v tb pos hide c fs d); simpl; try reflexivity; destruct b; reflexivity.
Qed.

Lemma list_step_ign_kept b tb o c fs d : ign_kept d (co_db (list_step md5 v name_ltb b tb o c fs d)).
Proof.
  rewrite list_step_db. apply IntrospectP.persisted_ign_kept. unfold list_res. apply IntrospectP.list_cmd_ign_kept.
Qed.

Lemma info_step_ign_kept b tb pos hide c fs d : ign_kept d (co_db (info_step md5 v b tb pos hide c fs d)).
Proof.
  rewrite info_step_db. apply IntrospectP.persisted_ign_kept. unfold info_res.
  apply IntrospectP.info_cmd_ign_kept. reflexivity.
Qed.

Lemma insp_step_ign_kept b d i : ign_kept d (insp_step md5 v name_ltb b d i).
Proof.
  destruct i; simpl.
  - apply list_step_ign_kept.
  - apply info_step_ign_kept.
  - apply IntrospectP.ign_kept_refl.
Qed.

Lemma insp_steps_ign_kept b l : forall d, ign_kept d (insp_steps md5 v name_ltb b l d).
Proof.
  unfold insp_steps. induction l as [|i l IH]; intros d; simpl.
  - apply IntrospectP.ign_kept_refl.
  - eapply IntrospectP.ign_kept_trans; [apply insp_step_ign_kept | apply IH].
Qed.

(* the record of an ignored task after any sequence of inspection commands: as it was *)
Lemma insp_steps_keep_ignored b l d T :
  status_is_ignore d T = true ->
  insp_steps md5 v name_ltb b l d T = d T /\ status_is_ignore (insp_steps md5 v name_ltb b l d) T = true.
Proof.
  intros Hi. pose proof (insp_steps_ign_kept b l d) as K. split.
  - apply K; exact Hi.
  - exact (IntrospectP.ign_kept_ignore _ _ _ K Hi).
Qed.

(* the tasks the mark reaches: the same set or more *)
Lemma ignored_by_kept d d' rt k : ign_kept d d' -> ignored_by d rt k -> ignored_by d' rt k.
Proof.
  intros K H. induction H as [k ct Hl Hi | k ct x Hl Hx _ IH].
  - exact (ib_mark d' rt k ct Hl (IntrospectP.ign_kept_ignore _ _ _ K Hi)).
  - exact (ib_dep d' rt k ct x Hl Hx IH).
Qed.

Lemma setup_ignored_by_kept d d' rt k : ign_kept d d' -> setup_ignored_by d rt k -> setup_ignored_by d' rt k.
Proof.
  intros K (ct & x & Hl & Hx & Hi). exists ct, x. split; [exact Hl|]. split; [exact Hx|].
  exact (ignored_by_kept d d' rt x K Hi).
Qed.

(* the run after them: a task the mark reached BEFORE the inspection commands is never executed, every final
   report it gets is skip_ignore, and no task with one of them as a setup-task is executed *)
Lemma insp_steps_then_run b l d wake_rank calc_rank c fs rt cont always fuel sel k :
  ignored_by d rt k ->
  let tr := fst (next_run md5 v wake_rank calc_rank c fs (insp_steps md5 v name_ltb b l d) rt cont always fuel sel) in
  ~ In (Runner.EExecute k) tr /\
  (forall e, In e tr -> RunnerP.is_final_ev k e = true -> e = Runner.ESkipIgnore k) /\
  (forall t, setup_ignored_by d rt t -> ~ In (Runner.EExecute t) tr).
Proof.
  intros Hk. cbv zeta. pose proof (insp_steps_ign_kept b l d) as K.
  destruct (next_run_ignore_wins md5 v wake_rank calc_rank c fs (insp_steps md5 v name_ltb b l d) rt cont always fuel sel k
              (ignored_by_kept _ _ rt k K Hk)) as (A & B & C).
  split; [exact A|]. split; [exact B|].
  intros t Ht. apply C. exact (setup_ignored_by_kept _ _ rt t K Ht).
Qed.

End InspectP.
