(* FailStopP.v -- without --continue the serial runner starts nothing after the first failure report
   (runner.py _handle_task_error: `if not self.continue_: self.stop_running = True`; run_tasks:
   `if self.stop_running: break` before the next node is asked for).  The trace after the first
   EFailure is exactly what finish() emits: close of the DB, then the teardowns of the executed tasks. *)
From DoitV Require Import Base Dispatch Runner RunnerTr.
Open Scope N_scope.

Lemma fail_kinds_nil_In tr : fail_kinds tr = [] <-> forall k kd, ~ In (EFailure k kd) tr.
Proof.
  induction tr as [|e tr IH]; simpl.
  - split; auto.
  - split.
    + intros H k kd [->|Hin]; [discriminate|].
      assert (Ht : fail_kinds tr = []) by (destruct e; simpl in H; try discriminate; auto).
      exact (proj1 IH Ht k kd Hin).
    + intros H. assert (Ht : fail_kinds tr = []) by (apply IH; intros k kd Hin; apply (H k kd); auto).
      destruct e; simpl; auto. exfalso. eapply H. left. reflexivity.
Qed.

(* a trace has one decomposition around its first failure report *)
Lemma first_failure_unique a : forall a' k kd b k' kd' b',
  a ++ EFailure k kd :: b = a' ++ EFailure k' kd' :: b' ->
  fail_kinds a = [] -> fail_kinds a' = [] -> a = a' /\ k = k' /\ kd = kd' /\ b = b'.
Proof.
  induction a as [|x a IH]; intros a' k kd b k' kd' b' E Ha Ha'.
  - destruct a' as [|y a']; simpl in E.
    + inversion E; subst. auto.
    + inversion E; subst. simpl in Ha'. discriminate.
  - destruct a' as [|y a']; simpl in E.
    + inversion E; subst. simpl in Ha. discriminate.
    + inversion E; subst.
      assert (Hx : fail_kinds a = []) by (destruct y; simpl in Ha; try discriminate; auto).
      assert (Hy : fail_kinds a' = []) by (destruct y; simpl in Ha'; try discriminate; auto).
      destruct (IH _ _ _ _ _ _ _ H1 Hx Hy) as (-> & -> & -> & ->). auto.
Qed.

Section S.
Variable tasks : name -> option task.
Variable wake_rank : name -> name -> N.
Variable calc_rank : name -> N.
Variable always : bool.

Notation get_task := (get_task tasks).
Notation select_task := (select_task tasks false always).
Notation serial := (serial tasks wake_rank calc_rank false always).

(* stopped = the trace ends with the one failure report *)
Definition FI (r : rstate) : Prop :=
  if r_stop r then exists pre k kd, r_tr r = pre ++ [ERemove k; EFailure k kd] /\ fail_kinds pre = []
  else fail_kinds (r_tr r) = [].

Lemma FI_with_d r d : FI r -> FI (with_d r d).
Proof. auto. Qed.

Lemma FI_emit_plain r evs : r_stop r = false -> FI r -> fail_kinds evs = [] -> FI (emit r evs) /\ r_stop (emit r evs) = false.
Proof.
  unfold FI. intros Hs H He. simpl. rewrite Hs in *. rewrite fail_kinds_app, H, He. auto.
Qed.

Lemma FI_handle_error st r k kd : r_stop r = false -> FI r -> FI (handle_error_gen tasks false st r k kd).
Proof.
  unfold FI. intros Hs H. simpl. rewrite Hs in H. exists (r_tr r), k, kd. auto.
Qed.

Lemma get_args_FI r k b r1 : r_stop r = false -> FI r -> get_args tasks false r k = (b, r1) -> FI r1 /\ (b = true -> r_stop r1 = false).
Proof.
  unfold get_args. intros Hs H E. destruct (t_argerr (get_task k)); inversion E; subst.
  - split; [apply FI_handle_error; auto|discriminate].
  - auto.
Qed.

Lemma select_task_FI r k b r1 :
  r_stop r = false -> FI r -> select_task r k = (b, r1) -> FI r1 /\ (b = true -> r_stop r1 = false).
Proof.
  intros Hs H E. unfold Runner.select_task in E.
  assert (Hlater :
     (if negb (is_nil (n_ign (node_of tasks (r_d r) k)))
      then (false, emit (with_d r (set_status tasks (r_d r) k SIgnore)) [ESkipIgnore k])
      else if negb (is_nil (n_bad (node_of tasks (r_d r) k))) then (false, handle_error tasks false r k kind_unmet)
      else get_args tasks false r k) = (b, r1) -> FI r1 /\ (b = true -> r_stop r1 = false)).
  { intros Q. destruct (negb (is_nil (n_ign _))).
    { inversion Q; subst. split; [|discriminate]. apply FI_emit_plain; auto. }
    destruct (negb (is_nil (n_bad _))).
    { inversion Q; subst. split; [|discriminate]. apply FI_handle_error; auto. }
    eapply get_args_FI; eauto. }
  destruct (n_st (node_of tasks (r_d r) k)); try (apply Hlater; exact E).
  clear Hlater.
  destruct (FI_emit_plain r [EGetStatus k] Hs H eq_refl) as [He Hse].
  destruct (negb (is_nil (n_ign (node_of tasks (r_d r) k))) || t_dbignore (get_task k)).
  { inversion E; subst. split; [|discriminate].
    apply (FI_emit_plain (with_d (emit r [EGetStatus k]) _)); auto. }
  destruct (negb (is_nil (n_bad (node_of tasks (r_d r) k)))).
  { inversion E; subst. split; [|discriminate]. apply FI_handle_error; auto. }
  assert (Hrun : forall st,
     (if is_nil (t_setup (get_task k))
      then get_args tasks false (with_d (emit r [EGetStatus k]) (set_status tasks (r_d (emit r [EGetStatus k])) k st)) k
      else (false, with_d (emit r [EGetStatus k]) (set_status tasks (r_d (emit r [EGetStatus k])) k st))) = (b, r1) ->
     FI r1 /\ (b = true -> r_stop r1 = false)).
  { intros st Q. destruct (is_nil (t_setup (get_task k))).
    - eapply get_args_FI; [| |exact Q]; auto.
    - inversion Q; subst. split; [|discriminate]. auto. }
  destruct (t_check (get_task k)).
  - destruct always; cbv beta iota zeta in E; apply (Hrun SRun); exact E.
  - destruct always; cbv beta iota zeta in E; [apply (Hrun SRun); exact E|].
    inversion E; subst. split; [|discriminate].
    apply (FI_emit_plain (with_d (emit r [EGetStatus k]) _)); auto.
  - inversion E; subst. split; [|discriminate]. apply FI_handle_error; auto.
Qed.

Lemma FI_start r k : r_stop r = false -> FI r -> FI (start_task tasks r k) /\ r_stop (start_task tasks r k) = false.
Proof.
  unfold FI. intros Hs H. simpl. rewrite Hs in *. rewrite fail_kinds_app, H. auto.
Qed.

Lemma FI_process r k : r_stop r = false -> FI r -> FI (process_result tasks false r k).
Proof.
  intros Hs H. unfold process_result. destruct (t_outcome (get_task k)); auto; try (apply FI_handle_error; auto).
  apply (FI_emit_plain (with_d r _)); auto.
Qed.

(* the state in which the loop stops; a stopped runner ends normally *)
Lemma serial_FI fuel : forall r last r' s,
  TInv tasks r -> FI r -> serial fuel r last = (r', s) ->
  exists r0, TInv tasks r0 /\ FI r0 /\
    ((s = StopFuel /\ r' = r0) \/ (s <> StopFuel /\ r' = finish r0 /\ (r_stop r0 = true -> s = StopNormal))).
Proof.
  induction fuel as [|fuel IH]; intros r last r' s HT HF E; cbn [Runner.serial] in E.
  { injection E as <- <-. exists r. auto. }
  destruct (r_stop r) eqn:Hs.
  { injection E as <- <-. exists r. split; auto. split; auto. right. split; [discriminate|auto]. }
  destruct (disp_send tasks wake_rank calc_rank (S fuel) (r_d r) last) as [y d].
  assert (HTd : TInv tasks (with_d r d)) by (apply TInv_with_d; auto).
  assert (HFd : FI (with_d r d)) by (apply FI_with_d; auto).
  assert (Hfin : exists r0, TInv tasks r0 /\ FI r0 /\
            forall s0, s0 <> StopFuel ->
            ((s0 = StopFuel /\ finish (with_d r d) = r0) \/
             (s0 <> StopFuel /\ finish (with_d r d) = finish r0 /\ (r_stop r0 = true -> s0 = StopNormal)))).
  { exists (with_d r d). split; auto. split; auto. intros s0 Hs0. right. split; auto. split; auto.
    simpl. rewrite Hs. discriminate. }
  destruct y as [k| | |path|].
  - destruct (select_task (with_d r d) k) as [b r1] eqn:Es.
    assert (H1 : TInv tasks r1) by (eapply TInv_select; [|exact Es]; auto).
    destruct (select_task_FI (with_d r d) _ _ _ Hs HFd Es) as [F1 Hb].
    destruct b.
    + specialize (Hb eq_refl). destruct (FI_start r1 k Hb F1) as [F2 Hs2].
      destruct (is_interrupt tasks k).
      * injection E as <- <-. exists (start_task tasks r1 k). split; [apply TInv_start; auto|]. split; auto.
        right. split; [discriminate|]. split; auto. rewrite Hs2. discriminate.
      * eapply IH; [| |exact E]. { apply TInv_process. apply TInv_start. exact H1. } apply FI_process; auto.
    + eapply IH; eauto.
  - injection E as <- <-. destruct Hfin as (r0 & A & B & C). exists r0. split; auto. split; auto. apply C. discriminate.
  - injection E as <- <-. destruct Hfin as (r0 & A & B & C). exists r0. split; auto. split; auto. apply C. discriminate.
  - injection E as <- <-. destruct Hfin as (r0 & A & B & C). exists r0. split; auto. split; auto. apply C. discriminate.
  - injection E as <- <-. exists (with_d r d). split; auto.
Qed.

Lemma FI_init sel : FI (r_init sel).
Proof. reflexivity. Qed.

Lemma fail_kinds_teardowns l : fail_kinds (map ETeardown l) = [].
Proof. induction l; simpl; auto. Qed.

(* the whole statement: the failure report of a run without --continue is the only one, and what
   follows it is finish() -- or nothing at all when the model ran out of fuel (exit code 99) *)
Theorem serial_stops_after_failure fuel sel pre k kind post :
  let res := run_serial tasks wake_rank calc_rank false always fuel sel in
  fst res = pre ++ EFailure k kind :: post ->
  fail_kinds pre = [] /\
  ((post = [] /\ snd res = 99) \/
   (post = EClose :: map ETeardown (rev (filter (has_td tasks) (execs pre))) /\
    snd res = if kind =? 0 then 1 else 2)).
Proof.
  cbv zeta. unfold run_serial.
  destruct (serial fuel (r_init sel) None) as [r' s] eqn:E. simpl fst. simpl snd.
  destruct (serial_FI fuel _ _ _ _ (TInv_init tasks sel) (FI_init sel) E) as (r0 & HT & HF & Hend).
  intros Etr. unfold FI in HF. destruct (r_stop r0) eqn:Hs.
  - destruct HF as (p0 & k0 & kd0 & Er0 & Hp0).
    assert (Hpre0 : fail_kinds (p0 ++ [ERemove k0]) = []) by (rewrite fail_kinds_app, Hp0; reflexivity).
    assert (Hcode : r_final r0 = if kd0 =? 0 then 1 else 2).
    { rewrite (t_code _ _ HT), Er0, code_of_fail. unfold code_of. rewrite Hp0. simpl. rewrite andb_true_r. reflexivity. }
    assert (Htd : r_td r0 = filter (has_td tasks) (execs (p0 ++ [ERemove k0]))).
    { rewrite (t_td _ _ HT), Er0. rewrite !execs_app. simpl. reflexivity. }
    destruct Hend as [[-> ->]|(Hne & -> & Hn)].
    + simpl in Etr. rewrite app_nil_r, Er0 in Etr.
      replace (p0 ++ [ERemove k0; EFailure k0 kd0]) with ((p0 ++ [ERemove k0]) ++ EFailure k0 kd0 :: []) in Etr
        by (rewrite <- app_assoc; reflexivity).
      assert (Hk : fail_kinds (pre ++ EFailure k kind :: post) = [kd0]).
      { rewrite <- Etr, fail_kinds_app, Hpre0. reflexivity. }
      rewrite fail_kinds_app in Hk. simpl in Hk.
      destruct (fail_kinds pre) eqn:Hfp; [|destruct l; discriminate].
      destruct (first_failure_unique _ _ _ _ _ _ _ _ Etr Hpre0 Hfp) as (_ & _ & _ & <-).
      split; auto.
    + specialize (Hn eq_refl). subst s. unfold finish, emit in Etr. simpl in Etr. rewrite app_nil_r, Er0 in Etr.
      replace ((p0 ++ [ERemove k0; EFailure k0 kd0]) ++ EClose :: map ETeardown (rev (r_td r0)))
        with ((p0 ++ [ERemove k0]) ++ EFailure k0 kd0 :: EClose :: map ETeardown (rev (r_td r0))) in Etr
        by (rewrite <- !app_assoc; reflexivity).
      assert (Hk : fail_kinds (pre ++ EFailure k kind :: post) = [kd0]).
      { rewrite <- Etr, fail_kinds_app, Hpre0. simpl. rewrite fail_kinds_teardowns. reflexivity. }
      rewrite fail_kinds_app in Hk. simpl in Hk.
      destruct (fail_kinds pre) eqn:Hfp; [|destruct l; discriminate].
      destruct (first_failure_unique _ _ _ _ _ _ _ _ Etr Hpre0 Hfp) as (<- & <- & <- & <-).
      split; auto. right. split; [rewrite Htd; reflexivity|]. simpl. exact Hcode.
  - exfalso.
    assert (Hall : fail_kinds (r_tr r' ++ stop_marker s) = []).
    { destruct Hend as [[-> ->]|(Hne & -> & _)].
      - simpl. rewrite app_nil_r. exact HF.
      - unfold finish, emit. simpl. rewrite !fail_kinds_app, HF. simpl. rewrite fail_kinds_teardowns.
        destruct s; reflexivity. }
    rewrite Etr, fail_kinds_app in Hall. simpl in Hall. destruct (fail_kinds pre); discriminate.
Qed.

(* ... in particular no report of any kind about a task follows it *)
Corollary serial_nothing_starts_after_failure fuel sel pre k kind post :
  fst (run_serial tasks wake_rank calc_rank false always fuel sel) = pre ++ EFailure k kind :: post ->
  forall e, In e post -> e = EClose \/ exists t, e = ETeardown t /\ In (EExecute t) pre.
Proof.
  intros E e He. destruct (serial_stops_after_failure fuel sel pre k kind post E) as [_ [[-> _]|[-> _]]].
  - destruct He.
  - destruct He as [<-|He]; [left; reflexivity|right].
    apply in_map_iff in He. destruct He as (t & <- & Ht). exists t. split; auto.
    apply in_rev in Ht. apply filter_In in Ht. destruct Ht as [Ht _].
    unfold execs in Ht. apply in_flat_map in Ht. destruct Ht as (e & He & Hin).
    destruct e; simpl in Hin; try contradiction. destruct Hin as [<-|[]]. exact He.
Qed.

(* spelled out: no task is looked at, started, saved or reported after the failure *)
Corollary serial_no_task_event_after_failure fuel sel pre k kind post :
  fst (run_serial tasks wake_rank calc_rank false always fuel sel) = pre ++ EFailure k kind :: post ->
  forall t, ~ In (EGetStatus t) post /\ ~ In (EExecute t) post /\ ~ In (ESave t) post /\ ~ In (ESuccess t) post /\ ~ In (ESkipUpToDate t) post /\ ~ In (ESkipIgnore t) post /\ ~ In (ERemove t) post /\ forall kd, ~ In (EFailure t kd) post.
Proof.
  intros E t.
  assert (H : forall e, In e post -> e = EClose \/ exists t0, e = ETeardown t0).
  { intros e He. destruct (serial_nothing_starts_after_failure fuel sel pre k kind post E e He) as [->|(t0 & -> & _)]; eauto. }
  repeat split; unfold not; intros;
    match goal with Hin : In _ post |- _ => apply H in Hin; destruct Hin as [Q|(t0 & Q)]; discriminate end.
Qed.

End S.
