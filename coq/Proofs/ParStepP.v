(* ParStepP.v -- the invariants of ParHoldP.v (PI, NI, DI/DJ, CI, ZI) in ONE-STEP form.
   ParHoldP.v proves them for whole calls of next_job_loop / hand_out / start_procs / main_loop (the
   state the loop ends in).  Liveness proofs (ParLiveP.v, ParTermP.v) make their own inductions over
   these loops and need the invariants at every intermediate state: this file states, for each loop,
   what one iteration preserves.  The proofs are the bodies of the inductions of ParHoldP.v. *)
From Coq Require Import Permutation.
From DoitV Require Import Base Dispatch Runner Parallel DispatchP DispatchInv RunnerTr RunnerP AncP HoldP HoldG CompleteP ParallelP ParHoldP.
Open Scope N_scope.

Tactic Notation "pcbn" :=
  cbn [p_results p_r p_free p_count p_workers p_jobs with_jobs with_workers with_results with_r with_sched with_counts plog sync
       put_job start_worker].
Tactic Notation "pcbn" "in" hyp(H) :=
  cbn [p_results p_r p_free p_count p_workers p_jobs with_jobs with_workers with_results with_r with_sched with_counts plog sync
       put_job start_worker] in H.

Section PS.
Variable tasks : name -> option task.
Variable wake_rank : name -> name -> N.
Variable calc_rank : name -> N.
Variable continue_ always proc : bool.

Notation node_of := (node_of tasks).
Notation st_of := (st_of tasks).
Notation get_task := (get_task tasks).
Notation reach := (reach tasks).
Notation AInv := (AInv tasks).
Notation PI := (PI tasks).
Notation NI := (NI tasks continue_).
Notation DI := (DI tasks).
Notation DJ := (DJ tasks).
Notation HG := (HG tasks).
Notation PG := (PG tasks).
Notation worker_step := (worker_step tasks proc).
Notation main_get := (main_get tasks proc).
Notation join_all := (join_all tasks proc).
Notation next_job_loop := (next_job_loop tasks wake_rank calc_rank continue_ always).
Notation get_next_job := (get_next_job tasks wake_rank calc_rank continue_ always).
Notation start_procs := (start_procs tasks wake_rank calc_rank continue_ always proc).
Notation hand_out := (hand_out tasks wake_rank calc_rank continue_ always).
Notation main_loop := (main_loop tasks wake_rank calc_rank continue_ always proc).
Notation terminate := (terminate proc).
Notation Fl_QS := (ParHoldP.Fl_QS tasks wake_rank calc_rank).

(* ---------- next_job_loop: the task handed by the dispatcher is not to be executed ---------- *)
Lemma njl_false_step fuel p completed k d r1 :
  PI p -> NI p -> DI (Fl p) completed (r_d (p_r p)) ->
  (forall k, completed = Some k -> st_of (r_d (p_r p)) k <> SNone) ->
  disp_send tasks wake_rank calc_rank (S fuel) (r_d (p_r p)) completed = (DTask k, d) ->
  select_task tasks continue_ always (with_d (p_r p) d) k = (false, r1) ->
  PI (with_r p r1) /\ NI (with_r p r1) /\ DI (Fl p) (Some k) (r_d r1) /\ st_of (r_d r1) k <> SNone.
Proof.
  intros HP HN HD Hc Ed Es.
  pose proof (pi_ri _ _ HP) as HR.
  pose proof (disp_send_spec tasks wake_rank calc_rank _ _ _ _ _ (ri_inv _ _ _ HR) (pi_pre _ _ HP) (ri_res _ _ _ HR) (ri_q _ _ _ HR) Hc Ed) as Hpost.
  pose proof (RI_disp tasks _ _ _ _ HR Hpost) as HR'.
  assert (Hst : forall x, st_of d x = st_of (r_d (p_r p)) x) by (destruct Hpost as (_ & _ & _ & S & _); exact S).
  assert (Hrund : forall k, In k (live p) -> running_in tasks d k).
  { intros k0 Hk. eapply running_in_disp; [exact Hpost|]. apply (pi_run _ _ HP). exact Hk. }
  assert (Hspd : forall z, spent tasks (r_d (p_r p)) z -> spent tasks d z)
    by (destruct Hpost as (_ & _ & _ & _ & _ & Sp & _); exact Sp).
  destruct HD as [HA HH HPG].
  destruct (disp_send_A tasks wake_rank calc_rank _ _ _ _ _ HA Ed) as [HA1 HC1].
  pose proof Ed as Ed'. unfold Dispatch.disp_send in Ed'.
  destruct (update_waiting_G tasks wake_rank calc_rank (Fl p) (r_d (p_r p)) completed HH) as (H0 & S0 & _).
  pose proof (disp_run_G tasks wake_rank calc_rank (Fl p) _ _ _ _ H0 (PG_same tasks _ _ _ _ S0 HPG) Ed') as G.
  destruct (handed_of_post tasks _ _ _ Hpost) as (HK & Hcur & Hns).
  pose proof (select_task_post tasks continue_ always (with_d (p_r p) d) k false r1 HR' HK Es) as (R1 & P1 & S1 & Pc1 & C1 & D1 & T1 & O1).
  destruct (select_task_ext tasks continue_ always _ _ _ _ Es) as [Ext Sto].
  assert (Hknl : ~ In k (live p)).
  { intros Hin. apply Hns. apply (pi_run _ _ HP k Hin). }
  assert (H1 : PI (with_r p r1)).
  { apply PI_with_r_gen; auto.
    - intros x Hx. destruct (N.eqb_spec x k) as [->|Hne]; [exact S1|].
      rewrite Sto by auto. simpl. rewrite Hst. apply (proj1 (PI_ready_of tasks p x HP Hx)).
    - intros x Hx. assert (Hne : x <> k) by (intros ->; contradiction).
      destruct (Hrund x Hx) as [A B]. split.
      + rewrite O1 by auto. exact A.
      + eapply spent_pc; [apply Pc1|]. exact B.
    - intros z Hz. eapply spent_pc; [apply Pc1|]. apply Hspd. exact Hz.
    - eapply PT_select; [|exact Es]. apply PT_with_d. apply (pi_pt _ _ HP). }
  destruct G as (G1 & GP1 & GC1).
  set (p0 := n_pc (node_of d k)).
  assert (R0 : RG tasks (Fl p) k p0 (with_d (p_r p) d)).
  { split; [apply HG_strengthen; exact G1|]. split; [exact GC1|]. split; [|reflexivity].
    intros me Hne. apply (pg_all _ _ _ _ GP1). congruence. }
  pose proof (pg_exc _ _ _ _ GP1 k eq_refl) as Hp0. fold p0 in Hp0.
  pose proof (select_task_RG tasks wake_rank calc_rank continue_ always (Fl p) k p0 _ _ _ R0 Es) as (RH1 & RC1 & RS1).
  assert (HA2 : AInv (r_d r1)) by (eapply select_task_A; [|exact Es]; exact HA1).
  assert (HN1 : NI (with_r p r1)).
  { apply NI_with_r; auto. eapply select_task_NR; [|exact Es]. apply (ni_r _ _ _ HN). }
  destruct (select_false_st tasks continue_ always _ _ _ Es) as [F1 F2].
  split; [exact H1|]. split; [exact HN1|]. split; [|exact S1].
  split; [exact HA2|exact RH1|].
  apply (PG_of_PGo tasks (Fl p) k p0); auto. unfold HoldG.gstn. destruct RS1 as [_ ->].
  destruct Hp0 as [->|[-> Hn]]; [split; [exact F1|intros En; left; apply F2; left; exact En]|].
  left. apply F2. right. exact Hn.
Qed.

(* what the dispatcher state looks like inside disp_send: wait-graph invariant before disp_run *)
Lemma disp_send_parts (F : name -> Prop) fuel d completed y d' :
  DI F completed d -> disp_send tasks wake_rank calc_rank fuel d completed = (y, d') ->
  let d0 := update_waiting tasks wake_rank d completed in
  HG F completed d /\ HG F None d0 /\ PG F None d0 /\ disp_run tasks calc_rank fuel d0 = (y, d') /\
  (forall k, y = DTask k -> d_cur d' = Some k).
Proof.
  intros [HA HH HPG] Ed. cbv zeta. unfold Dispatch.disp_send in Ed.
  destruct (update_waiting_G tasks wake_rank calc_rank F d completed HH) as (H0 & S0 & _).
  pose proof (PG_same tasks _ _ _ _ S0 HPG) as P0.
  split; [exact HH|]. split; [exact H0|]. split; [exact P0|]. split; [exact Ed|].
  intros k ->. pose proof (disp_run_G tasks wake_rank calc_rank F _ _ _ _ H0 P0 Ed) as G. simpl in G. apply G.
Qed.

(* ---------- hand_out ---------- *)
Definition HOI (n : nat) (p : pstate) (c : option name) : Prop :=
  PI p /\ NI p /\ (forall k, c = Some k -> st_of (r_d (p_r p)) k <> SNone) /\ DJ p c /\ CI (p_count p) n p /\ ZI p.

Lemma hand_out_step fuel n p c g p1 :
  HOI (S n) p c -> get_next_job fuel p c = (g, p1) ->
  QS p p1 /\
  match g with
  | GEnd => p_free p1 = p_free p /\ HOI n (put_job (with_counts p1 (p_free p1) (pred (p_count p1))) JNone) None
  | GJob j => HOI n (put_job p1 j) None /\
              match j with JTask _ => p_free p = 0%nat /\ p_free p1 = 0%nat | JHold => p_free p1 = S (p_free p) | JNone => False end
  | GCycle _ => exists k, reach k k
  | GFuel => True end.
Proof.
  intros (HP & HN & Hc & HJ & HC & HZ) Eg.
  destruct (get_next_job_G tasks wake_rank calc_rank continue_ always fuel p c g p1 HP HN (proj1 HJ) Hc Eg) as (P1 & N1 & Q1 & S1 & Hg).
  split; [exact Q1|].
  unfold CI in HC.
  destruct Hg as [(Hs & -> & ->)|(Hs & Hpost & Hhold & Hstop)].
  - (* the run is being stopped: this slot is ended *)
    split; [reflexivity|]. split; [|split; [|split; [|split; [|split]]]].
    + apply put_job_PI; [apply with_counts_PI; exact HP|intros k H; discriminate].
    + eapply NI_same; [| |exact HN]; reflexivity.
    + intros k H; discriminate.
    + split; [intros H; pcbn in H; congruence|]. pcbn. intros Hf. destruct (proj2 HJ Hf) as (A & B & C).
      split; [|split; auto]. subst c. eapply DI_mono; [|exact A]. intros x Hx. apply Fl_put_job. auto.
    + unfold CI. rewrite flight_put_job_len, flight_with_counts. pcbn. lia.
    + left. exact Hs.
  - assert (HD : DI (Fl p) c (r_d (p_r p))) by (apply (proj1 HJ); exact Hs).
    assert (Hfree0 : (g = GJob JHold -> False) -> g <> GFuel -> p_free p = 0%nat).
    { intros G1 G2. destruct (p_free p) eqn:Ef; auto. exfalso.
      destruct (proj2 HJ ltac:(lia)) as (_ & Hh & Hn). destruct (Hhold Hh Hn); auto. }
    assert (Hnostop : g <> GEnd -> g <> GFuel -> ZI p -> (0 < p_count p)%nat).
    { intros G1 G2 [Z|[Z|Z]]; auto; [congruence|]. destruct (Hstop Z); contradiction. }
    destruct g as [[k| |]| |path|]; cbn [job_post] in Hpost.
    + (* a task *)
      destruct Hpost as (Ef & HD1 & Hr & Hrun & Hnl & Hns).
      assert (F0 : p_free p = 0%nat) by (apply Hfree0; intros; discriminate).
      split; [|split; [exact F0|congruence]].
      split; [|split; [|split; [|split; [|split]]]].
      * apply put_job_PI; auto. intros k0 Ek. inversion Ek; subst. auto.
      * eapply NI_same; [| |exact N1]; reflexivity.
      * intros k0 H; discriminate.
      * split; [|pcbn; intros Hf; lia]. intros _. pcbn. eapply DI_mono; [|exact HD1].
        intros x Hx. apply Fl_put_job. destruct Hx as [Hx| ->]; auto. left. apply (Fl_QS p p1 x Q1). exact Hx.
      * unfold CI. rewrite flight_put_job_len. pcbn. rewrite (QS_flight _ _ Q1). destruct Q1 as (_ & _ & _ & ->). lia.
      * right; right. pcbn. destruct Q1 as (_ & _ & _ & ->). apply Hnostop; auto; discriminate.
    + (* hold on *)
      destruct Hpost as (Ef & HD1 & Hh1).
      assert (HD2 : DI (Fl (put_job p1 JHold)) None (r_d (p_r p1))).
      { eapply DI_mono; [|exact HD1]. intros x Hx. apply Fl_put_job. left. apply (Fl_QS p p1 x Q1). exact Hx. }
      split; [|exact Ef].
      split; [|split; [|split; [|split; [|split]]]].
      * apply put_job_PI; auto. intros k0 Ek. discriminate.
      * eapply NI_same; [| |exact N1]; reflexivity.
      * intros k0 H; discriminate.
      * split; [intros _; exact HD2|]. intros _. split; [exact HD2|]. split; auto.
      * unfold CI. rewrite flight_put_job_len. pcbn. rewrite (QS_flight _ _ Q1). destruct Q1 as (_ & _ & _ & ->). lia.
      * right; right. pcbn. destruct Q1 as (_ & _ & _ & ->). apply Hnostop; auto; discriminate.
    + destruct Hpost.
    + (* the dispatcher is exhausted: this slot is ended *)
      destruct Hpost as (Ef & HD1 & Hs1).
      assert (F0 : p_free p = 0%nat) by (apply Hfree0; intros; discriminate).
      split; [exact Ef|].
      split; [|split; [|split; [|split; [|split]]]].
      * apply put_job_PI; [apply with_counts_PI; exact P1|intros k H; discriminate].
      * eapply NI_same; [| |exact N1]; reflexivity.
      * intros k0 H; discriminate.
      * split; [|pcbn; intros Hf; lia]. intros _. pcbn. eapply DI_mono; [|exact HD1].
        intros x Hx. apply Fl_put_job. left. apply (Fl_QS p p1 x Q1). exact Hx.
      * unfold CI. rewrite flight_put_job_len, flight_with_counts. pcbn.
        rewrite (QS_flight _ _ Q1). destruct Q1 as (_ & _ & _ & ->). lia.
      * right; left. exact Hs1.
    + exact Hpost.
    + exact I.
Qed.

(* ---------- start_procs ---------- *)
Definition SPI (p : pstate) : Prop :=
  PI p /\ NI p /\ DJ p None /\ CI (length (p_workers p)) 0 p.

Lemma start_procs_step fuel p g p1 :
  SPI p -> get_next_job fuel p None = (g, p1) ->
  QS p p1 /\
  match g with
  | GJob j => SPI (start_worker (put_job p1 j)) /\ j <> JNone
  | GEnd => SPI p1
  | GCycle _ => exists k, reach k k
  | GFuel => True end.
Proof.
  intros (HP & HN & HJ & HC) Eg.
  destruct (get_next_job_G tasks wake_rank calc_rank continue_ always fuel p None g p1 HP HN (proj1 HJ) ltac:(intros k H; discriminate) Eg) as (P1 & N1 & Q1 & S1 & Hg).
  split; [exact Q1|].
  unfold CI in HC.
  destruct Hg as [(Hs & -> & ->)|(Hs & Hpost & Hhold & Hstop)].
  { split; [exact HP|]. split; [exact HN|]. split; [exact HJ|exact HC]. }
  assert (HD : DI (Fl p) None (r_d (p_r p))) by (apply (proj1 HJ); exact Hs).
  assert (Hfree0 : (g = GJob JHold -> False) -> g <> GFuel -> p_free p = 0%nat).
  { intros G1 G2. destruct (p_free p) eqn:Ef; auto. exfalso.
    destruct (proj2 HJ ltac:(lia)) as (_ & Hh & Hn). destruct (Hhold Hh Hn); auto. }
  assert (Hfin : forall j, PI (put_job p1 j) -> DJ (put_job p1 j) None ->
            (S (length (p_workers p)) = p_free (put_job p1 j) + length (flight p) + match j with JTask _ => 1 | _ => 0 end)%nat ->
            (match j with JNone => False | _ => True end) ->
            SPI (start_worker (put_job p1 j))).
  { intros j P2 J2 C2 Hj.
    assert (Hw : length (p_workers (start_worker (put_job p1 j))) = S (length (p_workers p))).
    { unfold start_worker, put_job. pcbn. destruct Q1 as (_ & -> & _). rewrite app_length. simpl. lia. }
    split; [|split; [|split]].
    - apply start_worker_PI. exact P2.
    - eapply NI_same; [| |exact N1]; reflexivity.
    - destruct J2 as [J21 J22]. split.
      + intros Hr. eapply DI_mono; [|apply J21; exact Hr]. intros x Hx. unfold Fl. rewrite flight_start_worker. exact Hx.
      + intros Hf. destruct (J22 Hf) as (A & B & C). split; auto. eapply DI_mono; [|exact A].
        intros x Hx. unfold Fl. rewrite flight_start_worker. exact Hx.
    - unfold CI. rewrite Hw, flight_start_worker, flight_put_job_len, (QS_flight _ _ Q1).
      change (p_free (start_worker (put_job p1 j))) with (p_free (put_job p1 j)). destruct j; try contradiction; lia. }
  destruct g as [[k| |]| |path|]; cbn [job_post] in Hpost.
  - destruct Hpost as (Ef & HD1 & Hr & Hrun & Hnl & Hns).
    assert (F0 : p_free p = 0%nat) by (apply Hfree0; intros; discriminate).
    split; [|discriminate]. apply (Hfin (JTask k)); auto.
    + apply put_job_PI; auto. intros k0 Ek. inversion Ek; subst. auto.
    + split; [|pcbn; intros Hf; lia]. intros _. pcbn. eapply DI_mono; [|exact HD1].
      intros x Hx. apply Fl_put_job. destruct Hx as [Hx| ->]; auto. left. apply (Fl_QS p p1 x Q1). exact Hx.
    + pcbn. lia.
  - destruct Hpost as (Ef & HD1 & Hh1).
    assert (HD2 : DI (Fl (put_job p1 JHold)) None (r_d (p_r p1))).
    { eapply DI_mono; [|exact HD1]. intros x Hx. apply Fl_put_job. left. apply (Fl_QS p p1 x Q1). exact Hx. }
    split; [|discriminate]. apply (Hfin JHold); auto.
    + apply put_job_PI; auto. intros k0 Ek. discriminate.
    + split; [intros _; exact HD2|]. intros _. split; [exact HD2|]. split; auto.
    + pcbn. lia.
  - destruct Hpost.
  - destruct Hpost as (Ef & HD1 & Hs1).
    assert (F0 : p_free p = 0%nat) by (apply Hfree0; intros; discriminate).
    split; [exact P1|]. split; [exact N1|]. split.
    + split; [|intros Hf; lia]. intros _. eapply DI_mono; [|exact HD1]. intros x Hx. apply (Fl_QS p p1 x Q1). exact Hx.
    + unfold CI. rewrite (QS_flight _ _ Q1). destruct Q1 as (_ & -> & _). lia.
  - exact Hpost.
  - exact I.
Qed.

(* ---------- main_loop ---------- *)
Definition MI (p : pstate) : Prop :=
  PI p /\ NI p /\ CI (p_count p) 0 p /\ (r_stop (p_r p) = false -> DI (Fl p) None (r_d (p_r p))) /\ ZI p.

Lemma HOI_MI p : HOI 0 p None -> MI p.
Proof. intros (A & B & _ & D & E & F). split; auto. split; auto. split; auto. split; [apply D|exact F]. Qed.

(* a message forwarded by a worker process: only the trace of the main runner grows *)
Lemma main_step_emit fuel p m p1 evs :
  MI p -> main_get fuel p = (m, p1) -> mflight m = [] ->
  PI (with_r p1 (emit (p_r p1) evs)) -> nohold evs -> nocyc evs ->
  MI (with_r p1 (emit (p_r p1) evs)).
Proof.
  intros (HP & HN & HC & HD & HZ) Em Hm P2 Hh Hc.
  destruct (main_get_N _ _ _ _ _ _ _ HN Em) as (N1 & (Qd & Qs & Qf & Qc & Qw) & Pm & Hint).
  rewrite Hm in Pm. simpl in Pm.
  split; [exact P2|]. split; [|split; [|split]].
  - apply NI_with_r; auto. apply NR_emit; auto. apply (ni_r _ _ _ N1).
  - unfold CI in *. pcbn. change (flight (with_r p1 (emit (p_r p1) evs))) with (flight p1).
    rewrite <- (Permutation_length Pm), Qf, Qc. exact HC.
  - pcbn. cbn [r_stop r_d emit]. rewrite Qs, Qd. intros Hs. eapply DI_mono; [|apply HD; exact Hs].
    intros x Hx. unfold Fl in *. change (flight (with_r p1 (emit (p_r p1) evs))) with (flight p1).
    eapply Permutation_in; eauto.
  - unfold ZI in *. pcbn. cbn [r_stop r_d emit]. rewrite Qs, Qd, Qc. exact HZ.
Qed.

Lemma main_step_report fuel p k p1 :
  MI p -> main_get fuel p = (Some (MReport k), p1) -> MI (with_r p1 (emit (p_r p1) [EExecute k])).
Proof.
  intros HM Em. pose proof HM as (HP & _).
  destruct (main_get_PI tasks proc _ _ _ _ HP Em) as (H1 & Hr & Hrr).
  apply (main_step_emit fuel p (Some (MReport k)) p1); auto; try reflexivity.
  apply PI_emit_main; auto.
  apply RI_exec; [apply (pi_ri _ _ H1)|]. apply (ready_deps _ _ _ (Hr k (or_intror eq_refl))).
Qed.

Lemma main_step_teardown fuel p k p1 :
  MI p -> main_get fuel p = (Some (MTeardown k), p1) -> MI (with_r p1 (emit (p_r p1) [ETeardown k])).
Proof.
  intros HM Em. pose proof HM as (HP & _).
  destruct (main_get_PI tasks proc _ _ _ _ HP Em) as (H1 & Hr & Hrr).
  apply (main_step_emit fuel p (Some (MTeardown k)) p1); auto; try reflexivity.
  apply PI_emit_main; auto. apply RI_emit; [apply (pi_ri _ _ H1)|reflexivity|intros e0 x0 [<-|[]]; reflexivity].
Qed.

(* a result: the state hand_out starts from *)
Lemma main_step_result fuel p k p1 :
  MI p -> main_get fuel p = (Some (MResult k), p1) ->
  let p2 := with_r p1 (process_result tasks continue_ (p_r p1) k) in
  HOI (S (p_free p2)) (with_counts p2 0 (p_count p2)) (Some k) /\ is_interrupt tasks k = false.
Proof.
  intros (HP & HN & HC & HD & HZ) Em. cbv zeta.
  destruct (main_get_PI tasks proc _ _ _ _ HP Em) as (H1 & Hr & Hrr).
  destruct (main_get_N _ _ _ _ _ _ _ HN Em) as (N1 & (Qd & Qs & Qf & Qc & Qw) & Pm & Hint).
  assert (Hk : ready tasks p1 k) by (apply Hr; left; reflexivity).
  destruct (Hrr k eq_refl) as [Hk2 Hk3].
  destruct (process_result_PI tasks continue_ p1 k H1 Hk Hk2 Hk3) as [H2 S2].
  pose proof (Hint k eq_refl) as Hi.
  set (p2 := with_r p1 (process_result tasks continue_ (p_r p1) k)) in *.
  simpl in Pm. destruct (perm_cons_Fl _ _ _ Pm) as [PmIn PmLen].
  assert (N2 : NI p2) by (apply NI_with_r; auto; apply process_result_NR; apply (ni_r _ _ _ N1)).
  split; [|exact Hi].
  split; [|split; [|split; [|split; [|split]]]].
  - apply with_counts_PI. exact H2.
  - eapply NI_same; [| |exact N2]; reflexivity.
  - intros k0 Ek. inversion Ek; subst. exact S2.
  - split; [|pcbn; intros Hf; lia]. pcbn. intros Hs.
    assert (Hs1 : r_stop (p_r p) = false).
    { rewrite <- Qs. destruct (r_stop (p_r p1)) eqn:Es1; auto. pose proof (process_result_stop_mono tasks continue_ _ k Es1) as Hm. unfold p2 in Hs. pcbn in Hs. congruence. }
    apply (process_result_flight tasks wake_rank calc_rank continue_ (Fl p)); auto.
    + rewrite Qd. apply HD. exact Hs1.
    + apply (spent_exn tasks). apply Hk2.
  - unfold CI in *. pcbn. rewrite flight_with_counts. change (flight p2) with (flight p1).
    change (p_count p2) with (p_count p1). change (p_free p2) with (p_free p1). rewrite Qc, Qf. lia.
  - unfold ZI in *. pcbn. change (p_count p2) with (p_count p1). rewrite Qc. destruct HZ as [Z|[Z|Z]]; auto.
    + left. apply (process_result_stop_mono tasks continue_). rewrite Qs. exact Z.
    + right; left. apply (stop4_process_result tasks continue_). rewrite Qd. exact Z.
Qed.

End PS.
