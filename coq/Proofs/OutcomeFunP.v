(* OutcomeFunP.v -- the executable, fuelled outcome function [fin_fun] of OutcomeSpec.v only returns
   outcomes that the declarative relation [fin] derives. *)
From DoitV Require Import Base Dispatch Runner DispatchInv RunnerP OutcomeSpec.
From Coq Require Import List Bool Lia.
Import ListNotations.
Open Scope N_scope.

(* ---------- generic list facts ---------- *)
Lemma existsb_map_true {A B} (f : B -> bool) (g : A -> B) l :
  existsb f (map g l) = true -> exists x, In x l /\ f (g x) = true.
Proof.
  intros H. apply existsb_exists in H. destruct H as (y & Hy & Hf).
  apply in_map_iff in Hy. destruct Hy as (x & Hx & Hin). subst y. exists x. split; assumption.
Qed.

Lemma existsb_map_false {A B} (f : B -> bool) (g : A -> B) l :
  existsb f (map g l) = false -> forall x, In x l -> f (g x) = false.
Proof.
  intros H x Hx. destruct (f (g x)) eqn:E; [|reflexivity].
  assert (T : existsb f (map g l) = true).
  { apply existsb_exists. exists (g x). split; [apply in_map; exact Hx|exact E]. }
  congruence.
Qed.

Lemma fres_status_good r :
  is_ignst (fres_status r) = false -> is_failst (fres_status r) = false -> is_goodst (fres_status r) = true.
Proof. destruct r as [| | |[] kd]; simpl; intros; congruence. Qed.

Lemma is_ignst_eq s : is_ignst s = true -> s = SIgnore.
Proof. destruct s; simpl; intros; congruence. Qed.

Lemma is_ignst_neq s : is_ignst s = false -> s <> SIgnore.
Proof. destruct s; simpl; intros; congruence. Qed.

Section Sound.
Variable tasks : name -> option task.
Variable always : bool.
Variable rec : name -> option fres.
Notation gt := (get_task tasks).

(* the outcome assignment read off [rec] *)
Definition asg : name -> fres := fun x => match rec x with Some v => v | None => FIgnore end.
Notation st := (sta asg).

Lemma st_rec x v : rec x = Some v -> st x = fres_status v.
Proof. intros H. unfold sta, asg. rewrite H. reflexivity. Qed.

(* ---------- statuses ---------- *)
Lemma statuses_spec l : forall sts, statuses rec l = Some sts ->
  (forall x, In x l -> exists v, rec x = Some v) /\ sts = map st l.
Proof.
  induction l as [|x l IH]; intros sts H; cbn [statuses] in H.
  - inversion H; subst. split; [intros x []|reflexivity].
  - destruct (rec x) as [v|] eqn:Ex; [|discriminate].
    destruct (statuses rec l) as [s|] eqn:Es; [|discriminate].
    inversion H; subst. destruct (IH s eq_refl) as [IH1 IH2]. split.
    + intros y [Hy|Hy]; [subst y; exists v; exact Ex|apply IH1; exact Hy].
    + cbn [map]. rewrite (st_rec x v Ex). rewrite IH2. reflexivity.
Qed.

Lemma all_good l :
  existsb is_ignst (map st l) = false -> existsb is_failst (map st l) = false ->
  forall x, In x l -> is_goodst (st x) = true.
Proof.
  intros Hi Hf x Hx. unfold sta. apply fres_status_good.
  - apply (existsb_map_false is_ignst st l Hi x Hx).
  - apply (existsb_map_false is_failst st l Hf x Hx).
Qed.

(* ---------- the calc_dep closure ---------- *)
Section Closure.
Variable k : name.

Definition Inv (todo done tks : list name) : Prop :=
  (forall c, In c (todo ++ done) -> vcalc tasks st k c) /\
  (forall c, In c (t_calc_dep (gt k)) -> In c (todo ++ done)) /\
  (forall c, In c done -> exists v, rec c = Some v /\
      (calc_values_visible (fres_status v) = true ->
        incl (t_calc_new_calc (gt c)) (todo ++ done) /\ incl (new_tasks tasks c) tks)) /\
  (forall y, In y tks -> In y (t_task_dep (gt k)) \/
      exists c, In c done /\ calc_values_visible (st c) = true /\ In y (new_tasks tasks c)) /\
  incl (t_task_dep (gt k)) tks.

Lemma Inv_init : Inv (t_calc_dep (gt k)) [] (t_task_dep (gt k)).
Proof.
  unfold Inv. repeat split.
  - intros c Hc. rewrite app_nil_r in Hc. apply vc_static. exact Hc.
  - intros c Hc. rewrite app_nil_r. exact Hc.
  - intros c [].
  - intros y Hy. left. exact Hy.
  - apply incl_refl.
Qed.

Lemma Inv_skip c rest done tks : In c done -> Inv (c :: rest) done tks -> Inv rest done tks.
Proof.
  intros Hc (I1 & I2 & I3 & I4 & I5).
  assert (S : forall x, In x ((c :: rest) ++ done) -> In x (rest ++ done)).
  { intros x Hx. cbn [app] in Hx. destruct Hx as [Hx|Hx]; [subst x; apply in_or_app; right; exact Hc|exact Hx]. }
  unfold Inv. repeat split.
  - intros x Hx. apply I1. cbn [app]. right. exact Hx.
  - intros x Hx. apply S. apply I2. exact Hx.
  - intros x Hx. destruct (I3 x Hx) as (v & Hv & Hvis). exists v. split; [exact Hv|].
    intros V. destruct (Hvis V) as [A B]. split; [|exact B]. intros y Hy. apply S. apply A. exact Hy.
  - exact I4.
  - exact I5.
Qed.

Lemma Inv_visible c v rest done tks :
  rec c = Some v -> calc_values_visible (fres_status v) = true ->
  Inv (c :: rest) done tks ->
  Inv (rest ++ t_calc_new_calc (gt c)) (c :: done) (tks ++ new_tasks tasks c).
Proof.
  intros Hv V (I1 & I2 & I3 & I4 & I5).
  assert (S : forall x, In x ((c :: rest) ++ done) -> In x ((rest ++ t_calc_new_calc (gt c)) ++ c :: done)).
  { intros x Hx. cbn [app In] in Hx. rewrite !in_app_iff. cbn [In]. rewrite in_app_iff in Hx. tauto. }
  assert (Vc : vcalc tasks st k c) by (apply I1; cbn [app]; left; reflexivity).
  assert (Vs : calc_values_visible (st c) = true) by (rewrite (st_rec c v Hv); exact V).
  unfold Inv. repeat split.
  - intros x Hx. rewrite !in_app_iff in Hx. cbn [In] in Hx.
    destruct Hx as [[Hx|Hx]|[Hx|Hx]].
    + apply I1. cbn [app]. right. apply in_or_app. left. exact Hx.
    + eapply vc_more; [exact Vc|exact Vs|exact Hx].
    + subst x. exact Vc.
    + apply I1. cbn [app]. right. apply in_or_app. right. exact Hx.
  - intros x Hx. apply S. apply I2. exact Hx.
  - intros x [Hx|Hx].
    + subst x. exists v. split; [exact Hv|]. intros _. split.
      * intros y Hy. rewrite !in_app_iff. left. right. exact Hy.
      * intros y Hy. apply in_or_app. right. exact Hy.
    + destruct (I3 x Hx) as (w & Hw & Hvis). exists w. split; [exact Hw|].
      intros W. destruct (Hvis W) as [A B]. split.
      * intros y Hy. apply S. apply A. exact Hy.
      * intros y Hy. apply in_or_app. left. apply B. exact Hy.
  - intros y Hy. apply in_app_or in Hy. destruct Hy as [Hy|Hy].
    + destruct (I4 y Hy) as [H|(c0 & Hc0 & V0 & Hin)]; [left; exact H|].
      right. exists c0. split; [right; exact Hc0|]. split; assumption.
    + right. exists c. split; [left; reflexivity|]. split; assumption.
  - intros y Hy. apply in_or_app. left. apply I5. exact Hy.
Qed.

Lemma Inv_hidden c v rest done tks :
  rec c = Some v -> calc_values_visible (fres_status v) = false ->
  Inv (c :: rest) done tks -> Inv rest (c :: done) tks.
Proof.
  intros Hv V (I1 & I2 & I3 & I4 & I5).
  assert (S : forall x, In x ((c :: rest) ++ done) -> In x (rest ++ c :: done)).
  { intros x Hx. cbn [app In] in Hx. rewrite in_app_iff. cbn [In]. rewrite in_app_iff in Hx. tauto. }
  assert (S' : forall x, In x (rest ++ c :: done) -> In x ((c :: rest) ++ done)).
  { intros x Hx. cbn [app In]. rewrite in_app_iff in Hx. cbn [In] in Hx. rewrite in_app_iff. tauto. }
  unfold Inv. repeat split.
  - intros x Hx. apply I1. apply S'. exact Hx.
  - intros x Hx. apply S. apply I2. exact Hx.
  - intros x [Hx|Hx].
    + subst x. exists v. split; [exact Hv|]. intros W. congruence.
    + destruct (I3 x Hx) as (w & Hw & Hvis). exists w. split; [exact Hw|].
      intros W. destruct (Hvis W) as [A B]. split; [|exact B].
      intros y Hy. apply S. apply A. exact Hy.
  - intros y Hy. destruct (I4 y Hy) as [H|(c0 & Hc0 & V0 & Hin)]; [left; exact H|].
    right. exists c0. split; [right; exact Hc0|]. split; assumption.
  - exact I5.
Qed.

Lemma closure_inv m : forall todo done tks calcs tks',
  Inv todo done tks -> closure tasks rec m todo done tks = Some (calcs, tks') -> Inv [] calcs tks'.
Proof.
  induction m as [|m IH]; intros todo done tks calcs tks' HI Hc; cbn [closure] in Hc; [discriminate|].
  destruct todo as [|c rest].
  - inversion Hc; subst. exact HI.
  - destruct (mem c done) eqn:Em.
    + apply mem_In in Em. eapply IH; [|exact Hc]. eapply Inv_skip; eassumption.
    + destruct (rec c) as [v|] eqn:Ev; [|discriminate].
      destruct (calc_values_visible (fres_status v)) eqn:V.
      * eapply IH; [|exact Hc]. eapply Inv_visible; eassumption.
      * eapply IH; [|exact Hc]. eapply Inv_hidden; eassumption.
Qed.

(* what the invariant says at the end *)
Lemma Inv_vcalc calcs tks : Inv [] calcs tks -> forall c, In c calcs <-> vcalc tasks st k c.
Proof.
  intros (I1 & I2 & I3 & I4 & I5) c. cbn [app] in *. split; [apply I1|].
  intros H. induction H as [c H|c c' H IH V Hin].
  - apply I2. exact H.
  - destruct (I3 c IH) as (v & Hv & Hvis). rewrite (st_rec c v Hv) in V.
    destruct (Hvis V) as [A _]. apply A. exact Hin.
Qed.

Lemma Inv_rec calcs tks : Inv [] calcs tks -> forall c, In c calcs -> exists v, rec c = Some v.
Proof.
  intros (I1 & I2 & I3 & I4 & I5) c Hc. destruct (I3 c Hc) as (v & Hv & _). exists v. exact Hv.
Qed.

Lemma Inv_vdep calcs tks : Inv [] calcs tks -> forall y, In y (tks ++ calcs) <-> vdep tasks st k y.
Proof.
  intros HI y. pose proof (Inv_vcalc calcs tks HI) as VC.
  destruct HI as (I1 & I2 & I3 & I4 & I5). cbn [app] in *. split.
  - intros Hy. apply in_app_or in Hy. destruct Hy as [Hy|Hy].
    + destruct (I4 y Hy) as [H|(c & Hc & V & Hin)].
      * apply vd_task. exact H.
      * eapply vd_dyn; [apply I1; exact Hc|exact V|exact Hin].
    + apply vd_calc. apply I1. exact Hy.
  - intros [H|H|c H V Hin]; apply in_or_app.
    + left. apply I5. exact H.
    + right. apply VC. exact H.
    + left. apply VC in H. destruct (I3 c H) as (v & Hv & Hvis). rewrite (st_rec c v Hv) in V.
      destruct (Hvis V) as [_ B]. apply B. exact Hin.
Qed.
End Closure.

(* ---------- one unfolding of fin_fun ---------- *)
Hypothesis Hrec : forall x v, rec x = Some v -> fin tasks always x v.

Lemma asg_fin x v : rec x = Some v -> fin tasks always x (asg x).
Proof. intros H. unfold asg. rewrite H. apply Hrec. exact H. Qed.

Definition exec_part (k : name) : option fres :=
  match statuses rec (t_setup (gt k)) with
  | None => None
  | Some ss =>
    if existsb is_ignst ss then Some FIgnore
    else if existsb is_failst ss then Some (FFail false kind_unmet)
    else exec_res (gt k)
  end.

Lemma exec_part_sound k r : exec_part k = Some r ->
  (forall x, In x (t_setup (gt k)) -> fin tasks always x (asg x)) /\ second tasks st k r.
Proof.
  unfold exec_part. intros H.
  destruct (statuses rec (t_setup (gt k))) as [ss|] eqn:Es; [|discriminate].
  destruct (statuses_spec _ _ Es) as [Hd Hss]. subst ss. split.
  - intros x Hx. destruct (Hd x Hx) as [v Hv]. eapply asg_fin. exact Hv.
  - destruct (existsb is_ignst (map st (t_setup (gt k)))) eqn:Ei.
    + inversion H; subst. apply s_ignore. apply existsb_map_true in Ei.
      destruct Ei as (x & Hx & Hs). exists x. split; [exact Hx|apply is_ignst_eq; exact Hs].
    + destruct (existsb is_failst (map st (t_setup (gt k)))) eqn:Ef.
      * inversion H; subst. apply s_unmet.
        -- intros x Hx. apply is_ignst_neq. apply (existsb_map_false is_ignst st _ Ei x Hx).
        -- apply existsb_map_true in Ef. exact Ef.
      * apply s_exec; [|exact H]. apply all_good; assumption.
Qed.

Definition fin_step (cfuel : nat) (k : name) : option fres :=
  let t := gt k in
  match closure tasks rec cfuel (t_calc_dep t) [] (t_task_dep t) with
  | None => None
  | Some (calcs, tks) =>
    match statuses rec (tks ++ calcs) with
    | None => None
    | Some sts =>
      if existsb is_ignst sts || t_dbignore t then Some FIgnore
      else if existsb is_failst sts then Some (FFail false kind_unmet)
      else match t_check t with
        | CkError => Some (FFail false kind_dep)
        | ck =>
          if negb always && match ck with CkUpToDate => true | _ => false end then Some FUpToDate
          else exec_part k
        end
    end
  end.

Lemma fin_step_sound cfuel k r : fin_step cfuel k = Some r -> fin tasks always k r.
Proof.
  unfold fin_step. cbv zeta. intros H.
  destruct (closure tasks rec cfuel (t_calc_dep (gt k)) [] (t_task_dep (gt k))) as [[calcs tks]|] eqn:Ec;
    [|discriminate].
  assert (HI : Inv k [] calcs tks) by (eapply closure_inv; [apply Inv_init|exact Ec]).
  destruct (statuses rec (tks ++ calcs)) as [sts|] eqn:Es; [|discriminate].
  destruct (statuses_spec _ _ Es) as [Hd Hsts]. subst sts.
  pose proof (Inv_vdep k calcs tks HI) as Hvd.
  assert (D : forall x, vdep tasks st k x -> fin tasks always x (asg x)).
  { intros x Hx. apply Hvd in Hx. destruct (Hd x Hx) as [v Hv]. eapply asg_fin. exact Hv. }
  destruct (existsb is_ignst (map st (tks ++ calcs))) eqn:Ei.
  { cbn [orb] in H. inversion H; subst.
    eapply fin_skip with (p := PIgnore); [exact D| |reflexivity].
    apply f_ignore. left. apply existsb_map_true in Ei. destruct Ei as (x & Hx & Hs).
    exists x. split; [apply Hvd; exact Hx|apply is_ignst_eq; exact Hs]. }
  cbn [orb] in H.
  destruct (t_dbignore (gt k)) eqn:Edb.
  { inversion H; subst. eapply fin_skip with (p := PIgnore); [exact D| |reflexivity].
    apply f_ignore. right. exact Edb. }
  assert (Hn : forall x, vdep tasks st k x -> st x <> SIgnore).
  { intros x Hx. apply Hvd in Hx. apply is_ignst_neq. apply (existsb_map_false is_ignst st _ Ei x Hx). }
  destruct (existsb is_failst (map st (tks ++ calcs))) eqn:Ef.
  { inversion H; subst. eapply fin_skip with (p := PUnmet); [exact D| |reflexivity].
    apply f_unmet; [exact Hn|exact Edb|].
    apply existsb_map_true in Ef. destruct Ef as (x & Hx & Hs).
    exists x. split; [apply Hvd; exact Hx|exact Hs]. }
  assert (Hg : forall x, vdep tasks st k x -> is_goodst (st x) = true).
  { intros x Hx. apply Hvd in Hx. eapply all_good; eassumption. }
  destruct (t_check (gt k)) eqn:Eck.
  - (* CkRun *)
    rewrite andb_false_r in H. apply exec_part_sound in H. destruct H as [Hset Hsec].
    eapply fin_exec; [exact D| |exact Hset|exact Hsec].
    apply f_run; [exact Hg|exact Edb|]. left. exact Eck.
  - (* CkUpToDate *)
    rewrite andb_true_r in H. destruct (negb always) eqn:Eal.
    + apply negb_true_iff in Eal.
      inversion H; subst r. eapply fin_skip with (p := PUpToDate); [exact D| |reflexivity].
      apply f_uptodate; [exact Hg|exact Edb|exact Eck|exact Eal].
    + apply negb_false_iff in Eal.
      apply exec_part_sound in H. destruct H as [Hset Hsec].
      eapply fin_exec; [exact D| |exact Hset|exact Hsec].
      apply f_run; [exact Hg|exact Edb|]. right. split; [exact Eck|exact Eal].
  - (* CkError *)
    inversion H; subst. eapply fin_skip with (p := PCkErr); [exact D| |reflexivity].
    apply f_ckerr; [exact Hg|exact Edb|exact Eck].
Qed.
End Sound.

Lemma fin_fun_S tasks always cfuel n k :
  fin_fun tasks always cfuel (S n) k = fin_step tasks always (fin_fun tasks always cfuel n) cfuel k.
Proof. reflexivity. Qed.

Theorem fin_fun_sound tasks always cfuel fuel k r :
  fin_fun tasks always cfuel fuel k = Some r -> fin tasks always k r.
Proof.
  revert k r. induction fuel as [|n IH]; intros k r H.
  - discriminate H.
  - rewrite fin_fun_S in H. eapply fin_step_sound; [|exact H]. exact IH.
Qed.
Print Assumptions fin_fun_sound.
