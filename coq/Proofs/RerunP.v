(* RerunP.v -- the WHOLE repeated run is a no-op (C04, completeness of the up-to-date decision at the level of runs):
   run_all of Model/History.v.  (The serial runner with getargs / setup-tasks of Model/Getargs.v: Proofs/RerunGP.v, on top of this file.)
   DB records hold a function (r_saved), so "the same record" is stated extensionally ([rec_eq], [db_equiv]);
   for the tasks that are not executed the record is literally (Leibniz) unchanged.
   Plan: [saved_now s t] = the record of t is what a successful execution of t would write in s; a SaveOk of such a task leaves an
   equivalent DB (saveok_noop).  [stable s t] = t is ignored, or its files are as its last success saw them and, unless it is
   up-to-date, saved_now.  Processing a stable task keeps the DB equivalent and every stable task stable (run_task_stable,
   run_all_stable); the first run makes every task of the list stable (first_run) when result_dep providers come first. *)
From Coq Require Import ZifyBool.
From DoitV Require Import Base Status History Getargs StatusP HistoryP GetargsP.
Open Scope Z_scope.

(* ---------- extensional equality of records / DBs ---------- *)
Definition rec_eq (r r' : rec) : Prop :=
  r_deps r = r_deps r' /\ r_checker r = r_checker r' /\ (forall f, r_saved r f = r_saved r' f) /\
  r_values r = r_values r' /\ r_result r = r_result r' /\ r_ignore r = r_ignore r'.
Definition db_equiv (d d' : db) : Prop :=
  forall t, match d t, d' t with Some r, Some r' => rec_eq r r' | None, None => True | _, _ => False end.

Lemma rec_eq_refl r : rec_eq r r.
Proof. repeat split; reflexivity. Qed.
Lemma rec_eq_sym r r' : rec_eq r r' -> rec_eq r' r.
Proof. intros (A & B & C & D & E & F). repeat split; auto. Qed.
Lemma rec_eq_trans a b c : rec_eq a b -> rec_eq b c -> rec_eq a c.
Proof.
  intros (A & B & C & D & E & F) (A' & B' & C' & D' & E' & F').
  repeat split; try congruence. all: intros f; rewrite C; apply C'.
Qed.
Lemma db_equiv_refl d : db_equiv d d.
Proof. intros t. destruct (d t); auto. apply rec_eq_refl. Qed.
Lemma db_equiv_sym d d' : db_equiv d d' -> db_equiv d' d.
Proof. intros H t. specialize (H t). destruct (d t), (d' t); auto. apply rec_eq_sym; auto. Qed.
Lemma db_equiv_trans a b c : db_equiv a b -> db_equiv b c -> db_equiv a c.
Proof.
  intros H1 H2 t. specialize (H1 t). specialize (H2 t).
  destruct (a t), (b t), (c t); auto; try contradiction. eapply rec_eq_trans; eauto.
Qed.
Lemma db_equiv_getrec d d' t : db_equiv d d' -> rec_eq (getrec d t) (getrec d' t).
Proof. intros H. specialize (H t). unfold getrec. destruct (d t), (d' t); auto; try contradiction. apply rec_eq_refl. Qed.
Lemma db_equiv_result d d' t : db_equiv d d' -> get_result d t = get_result d' t.
Proof. intros H. apply (db_equiv_getrec d d' t H). Qed.
Lemma db_equiv_values d d' t : db_equiv d d' -> get_values d t = get_values d' t.
Proof. intros H. apply (db_equiv_getrec d d' t H). Qed.
Lemma db_equiv_ignore d d' t : db_equiv d d' -> status_is_ignore d t = status_is_ignore d' t.
Proof. intros H. apply (db_equiv_getrec d d' t H). Qed.
Lemma db_equiv_upd d t r r' : d t = Some r -> rec_eq r' r -> db_equiv (upd d t (Some r')) d.
Proof.
  intros E H x. unfold upd. destruct (N.eqb_spec x t) as [->|Hne].
  - rewrite E. exact H.
  - destruct (d x); auto. apply rec_eq_refl.
Qed.

(* the observation the harness compares (db_z of History.v) does not distinguish equivalent DBs *)
Lemma rec_z_eq files r r' : rec_eq r r' -> rec_z files (Some r) = rec_z files (Some r').
Proof.
  intros (A & B & C & D & E & F). unfold rec_z. rewrite A, B, D, E, F. f_equal. f_equal.
  induction files as [|f l IH]; simpl; auto. rewrite C, IH. reflexivity.
Qed.
Lemma db_z_equiv tasks files d d' : db_equiv d d' -> db_z tasks files d = db_z tasks files d'.
Proof.
  intros H. unfold db_z. induction tasks as [|t l IH]; simpl; auto. rewrite IH. f_equal.
  specialize (H t). destruct (d t), (d' t); try contradiction; auto. apply rec_z_eq; auto.
Qed.

(* ---------- what the items and the value savers read ---------- *)
Lemma eval_utd_ext d d' t u :
  get_values d' t = get_values d t ->
  (forall src, u = UResultDep src -> get_result d' src = get_result d src) ->
  eval_utd d' t u = eval_utd d t u.
Proof.
  intros Hv Hr. destruct u; simpl; rewrite ?Hv; auto.
  rewrite (Hr src eq_refl). reflexivity.
Qed.

Lemma fold_left_ext_in {A B} (f g : A -> B -> A) l : (forall a x, In x l -> f a x = g a x) ->
  forall a, fold_left f l a = fold_left g l a.
Proof.
  induction l as [|x l IH]; intros H a; simpl; auto.
  rewrite (H a x) by (simpl; auto). apply IH. intros; apply H; simpl; auto.
Qed.

Lemma save_extra_values_ext d d' df :
  (forall src, In (UResultDep src) (uptodate df) -> get_result d' src = get_result d src) ->
  save_extra_values d' df = save_extra_values d df.
Proof.
  intros H. unfold save_extra_values. apply fold_left_ext_in. intros a u Hu.
  destruct u; simpl; auto. rewrite (H src Hu). reflexivity.
Qed.

(* result_dep providers come earlier in the list than their consumers (doit runs a task_dep before the task), or are not in it *)
Fixpoint providers_first (defs : name -> tdef) (ts : list name) : Prop :=
  match ts with
  | [] => True
  | t :: r => (forall src, In (UResultDep src) (uptodate (defs t)) -> src <> t /\ ~ In src r) /\ providers_first defs r
  end.

Section RerunP.
Variable md5 : N -> N.
Variable size_of : N -> Z.
Variable v : ver.
Hypothesis HA : fixA v = true.
Hypothesis HB : fixB v = true.

Notation step := (step md5 size_of v).
Notation run_from := (run_from md5 size_of v).
Notation check := (check md5 v).
Notation run_task := (fun s t => run_task md5 size_of v s t false false).
Notation run_all := (run_all md5 size_of v).
Notation inv := (db_reflects_ghost md5).
Notation executes := (executes md5 v).

(* the verdict `up-to-date` looks at the DB through the task's record (extensionally) and its providers' results *)
Lemma uptodate_iff_ext s s' t :
  same_env s s' -> rec_eq (getrec (s_db s') t) (getrec (s_db s) t) ->
  (forall src, In (UResultDep src) (uptodate (s_defs s t)) -> get_result (s_db s') src = get_result (s_db s) src) ->
  (g_status (check s' t) = UpToDate <-> g_status (check s t) = UpToDate).
Proof.
  intros (E1 & E2 & E3) Hr Hres. unfold History.check. rewrite E1, E2, E3.
  rewrite !get_status_uptodate_iff.
  destruct Hr as (A & B & C & D & E & F).
  assert (Hev : forall u, In u (uptodate (s_defs s t)) -> eval_utd (s_db s') t u = eval_utd (s_db s) t u).
  { intros u Hu. apply eval_utd_ext; [exact D|]. intros src ->. apply Hres; auto. }
  assert (H1 : items_ok (s_db s') t (s_defs s t) <-> items_ok (s_db s) t (s_defs s t)).
  { unfold items_ok. split; intros H u Hin; [rewrite <- Hev | rewrite Hev]; auto. }
  assert (H2 : some_dep (s_db s') t (s_defs s t) <-> some_dep (s_db s) t (s_defs s t)).
  { unfold some_dep. split; (intros [H|[u [b [Hin Eu]]]]; [auto | right; exists u, b; split; auto]);
      [rewrite <- Hev | rewrite Hev]; auto. }
  assert (H3 : ck_changed (s_ck s) (getrec (s_db s') t) = ck_changed (s_ck s) (getrec (s_db s) t)).
  { unfold ck_changed. rewrite B. reflexivity. }
  assert (H4 : deps_changed v (getrec (s_db s') t) (s_defs s t) = deps_changed v (getrec (s_db s) t) (s_defs s t)).
  { unfold deps_changed. rewrite A. reflexivity. }
  assert (H5 : forall f, dep_verdict md5 v (s_ck s) (s_fs s) (getrec (s_db s') t) f = dep_verdict md5 v (s_ck s) (s_fs s) (getrec (s_db s) t) f).
  { intros f. unfold dep_verdict, outside_saved_deps. rewrite A, C. reflexivity. }
  rewrite H3, H4. rewrite H1, H2.
  assert (H6 : Forall (fun f => dep_verdict md5 v (s_ck s) (s_fs s) (getrec (s_db s') t) f = FSame) (file_dep (s_defs s t)) <->
               Forall (fun f => dep_verdict md5 v (s_ck s) (s_fs s) (getrec (s_db s) t) f = FSame) (file_dep (s_defs s t))).
  { rewrite !Forall_forall. split; intros H f Hf; [rewrite <- H5 | rewrite H5]; auto. }
  rewrite H6. tauto.
Qed.

Lemma check_same s s' t :
  s_fs s' = s_fs s -> s_defs s' = s_defs s -> s_ck s' = s_ck s -> s_db s' = s_db s -> check s' t = check s t.
Proof. intros E1 E2 E3 E4. unfold History.check. rewrite E1, E2, E3, E4. reflexivity. Qed.

(* ---------- the record of t is what a successful execution of t would write NOW ---------- *)
Definition saved_now (s : state) (t : name) : Prop :=
  let r := getrec (s_db s) t in let df := s_defs s t in
  r_checker r = Some (s_ck s) /\ r_deps r = Some (file_dep df) /\
  r_values r = save_extra_values (s_db s) df /\
  (forall h, act_result df = Some h -> r_result r = Some h) /\
  (forall f, In f (file_dep df) -> good md5 (s_ck s) (s_fs s) r f).

Lemma saved_now_ext s s' t :
  same_env s s' -> rec_eq (getrec (s_db s') t) (getrec (s_db s) t) ->
  (forall src, In (UResultDep src) (uptodate (s_defs s t)) -> get_result (s_db s') src = get_result (s_db s) src) ->
  saved_now s t -> saved_now s' t.
Proof.
  intros (E1 & E2 & E3) (A & B & C & D & E & F) Hres (S1 & S2 & S3 & S4 & S5).
  unfold saved_now. rewrite E1, E2, E3. cbv zeta.
  split; [congruence|]. split; [congruence|]. split.
  { rewrite D, S3. symmetry. apply save_extra_values_ext. exact Hres. }
  split; [intros h Hh; rewrite E; auto|].
  intros f Hf. destruct (S5 f Hf) as [st [G1 G2]]. exists st. split; auto. rewrite C. exact G2.
Qed.

Lemma saved_now_record s t : saved_now s t -> exists r, s_db s t = Some r.
Proof.
  intros (S1 & _). unfold getrec in S1. destruct (s_db s t) as [r|]; [eauto | discriminate].
Qed.

Lemma saved_now_ck s t : saved_now s t -> ck_changed (s_ck s) (getrec (s_db s) t) = false.
Proof. intros (S1 & _). unfold ck_changed. rewrite S1, ck_eqb_refl. reflexivity. Qed.

(* writing the files again over a record that holds their current states changes nothing *)
Lemma save_files_good c fs deps : forall r,
  (forall f, In f deps -> good md5 c fs r f) ->
  exists r', save_files md5 c fs r deps = (r', SaveDone) /\ rec_eq r' r.
Proof.
  induction deps as [|f deps IH]; intros r Hg; simpl.
  - exists r. split; auto. apply rec_eq_refl.
  - destruct (Hg f (or_introl eq_refl)) as [st [Hst Hsv]]. rewrite Hst, Hsv.
    assert (Hcase : get_state md5 c st (Some (state_of md5 c st)) = GSKeep \/
                    get_state md5 c st (Some (state_of md5 c st)) = GSNew (state_of md5 c st)).
    { destruct c; simpl; auto. rewrite Z.eqb_refl. auto. }
    destruct Hcase as [-> | ->].
    + apply IH. intros g Hgd. apply Hg. simpl; auto.
    + set (r1 := set_saved r f (Some (state_of md5 c st))).
      assert (Hr1 : rec_eq r1 r).
      { repeat split; try reflexivity. intros g. simpl. unfold upd. destruct (N.eqb_spec g f) as [->|]; auto. }
      destruct (IH r1) as [r' [H1 H2]].
      { intros g Hgd. destruct (Hg g (or_intror Hgd)) as [st' [G1 G2]]. exists st'. split; auto.
        destruct Hr1 as (_ & _ & C & _). rewrite C. exact G2. }
      exists r'. split; auto. eapply rec_eq_trans; eauto.
Qed.

Lemma saveok_idem s t :
  saved_now s t ->
  exists r', process_success md5 v (s_ck s) (s_fs s) (s_db s) t (s_defs s t) = (upd (s_db s) t (Some r'), SaveDone) /\
             rec_eq r' (getrec (s_db s) t).
Proof.
  intros (S1 & S2 & S3 & S4 & S5). unfold process_success, save_success, save_success_rec.
  set (r0 := getrec (s_db s) t) in *. set (df := s_defs s t) in *.
  assert (Hw : wipe_if_other_checker v (s_ck s) r0 = r0).
  { unfold wipe_if_other_checker. rewrite S1, ck_eqb_refl. simpl. rewrite andb_false_r. reflexivity. }
  rewrite Hw. cbv zeta.
  set (r3 := set_checker _ _).
  assert (Hr3 : rec_eq r3 r0).
  { unfold r3. destruct (act_result df) as [h|] eqn:Eh; repeat split; simpl; auto.
    symmetry. apply S4. reflexivity. }
  destruct (save_files_good (s_ck s) (s_fs s) (file_dep df) r3) as [r4 [E4 Hr4]].
  { intros f Hf. destruct (S5 f Hf) as [st [G1 G2]]. exists st. split; auto.
    destruct Hr3 as (_ & _ & C & _). rewrite C. exact G2. }
  rewrite E4. eexists. split; [reflexivity|].
  assert (H40 : rec_eq r4 r0) by (eapply rec_eq_trans; eauto).
  destruct H40 as (A & B & C & D & E & F). repeat split; simpl; auto; congruence.
Qed.

(* ... hence: a SaveOk of such a task leaves an equivalent DB *)
Lemma saveok_noop s t :
  saved_now s t ->
  db_equiv (s_db (step s (SaveOk t))) (s_db s) /\
  (match s_log (step s (SaveOk t)) with OSave _ SaveDone :: _ => True | _ => False end).
Proof.
  intros Hs. destruct (saveok_idem s t Hs) as [r' [E Hr]]. destruct (saved_now_record s t Hs) as [r Er].
  simpl. rewrite E. simpl. split; auto.
  apply (db_equiv_upd _ _ r); auto. rewrite <- (getrec_some _ _ _ Er). exact Hr.
Qed.

Lemma save_files_result c fs deps : forall r, r_result (fst (save_files md5 c fs r deps)) = r_result r.
Proof.
  induction deps as [|f deps IH]; intros r; simpl; auto.
  destruct (fs f) as [st|]; simpl; auto.
  destruct (get_state md5 c st (r_saved r f)); simpl; auto. rewrite IH. reflexivity.
Qed.

Lemma save_success_rec_result c fs r0 deps values h :
  r_result (fst (save_success_rec md5 v c fs r0 deps values (Some h))) = Some h.
Proof.
  unfold save_success_rec. cbv zeta.
  set (r3 := set_checker _ _).
  pose proof (save_files_result c fs deps r3) as H.
  destruct (save_files md5 c fs r3 deps) as [r4 o]. cbn [fst] in H.
  assert (E : r_result r3 = Some h) by reflexivity.
  destruct o; simpl; congruence.
Qed.

(* a successful SaveOk establishes it (the task has no result_dep on itself) *)
Lemma saveok_saved_now s t :
  inv s ->
  (match s_log (step s (SaveOk t)) with OSave _ SaveDone :: _ => True | _ => False end) ->
  (forall src, In (UResultDep src) (uptodate (s_defs s t)) -> src <> t) ->
  saved_now (step s (SaveOk t)) t.
Proof.
  intros Hinv Hdone Hself. pose proof Hinv as (Hb & Ht & Hcr).
  destruct (step_on_env md5 size_of v s t (SaveOk t)) as (E1 & E2 & E3); [right; left; reflexivity|].
  unfold saved_now. rewrite E1, E2, E3. cbv zeta.
  revert Hdone. simpl. unfold process_success.
  destruct (save_success md5 v (s_ck s) (s_fs s) (s_db s) t (file_dep (s_defs s t))
              (save_extra_values (s_db s) (s_defs s t)) (act_result (s_defs s t))) as [d' o] eqn:E.
  destruct (save_success_db md5 v _ _ _ _ _ _ _ _ _ E) as (Hfr & r' & Hr' & Hrec).
  destruct (task_inv_getrec md5 size_of s t (Ht t)) as [G1 G2].
  destruct (save_success_rec_spec md5 v _ _ _ _ _ _ _ _ _ HB Hb G1 G2 Hrec) as (T1 & T2 & T3 & T4).
  destruct o; simpl; [intros _ | intros [] | intros []].
  destruct T4 as (T4 & T5 & T6).
  rewrite (getrec_some _ _ _ Hr').
  split; [exact T2|]. split; [exact T4|]. split.
  { rewrite T5. symmetry. apply save_extra_values_ext. intros src Hin.
    unfold get_result, getrec. rewrite Hfr; auto. }
  split; [|exact T6].
  intros h Hh. rewrite Hh in Hrec.
  pose proof (save_success_rec_result (s_ck s) (s_fs s) (getrec (s_db s) t) (file_dep (s_defs s t))
                (save_extra_values (s_db s) (s_defs s t)) h) as Hres.
  rewrite Hrec in Hres. exact Hres.
Qed.

(* ---------- stable: processing the task again leaves an equivalent DB ---------- *)
Definition stable (s : state) (t : name) : Prop :=
  status_is_ignore (s_db s) t = true \/
  (files_as_last_ok md5 s t /\ (g_status (check s t) <> UpToDate -> saved_now s t)).

Definition targets_exist (s : state) (t : name) : Prop :=
  forall x, In x (targets (s_defs s t)) -> exists_ (s_fs s) x = true.
Definition deps_exist (s : state) (t : name) : Prop :=
  forall f, In f (file_dep (s_defs s t)) -> exists_ (s_fs s) f = true.

(* operations on other tasks that keep t's record and its providers' results keep t stable *)
Lemma stable_frame s s' t :
  same_env s s' -> s_db s' t = s_db s t -> s_last_ok s' t = s_last_ok s t ->
  (forall src, In (UResultDep src) (uptodate (s_defs s t)) -> get_result (s_db s') src = get_result (s_db s) src) ->
  stable s t -> stable s' t.
Proof.
  intros Henv Hd Hg Hres [Hi|[Hf Hs]].
  - left. unfold status_is_ignore, getrec in *. rewrite Hd. exact Hi.
  - right. assert (Hrec : rec_eq (getrec (s_db s') t) (getrec (s_db s) t)) by (unfold getrec; rewrite Hd; apply rec_eq_refl).
    split; [apply (files_as_last_ok_ext md5 s); auto|].
    intros Hn. apply (saved_now_ext s); auto. apply Hs. intros Hu. apply Hn.
    apply (uptodate_iff_ext s s' t); auto.
Qed.

Lemma stable_status s t :
  inv s -> stable s t -> status_is_ignore (s_db s) t = false -> targets_exist s t ->
  (g_status (check s t) = UpToDate \/ (g_status (check s t) = Run /\ saved_now s t)) /\
  (g_status (check s t) = UpToDate <-> items_ok (s_db s) t (s_defs s t) /\ some_dep (s_db s) t (s_defs s t)).
Proof.
  intros Hinv [Hi|[Hf Hs]] Hig Htg; [congruence|].
  destruct (settled_verdict md5 size_of v s t Hinv Hf Htg) as [Hiff Hor]. split; [|exact Hiff].
  destruct Hor as [E|E]; [left; exact E|]. right. split; auto. apply Hs. congruence.
Qed.

(* whether a stable task is executed is the same in two states with equivalent DBs *)
Lemma executes_equiv s s' t :
  inv s -> inv s' -> same_env s s' -> db_equiv (s_db s') (s_db s) ->
  stable s t -> stable s' t -> targets_exist s t ->
  executes s' t false = executes s t false.
Proof.
  intros Hinv Hinv' Henv Hdb Hs Hs' Htg. unfold History.executes.
  rewrite (db_equiv_ignore _ _ t Hdb).
  destruct (status_is_ignore (s_db s) t) eqn:Hig; simpl; auto.
  assert (Hig' : status_is_ignore (s_db s') t = false) by (rewrite (db_equiv_ignore _ _ t Hdb); exact Hig).
  assert (Htg' : targets_exist s' t).
  { destruct Henv as (E1 & E2 & E3). unfold targets_exist. rewrite E1, E2. exact Htg. }
  destruct (stable_status s t Hinv Hs Hig Htg) as [Hor _].
  destruct (stable_status s' t Hinv' Hs' Hig' Htg') as [Hor' _].
  assert (Hiff : g_status (check s' t) = UpToDate <-> g_status (check s t) = UpToDate).
  { apply uptodate_iff_ext; auto. apply db_equiv_getrec; auto. intros src _. apply db_equiv_result; auto. }
  fold (check s t). fold (check s' t).
  destruct Hor as [E|[E _]]; destruct Hor' as [E'|[E' _]]; rewrite E, E'; auto.
  - apply Hiff in E. congruence.
  - apply Hiff in E'. congruence.
Qed.

Lemma run_task_frame s t :
  same_env s (run_task s t) /\
  forall x, x <> t -> s_db (run_task s t) x = s_db s x /\ s_last_ok (run_task s t) x = s_last_ok s x.
Proof. apply (run_from_on md5 size_of v t), run_task_ops_on. Qed.

(* Lemma A: processing a stable task *)
Lemma run_task_stable s t :
  inv s -> stable s t -> targets_exist s t ->
  let s' := run_task s t in
  inv s' /\ db_equiv (s_db s') (s_db s) /\ stable s' t /\
  (executes s t false = false -> s_db s' = s_db s).
Proof.
  intros Hinv Hst Htg s'.
  assert (Hinv' : inv s') by (apply (run_task_inv md5 size_of v HB); auto).
  split; [exact Hinv'|].
  unfold s', History.run_task, run_task_ops, History.executes in *.
  destruct (status_is_ignore (s_db s) t) eqn:Hig.
  { simpl. split; [apply db_equiv_refl|]. split; auto. }
  clear s'. destruct (stable_status s t Hinv Hst Hig Htg) as [[E|[E Hsv]] _]; rewrite E in Hinv' |- *.
  - (* up-to-date: Check only *)
    assert (Hdb : s_db (step s (Check t)) = s_db s).
    { simpl. unfold History.check in E. apply (get_status_uptodate_db md5 v _ _ _ _ _ E). }
    change (run_from s [Check t]) with (step s (Check t)) in *.
    split; [rewrite Hdb; apply db_equiv_refl|]. split; [|intros _; exact Hdb].
    right. split; [apply (check_keeps_files md5 size_of v HA); auto|].
    intros Hn. exfalso. apply Hn. rewrite (check_same s (step s (Check t)) t); auto.
  - (* run: Check, SaveOk *)
    change (run_from s [Check t; SaveOk t]) with (step (step s (Check t)) (SaveOk t)) in *.
    set (s1 := step s (Check t)) in *.
    assert (Hdb1 : s_db s1 = s_db s).
    { unfold s1. simpl.
      destruct (get_status_db md5 v (s_ck s) (s_fs s) (s_db s) t (s_defs s t) false) as [Ed|[Ec _]]; auto.
      rewrite (saved_now_ck s t Hsv) in Ec. discriminate. }
    assert (Hinv1 : inv s1) by (apply (step_inv md5 size_of v HB); auto).
    assert (Hsv1 : saved_now s1 t).
    { apply (saved_now_ext s); auto.
      - repeat split; reflexivity.
      - rewrite Hdb1. apply rec_eq_refl.
      - intros src _. rewrite Hdb1. reflexivity. }
    destruct (saveok_noop s1 t Hsv1) as [Heq Hdone].
    assert (Heq' : db_equiv (s_db (step s1 (SaveOk t))) (s_db s)) by (rewrite <- Hdb1; exact Heq).
    split; [exact Heq'|]. split; [|simpl; intros; discriminate].
    right. split; [apply (saveok_settles md5 size_of v HB); auto|].
    intros _.
    destruct (step_on_env md5 size_of v s1 t (SaveOk t)) as (E1 & E2 & E3); [right; left; reflexivity|].
    apply (saved_now_ext s1); auto.
    + repeat split; auto.
    + apply db_equiv_getrec; auto.
    + intros src _. apply db_equiv_result; auto.
Qed.

(* a run over stable tasks *)
Lemma targets_exist_env s s' t : same_env s s' -> targets_exist s t -> targets_exist s' t.
Proof. intros (E1 & E2 & E3) H. unfold targets_exist. rewrite E1, E2. exact H. Qed.

Lemma run_all_stable ts : forall s,
  inv s -> (forall t, In t ts -> stable s t /\ targets_exist s t) ->
  let s' := run_all s ts in
  inv s' /\ same_env s s' /\ db_equiv (s_db s') (s_db s) /\
  (forall x, stable s x -> stable s' x) /\
  (forall x, executes s x false = false \/ ~ In x ts -> s_db s' x = s_db s x).
Proof.
  induction ts as [|t ts IH]; intros s Hinv Hall; simpl.
  - split; auto. split; [repeat split; reflexivity|]. split; [apply db_equiv_refl|]. split; auto.
  - destruct (Hall t (or_introl eq_refl)) as [Hst Htg].
    destruct (run_task_stable s t Hinv Hst Htg) as (Hinv1 & Heq1 & Hst1 & Hno1).
    destruct (run_task_frame s t) as [Henv1 Hfr1].
    set (s1 := History.run_task md5 size_of v s t false false) in *.
    assert (Hst_all : forall x, stable s x -> stable s1 x).
    { intros x Hsx. destruct (N.eq_dec x t) as [->|Hne]; auto.
      destruct (Hfr1 x Hne) as [F1 F2]. apply (stable_frame s); auto.
      intros src _. apply db_equiv_result; auto. }
    assert (Hall1 : forall x, In x ts -> stable s1 x /\ targets_exist s1 x).
    { intros x Hx. destruct (Hall x (or_intror Hx)) as [Hsx Htx]. split; auto.
      apply (targets_exist_env s); auto. }
    destruct (IH s1 Hinv1 Hall1) as (I1 & I2 & I3 & I4 & I5).
    split; [exact I1|]. split.
    { destruct Henv1 as (E1 & E2 & E3), I2 as (F1 & F2 & F3). repeat split; congruence. }
    split; [eapply db_equiv_trans; eauto|]. split; [intros x Hx; apply I4, Hst_all, Hx|].
    intros x Hx.
    assert (Hx1 : executes s1 x false = false \/ ~ In x ts).
    { destruct Hx as [Hx|Hx]; [|right; intros H; apply Hx; simpl; auto].
      destruct (in_dec N.eq_dec x ts) as [Hin|Hnin]; [|right; exact Hnin]. left.
      destruct (Hall x (or_intror Hin)) as [Hsx Htx].
      rewrite (executes_equiv s s1 x); auto. }
    rewrite (I5 x Hx1).
    destruct (N.eq_dec x t) as [->|Hne]; [|apply Hfr1; auto].
    destruct Hx as [Hx|Hx]; [rewrite (Hno1 Hx); reflexivity | exfalso; apply Hx; simpl; auto].
Qed.

(* ---------- the first run establishes stability ---------- *)
Lemma saveok_done s t :
  inv s -> deps_exist s t ->
  match s_log (step s (SaveOk t)) with OSave _ SaveDone :: _ => True | _ => False end.
Proof.
  intros Hinv Hex. pose proof Hinv as (Hb & Ht & Hcr). simpl. unfold process_success.
  destruct (save_success md5 v (s_ck s) (s_fs s) (s_db s) t (file_dep (s_defs s t))
              (save_extra_values (s_db s) (s_defs s t)) (act_result (s_defs s t))) as [d' o] eqn:E.
  destruct (task_inv_getrec md5 size_of s t (Ht t)) as [G1 G2].
  pose proof (inv_save md5 v HB s (s_db s) t _ _ d' o Hinv G1 G2 (fun _ _ => eq_refl) E) as H.
  destruct o; simpl; auto.
  destruct H as (Hin & Hnone & _). specialize (Hex f Hin). unfold exists_ in Hex. rewrite Hnone in Hex. discriminate.
Qed.

Lemma run_task_first s t :
  inv s -> deps_exist s t ->
  (forall src, In (UResultDep src) (uptodate (s_defs s t)) -> src <> t) ->
  stable (run_task s t) t.
Proof.
  intros Hinv Hex Hself. pose proof Hinv as (Hb & Ht & Hcr).
  unfold History.run_task, run_task_ops.
  destruct (status_is_ignore (s_db s) t) eqn:Hig; [left; exact Hig|].
  destruct (g_status (check s t)) eqn:Est.
  - change (run_from s [Check t]) with (step s (Check t)).
    assert (Hdb : s_db (step s (Check t)) = s_db s).
    { simpl. unfold History.check in Est. apply (get_status_uptodate_db md5 v _ _ _ _ _ Est). }
    right. split; [apply (check_keeps_files md5 size_of v HA); auto|].
    intros Hn. exfalso. apply Hn. rewrite (check_same s (step s (Check t)) t); auto.
  - change (run_from s [Check t; SaveOk t]) with (step (step s (Check t)) (SaveOk t)).
    set (s1 := step s (Check t)).
    assert (Hinv1 : inv s1) by (apply (step_inv md5 size_of v HB); auto).
    destruct (step_on_env md5 size_of v s t (Check t)) as (E1 & E2 & E3); [left; reflexivity|]. fold s1 in E1, E2, E3.
    assert (Hex1 : deps_exist s1 t) by (unfold deps_exist; rewrite E1, E2; exact Hex).
    pose proof (saveok_done s1 t Hinv1 Hex1) as Hdone.
    right. split; [apply (saveok_settles md5 size_of v HB); auto|].
    intros _. apply saveok_saved_now; auto.
  - exfalso. unfold History.check in Est. apply get_status_error in Est. destruct Est as (f & Hin & Hnone).
    specialize (Hex f Hin). unfold exists_ in Hex. rewrite Hnone in Hex. discriminate.
  - exfalso. unfold History.check in Est. revert Est. apply get_status_no_crash. apply (task_inv_getrec md5 size_of s t (Ht t)).
Qed.

Lemma first_run ts : forall s (D : name -> Prop),
  inv s -> NoDup ts -> providers_first (s_defs s) ts -> (forall t, In t ts -> deps_exist s t) ->
  (forall x, D x -> stable s x /\ ~ In x ts /\ forall src, In (UResultDep src) (uptodate (s_defs s x)) -> ~ In src ts) ->
  forall x, D x \/ In x ts -> stable (run_all s ts) x.
Proof.
  induction ts as [|t ts IH]; intros s D Hinv Hnd Hord Hex HD x Hx; simpl.
  - destruct Hx as [Hx|[]]. apply HD; auto.
  - inversion Hnd as [|? ? Hnin Hnd']; subst. destruct Hord as [Hord1 Hord2].
    destruct (run_task_frame s t) as [(E1 & E2 & E3) Hfr1].
    set (s1 := History.run_task md5 size_of v s t false false) in *.
    assert (Hinv1 : inv s1) by (apply (run_task_inv md5 size_of v HB); auto).
    apply (IH s1 (fun y => D y \/ y = t)); auto.
    + rewrite E2. exact Hord2.
    + intros y Hy. unfold deps_exist. rewrite E1, E2. apply Hex. simpl; auto.
    + intros y [Hy| ->].
      * destruct (HD y Hy) as (S1 & S2 & S3).
        assert (Hne : y <> t) by (intros ->; apply S2; simpl; auto).
        destruct (Hfr1 y Hne) as [F1 F2].
        split; [|split].
        -- apply (stable_frame s); auto; [repeat split; auto|].
           intros src Hsrc. assert (Hst : src <> t) by (intros ->; apply (S3 t Hsrc); simpl; auto).
           unfold get_result, getrec. rewrite (proj1 (Hfr1 src Hst)). reflexivity.
        -- intros H; apply S2; simpl; auto.
        -- rewrite E2. intros src Hsrc H. apply (S3 src Hsrc). simpl; auto.
      * split; [|split].
        -- apply run_task_first; auto. apply Hex; simpl; auto. intros src Hsrc. apply (Hord1 src Hsrc).
        -- exact Hnin.
        -- rewrite E2. intros src Hsrc. apply (Hord1 src Hsrc).
    + destruct Hx as [Hx|[<-|Hx]]; auto.
Qed.

(* ---------- the repeated runs ---------- *)
Definition nth_run (ts : list name) (n : nat) (s : state) : state := Nat.iter n (fun s => run_all s ts) s.

Theorem rerun_noop s0 ts :
  inv s0 -> NoDup ts -> providers_first (s_defs s0) ts ->
  (forall t, In t ts -> deps_exist s0 t) -> (forall t, In t ts -> targets_exist s0 t) ->
  let s1 := run_all s0 ts in
  forall n, let sn := nth_run ts n s1 in
  inv sn /\ same_env s1 sn /\ db_equiv (s_db sn) (s_db s1) /\
  (forall pre t post, ts = pre ++ t :: post -> executes (run_all sn pre) t false = executes s1 t false) /\
  (forall x, executes s1 x false = false \/ ~ In x ts -> s_db (run_all sn ts) x = s_db sn x) /\
  db_equiv (s_db (run_all sn ts)) (s_db sn).
Proof.
  intros Hinv Hnd Hord Hex Htg s1.
  destruct (run_all_settles md5 size_of v HA HB ts s0 Hinv (fun t f Ht Hf => Hex t Ht f Hf)) as (Hinv1 & Henv1 & _).
  fold s1 in Hinv1, Henv1.
  assert (Hst1 : forall t, In t ts -> stable s1 t /\ targets_exist s1 t).
  { intros t Ht. split; [|apply (targets_exist_env s0); auto].
    apply (first_run ts s0 (fun _ => False)); auto. intros x []. }
  assert (K : forall n, let sn := nth_run ts n s1 in
              inv sn /\ same_env s1 sn /\ db_equiv (s_db sn) (s_db s1) /\ (forall t, In t ts -> stable sn t /\ targets_exist sn t)).
  { induction n as [|n IHn]; [cbn [nth_run Nat.iter] | change (nth_run ts (S n) s1) with (run_all (nth_run ts n s1) ts); cbv zeta in IHn |- *].
    - split; auto. split; [repeat split; reflexivity|]. split; [apply db_equiv_refl | exact Hst1].
    - destruct IHn as (K1 & K2 & K3 & K4).
      destruct (run_all_stable ts (nth_run ts n s1) K1 K4) as (I1 & I2 & I3 & I4 & _).
      split; [exact I1|]. split.
      { destruct K2 as (E1 & E2 & E3), I2 as (F1 & F2 & F3). repeat split; congruence. }
      split; [eapply db_equiv_trans; eauto|].
      intros t Ht. destruct (K4 t Ht). split; [apply I4; auto | apply (targets_exist_env (nth_run ts n s1)); auto]. }
  intros n sn. destruct (K n) as (K1 & K2 & K3 & K4). fold sn in K1, K2, K3, K4.
  assert (Hexe : forall t, In t ts -> executes sn t false = executes s1 t false).
  { intros t Ht. destruct (Hst1 t Ht), (K4 t Ht). apply executes_equiv; auto. }
  split; [exact K1|]. split; [exact K2|]. split; [exact K3|]. split; [|split].
  - intros pre t post Hts.
    assert (Hpre : forall x, In x pre -> stable sn x /\ targets_exist sn x).
    { intros x Hx. apply K4. rewrite Hts. apply in_or_app. auto. }
    assert (Ht : In t ts) by (rewrite Hts; apply in_or_app; simpl; auto).
    destruct (run_all_stable pre sn K1 Hpre) as (I1 & I2 & I3 & I4 & _).
    destruct (K4 t Ht) as [S1 S2].
    rewrite (executes_equiv sn (run_all sn pre) t); auto.
  - intros x Hx. destruct (run_all_stable ts sn K1 K4) as (_ & _ & _ & _ & I5). apply I5.
    destruct Hx as [Hx|Hx]; auto.
    destruct (in_dec N.eq_dec x ts) as [Hin|Hnin]; auto. left. rewrite Hexe; auto.
  - destruct (run_all_stable ts sn K1 K4) as (_ & _ & I3 & _). exact I3.
Qed.

(* which tasks those are: the characterisation of the second look (rerun_at), for every decision of every later run *)
Theorem rerun_noop_char s0 ts :
  inv s0 -> NoDup ts -> providers_first (s_defs s0) ts ->
  (forall t, In t ts -> deps_exist s0 t) -> (forall t, In t ts -> targets_exist s0 t) ->
  let s1 := run_all s0 ts in
  forall n pre t post, ts = pre ++ t :: post -> status_is_ignore (s_db s1) t = false ->
  (executes (run_all (nth_run ts n s1) pre) t false = false <->
     (forall u, In u (uptodate (s_defs s1 t)) -> eval_utd (s_db s1) t u <> Some false) /\
     (file_dep (s_defs s1 t) <> [] \/ exists u b, In u (uptodate (s_defs s1 t)) /\ eval_utd (s_db s1) t u = Some b)).
Proof.
  intros Hinv Hnd Hord Hex Htg s1 n pre t post Hts Hig.
  destruct (rerun_noop s0 ts Hinv Hnd Hord Hex Htg n) as (_ & _ & _ & Hdec & _). fold s1 in Hdec.
  rewrite (Hdec pre t post Hts).
  assert (Ht : In t ts) by (rewrite Hts; apply in_or_app; simpl; auto).
  destruct (run_all_settles md5 size_of v HA HB ts s0 Hinv (fun t f Ht Hf => Hex t Ht f Hf)) as (_ & Henv1 & _).
  apply (rerun_at md5 size_of v HA HB s0 ts t Hinv (fun t f Ht Hf => Hex t Ht f Hf) Ht Hig).
  apply (targets_exist_env s0); auto.
Qed.

(* the records of the tasks that are not executed are literally the same after any number of repeated runs *)
Lemma rerun_unexecuted s0 ts :
  inv s0 -> NoDup ts -> providers_first (s_defs s0) ts ->
  (forall t, In t ts -> deps_exist s0 t) -> (forall t, In t ts -> targets_exist s0 t) ->
  let s1 := run_all s0 ts in
  forall n x, executes s1 x false = false \/ ~ In x ts -> s_db (nth_run ts n s1) x = s_db s1 x.
Proof.
  intros Hinv Hnd Hord Hex Htg s1 n x Hx. induction n as [|n IHn]; [reflexivity|].
  change (nth_run ts (S n) s1) with (run_all (nth_run ts n s1) ts).
  destruct (rerun_noop s0 ts Hinv Hnd Hord Hex Htg n) as (_ & _ & _ & _ & H5 & _). fold s1 in H5.
  rewrite (H5 x Hx). exact IHn.
Qed.

(* everything together, in the form Properties/C04.v states it *)
Theorem rerun_whole s0 ts :
  inv s0 -> NoDup ts -> providers_first (s_defs s0) ts ->
  (forall t f, In t ts -> In f (file_dep (s_defs s0 t)) -> exists_ (s_fs s0) f = true) ->
  (forall t x, In t ts -> In x (targets (s_defs s0 t)) -> exists_ (s_fs s0) x = true) ->
  let s1 := run_all s0 ts in
  forall n, let sn := Nat.iter n (fun s => run_all s ts) s1 in
  (forall pre t post, ts = pre ++ t :: post ->
     executes (run_all sn pre) t false = executes s1 t false /\
     (status_is_ignore (s_db s1) t = false ->
      (executes s1 t false = false <->
         (forall u, In u (uptodate (s_defs s1 t)) -> eval_utd (s_db s1) t u <> Some false) /\
         (file_dep (s_defs s1 t) <> [] \/ exists u b, In u (uptodate (s_defs s1 t)) /\ eval_utd (s_db s1) t u = Some b)))) /\
  (forall x, executes s1 x false = false \/ ~ In x ts -> s_db sn x = s_db s1 x) /\
  db_equiv (s_db sn) (s_db s1) /\
  (forall tasks files, db_z tasks files (s_db sn) = db_z tasks files (s_db s1)).
Proof.
  intros Hinv Hnd Hord Hex Htg s1 n sn.
  assert (Hex' : forall t, In t ts -> deps_exist s0 t) by (intros t Ht f Hf; apply (Hex t f); auto).
  assert (Htg' : forall t, In t ts -> targets_exist s0 t) by (intros t Ht x Hx; apply (Htg t x); auto).
  destruct (rerun_noop s0 ts Hinv Hnd Hord Hex' Htg' n) as (_ & _ & K3 & K4 & _). fold s1 in K3, K4.
  change (nth_run ts n s1) with sn in K3, K4.
  split; [|split; [|split]].
  - intros pre t post Hts. split; [apply (K4 pre t post Hts)|]. intros Hig.
    assert (Ht : In t ts) by (rewrite Hts; apply in_or_app; simpl; auto).
    destruct (run_all_settles md5 size_of v HA HB ts s0 Hinv Hex) as (_ & Henv1 & _).
    apply (rerun_at md5 size_of v HA HB s0 ts t Hinv Hex Ht Hig).
    apply (targets_exist_env s0); auto.
  - intros x Hx. apply (rerun_unexecuted s0 ts Hinv Hnd Hord Hex' Htg' n x Hx).
  - exact K3.
  - intros tasks files. apply db_z_equiv. exact K3.
Qed.

End RerunP.
