(* OutcomeLiveP.v -- outcome soundness (OutcomeSerialP / OutcomeParP) combined with completeness
   (CompleteP) and liveness (LiveP): a serial run that is not cut short reports EVERY selected task
   with exactly the outcome the specification derives from the task table; over a finite acyclic
   table the specification gives every task an outcome unless an action interrupts the run. *)
From DoitV Require Import Base Dispatch Runner Parallel DispatchP DispatchInv RunnerTr RunnerP AncP HoldP CompleteP TermP LiveP
  ParallelP OutcomeSpec OutcomeInvP OutcomeSerialP OutcomeParP.
Open Scope N_scope.

Lemma finished_in_spec tasks wake_rank calc_rank continue_ always fuel sel x :
  finished_in (fst (run_serial tasks wake_rank calc_rank continue_ always fuel sel)) x ->
  exists r, fin tasks always x r /\ In (ev_of x r) (fst (run_serial tasks wake_rank calc_rank continue_ always fuel sel)).
Proof.
  intros H. apply finished_in_In in H. destruct H as (e & Hin & Hf).
  destruct (serial_outcome_sound tasks wake_rank calc_rank continue_ always fuel sel x e Hin Hf) as (r & A & ->).
  exists r. auto.
Qed.

(* --continue: if the run ends normally (exit code 0, 1 or 2: no cycle / hold error, no interrupt,
   enough fuel), EVERY selected task is reported, with the outcome of the specification *)
Theorem serial_continue_right_outcome tasks wake_rank calc_rank always fuel sel :
  let res := run_serial tasks wake_rank calc_rank true always fuel sel in
  snd res <= 2 -> forall x, In x sel -> exists r, fin tasks always x r /\ In (ev_of x r) (fst res).
Proof.
  cbv zeta. intros Hc x Hx. apply finished_in_spec.
  apply (run_serial_complete_continue tasks wake_rank calc_rank true always fuel sel eq_refl Hc x Hx).
Qed.

(* without --continue: if the run succeeds (exit code 0) *)
Theorem serial_success_right_outcome tasks wake_rank calc_rank continue_ always fuel sel :
  let res := run_serial tasks wake_rank calc_rank continue_ always fuel sel in
  snd res = 0 -> forall x, In x sel -> exists r, fin tasks always x r /\ In (ev_of x r) (fst res).
Proof.
  cbv zeta. intros Hc x Hx. apply finished_in_spec.
  apply (run_serial_complete_success tasks wake_rank calc_rank continue_ always fuel sel Hc x Hx).
Qed.

(* finite acyclic table, enough fuel, --continue: the run is interrupted by an action (exit code 4) or
   reports every selected task with the outcome of the specification *)
Theorem serial_acyclic_right_outcome tasks univ sel :
  finite_table tasks univ -> (forall k, ~ reach tasks k k) ->
  forall wake_rank calc_rank always fuel, (enough_fuel tasks univ sel <= fuel)%nat ->
  let res := run_serial tasks wake_rank calc_rank true always fuel sel in
  snd res = 4 \/ forall x, In x sel -> exists r, fin tasks always x r /\ In (ev_of x r) (fst res).
Proof.
  intros Hf Hac wake_rank calc_rank always fuel Hfuel. cbv zeta.
  destruct (serial_acyclic_continue_all_reported tasks univ sel Hf Hac wake_rank calc_rank always fuel Hfuel) as [H|[_ H]]; auto.
  right. intros x Hx. apply finished_in_spec. apply H. exact Hx.
Qed.

(* the specification is TOTAL over a finite acyclic table, up to interruption: every task has an
   outcome, or running just that task is interrupted by an action *)
Corollary fin_total_or_interrupt tasks univ always k :
  finite_table tasks univ -> (forall k, ~ reach tasks k k) ->
  (exists r, fin tasks always k r) \/
  snd (run_serial tasks (fun _ _ => 0) (fun _ => 0) true always (enough_fuel tasks univ [k]) [k]) = 4.
Proof.
  intros Hf Hac.
  destruct (serial_acyclic_right_outcome tasks univ [k] Hf Hac (fun _ _ => 0) (fun _ => 0) always _ (le_n _)) as [H|H]; auto.
  left. destruct (H k (or_introl eq_refl)) as (r & A & _). eauto.
Qed.

(* C08, serial side complete: a serial --continue run that ends normally and ANY other run (serial or
   parallel) over the same table: every selected task of the serial run that the other run reports
   at all is reported identically; and the serial run does report it *)
Theorem complete_serial_vs_any_run tasks wake_rank calc_rank always fuel sel c x e :
  let res := run_serial tasks wake_rank calc_rank true always fuel sel in
  snd res <= 2 -> In x sel ->
  In e (run_events tasks always c) -> is_final_ev x e = true ->
  In e (fst res).
Proof.
  cbv zeta. intros Hc Hx He Hf.
  destruct (serial_continue_right_outcome tasks wake_rank calc_rank always fuel sel Hc x Hx) as (r & A & Hin).
  destruct (run_outcome_sound tasks always c x e He Hf) as (r' & A' & ->).
  rewrite (fin_functional tasks always x r' A' r A). exact Hin.
Qed.

(* two serial --continue runs over a finite acyclic table with enough fuel: different set-iteration
   oracles, different selection ORDER (or different selections): unless one is interrupted, every task
   selected in both gets the same final report in both *)
Theorem acyclic_serial_runs_same_outcome tasks univ sel1 sel2 :
  finite_table tasks univ -> (forall k, ~ reach tasks k k) ->
  forall wr1 cr1 wr2 cr2 always fuel1 fuel2,
  (enough_fuel tasks univ sel1 <= fuel1)%nat -> (enough_fuel tasks univ sel2 <= fuel2)%nat ->
  let res1 := run_serial tasks wr1 cr1 true always fuel1 sel1 in
  let res2 := run_serial tasks wr2 cr2 true always fuel2 sel2 in
  snd res1 = 4 \/ snd res2 = 4 \/
  forall x, In x sel1 -> In x sel2 -> exists e, is_final_ev x e = true /\ In e (fst res1) /\ In e (fst res2).
Proof.
  intros Hf Hac wr1 cr1 wr2 cr2 always fuel1 fuel2 F1 F2. cbv zeta.
  destruct (serial_acyclic_right_outcome tasks univ sel1 Hf Hac wr1 cr1 always fuel1 F1) as [H1|H1]; auto.
  destruct (serial_acyclic_right_outcome tasks univ sel2 Hf Hac wr2 cr2 always fuel2 F2) as [H2|H2]; auto.
  right; right. intros x X1 X2.
  destruct (H1 x X1) as (r1 & A1 & I1). destruct (H2 x X2) as (r2 & A2 & I2).
  exists (ev_of x r1). split; [apply ev_of_final|]. split; auto.
  rewrite (fin_functional tasks always x r1 A1 r2 A2). exact I2.
Qed.

Print Assumptions serial_continue_right_outcome.
Print Assumptions serial_acyclic_right_outcome.
Print Assumptions complete_serial_vs_any_run.
Print Assumptions acyclic_serial_runs_same_outcome.
