(* RerunGP.v -- the whole repeated run of Model/Getargs.v (getargs / setup-tasks / result_dep) is a no-op.
   Run1: what the first run leaves for every task it executed (an extra invariant of visit, next to ainv of GetargsP.v).
   Run2: a run from a state in which every task it can reach is [stable] (RerunP.v) leaves an equivalent DB. *)
From Coq Require Import ZifyBool.
From DoitV Require Import Base Status History Getargs StatusP HistoryP GetargsP RerunP.
Open Scope Z_scope.

Lemma nodupn_In x l : In x (nodupn l) <-> In x l.
Proof.
  induction l as [|y l IH]; simpl; [tauto|]. rewrite rem_In, IH.
  destruct (N.eq_dec x y) as [->|Hne]; [tauto|]. intuition congruence.
Qed.

Lemma getargs_provider_setup d pk : In pk (rd_getargs d) -> In (fst pk) (setup_tasks d).
Proof. intros H. unfold setup_tasks. apply nodupn_In. apply in_map. exact H. Qed.

Lemma setup_in_eff d p : In p (setup_tasks d) -> In (UResultDep p) (uptodate (eff d)).
Proof. intros H. simpl. apply in_or_app. right. apply in_map. exact H. Qed.

Lemma taskdep_in_eff d p : In p (task_deps d) -> In (UResultDep p) (uptodate (eff d)).
Proof.
  unfold task_deps. intros H. apply in_flat_map in H. destruct H as [u [Hu Hp]].
  simpl. apply in_or_app. left. destruct u; simpl in Hp; try contradiction. destruct Hp as [<-|[]]. exact Hu.
Qed.

Lemma args_ok_frame d d' l : (forall pk, In pk l -> d' (fst pk) = d (fst pk)) -> args_ok d' l = args_ok d l.
Proof.
  intros H. unfold args_ok. induction l as [|pk l IH]; simpl; auto.
  rewrite IH by (intros; apply H; simpl; auto). f_equal. unfold arg_ok. rewrite (H pk) by (simpl; auto). reflexivity.
Qed.

Lemma args_ok_equiv d d' l : db_equiv d' d -> args_ok d' l = args_ok d l.
Proof.
  intros H. unfold args_ok. induction l as [|pk l IH]; simpl; auto. rewrite IH. f_equal.
  unfold arg_ok. specialize (H (fst pk)). destruct (d' (fst pk)), (d (fst pk)); try contradiction; auto.
  destruct H as (_ & _ & _ & D & _). rewrite D. reflexivity.
Qed.

Ltac on_t := repeat (constructor; [first [left; reflexivity | right; left; reflexivity | right; right; reflexivity]|]); constructor.

(* ================= the first run ================= *)
Section Run1.
Variable md5 : N -> N.
Variable size_of : N -> Z.
Variable v : ver.
Hypothesis HA : fixA v = true.
Hypothesis HB : fixB v = true.
Variable G : name -> rdef.
Variable fails : name -> bool.

Notation step := (step md5 size_of v).
Notation run_from := (run_from md5 size_of v).
Notation check := (check md5 v).
Notation visit := (visit md5 size_of v G fails).
Notation ainv := (ainv md5 G).

(* what an executed-and-saved task leaves: its record is what an execution NOW would write, and its getargs are available *)
Definition P1 (s : state) (t : name) : Prop :=
  saved_now md5 s t /\ args_ok (s_db s) (rd_getargs (G t)) = true.

Record xinv (a : racc) : Prop := {
  x_saved : clean a -> forall t, fin_of (ra_fin a) t = Some 0 -> P1 (ra_s a) t;
  x_deps : forall t, finished a t -> forall d, In d (task_deps (G t)) -> done_or_flag a d
}.

Lemma P1_transfer a s' x :
  ainv a -> clean a -> fin_of (ra_fin a) x = Some 0 -> same_env (ra_s a) s' ->
  (forall y, finished a y -> s_db s' y = s_db (ra_s a) y) ->
  P1 (ra_s a) x -> P1 s' x.
Proof.
  intros Ha Hc Hx Henv Hfr [S A]. destruct (ai_res _ _ _ Ha Hc x Hx) as [_ R2].
  assert (Hxf : finished a x) by (unfold finished; rewrite Hx; discriminate).
  split.
  - apply (saved_now_ext md5 (ra_s a)); auto.
    + unfold getrec. rewrite (Hfr x Hxf). apply rec_eq_refl.
    + intros src Hsrc. destruct (R2 src Hsrc) as [Hsf _]. unfold get_result, getrec. rewrite (Hfr src Hsf). reflexivity.
  - etransitivity; [|exact A]. apply args_ok_frame. intros pk Hpk. apply Hfr.
    apply (R2 (fst pk)). rewrite (ai_defs _ _ _ Ha). apply setup_in_eff, getargs_provider_setup, Hpk.
Qed.

Lemma xinv_ops a t ops :
  ainv a -> xinv a -> ~ finished a t -> Forall (op_on t) ops -> xinv (with_s a (run_from (ra_s a) ops)).
Proof.
  intros Ha [X1 X2] Hnf Hops.
  destruct (run_from_on md5 size_of v t ops (ra_s a) Hops) as [Henv Hfr].
  constructor.
  - intros Hc x Hx. simpl in Hx. simpl ra_s. apply (P1_transfer a); auto.
    intros y Hy. apply Hfr. intros ->. contradiction.
  - exact X2.
Qed.

Lemma dof_finish a s t c d : done_or_flag a d -> done_or_flag (finish a s t c) d.
Proof.
  intros [H|[H|H]]; [left | right; left; exact H | right; right; exact H].
  unfold finished in *. simpl. rewrite fin_of_app. destruct (fin_of (ra_fin a) d); [discriminate | congruence].
Qed.

Lemma xinv_fin a t c :
  xinv a -> (forall d, In d (task_deps (G t)) -> done_or_flag a d) ->
  (c = 0 -> clean a -> fin_of (ra_fin a) t = None -> P1 (ra_s a) t) ->
  xinv (finish a (ra_s a) t c).
Proof.
  intros [X1 X2] Hd Hp. constructor.
  - intros Hc x Hx. simpl in Hx. rewrite fin_of_app in Hx. simpl ra_s.
    destruct (fin_of (ra_fin a) x) eqn:E.
    + inversion Hx; subst. apply X1; auto.
    + destruct (N.eqb_spec t x) as [<-|]; [|discriminate]. inversion Hx; subst. apply Hp; auto.
  - intros x Hx d Hin. apply dof_finish. unfold finished in Hx. simpl in Hx. rewrite fin_of_app in Hx.
    destruct (fin_of (ra_fin a) x) eqn:E.
    + apply (X2 x); auto. unfold finished. rewrite E. discriminate.
    + destruct (N.eqb_spec t x) as [<-|]; [|congruence]. apply Hd; auto.
Qed.

Lemma xinv_flag a a' :
  xinv a -> ra_s a' = ra_s a -> ra_fin a' = ra_fin a -> (clean a' -> clean a) ->
  (ra_cyc a = true -> ra_cyc a' = true) -> (ra_fuel a = true -> ra_fuel a' = true) -> xinv a'.
Proof.
  intros [X1 X2] Es Ef Hc H1 H2. constructor.
  - intros Hc' x Hx. rewrite Es. rewrite Ef in Hx. apply X1; auto.
  - intros x Hx d Hd. unfold finished in Hx. rewrite Ef in Hx.
    destruct (X2 x Hx d Hd) as [H|[H|H]]; [left; unfold finished in *; rewrite Ef; exact H | right; left; auto | right; right; auto].
Qed.

Definition xgood (fuel : nat) : Prop := forall a t, ainv a -> xinv a -> xinv (visit fuel a t).

Lemma fold_x fuel : xgood fuel -> forall l a, ainv a -> xinv a -> xinv (fold_left (visit fuel) l a).
Proof.
  intros Hg. induction l as [|x l IH]; intros a Ha Hx; simpl; auto.
  apply IH; [|apply Hg; auto].
  apply (visit_good md5 size_of v HA HB G fails fuel a x Ha).
Qed.

Lemma visit_x : forall fuel, xgood fuel.
Proof.
  induction fuel as [|fuel IH]; intros a t Ha Hx.
  - simpl. apply (xinv_flag a); simpl; auto. intros [_ C]. simpl in C. discriminate.
  - rewrite visit_S. destruct (mem t (ra_started a)) eqn:Est.
    + destruct (fin_of (ra_fin a) t) eqn:Ef; [exact Hx|].
      apply (xinv_flag a); simpl; auto. intros [C _]. simpl in C. discriminate.
    + cbv zeta. apply mem_false_In in Est.
      pose proof (visit_good md5 size_of v HA HB G fails fuel) as VG.
      destruct (started_ok md5 G a t Ha Est) as (Ha0 & E0 & N0 & Hst0 & Hnf0).
      assert (Hx0 : xinv (started a t)) by (apply (xinv_flag a); simpl; auto).
      destruct (fold_good md5 size_of v G fails fuel VG (task_deps (G t)) (started a t) Ha0) as (Ha1 & E1 & N1 & D1).
      pose proof (fold_x fuel IH (task_deps (G t)) (started a t) Ha0 Hx0) as Hx1.
      set (a1 := fold_left (visit fuel) (task_deps (G t)) (started a t)) in *.
      assert (Hnf1 : ~ finished a1 t).
      { intros H. destruct (N1 t H) as [H'|H']; [exact (Hnf0 H') | exact (H' Hst0)]. }
      assert (Fin1 : forall ops c, c <> 0 -> Forall (op_on t) ops -> xinv (finish a1 (run_from (ra_s a1) ops) t c)).
      { intros ops c Hc Hops.
        change (finish a1 (run_from (ra_s a1) ops) t c)
          with (finish (with_s a1 (run_from (ra_s a1) ops)) (ra_s (with_s a1 (run_from (ra_s a1) ops))) t c).
        apply xinv_fin; [apply (xinv_ops a1 t ops); auto | exact D1 | intros; contradiction]. }
      destruct (dep_ign a1 (task_deps (G t)) || status_is_ignore (s_db (ra_s a1)) t).
      { apply (Fin1 [] 3); [lia | constructor]. }
      destruct (dep_bad a1 (task_deps (G t))).
      { apply (Fin1 [Remove t] 4); [lia | on_t]. }
      destruct (g_status (check (ra_s a1) t)) eqn:Est1.
      * apply (Fin1 [Check t] 2); [lia | on_t].
      * destruct (ops_on_unfinished md5 size_of v HB G a1 t [Check t] Ha1 Hnf1) as [Ha2 E2]; [on_t|].
        assert (Hx2 : xinv (with_s a1 (run_from (ra_s a1) [Check t]))) by (apply (xinv_ops a1 t [Check t]); auto; on_t).
        change (run_from (ra_s a1) [Check t]) with (step (ra_s a1) (Check t)) in Ha2, E2, Hx2.
        set (a2 := with_s a1 (step (ra_s a1) (Check t))) in *.
        destruct (fold_good md5 size_of v G fails fuel VG (setup_tasks (G t)) a2 Ha2) as (Ha3 & E3 & N3 & D3).
        pose proof (fold_x fuel IH (setup_tasks (G t)) a2 Ha2 Hx2) as Hx3.
        set (a3 := fold_left (visit fuel) (setup_tasks (G t)) a2) in *.
        assert (Hst1 : In t (ra_started a1)) by (apply (ex_started _ _ E1); exact Hst0).
        assert (Hnf3 : ~ finished a3 t).
        { intros H. destruct (N3 t H) as [H'|H']; [exact (Hnf1 H') | exact (H' Hst1)]. }
        assert (Hd3 : forall d, In d (task_deps (G t)) -> done_or_flag a3 d).
        { intros d Hd. apply (done_or_flag_ext a1 a3 d (ext_trans _ _ _ E2 E3)). apply D1. exact Hd. }
        assert (Fin3 : forall ops c, c <> 0 -> Forall (op_on t) ops -> xinv (finish a3 (run_from (ra_s a3) ops) t c)).
        { intros ops c Hc Hops.
          change (finish a3 (run_from (ra_s a3) ops) t c)
            with (finish (with_s a3 (run_from (ra_s a3) ops)) (ra_s (with_s a3 (run_from (ra_s a3) ops))) t c).
          apply xinv_fin; [apply (xinv_ops a3 t ops); auto | exact Hd3 | intros; contradiction]. }
        destruct (dep_ign a3 (setup_tasks (G t))).
        { apply (Fin3 [] 3); [lia | constructor]. }
        destruct (dep_bad a3 (setup_tasks (G t))).
        { apply (Fin3 [Remove t] 4); [lia | on_t]. }
        destruct (args_ok (s_db (ra_s a3)) (rd_getargs (G t))) eqn:Eargs; cbn [negb].
        2: { apply (Fin3 [Remove t] 4); [lia | on_t]. }
        destruct (fails t).
        { apply (Fin3 [Remove t] 1); [lia | on_t]. }
        set (s3 := ra_s a3) in *.
        change (finish a3 (step s3 (SaveOk t)) t (save_code (step s3 (SaveOk t))))
          with (finish (with_s a3 (run_from (ra_s a3) [SaveOk t])) (ra_s (with_s a3 (run_from (ra_s a3) [SaveOk t]))) t
                  (save_code (step s3 (SaveOk t)))).
        apply xinv_fin; [apply (xinv_ops a3 t [SaveOk t]); auto; on_t | exact Hd3 |].
        intros Hc Hcl _. simpl ra_s. change (run_from (ra_s a3) [SaveOk t]) with (step s3 (SaveOk t)).
        assert (Hcl3 : clean a3) by exact Hcl.
        assert (Hdone : match s_log (step s3 (SaveOk t)) with OSave _ SaveDone :: _ => True | _ => False end).
        { unfold save_code in Hc. destruct (s_log (step s3 (SaveOk t))) as [|[| x [| |] |] l]; try discriminate. exact I. }
        assert (Hprov : forall src, In (UResultDep src) (uptodate (eff (G t))) -> finished a3 src /\ src <> t).
        { intros src Hin.
          assert (Hf : finished a3 src).
          { apply done_clean; [|exact Hcl3]. destruct (in_eff_uptodate _ _ Hin) as [H|H]; [apply Hd3; exact H | apply D3; exact H]. }
          split; [exact Hf|]. intros ->. exact (Hnf3 Hf). }
        split.
        -- apply (saveok_saved_now md5 size_of v HB); [apply (ai_ghost _ _ _ Ha3) | exact Hdone |].
           intros src Hsrc. unfold s3 in Hsrc. rewrite (ai_defs _ _ _ Ha3) in Hsrc. apply (Hprov src Hsrc).
        -- etransitivity; [|exact Eargs]. apply args_ok_frame. intros pk Hpk.
           refine (proj1 (step_on_frame md5 size_of v s3 t (SaveOk t) (fst pk) _ _)); [right; left; reflexivity|].
           apply (Hprov (fst pk)). apply setup_in_eff, getargs_provider_setup, Hpk.
      * apply (Fin1 [Check t; Remove t] 4); [lia | on_t].
      * apply (Fin1 [Check t] 98); [lia | on_t].
Qed.

Lemma acc0_x s : xinv (acc0 s).
Proof. constructor; simpl; [intros _ t H; discriminate | intros t H; exfalso; apply H; reflexivity]. Qed.

Lemma run_acc_x fuel s sel :
  db_reflects_ghost md5 s -> (forall t, s_defs s t = eff (G t)) ->
  let a := run_acc md5 size_of v G fails fuel s sel in
  ainv a /\ xinv a /\ same_env s (ra_s a) /\ (forall x, In x sel -> done_or_flag a x).
Proof.
  intros Hg Hd a. unfold a, run_acc. fold (acc0 s).
  destruct (fold_good md5 size_of v G fails fuel (visit_good md5 size_of v HA HB G fails fuel) sel (acc0 s) (acc0_inv md5 G s Hg Hd))
    as (A & E & _ & D).
  split; [exact A|]. split; [|split; [exact (ex_env _ _ E) | exact D]].
  apply fold_x; [apply visit_x | apply acc0_inv; auto | apply acc0_x].
Qed.

End Run1.

(* ================= a run from a settled state ================= *)
Section Run2.
Variable md5 : N -> N.
Variable size_of : N -> Z.
Variable v : ver.
Hypothesis HA : fixA v = true.
Hypothesis HB : fixB v = true.
Variable G : name -> rdef.

Notation step := (step md5 size_of v).
Notation check := (check md5 v).
Notation visit := (visit md5 size_of v G (fun _ => false)).
Notation inv := (db_reflects_ghost md5).
Notation stable := (stable md5 v).
Notation executes := (executes md5 v).

(* one Check of a stable task that is not ignored: the DB is untouched, every stable task stays stable *)
Lemma check_step s t :
  inv s -> stable s t -> status_is_ignore (s_db s) t = false -> targets_exist s t ->
  let s' := step s (Check t) in
  inv s' /\ s_db s' = s_db s /\ same_env s s' /\ (forall x, stable s x -> stable s' x).
Proof.
  intros Hinv Hst Hig Htg s'.
  assert (Hinv' : inv s') by (apply (step_inv md5 size_of v HB); auto).
  assert (Henv : same_env s s') by (apply (step_on_env md5 size_of v s t); left; reflexivity).
  destruct (stable_status md5 size_of v s t Hinv Hst Hig Htg) as [Hor _].
  assert (Hdb : s_db s' = s_db s).
  { unfold s'. simpl. destruct Hor as [E|[E Hsv]].
    - unfold History.check in E. apply (get_status_uptodate_db md5 v _ _ _ _ _ E).
    - destruct (get_status_db md5 v (s_ck s) (s_fs s) (s_db s) t (s_defs s t) false) as [Ed|[Ec _]]; auto.
      rewrite (saved_now_ck md5 s t Hsv) in Ec. discriminate. }
  split; [exact Hinv'|]. split; [exact Hdb|]. split; [exact Henv|].
  intros x Hx. destruct (N.eq_dec x t) as [->|Hne].
  - right. destruct Henv as (E1 & E2 & E3).
    assert (Hck : check s' t = check s t) by (apply check_same; auto).
    destruct Hor as [E|[E Hsv]].
    + split; [apply (check_keeps_files md5 size_of v HA); auto|]. intros Hn. exfalso. apply Hn. rewrite Hck. exact E.
    + destruct Hst as [Hi|[Hf _]]; [congruence|].
      split.
      * apply (files_as_last_ok_ext md5 s); [repeat split; auto| |exact Hf].
        destruct (saved_now_record md5 s t Hsv) as [r Er].
        unfold s'. simpl. fold s'. change (g_db (get_status md5 v (s_ck s) (s_fs s) (s_db s) t (s_defs s t) false)) with (s_db s').
        rewrite Hdb. unfold prune. rewrite Er. reflexivity.
      * intros _. apply (saved_now_ext md5 s); [repeat split; auto | rewrite Hdb; apply rec_eq_refl | intros; rewrite Hdb; reflexivity | exact Hsv].
  - destruct (step_on_frame md5 size_of v s t (Check t) x) as [F1 F2]; [left; reflexivity | exact Hne |].
    apply (stable_frame md5 size_of v s); auto. intros src _. fold s'. rewrite Hdb. reflexivity.
Qed.

(* one SaveOk of a task whose record is what would be written: an equivalent DB, every stable task stays stable *)
Lemma saveok_step s t :
  inv s -> saved_now md5 s t ->
  let s' := step s (SaveOk t) in
  inv s' /\ db_equiv (s_db s') (s_db s) /\ same_env s s' /\ save_code s' = 0 /\ (forall x, stable s x -> stable s' x).
Proof.
  intros Hinv Hsv s'.
  assert (Hinv' : inv s') by (apply (step_inv md5 size_of v HB); auto).
  assert (Henv : same_env s s') by (apply (step_on_env md5 size_of v s t); right; left; reflexivity).
  destruct (saveok_noop md5 size_of v s t Hsv) as [Heq Hdone]. fold s' in Heq, Hdone.
  split; [exact Hinv'|]. split; [exact Heq|]. split; [exact Henv|]. split.
  { unfold save_code. destruct (s_log s') as [|[| x [| |] |] l]; try contradiction. reflexivity. }
  intros x Hx. destruct (N.eq_dec x t) as [->|Hne].
  - right. split; [apply (saveok_settles md5 size_of v HB); auto|]. intros _.
    apply (saved_now_ext md5 s); auto; [apply db_equiv_getrec; auto | intros; apply db_equiv_result; auto].
  - destruct (step_on_frame md5 size_of v s t (SaveOk t) x) as [F1 F2]; [right; left; reflexivity | exact Hne |].
    apply (stable_frame md5 size_of v s); auto. intros src _. apply db_equiv_result; auto.
Qed.

Variable U : name -> Prop.

(* every task of U is stable, not ignored, its targets exist; U is closed under task_dep, and under setup-tasks for the tasks that are not up-to-date *)
Record settled_for (s : state) : Prop := {
  sf_inv : inv s;
  sf_defs : forall t, s_defs s t = eff (G t);
  sf_stable : forall t, U t -> stable s t;
  sf_targets : forall t, U t -> targets_exist s t;
  sf_ignore : forall t, U t -> status_is_ignore (s_db s) t = false;
  sf_deps : forall t d, U t -> In d (task_deps (G t)) -> U d;
  sf_setup : forall t, U t -> g_status (check s t) <> UpToDate ->
             (forall p, In p (setup_tasks (G t)) -> U p) /\ args_ok (s_db s) (rd_getargs (G t)) = true
}.

Variable s1 : state.
Hypothesis H1 : settled_for s1.

Record near (s : state) : Prop := {
  n_inv : inv s;
  n_env : same_env s1 s;
  n_db : db_equiv (s_db s) (s_db s1);
  n_stable : forall t, U t -> stable s t
}.

Lemma near_refl : near s1.
Proof. constructor; [apply (sf_inv _ H1) | repeat split; reflexivity | apply db_equiv_refl | apply (sf_stable _ H1)]. Qed.

Lemma near_targets s t : near s -> U t -> targets_exist s t.
Proof. intros Hn Ut. apply (targets_exist_env s1); [apply (n_env _ Hn) | apply (sf_targets _ H1); auto]. Qed.
Lemma near_ignore s t : near s -> U t -> status_is_ignore (s_db s) t = false.
Proof. intros Hn Ut. rewrite (db_equiv_ignore _ _ t (n_db _ Hn)). apply (sf_ignore _ H1); auto. Qed.
Lemma near_status s t : near s -> U t -> (g_status (check s t) = UpToDate <-> g_status (check s1 t) = UpToDate).
Proof.
  intros Hn Ut. apply (uptodate_iff_ext md5 size_of v s1 s t); [apply (n_env _ Hn) | apply db_equiv_getrec, (n_db _ Hn) |].
  intros src _. apply db_equiv_result, (n_db _ Hn).
Qed.
Lemma near_executes s t : near s -> U t -> executes s t false = executes s1 t false.
Proof.
  intros Hn Ut. apply (executes_equiv md5 size_of v); auto;
    [apply (sf_inv _ H1) | apply (n_inv _ Hn) | apply (n_env _ Hn) | apply (n_db _ Hn) | apply (sf_stable _ H1); auto
     | apply (n_stable _ Hn); auto | apply (sf_targets _ H1); auto].
Qed.
Lemma near_cases s t : near s -> U t ->
  (g_status (check s t) = UpToDate /\ executes s1 t false = false) \/
  (g_status (check s t) = Run /\ saved_now md5 s t /\ executes s1 t false = true /\ g_status (check s1 t) <> UpToDate).
Proof.
  intros Hn Ut. pose proof (near_executes s t Hn Ut) as He. pose proof (near_ignore s t Hn Ut) as Hig.
  destruct (stable_status md5 size_of v s t (n_inv _ Hn) (n_stable _ Hn t Ut) Hig (near_targets s t Hn Ut)) as [[E|[E Hsv]] _].
  - left. split; auto. rewrite <- He. unfold History.executes. fold (check s t). rewrite E. apply andb_false_r.
  - right. split; auto. split; auto. split.
    + rewrite <- He. unfold History.executes. fold (check s t). rewrite E, Hig. reflexivity.
    + intros H. apply (near_status s t Hn Ut) in H. congruence.
Qed.

Record inv2 (a : racc) : Prop := {
  j_near : near (ra_s a);
  j_fin : forall t c, fin_of (ra_fin a) t = Some c ->
            U t /\ ((c = 0 /\ executes s1 t false = true) \/ (c = 2 /\ executes s1 t false = false))
}.

Lemma inv2_same a a' : ra_s a' = ra_s a -> ra_fin a' = ra_fin a -> inv2 a -> inv2 a'.
Proof. intros Es Ef [J1 J2]. constructor; rewrite ?Es, ?Ef; auto. Qed.

Lemma inv2_finish a s' t c :
  inv2 a -> near s' -> U t ->
  ((c = 0 /\ executes s1 t false = true) \/ (c = 2 /\ executes s1 t false = false)) ->
  inv2 (finish a s' t c).
Proof.
  intros [J1 J2] Hn Ut Hc. constructor; simpl; auto.
  intros x c' Hx. rewrite fin_of_app in Hx. destruct (fin_of (ra_fin a) x) eqn:E.
  - inversion Hx; subst. apply J2; auto.
  - destruct (N.eqb_spec t x) as [<-|]; [|discriminate]. inversion Hx; subst. auto.
Qed.

Lemma dep_ign_false a l : inv2 a -> dep_ign a l = false.
Proof.
  intros Ha. apply not_true_is_false. intros H. unfold dep_ign in H. apply existsb_exists in H. destruct H as [d [_ H]].
  destruct (fin_of (ra_fin a) d) eqn:E; [|discriminate].
  destruct (j_fin _ Ha d z E) as [_ [[-> _]|[-> _]]]; discriminate.
Qed.
Lemma dep_bad_false a l : inv2 a -> dep_bad a l = false.
Proof.
  intros Ha. apply not_true_is_false. intros H. unfold dep_bad in H. apply existsb_exists in H. destruct H as [d [_ H]].
  destruct (fin_of (ra_fin a) d) eqn:E; [|discriminate].
  destruct (j_fin _ Ha d z E) as [_ [[-> _]|[-> _]]]; discriminate.
Qed.

Definition good2 (fuel : nat) : Prop := forall a t, inv2 a -> U t -> inv2 (visit fuel a t).

Lemma fold2 fuel : good2 fuel -> forall l a, inv2 a -> (forall x, In x l -> U x) -> inv2 (fold_left (visit fuel) l a).
Proof.
  intros Hg. induction l as [|x l IH]; intros a Ha Hl; simpl; auto.
  apply IH; [apply Hg; auto; apply Hl; simpl; auto | intros; apply Hl; simpl; auto].
Qed.

(* the normal form of one visit of a task that was not started yet: the task is skipped as up-to-date, or its setup-tasks are
   visited and it is executed and saved *)
Lemma visit_nf fuel a t :
  good2 fuel -> inv2 a -> U t -> mem t (ra_started a) = false ->
  let a1 := fold_left (visit fuel) (task_deps (G t)) (started a t) in
  let sA := ra_s a1 in
  inv2 a1 /\ near (step sA (Check t)) /\
  ((executes s1 t false = false /\ visit (S fuel) a t = finish a1 (step sA (Check t)) t 2) \/
   (executes s1 t false = true /\
    let a3 := fold_left (visit fuel) (setup_tasks (G t)) (with_s a1 (step sA (Check t))) in
    inv2 a3 /\ near (step (ra_s a3) (SaveOk t)) /\
    visit (S fuel) a t = finish a3 (step (ra_s a3) (SaveOk t)) t 0)).
Proof.
  intros Hg Ha Ut Hm a1 sA.
  assert (Ha0 : inv2 (started a t)) by (apply (inv2_same a); auto).
  assert (Ha1 : inv2 a1) by (apply (fold2 fuel Hg); auto; intros d Hd; apply (sf_deps _ H1 t d Ut Hd)).
  pose proof (j_near _ Ha1) as Hn1. fold sA in Hn1.
  pose proof (near_ignore sA t Hn1 Ut) as Hig.
  destruct (check_step sA t (n_inv _ Hn1) (n_stable _ Hn1 t Ut) Hig (near_targets sA t Hn1 Ut)) as (C1 & C2 & C3 & C4).
  assert (Hn2 : near (step sA (Check t))).
  { constructor; auto.
    - destruct (n_env _ Hn1) as (E1 & E2 & E3), C3 as (F1 & F2 & F3). repeat split; congruence.
    - rewrite C2. apply (n_db _ Hn1).
    - intros x Ux. apply C4, (n_stable _ Hn1 x Ux). }
  split; [exact Ha1|]. split; [exact Hn2|].
  rewrite visit_S, Hm. cbv zeta. fold a1. fold sA.
  rewrite (dep_ign_false a1), (dep_bad_false a1), Hig by auto. cbn [orb].
  destruct (near_cases sA t Hn1 Ut) as [[E He]|(E & Hsv & He & Hnu)]; rewrite E.
  - left. split; auto.
  - right. split; auto. cbv zeta.
    destruct (sf_setup _ H1 t Ut Hnu) as [Hsetup Hargs].
    assert (Ha2 : inv2 (with_s a1 (step sA (Check t)))) by (constructor; [exact Hn2 | exact (j_fin _ Ha1)]).
    assert (Ha3 : inv2 (fold_left (visit fuel) (setup_tasks (G t)) (with_s a1 (step sA (Check t))))) by (apply (fold2 fuel Hg); auto).
    set (a3 := fold_left (visit fuel) (setup_tasks (G t)) (with_s a1 (step sA (Check t)))) in *.
    pose proof (j_near _ Ha3) as Hn3.
    destruct (near_cases (ra_s a3) t Hn3 Ut) as [[_ He']|(_ & Hsv3 & _)]; [congruence|].
    destruct (saveok_step (ra_s a3) t (n_inv _ Hn3) Hsv3) as (S1 & S2 & S3 & S4 & S5).
    assert (Hn4 : near (step (ra_s a3) (SaveOk t))).
    { constructor; auto.
      - destruct (n_env _ Hn3) as (E1 & E2 & E3), S3 as (F1 & F2 & F3). repeat split; congruence.
      - eapply db_equiv_trans; [exact S2 | apply (n_db _ Hn3)].
      - intros x Ux. apply S5, (n_stable _ Hn3 x Ux). }
    split; [exact Ha3|]. split; [exact Hn4|].
    rewrite (dep_ign_false a3), (dep_bad_false a3) by auto.
    rewrite (args_ok_equiv (s_db s1) (s_db (ra_s a3))) by (apply (n_db _ Hn3)).
    rewrite Hargs. cbn [negb]. rewrite S4. reflexivity.
Qed.

Lemma visit2 : forall fuel, good2 fuel.
Proof.
  induction fuel as [|fuel IH]; intros a t Ha Ut.
  - simpl. apply (inv2_same a); auto.
  - destruct (mem t (ra_started a)) eqn:Hm.
    + rewrite visit_S, Hm. destruct (fin_of (ra_fin a) t); [exact Ha | apply (inv2_same a); auto].
    + destruct (visit_nf fuel a t IH Ha Ut Hm) as (Ha1 & Hn2 & [[He ->]|(He & Ha3 & Hn4 & ->)]).
      * apply inv2_finish; auto.
      * apply inv2_finish; auto.
Qed.

(* two runs from two states near s1 make the same visits with the same reports *)
Definition rel (a a' : racc) : Prop :=
  ra_started a = ra_started a' /\ ra_fin a = ra_fin a' /\ ra_cyc a = ra_cyc a' /\ ra_fuel a = ra_fuel a'.

Lemma rel_finish a a' s s' t c : rel a a' -> rel (finish a s t c) (finish a' s' t c).
Proof. intros (R1 & R2 & R3 & R4). repeat split; simpl; congruence. Qed.

Definition goodr (fuel : nat) : Prop :=
  forall a a' t, inv2 a -> inv2 a' -> U t -> rel a a' -> rel (visit fuel a t) (visit fuel a' t).

Lemma foldr fuel : goodr fuel -> forall l a a', inv2 a -> inv2 a' -> (forall x, In x l -> U x) -> rel a a' ->
  rel (fold_left (visit fuel) l a) (fold_left (visit fuel) l a').
Proof.
  intros Hg. induction l as [|x l IH]; intros a a' Ha Ha' Hl R; simpl; auto.
  assert (Ux : U x) by (apply Hl; simpl; auto).
  apply IH; [apply visit2; auto | apply visit2; auto | intros; apply Hl; simpl; auto | apply Hg; auto].
Qed.

Lemma visitr : forall fuel, goodr fuel.
Proof.
  induction fuel as [|fuel IH]; intros a a' t Ha Ha' Ut R.
  - destruct R as (R1 & R2 & R3 & R4). repeat split; simpl; auto.
  - pose proof R as (R1 & R2 & R3 & R4).
    destruct (mem t (ra_started a)) eqn:Hm.
    + assert (Hm' : mem t (ra_started a') = true) by (rewrite <- R1; exact Hm).
      rewrite !visit_S, Hm, Hm', <- R2. destruct (fin_of (ra_fin a) t); [exact R|].
      repeat split; simpl; auto.
    + assert (Hm' : mem t (ra_started a') = false) by (rewrite <- R1; exact Hm).
      assert (R0 : rel (started a t) (started a' t)) by (repeat split; simpl; congruence).
      assert (Rd : rel (fold_left (visit fuel) (task_deps (G t)) (started a t)) (fold_left (visit fuel) (task_deps (G t)) (started a' t))).
      { apply (foldr fuel IH); auto; [apply (inv2_same a); auto | apply (inv2_same a'); auto |].
        intros d Hd. apply (sf_deps _ H1 t d Ut Hd). }
      destruct (visit_nf fuel a t (visit2 fuel) Ha Ut Hm) as (Ha1 & Hn2 & [[He ->]|(He & Ha3 & Hn4 & ->)]);
      destruct (visit_nf fuel a' t (visit2 fuel) Ha' Ut Hm') as (Ha1' & Hn2' & [[He' ->]|(He' & Ha3' & Hn4' & ->)]); try congruence.
      * apply rel_finish. exact Rd.
      * apply rel_finish. cbv zeta in *.
        assert (Hnu : g_status (check s1 t) <> UpToDate).
        { intros H. unfold History.executes in He. fold (check s1 t) in He. rewrite H, andb_false_r in He. discriminate. }
        destruct (sf_setup _ H1 t Ut Hnu) as [Hsetup _].
        apply (foldr fuel IH); auto.
        -- constructor; [exact Hn2 | exact (j_fin _ Ha1)].
        -- constructor; [exact Hn2' | exact (j_fin _ Ha1')].
Qed.

Lemma acc0_inv2 s : near s -> inv2 (acc0 s).
Proof. intros Hn. constructor; [exact Hn | intros t c H; discriminate]. Qed.

(* a whole run from a state near s1 *)
Lemma run2 fuel s sel :
  near s -> (forall x, In x sel -> U x) ->
  let a := run_acc md5 size_of v G (fun _ => false) fuel s sel in
  near (ra_s a) /\
  (forall t c, fin_of (ra_fin a) t = Some c ->
     U t /\ ((c = 0 /\ executes s1 t false = true) \/ (c = 2 /\ executes s1 t false = false))).
Proof.
  intros Hn Hsel a. unfold a, run_acc. fold (acc0 s).
  destruct (fold2 fuel (visit2 fuel) sel (acc0 s) (acc0_inv2 s Hn) Hsel) as [J1 J2]. split; auto.
Qed.

Lemma run2_rel fuel s s' sel :
  near s -> near s' -> (forall x, In x sel -> U x) ->
  rel (run_acc md5 size_of v G (fun _ => false) fuel s sel) (run_acc md5 size_of v G (fun _ => false) fuel s' sel).
Proof.
  intros Hn Hn' Hsel. unfold run_acc. fold (acc0 s). fold (acc0 s').
  apply (foldr fuel (visitr fuel)); auto using acc0_inv2. repeat split.
Qed.

End Run2.

(* ================= first run, then any number of repeated runs ================= *)
Section Final.
Variable md5 : N -> N.
Variable size_of : N -> Z.
Variable v : ver.
Hypothesis HA : fixA v = true.
Hypothesis HB : fixB v = true.

Notation check := (check md5 v).
Notation inv := (db_reflects_ghost md5).
Notation executes := (executes md5 v).
Notation nofail := (fun _ : name => false).

(* the state a clean, fully successful run leaves is settled for the tasks it finished -- provided no task it skipped as
   up-to-date was invalidated later in the same run (lazy getargs: a provider executed after its consumer was checked) *)
Lemma first_settled (G : name -> rdef) fuel s0 sel :
  inv s0 -> (forall t, s_defs s0 t = eff (G t)) ->
  let a1 := run_acc md5 size_of v G nofail fuel s0 sel in
  clean a1 ->
  (forall t c, fin_of (ra_fin a1) t = Some c -> c = 0 \/ c = 2) ->
  (forall t, fin_of (ra_fin a1) t = Some 2 -> g_status (check (ra_s a1) t) = UpToDate) ->
  (forall t, finished a1 t -> status_is_ignore (s_db (ra_s a1)) t = false) ->
  (forall t, finished a1 t -> targets_exist s0 t) ->
  settled_for md5 v G (finished a1) (ra_s a1) /\ (forall x, In x sel -> finished a1 x).
Proof.
  intros Hinv Hdefs a1 Hcl Hcodes Hlazy Hign Htg.
  destruct (run_acc_x md5 size_of v HA HB G nofail fuel s0 sel Hinv Hdefs) as (A & X & Henv & D). fold a1 in A, X, Henv, D.
  split; [|intros x Hx; apply done_clean; auto].
  assert (Hcode : forall t, finished a1 t -> fin_of (ra_fin a1) t = Some 0 \/ fin_of (ra_fin a1) t = Some 2).
  { intros t Ht. unfold finished in Ht. destruct (fin_of (ra_fin a1) t) as [c|] eqn:E; [|congruence].
    destruct (Hcodes t c E) as [-> | ->]; auto. }
  constructor.
  - apply (ai_ghost _ _ _ A).
  - apply (ai_defs _ _ _ A).
  - intros t Ht. right. split; [apply (ai_files _ _ _ A); apply Hcode; auto|].
    intros Hn. destruct (Hcode t Ht) as [E|E]; [apply (x_saved _ _ _ X Hcl t E) | exfalso; apply Hn, Hlazy, E].
  - intros t Ht. apply (targets_exist_env s0); auto.
  - exact Hign.
  - intros t d Ht Hd. apply done_clean; auto. apply (x_deps _ _ _ X t Ht d Hd).
  - intros t Ht Hn. destruct (Hcode t Ht) as [E|E]; [|exfalso; apply Hn, Hlazy, E]. split.
    + intros p Hp. destruct (ai_res _ _ _ A Hcl t E) as [_ R2]. apply (R2 p).
      rewrite (ai_defs _ _ _ A). apply setup_in_eff, Hp.
    + apply (x_saved _ _ _ X Hcl t E).
Qed.

Lemma grun_snoc l o : grun md5 size_of v (l ++ [o]) = gstep md5 size_of v (grun md5 size_of v l) o.
Proof. unfold grun, grun_from. rewrite fold_left_app. reflexivity. Qed.

Lemma repeat_snoc {A} (x : A) k : repeat x (S k) = repeat x k ++ [x].
Proof. induction k as [|k IH]; simpl in *; auto. rewrite <- IH. reflexivity. Qed.

(* the run-level statement: after any FS-fresh run-level history l, `doit run sel` any number of times *)
Theorem getargs_rerun_noop (l : list gop) (sel : list name) :
  ghist_ok md5 size_of v l = true ->
  let g := grun md5 size_of v l in
  let a1 := run_after md5 size_of v l sel [] in
  let s1 := ra_s a1 in
  ra_cyc a1 = false -> ra_fuel a1 = false ->
  (forall t c, fin_of (ra_fin a1) t = Some c -> c = 0 \/ c = 2) ->
  (forall t, fin_of (ra_fin a1) t = Some 2 -> g_status (check s1 t) = UpToDate) ->
  (forall t, fin_of (ra_fin a1) t <> None -> status_is_ignore (s_db s1) t = false) ->
  (forall t x, fin_of (ra_fin a1) t <> None -> In x (targets (eff (gs_defs g t))) -> exists_ (s_fs (gs_s g)) x = true) ->
  forall k,
  let ak := run_after md5 size_of v (l ++ repeat (GRun sel []) (S k)) sel [] in
  let ak' := run_after md5 size_of v (l ++ repeat (GRun sel []) (S (S k))) sel [] in
  (forall t c, fin_of (ra_fin ak) t = Some c ->
     (c = 0 /\ fin_of (ra_fin a1) t = Some 0 /\ executes s1 t false = true) \/
     (c = 2 /\ fin_of (ra_fin a1) t <> None /\ executes s1 t false = false)) /\
  db_equiv (s_db (ra_s ak)) (s_db s1) /\
  (forall tasks files, db_z tasks files (s_db (ra_s ak)) = db_z tasks files (s_db s1)) /\
  ra_fin ak' = ra_fin ak /\ ra_cyc ak' = ra_cyc ak /\ ra_fuel ak' = ra_fuel ak.
Proof.
  intros Hok g a1 s1 Hcyc Hfuel Hcodes Hlazy Hign Htg.
  destruct (grun_inv md5 size_of v HA HB l Hok) as [Hg Hd]. fold g in Hg, Hd.
  set (G := gs_defs g).
  assert (Htg' : forall t, finished a1 t -> targets_exist (gs_s g) t).
  { intros t Ht x Hx. rewrite Hd in Hx. apply (Htg t x Ht Hx). }
  destruct (first_settled G run_fuel (gs_s g) sel Hg Hd (conj Hcyc Hfuel) Hcodes Hlazy Hign Htg') as [H1 Hsel].
  change (run_acc md5 size_of v G nofail run_fuel (gs_s g) sel) with a1 in H1, Hsel. fold s1 in H1.
  set (U := finished a1) in *.
  assert (K : forall k, let gk := grun md5 size_of v (l ++ repeat (GRun sel []) (S k)) in
                        gs_defs gk = G /\ near md5 v U s1 (gs_s gk)).
  { induction k as [|k IHk]; cbv zeta.
    - change (repeat (GRun sel []) 1) with [GRun sel []]. rewrite grun_snoc. simpl. split; [reflexivity|].
      apply (near_refl md5 v G U s1 H1).
    - rewrite (repeat_snoc (GRun sel []) (S k)), app_assoc, grun_snoc. cbv zeta in IHk. destruct IHk as [Ed Hn].
      set (gk := grun md5 size_of v (l ++ repeat (GRun sel []) (S k))) in *.
      simpl. split; [exact Ed|]. rewrite Ed.
      apply (run2 md5 size_of v HA HB G U s1 H1 run_fuel (gs_s gk) sel Hn Hsel). }
  intros k ak ak'.
  destruct (K k) as [Ed Hn]. destruct (K (S k)) as [Ed' Hn']. cbv zeta in Ed, Hn, Ed', Hn'.
  unfold ak, ak', run_after. rewrite Ed, Ed'.
  destruct (run2 md5 size_of v HA HB G U s1 H1 run_fuel _ sel Hn Hsel) as [R1 R2].
  split.
  { intros t c Hc. destruct (R2 t c Hc) as [Ut [[-> He]|[-> He]]]; [left | right; auto].
    split; auto. split; auto. unfold U, finished in Ut.
    destruct (fin_of (ra_fin a1) t) as [c1|] eqn:E1; [|congruence].
    destruct (Hcodes t c1 E1) as [-> | ->]; auto.
    exfalso. rewrite (uptodate_not_executed md5 v s1 t (Hlazy t E1)) in He. discriminate. }
  split; [apply (n_db _ _ _ _ _ R1)|]. split; [intros tasks files; apply db_z_equiv, (n_db _ _ _ _ _ R1)|].
  destruct (run2_rel md5 size_of v HA HB G U s1 H1 run_fuel _ _ sel Hn' Hn Hsel) as (_ & Q2 & Q3 & Q4).
  auto.
Qed.

End Final.
