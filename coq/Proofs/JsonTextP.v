(* JsonTextP.v -- proofs about Model/JsonText.v (the characters of the JSON reporter's document):
   1. every character of the document is printable ASCII (whatever the tasks wrote);
   2. hence writing it to a strict text stream of any codec that maps ASCII to itself never fails and
      puts exactly these characters on the stream;
   3. the reader (py_scanstring) applied to an escaped string stops at its closing quote and gives back
      the code points (two adjacent surrogate halves joined: [merge]). *)
From DoitV Require Import Base JsonText.
From Coq Require Import String Ascii ZifyBool.
Open Scope N_scope.
Ltac Zify.zify_post_hook ::= Z.to_euclidean_division_equations.

(* ------------------------------------------------------------------ 1. printable *)
Lemma forallb_app_true {A} (f : A -> bool) a b :
  forallb f a = true -> forallb f b = true -> forallb f (a ++ b) = true.
Proof. intros Ha Hb. rewrite forallb_app, Ha, Hb. reflexivity. Qed.

Lemma hexd_printable d : d < 16 -> printable (hexd d) = true.
Proof. intros H. unfold printable, hexd. destruct (d <? 10) eqn:E; lia. Qed.

Lemma hex4_printable n : forallb printable (hex4 n) = true.
Proof.
  unfold hex4. cbn [forallb].
  rewrite !hexd_printable by (apply N.mod_lt; discriminate). reflexivity.
Qed.

Lemma uesc_printable n : forallb printable (uesc n) = true.
Proof. unfold uesc. cbn [forallb]. rewrite hex4_printable. reflexivity. Qed.

Lemma esc_char_printable c : forallb printable (esc_char c) = true.
Proof.
  unfold esc_char.
  repeat match goal with |- context [if ?c =? ?k then _ else _] => destruct (c =? k); [reflexivity|] end.
  destruct (printable c) eqn:P; [cbn [forallb]; rewrite P; reflexivity|].
  destruct (c <? 65536); [apply uesc_printable|].
  apply forallb_app_true; apply uesc_printable.
Qed.

Lemma esc_body_printable s : forallb printable (esc_body s) = true.
Proof.
  induction s as [|c s IH]; [reflexivity|].
  unfold esc_body in *. cbn [flat_map]. apply forallb_app_true; [apply esc_char_printable | exact IH].
Qed.

Lemma esc_string_printable s : forallb printable (esc_string s) = true.
Proof.
  unfold esc_string. change (34 :: esc_body s ++ [34]) with ([34] ++ esc_body s ++ [34]).
  apply forallb_app_true; [reflexivity|]. apply forallb_app_true; [apply esc_body_printable | reflexivity].
Qed.

Lemma opt_str_printable o : forallb printable (opt_str o) = true.
Proof. destruct o; [apply esc_string_printable | reflexivity]. Qed.

Lemma dumps_task_printable r : num_ok r = true -> forallb printable (dumps_task r) = true.
Proof.
  intros H. unfold dumps_task.
  repeat (apply forallb_app_true;
          [first [reflexivity | apply esc_string_printable | apply opt_str_printable]|]).
  apply forallb_app_true; [|reflexivity].
  unfold num_ok in H. unfold opt_num. destruct (jt_elapsed r); [exact H | reflexivity].
Qed.

Lemma join_printable s l :
  forallb printable s = true -> forallb (fun x => forallb printable x) l = true ->
  forallb printable (join s l) = true.
Proof.
  intros Hs. induction l as [|x l IH]; [reflexivity|].
  cbn [forallb]. intros H. apply andb_true_iff in H. destruct H as [Hx Hl].
  cbn [join]. destruct l as [|y l']; [exact Hx|].
  apply forallb_app_true; [exact Hx|]. apply forallb_app_true; [exact Hs|]. apply IH. exact Hl.
Qed.

Lemma dumps_doc_printable d : nums_ok d = true -> forallb printable (dumps_doc d) = true.
Proof.
  intros H. unfold dumps_doc.
  apply forallb_app_true; [reflexivity|]. apply forallb_app_true; [reflexivity|].
  apply forallb_app_true.
  - destruct (jd_tasks d) as [|r l] eqn:E; [reflexivity|].
    apply forallb_app_true; [reflexivity|]. apply forallb_app_true; [|reflexivity].
    apply join_printable; [reflexivity|].
    unfold nums_ok in H. rewrite E in H. clear E.
    revert H. generalize (r :: l). intros l0. induction l0 as [|x l0 IH]; [reflexivity|].
    cbn [forallb map]. intros H. apply andb_true_iff in H. destruct H as [Hx Hl].
    rewrite (dumps_task_printable x Hx). apply IH. exact Hl.
  - repeat (apply forallb_app_true; [first [reflexivity | apply esc_string_printable]|]). reflexivity.
Qed.

(* ------------------------------------------------------------------ 2. the write *)
Lemma write_printable (enc : codec_t) :
  (forall c, c < 128 -> enc c = Some [c]) ->
  forall s, forallb printable s = true -> write enc s = (false, s).
Proof.
  intros Henc. induction s as [|c s IH]; [reflexivity|].
  cbn [forallb]. intros H. apply andb_true_iff in H. destruct H as [Hc Hs].
  cbn [write]. rewrite Henc by (unfold printable in Hc; lia). rewrite (IH Hs). reflexivity.
Qed.

Lemma write_doc (enc : codec_t) :
  (forall c, c < 128 -> enc c = Some [c]) ->
  forall d, nums_ok d = true -> write enc (dumps_doc d) = (false, dumps_doc d).
Proof. intros Henc d H. apply write_printable; [exact Henc | apply dumps_doc_printable; exact H]. Qed.

Lemma codec_ascii_compatible k c : c < 128 -> codec k c = Some [c].
Proof.
  intros H. unfold codec. destruct k as [|[p|p|]]; unfold codec_ascii, codec_latin1, codec_utf8;
  repeat match goal with |- context [if ?b then _ else _] => destruct b eqn:?; try reflexivity; try lia end.
Qed.

(* ------------------------------------------------------------------ 3. reading back *)
Lemma unhexd_hexd d : d < 16 -> unhexd (hexd d) = Some d.
Proof.
  intros H. unfold unhexd, hexd. destruct (d <? 10) eqn:E.
  - destruct ((48 <=? 48 + d) && (48 + d <=? 57)) eqn:E1; [f_equal; lia | lia].
  - destruct ((48 <=? 87 + d) && (87 + d <=? 57)) eqn:E1; [lia|].
    destruct ((97 <=? 87 + d) && (87 + d <=? 102)) eqn:E2; [f_equal; lia | lia].
Qed.

Lemma unhex4_hex4 n : n < 65536 ->
  unhex4 (hexd (n / 4096 mod 16)) (hexd (n / 256 mod 16)) (hexd (n / 16 mod 16)) (hexd (n mod 16)) = Some n.
Proof.
  intros H. unfold unhex4. rewrite !unhexd_hexd by (apply N.mod_lt; discriminate).
  f_equal.
  replace (n / 256) with (n / 16 / 16) by (rewrite N.div_div by discriminate; reflexivity).
  replace (n / 4096) with (n / 16 / 16 / 16) by (rewrite !N.div_div by discriminate; reflexivity).
  lia.
Qed.

(* the look-ahead of py_scanstring after a high half *)
Definition look (u : N) (r2 : text) (k : text -> option (text * text)) : option (text * text) :=
  match r2 with
  | b1 :: r2a =>
    if b1 =? 92 then
      match r2a with
      | u1 :: r2b =>
        if u1 =? 117 then
          match r2b with
          | a2 :: b2 :: c2 :: d2 :: r3 =>
            match unhex4 a2 b2 c2 d2 with
            | None => None
            | Some u2 => if is_low u2 then push (comb u u2) (k r3) else push u (k r2)
            end
          | _ => None
          end
        else push u (k r2)
      | [] => push u (k r2)
      end
    else push u (k r2)
  | [] => push u (k r2)
  end.

Lemma scan_bs_u a b c d r2 :
  scan (92 :: 117 :: a :: b :: c :: d :: r2) =
  match unhex4 a b c d with
  | None => None
  | Some u => if is_high u then look u r2 scan else push u (scan r2)
  end.
Proof. reflexivity. Qed.

Lemma scan_uesc u r2 : u < 65536 ->
  scan (uesc u ++ r2) = if is_high u then look u r2 scan else push u (scan r2).
Proof.
  intros H. unfold uesc, hex4. cbn [app]. rewrite scan_bs_u, (unhex4_hex4 u H). reflexivity.
Qed.

Lemma scan_plain x r : printable x = true -> x <> 34 -> x <> 92 -> scan (x :: r) = push x (scan r).
Proof.
  intros P H1 H2. cbn [scan].
  destruct (x =? 34) eqn:E1; [lia|]. destruct (x <? 32) eqn:E2; [unfold printable in P; lia|].
  destruct (x =? 92) eqn:E3; [lia|]. reflexivity.
Qed.

Lemma scan_short e l r : e <> 117 -> unescape e = Some l -> scan (92 :: e :: r) = push l (scan r).
Proof.
  intros H1 H2. change (scan (92 :: e :: r)) with
    (if negb (e =? 117) then match unescape e with Some ch => push ch (scan r) | None => None end
     else match r with
          | a :: b :: c3 :: d :: r2 =>
            match unhex4 a b c3 d with
            | None => None
            | Some u => if is_high u then look u r2 scan else push u (scan r2)
            end
          | _ => None
          end).
  destruct (e =? 117) eqn:E; [lia|]. cbn [negb]. rewrite H2. reflexivity.
Qed.

Lemma look_plain u x r k : x <> 92 -> look u (x :: r) k = push u (k (x :: r)).
Proof. intros H. unfold look. destruct (x =? 92) eqn:E; [lia | reflexivity]. Qed.

Lemma look_short u e r k : e <> 117 -> look u (92 :: e :: r) k = push u (k (92 :: e :: r)).
Proof. intros H. unfold look. cbn. destruct (e =? 117) eqn:E; [lia | reflexivity]. Qed.

Lemma look_uesc u l r k : l < 65536 ->
  look u (uesc l ++ r) k = if is_low l then push (comb u l) (k r) else push u (k (uesc l ++ r)).
Proof.
  intros H. unfold uesc, hex4. cbn [app]. unfold look.
  change (92 =? 92) with true. change (117 =? 117) with true. cbv iota.
  rewrite (unhex4_hex4 l H). reflexivity.
Qed.

(* the four shapes of the escape of one code point *)
Inductive shape (c : N) : Prop :=
| ShPlain : esc_char c = [c] -> printable c = true -> c <> 34 -> c <> 92 -> shape c
| ShShort e : esc_char c = [92; e] -> e <> 117 -> unescape e = Some c -> c < 128 -> shape c
| ShU : esc_char c = uesc c -> c < 65536 -> shape c
| ShPair : esc_char c = uesc (55296 + ((c - 65536) / 1024) mod 1024) ++ uesc (56320 + (c - 65536) mod 1024) ->
           65536 <= c -> shape c.

Lemma esc_char_shape c : shape c.
Proof.
  destruct (c =? 34) eqn:E1.
  { apply N.eqb_eq in E1; subst. apply ShShort with (e := 34); [reflexivity | discriminate | reflexivity | reflexivity]. }
  destruct (c =? 92) eqn:E2.
  { apply N.eqb_eq in E2; subst. apply ShShort with (e := 92); [reflexivity | discriminate | reflexivity | reflexivity]. }
  destruct (c =? 10) eqn:E3.
  { apply N.eqb_eq in E3; subst. apply ShShort with (e := 110); [reflexivity | discriminate | reflexivity | reflexivity]. }
  destruct (c =? 13) eqn:E4.
  { apply N.eqb_eq in E4; subst. apply ShShort with (e := 114); [reflexivity | discriminate | reflexivity | reflexivity]. }
  destruct (c =? 9) eqn:E5.
  { apply N.eqb_eq in E5; subst. apply ShShort with (e := 116); [reflexivity | discriminate | reflexivity | reflexivity]. }
  destruct (c =? 12) eqn:E6.
  { apply N.eqb_eq in E6; subst. apply ShShort with (e := 102); [reflexivity | discriminate | reflexivity | reflexivity]. }
  destruct (c =? 8) eqn:E7.
  { apply N.eqb_eq in E7; subst. apply ShShort with (e := 98); [reflexivity | discriminate | reflexivity | reflexivity]. }
  destruct (printable c) eqn:P.
  { apply ShPlain; [unfold esc_char; rewrite E1, E2, E3, E4, E5, E6, E7, P; reflexivity | exact P | lia | lia]. }
  destruct (c <? 65536) eqn:L.
  { apply ShU; [unfold esc_char; rewrite E1, E2, E3, E4, E5, E6, E7, P, L; reflexivity | lia]. }
  apply ShPair; [unfold esc_char; rewrite E1, E2, E3, E4, E5, E6, E7, P, L; reflexivity | lia].
Qed.

Lemma merge_nohigh c s : is_high c = false -> merge (c :: s) = c :: merge s.
Proof. intros H. cbn [merge]. destruct s as [|l s']; [reflexivity|]. rewrite H. reflexivity. Qed.

Lemma merge_high_nolow c l s : is_low l = false -> merge (c :: l :: s) = c :: merge (l :: s).
Proof.
  intros H. change (merge (c :: l :: s)) with (if is_high c && is_low l then comb c l :: merge s else c :: merge (l :: s)).
  rewrite H, andb_false_r. reflexivity.
Qed.

Lemma merge_pair c l s : is_high c = true -> is_low l = true -> merge (c :: l :: s) = comb c l :: merge s.
Proof.
  intros H1 H2. change (merge (c :: l :: s)) with (if is_high c && is_low l then comb c l :: merge s else c :: merge (l :: s)).
  rewrite H1, H2. reflexivity.
Qed.

Lemma pair_arith c : 65536 <= c -> c < 1114112 ->
  let hi := 55296 + ((c - 65536) / 1024) mod 1024 in
  let lo := 56320 + (c - 65536) mod 1024 in
  hi < 65536 /\ lo < 65536 /\ is_high hi = true /\ is_low lo = true /\ is_low hi = false /\ comb hi lo = c.
Proof. intros H1 H2 hi lo. unfold is_high, is_low, comb, hi, lo. repeat split; lia. Qed.

(* what follows a high half [u]: the escape of the next code point [l] (or the closing quote) *)
Lemma look_next u l r : code_point l = true ->
  look u (esc_char l ++ r) scan =
  if is_low l then push (comb u l) (scan r) else push u (scan (esc_char l ++ r)).
Proof.
  intros V. unfold code_point in V. destruct (esc_char_shape l) as [E P H1 H2 | e E H1 H2 H3 | E H | E H].
  - rewrite E. cbn [app]. rewrite look_plain by exact H2.
    replace (is_low l) with false by (unfold is_low, printable in *; lia). reflexivity.
  - rewrite E. cbn [app]. rewrite look_short by exact H1.
    replace (is_low l) with false by (unfold is_low; lia). reflexivity.
  - rewrite E. apply look_uesc. exact H.
  - rewrite E. destruct (pair_arith l H ltac:(lia)) as (Hh & Hl & Hih & Hil & Hnl & Hc).
    rewrite <- app_assoc. rewrite look_uesc by exact Hh. rewrite Hnl.
    replace (is_low l) with false by (unfold is_low; lia). reflexivity.
Qed.

Lemma scan_esc_body : forall n s, (List.length s <= n)%nat -> forallb code_point s = true ->
  forall rest, scan (esc_body s ++ 34 :: rest) = Some (merge s, rest).
Proof.
  induction n as [|n IH]; intros s Hn V rest.
  { destruct s; [reflexivity | cbn in Hn; lia]. }
  destruct s as [|c s']; [reflexivity|].
  cbn [forallb] in V. apply andb_true_iff in V. destruct V as [Vc Vs].
  assert (IH1 : scan (esc_body s' ++ 34 :: rest) = Some (merge s', rest)).
  { apply IH; [cbn in Hn; lia | exact Vs]. }
  unfold esc_body in *. cbn [flat_map]. rewrite <- app_assoc.
  set (R := flat_map esc_char s' ++ 34 :: rest) in *.
  unfold code_point in Vc.
  destruct (esc_char_shape c) as [E P H1 H2 | e E H1 H2 H3 | E H | E H].
  - rewrite E. cbn [app]. rewrite scan_plain by assumption. rewrite IH1. cbn [push].
    rewrite merge_nohigh by (unfold is_high, printable in *; lia). reflexivity.
  - rewrite E. cbn [app]. rewrite (scan_short e c) by assumption. rewrite IH1. cbn [push].
    rewrite merge_nohigh by (unfold is_high; lia). reflexivity.
  - rewrite E. rewrite scan_uesc by exact H. destruct (is_high c) eqn:Hc.
    + (* a high half: what comes next? *)
      destruct s' as [|l s''].
      * subst R. cbn [flat_map app]. rewrite look_plain by discriminate. reflexivity.
      * cbn [forallb] in Vs. apply andb_true_iff in Vs. destruct Vs as [Vl Vs''].
        subst R. cbn [flat_map] in *. rewrite <- app_assoc in *.
        rewrite look_next by exact Vl. destruct (is_low l) eqn:Hl.
        -- rewrite (IH s'') by (try exact Vs''; cbn in Hn; lia). cbn [push].
           rewrite merge_pair by assumption. reflexivity.
        -- rewrite IH1. cbn [push]. rewrite merge_high_nolow by exact Hl. reflexivity.
    + rewrite IH1. cbn [push]. rewrite merge_nohigh by exact Hc. reflexivity.
  - rewrite E. destruct (pair_arith c H ltac:(lia)) as (Hh & Hl & Hih & Hil & Hnl & Hcb).
    rewrite <- app_assoc. rewrite scan_uesc by exact Hh. rewrite Hih.
    rewrite look_uesc by exact Hl. rewrite Hil, Hcb, IH1. cbn [push].
    rewrite merge_nohigh by (unfold is_high; lia). reflexivity.
Qed.

Lemma scan_esc_string s rest : forallb code_point s = true ->
  scan (tl (esc_string s) ++ rest) = Some (merge s, rest).
Proof.
  intros V. unfold esc_string. cbn [tl]. rewrite <- app_assoc. cbn [app].
  apply (scan_esc_body (List.length s)); [lia | exact V].
Qed.

Lemma merge_no_pair s : no_pair s = true -> merge s = s.
Proof.
  induction s as [|h r IH]; [reflexivity|].
  destruct r as [|l r'].
  - reflexivity.
  - intros H. change (no_pair (h :: l :: r')) with (negb (is_high h && is_low l) && no_pair (l :: r')) in H.
    apply andb_true_iff in H. destruct H as [H1 H2].
    change (merge (h :: l :: r')) with (if is_high h && is_low l then comb h l :: merge r' else h :: merge (l :: r')).
    apply negb_true_iff in H1. rewrite H1. rewrite (IH H2). reflexivity.
Qed.

Lemma scan_esc_string_exact s rest : forallb code_point s = true -> no_pair s = true ->
  scan (tl (esc_string s) ++ rest) = Some (s, rest).
Proof. intros V P. rewrite scan_esc_string by exact V. rewrite merge_no_pair by exact P. reflexivity. Qed.
