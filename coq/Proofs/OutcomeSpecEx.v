(* OutcomeSpecEx.v -- VALIDATION of the specification of Proofs/OutcomeSpec.v against the models.
   For each small task table below, by vm_compute:
     - run_serial (--continue, plenty of fuel; `always` off and on; two set-iteration oracles; the
       selection and its reverse) and run_parallel (1 to 3 workers, both flavours, four schedules) are
       evaluated;
     - every final report (skip_ignore / skip_uptodate / add_success / add_failure+kind) found in
       those traces must be exactly the report [ev_of k r] of the outcome r that the executable
       specification [fin_fun] computes for that task from the table alone;
     - (tables without a cycle / interrupt) every selected task must have been reported, so the
       comparison is not vacuous.
   [fin_fun] is tied to the relation [fin] by OutcomeFunP.fin_fun_sound.
   Some expected outcome lists are written out by hand (precedence of `ignored` over `failed`,
   visibility of the values of a calc_dep task whose save failed, setup-tasks ...). *)
From DoitV Require Import Base Dispatch Runner Parallel DispatchInv RunnerP ParallelP OutcomeSpec OutcomeFunP.
Open Scope N_scope.

Definition T td su cd ck ae oc nt ni nc : task := Build_task td su cd false false ck ae oc nt ni nc.
Definition TI td su cd : task := Build_task td su cd false true CkRun false OOk [] [] [].
Definition ok td := T td [] [] CkRun false OOk [] [] [].
Definition tbl (l : list (name * task)) : name -> option task :=
  fun n => option_map snd (find (fun p => N.eqb (fst p) n) l).

Definition ev_key (e : event) : name :=
  match e with ESuccess k | ESkipUpToDate k | ESkipIgnore k | EFailure k _ => k | _ => 0 end.
Definition ev_eqb (a b : event) : bool := list_eqb Z.eqb (enc_event a) (enc_event b).

(* every final report of the trace is the one the specification computes *)
Definition agrees (tb : name -> option task) (always : bool) (tr : list event) : bool :=
  forallb (fun e => match fin_fun tb always 60 30 (ev_key e) with
                    | Some r => ev_eqb (ev_of (ev_key e) r) e
                    | None => false end) (filter is_fin tr).
Definition covers (tr : list event) (sel : list name) : bool := forallb (fun k => existsb (is_final_ev k) tr) sel.

Definition rk0 : name -> name -> N := fun _ _ => 0.
Definition rk1 : name -> name -> N := fun _ x => 100 - x.
Definition ck0 : name -> N := fun _ => 0.
Definition ck1 : name -> N := fun x => 100 - x.

Definition scheds : list (list nat) := [[]; [1;0;1;1;0;2;1;0;0;1;2;2;1]%nat; [0;0;0;0;0;0]%nat; [2;1;2;1;2;1;2;1;2;1;0;1]%nat].

Definition serial_traces (tb : name -> option task) (always : bool) (sel : list name) : list (list event) :=
  [ fst (run_serial tb rk0 ck0 true always 400 sel); fst (run_serial tb rk1 ck1 true always 400 sel);
    fst (run_serial tb rk0 ck1 true always 400 (rev sel)); fst (run_serial tb rk1 ck0 false always 400 sel) ].
Definition parallel_traces (tb : name -> option task) (always : bool) (sel : list name) : list (list event) :=
  flat_map (fun sc =>
    [ proj (fst (run_parallel tb rk0 ck0 true always true 400 2 sc sel));
      proj (fst (run_parallel tb rk1 ck1 true always false 400 2 sc sel));
      proj (fst (run_parallel tb rk0 ck1 true always false 400 3 sc (rev sel)));
      proj (fst (run_parallel tb rk1 ck0 true always true 400 1 sc sel)) ]) scheds.

(* agreement on every run; coverage on the --continue runs *)
Definition check_agree (tb : name -> option task) (sel : list name) : bool :=
  forallb (fun always =>
    forallb (agrees tb always) (serial_traces tb always sel) && forallb (agrees tb always) (parallel_traces tb always sel))
    [false; true].
Definition check_cover (tb : name -> option task) (sel : list name) : bool :=
  forallb (fun always =>
    forallb (fun tr => covers tr sel) (firstn 3 (serial_traces tb always sel)) &&
    forallb (fun tr => covers tr sel) (parallel_traces tb always sel))
    [false; true].
Definition check_all tb sel := check_agree tb sel && check_cover tb sel.

Definition outcomes (tb : name -> option task) (always : bool) (l : list name) : list (option fres) :=
  map (fin_fun tb always 60 30) l.

(* ---- 1-3: chains ---- *)
Definition t01 := tbl [(0, ok [1]); (1, ok [2]); (2, ok [])].
Example ex01 : check_all t01 [0] = true /\ outcomes t01 false [0;1;2] = [Some FSuccess; Some FSuccess; Some FSuccess].
Proof. vm_compute. auto. Qed.
Definition t02 := tbl [(0, ok [1]); (1, ok [2]); (2, T [] [] [] CkRun false OFail [] [] [])].
Example ex02 : check_all t02 [0] = true /\
  outcomes t02 false [0;1;2] = [Some (FFail false kind_unmet); Some (FFail false kind_unmet); Some (FFail false kind_failed)].
Proof. vm_compute. auto. Qed.
Definition t03 := tbl [(0, ok [1]); (1, T [] [] [] CkRun false OError [] [] []); (2, ok [])].
Example ex03 : check_all t03 [0; 2] = true /\
  outcomes t03 false [0;1;2] = [Some (FFail false kind_unmet); Some (FFail false kind_error); Some FSuccess].
Proof. vm_compute. auto. Qed.
(* ---- 4: diamond over a failing task ---- *)
Definition t04 := tbl [(0, ok [1;2]); (1, ok [3]); (2, ok [3]); (3, T [] [] [] CkRun false OFail [] [] []); (4, ok [])].
Example ex04 : check_all t04 [0; 4] = true /\ check_all t04 [2; 4; 0; 1] = true.
Proof. vm_compute. auto. Qed.
(* ---- 5-6: ignored tasks; `ignored` wins over `failed` ---- *)
Definition t05 := tbl [(0, ok [1]); (1, ok [2]); (2, TI [] [] [])].
Example ex05 : check_all t05 [0] = true /\ outcomes t05 false [0;1;2] = [Some FIgnore; Some FIgnore; Some FIgnore].
Proof. vm_compute. auto. Qed.
Definition t06 := tbl [(0, ok [1;2]); (1, T [] [] [] CkRun false OFail [] [] []); (2, TI [] [] []); (3, ok [1])].
Example ex06 : check_all t06 [0; 3] = true /\
  outcomes t06 false [0;1;2;3] = [Some FIgnore; Some (FFail false kind_failed); Some FIgnore; Some (FFail false kind_unmet)].
Proof. vm_compute. auto. Qed.
(* ---- 7-8: up-to-date, with and without --always ---- *)
Definition t07 := tbl [(0, ok [1]); (1, T [] [] [] CkUpToDate false OFail [] [] [])].
Example ex07 : check_all t07 [0] = true /\
  outcomes t07 false [0;1] = [Some FSuccess; Some FUpToDate] /\
  outcomes t07 true [0;1] = [Some (FFail false kind_unmet); Some (FFail false kind_failed)].
Proof. vm_compute. auto. Qed.
Definition t08 := tbl [(0, T [1] [] [] CkUpToDate false OOk [] [] []); (1, T [] [] [] CkUpToDate true OOk [] [] [])].
Example ex08 : check_all t08 [0] = true /\
  outcomes t08 false [0;1] = [Some FUpToDate; Some FUpToDate] /\
  outcomes t08 true [0;1] = [Some (FFail false kind_unmet); Some (FFail false kind_dep)].
Proof. vm_compute. auto. Qed.
(* ---- 9-10: get_status error (also under --always) ---- *)
Definition t09 := tbl [(0, ok [1]); (1, T [] [] [] CkError false OOk [] [] []); (2, T [] [3] [] CkError false OOk [] [] []); (3, ok [])].
Example ex09 : check_agree t09 [0; 2] = true /\ check_cover t09 [0; 2] = true /\
  outcomes t09 false [0;1;2] = [Some (FFail false kind_unmet); Some (FFail false kind_dep); Some (FFail false kind_dep)] /\
  outcomes t09 true [0;1;2] = [Some (FFail false kind_unmet); Some (FFail false kind_dep); Some (FFail false kind_dep)].
Proof. vm_compute. auto. Qed.
(* ---- 11-12: _get_task_args error ---- *)
Definition t11 := tbl [(0, ok [1]); (1, T [] [] [] CkRun true OOk [] [] [])].
Example ex11 : check_all t11 [0] = true /\ outcomes t11 false [0;1] = [Some (FFail false kind_unmet); Some (FFail false kind_dep)].
Proof. vm_compute. auto. Qed.
Definition t12 := tbl [(0, ok [1]); (1, T [] [] [] CkRun true OInterrupt [] [] [])].
Example ex12 : check_all t12 [0] = true.
Proof. vm_compute. auto. Qed.
(* ---- 13-18: setup-tasks ---- *)
Definition t13 := tbl [(0, T [] [1] [] CkRun false OOk [] [] []); (1, ok [2]); (2, ok [])].
Example ex13 : check_all t13 [0] = true /\ outcomes t13 false [0;1;2] = [Some FSuccess; Some FSuccess; Some FSuccess].
Proof. vm_compute. auto. Qed.
Definition t14 := tbl [(0, T [3] [1;2] [] CkRun false OOk [] [] []); (1, T [] [] [] CkRun false OFail [] [] []); (2, ok []); (3, ok [])].
Example ex14 : check_all t14 [0] = true /\
  outcomes t14 false [0;1;2;3] = [Some (FFail false kind_unmet); Some (FFail false kind_failed); Some FSuccess; Some FSuccess].
Proof. vm_compute. auto. Qed.
Definition t15 := tbl [(0, T [] [1] [] CkRun false OOk [] [] []); (1, TI [] [] [])].
Example ex15 : check_all t15 [0] = true /\ outcomes t15 false [0;1] = [Some FIgnore; Some FIgnore].
Proof. vm_compute. auto. Qed.
Definition t16 := tbl [(0, T [] [1;2] [] CkRun false OOk [] [] []); (1, T [] [] [] CkRun false OError [] [] []); (2, TI [] [] [])].
Example ex16 : check_all t16 [0] = true /\ outcomes t16 false [0;1;2] = [Some FIgnore; Some (FFail false kind_error); Some FIgnore].
Proof. vm_compute. auto. Qed.
(* an up-to-date task never looks at its setup-tasks: they are not even created *)
Definition t17 := tbl [(0, T [] [1] [] CkUpToDate false OOk [] [] []); (1, T [] [] [] CkRun false OFail [] [] [])].
Example ex17 : check_all t17 [0] = true /\ outcomes t17 false [0] = [Some FUpToDate] /\
  outcomes t17 true [0] = [Some (FFail false kind_unmet)] /\
  existsb (is_final_ev 1) (fst (run_serial t17 rk0 ck0 true false 400 [0])) = false.
Proof. vm_compute. auto. Qed.
Definition t18 := tbl [(0, T [] [1] [] CkRun true OOk [] [] []); (1, ok [])].
Example ex18 : check_all t18 [0] = true /\ outcomes t18 false [0;1] = [Some (FFail false kind_dep); Some FSuccess].
Proof. vm_compute. auto. Qed.
(* a failed task_dep: the setup-tasks are never run *)
Definition t19 := tbl [(0, T [2] [1] [] CkRun false OOk [] [] []); (1, ok []); (2, T [] [] [] CkRun false OFail [] [] [])].
Example ex19 : check_all t19 [0] = true /\ outcomes t19 false [0;2] = [Some (FFail false kind_unmet); Some (FFail false kind_failed)].
Proof. vm_compute. auto. Qed.
(* ---- 20-27: calc_dep ---- *)
Definition t20 := tbl [(0, T [] [] [1] CkRun false OOk [] [] []); (1, T [] [] [] CkRun false OOk [2] [] []); (2, T [] [] [] CkRun false OFail [] [] [])].
Example ex20 : check_all t20 [0] = true /\
  outcomes t20 false [0;1;2] = [Some (FFail false kind_unmet); Some FSuccess; Some (FFail false kind_failed)].
Proof. vm_compute. auto. Qed.
Definition t21 := tbl [(0, T [] [] [1] CkRun false OOk [] [] []); (1, T [] [] [] CkRun false OOk [] [] [3]);
                       (3, T [] [] [] CkUpToDate false OOk [] [4] []); (4, TI [] [] [])].
Example ex21 : check_all t21 [0] = true /\
  outcomes t21 false [0;1;3;4] = [Some FIgnore; Some FSuccess; Some FUpToDate; Some FIgnore].
Proof. vm_compute. auto. Qed.
(* a calc_dep task that fails (no values): what it would have returned does not count *)
Definition t22 := tbl [(0, T [] [] [1] CkRun false OOk [] [] []); (1, T [] [] [] CkRun false OFail [2] [] []); (2, TI [] [] [])].
Example ex22 : check_all t22 [0] = true /\
  outcomes t22 false [0;1] = [Some (FFail false kind_unmet); Some (FFail false kind_failed)] /\
  existsb (is_final_ev 2) (fst (run_serial t22 rk0 ck0 true false 400 [0])) = false.
Proof. vm_compute. auto. Qed.
(* ... but the values of a calc_dep task whose save_success failed ARE used: the task_dep they name is
   ignored, so the task is reported ignored, not failed *)
Definition t23 := tbl [(0, T [] [] [1] CkRun false OOk [] [] []); (1, T [] [] [] CkRun false OSaveErr [2] [] []); (2, TI [] [] [])].
Example ex23 : check_all t23 [0] = true /\
  outcomes t23 false [0;1;2] = [Some FIgnore; Some (FFail true kind_dep); Some FIgnore].
Proof. vm_compute. auto. Qed.
Definition t24 := tbl [(0, T [] [] [1] CkRun false OOk [] [] []); (1, T [] [] [] CkRun false OFailV [2] [3] [4]); (2, ok []); (3, ok []); (4, ok [])].
Example ex24 : check_all t24 [0] = true /\
  outcomes t24 false [0;1;2;3;4] = [Some (FFail false kind_unmet); Some (FFail true kind_failed); Some FSuccess; Some FSuccess; Some FSuccess].
Proof. vm_compute. auto. Qed.
Definition t25 := tbl [(0, T [] [] [1] CkRun false OOk [] [] []); (1, TI [] [] []); (5, T [] [] [6] CkRun false OOk [] [] []);
                       (6, T [] [] [] CkError false OOk [7] [] []); (7, ok [])].
Example ex25 : check_all t25 [0; 5] = true /\
  outcomes t25 false [0;1;5;6] = [Some FIgnore; Some FIgnore; Some (FFail false kind_unmet); Some (FFail false kind_dep)].
Proof. vm_compute. auto. Qed.
Definition t26 := tbl [(0, T [2] [] [1;3] CkRun false OOk [] [] []); (1, T [] [] [] CkRun false OOk [2;2] [2;4] [3]);
                       (2, ok []); (3, T [2] [] [] CkUpToDate false OOk [4] [] [1]); (4, T [] [] [] CkRun false OError [] [] [])].
Example ex26 : check_all t26 [0] = true /\ check_all t26 [3; 0; 4] = true.
Proof. vm_compute. auto. Qed.
Definition t27 := tbl [(0, T [1] [5] [2] CkRun false OOk [] [] []); (1, ok []); (2, T [1] [] [] CkRun false OOk [3] [] []);
                       (3, T [] [] [4] CkRun false OOk [] [] []); (4, T [] [] [] CkRun false OOk [] [] []); (5, T [] [] [] CkRun false OFail [] [] [])].
Example ex27 : check_all t27 [0] = true /\
  outcomes t27 false [0;1;2;3;4;5] = [Some (FFail false kind_unmet); Some FSuccess; Some FSuccess; Some FSuccess; Some FSuccess; Some (FFail false kind_failed)].
Proof. vm_compute. auto. Qed.
(* ---- 28-31: mixes, selection order, shared dependencies ---- *)
Definition t28 := tbl [(0, ok [2]); (1, ok [2]); (2, T [] [] [] CkRun false OFail [] [] [])].
Example ex28 : check_all t28 [0; 1] = true /\ check_all t28 [1; 0; 2] = true /\ check_all t28 [2; 1] = true.
Proof. vm_compute. auto. Qed.
Definition t29 := tbl [(0, T [1] [1] [] CkRun false OOk [] [] []); (1, ok [])].
Example ex29 : check_all t29 [0] = true.
Proof. vm_compute. auto. Qed.
Definition t30 := tbl [(0, T [1] [2] [3] CkRun false OOk [] [] []); (1, T [] [] [] CkUpToDate false OOk [] [] []);
                       (2, T [4] [] [] CkRun false OOk [] [] []); (3, T [] [] [] CkUpToDate false OOk [4] [] []);
                       (4, T [] [] [] CkRun false OSaveErr [] [] [])].
Example ex30 : check_all t30 [0] = true /\ check_all t30 [2; 0] = true /\
  outcomes t30 false [0;2;4] = [Some (FFail false kind_unmet); Some (FFail false kind_unmet); Some (FFail true kind_dep)].
Proof. vm_compute. auto. Qed.
(* setup-task of a task whose setup-task has a setup-task *)
Definition t31 := tbl [(0, T [] [1] [] CkRun false OOk [] [] []); (1, T [] [2] [] CkRun false OOk [] [] []); (2, TI [] [] []); (3, T [] [0] [] CkRun false OOk [] [] [])].
Example ex31 : check_all t31 [3] = true /\ outcomes t31 false [0;1;2;3] = [Some FIgnore; Some FIgnore; Some FIgnore; Some FIgnore].
Proof. vm_compute. auto. Qed.
(* ---- 32-33: runs that are cut short (cycle, interrupt): what IS reported agrees ---- *)
Definition t32 := tbl [(0, ok [1]); (1, ok [0]); (2, T [] [] [] CkRun false OFail [] [] []); (3, ok [2])].
Example ex32 : check_agree t32 [3; 0] = true /\ outcomes t32 false [0;1;3] = [None; None; Some (FFail false kind_unmet)].
Proof. vm_compute. auto. Qed.
Definition t33 := tbl [(0, ok [1;2]); (1, T [] [] [] CkRun false OFail [] [] []); (2, T [] [] [] CkRun false OInterrupt [] [] [])].
Example ex33 : check_agree t33 [0] = true /\ outcomes t33 false [0;1;2] = [None; Some (FFail false kind_failed); None].
Proof. vm_compute. auto. Qed.
(* ---- 34-36: more setup / calc combinations ---- *)
Definition t34 := tbl [(0, T [] [1] [] CkRun false OOk [] [] []); (1, T [2] [] [] CkRun false OOk [] [] []); (2, T [] [] [] CkError false OOk [] [] [])].
Example ex34 : check_all t34 [0] = true /\
  outcomes t34 false [0;1;2] = [Some (FFail false kind_unmet); Some (FFail false kind_unmet); Some (FFail false kind_dep)].
Proof. vm_compute. auto. Qed.
Definition t35 := tbl [(0, T [] [1] [2] CkRun false OFailV [] [] []); (1, T [] [] [2] CkRun false OOk [] [] []);
                       (2, T [] [] [] CkRun false OOk [3] [] []); (3, T [] [] [] CkUpToDate false OOk [] [] []); (4, T [] [] [0] CkRun false OOk [] [] [])].
Example ex35 : check_all t35 [4] = true /\
  outcomes t35 false [0;1;2;3;4] = [Some (FFail true kind_failed); Some FSuccess; Some FSuccess; Some FUpToDate; Some (FFail false kind_unmet)].
Proof. vm_compute. auto. Qed.
(* a task that is not in the table (empty_task) runs and succeeds *)
Definition t36 := tbl [(0, T [7] [8] [9] CkRun false OOk [] [] [])].
Example ex36 : check_all t36 [0] = true /\ outcomes t36 false [0;7;8;9] = [Some FSuccess; Some FSuccess; Some FSuccess; Some FSuccess].
Proof. vm_compute. auto. Qed.

(* ---- the relation itself: what [fin_fun] computes is derivable ([fin_fun_sound]) and, [fin] being
   a partial function ([fin_functional]), it is THE outcome ---- *)
Example ex23_rel : fin t23 false 0 FIgnore /\ fin t23 false 1 (FFail true kind_dep) /\ ~ fin t23 false 0 (FFail false kind_unmet).
Proof.
  assert (H0 : fin t23 false 0 FIgnore) by (apply (fin_fun_sound _ _ 60 30); vm_compute; reflexivity).
  split; [exact H0|]. split; [apply (fin_fun_sound _ _ 60 30); vm_compute; reflexivity|].
  intros H. pose proof (fin_functional _ _ _ _ H0 _ H). discriminate.
Qed.
Example ex16_rel : fin t16 false 0 FIgnore /\ fin t14 false 0 (FFail false kind_unmet) /\ fin t35 false 0 (FFail true kind_failed).
Proof. repeat split; apply (fin_fun_sound _ _ 60 30); vm_compute; reflexivity. Qed.
